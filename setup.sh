#!/bin/sh
# Build the framework from files on disk only (offline).
set -e
cd "$(dirname "$0")"
export GOFLAGS=-mod=mod GOPROXY=off GOSUMDB=off GOTOOLCHAIN=local
python3 - <<'PY'
import importlib.machinery, importlib.util, os
loader = importlib.machinery.SourceFileLoader("check", os.path.join(os.getcwd(), "check"))
spec = importlib.util.spec_from_loader("check", loader)
m = importlib.util.module_from_spec(spec); loader.exec_module(m)
with m.CoqLock():
    m.regen_coqproject()
PY
(cd coq && timeout 7000 make -k -j16) || echo "WARNING: some Coq files failed to build; the checks that depend on them will report it"
# warm the Go build cache for the harness packages
cp /repo/go.sum harness/go.sum
(cd harness && go test -tags verif -vet=off -count=1 -run '^$' ./... >/dev/null 2>&1 || true)
echo setup done
