(* Proofs about Names/Model.v (C24). *)
From Coq Require Import List Bool Arith NArith String Ascii Lia.
From Verif Require Import Base.GoStr Base.GoStrLemmas Names.Model.
Import ListNotations.
Open Scope list_scope.

(* split a goal [Forall P [a; b; ...]] into its element goals, nothing else *)
Ltac fa := repeat match goal with
                  | |- Forall _ (_ :: _) => constructor
                  | |- Forall _ [] => constructor
                  end.

(* ================================================================== *)
(* name round trip                                                     *)

Definition no_lead_slash (app : bytes) : Prop := forall c t, app = c :: t -> c <> slash.

Lemma trim_left_noop : forall s, no_lead_slash s -> trim_left [slash] s = s.
Proof.
  intros [|c t] H; [reflexivity|]. simpl.
  destruct (Ascii.eqb c slash) eqn:E; [|reflexivity].
  apply Ascii.eqb_eq in E. elim (H c t eq_refl). exact E.
Qed.

Lemma name_roundtrip : forall app entry ident,
  no_lead_slash app -> no_byte underscore entry -> no_byte underscore ident ->
  parse_name (make_name app entry ident) = Some (app, entry, ident).
Proof.
  intros app entry ident Ha He Hi. unfold parse_name, make_name.
  change (join [underscore] [app; entry; ident]) with (app ++ underscore :: (entry ++ underscore :: ident)).
  rewrite trim_left_noop.
  2:{ intros c t E. destruct app as [|a app']; simpl in E; inversion E; subst.
      - intro C. discriminate C.
      - apply (Ha c app' eq_refl). }
  rewrite split_on_app_gen, (split_on_app underscore entry ident He), (split_on_none underscore ident Hi).
  set (sa := split_on underscore app).
  assert (Ls : List.length (sa ++ [entry; ident]) = List.length sa + 2) by (rewrite app_length; reflexivity).
  assert (Lp : 1 <= List.length sa).
  { unfold sa. destruct (split_on underscore app) eqn:E; [exfalso; eapply split_on_nonnil; exact E | simpl; lia]. }
  rewrite Ls.
  replace (Nat.leb 3 (List.length sa + 2)) with true by (symmetry; apply Nat.leb_le; lia).
  replace (List.length sa + 2 - 2) with (List.length sa + 0) by lia.
  replace (List.length sa + 2 - 1) with (List.length sa + 1) by lia.
  rewrite firstn_app_2, app_nil_r. simpl firstn.
  rewrite !app_nth2_plus. simpl nth.
  unfold sa. rewrite join_split. reflexivity.
Qed.

(* ================================================================== *)
(* accepted names are single key elements                              *)

Lemma key_element_safe : forall n, nonempty n = true -> key_element n = true -> safe_elem n.
Proof.
  intros n Hn Hk. unfold key_element in Hk. apply andb_true_iff in Hk. destruct Hk as [Hk Hs].
  apply andb_true_iff in Hk. destruct Hk as [Hd Hdd].
  apply negb_true_iff in Hd, Hdd, Hs.
  repeat split; try assumption. destruct n; [discriminate | discriminate].
Qed.

Lemma valid_app_safe : forall n, valid_app n = true -> safe_elem n.
Proof.
  intros n H. unfold valid_app, validate_app in H.
  destruct (nonempty n) eqn:E1; simpl in H; [|discriminate].
  destruct (key_element n) eqn:E2; simpl in H; [|discriminate].
  apply key_element_safe; assumption.
Qed.
Lemma valid_node_safe : forall n, valid_node n = true -> safe_elem n.
Proof. exact valid_app_safe. Qed.
Lemma valid_entry_safe : forall n, valid_entry n = true -> safe_elem n /\ no_byte underscore n.
Proof.
  intros n H. unfold valid_entry, validate_entry in H.
  destruct (nonempty n) eqn:E1; simpl in H; [|discriminate].
  destruct (mem_byte underscore n) eqn:E3; [discriminate|].
  destruct (key_element n) eqn:E2; simpl in H; [|discriminate].
  split; [apply key_element_safe; assumption | exact E3].
Qed.

Lemma safe_no_lead_slash : forall n, safe_elem n -> no_lead_slash n.
Proof.
  intros n [_ [Hs _]] c t -> C. subst c. unfold no_byte in Hs. simpl in Hs. discriminate.
Qed.

Lemma accepted_roundtrip : forall app entry ident,
  validate_deploy app entry = 0%N -> no_byte underscore ident ->
  parse_name (make_name app entry ident) = Some (app, entry, ident).
Proof.
  intros app entry ident V Hi. unfold validate_deploy in V.
  destruct (validate_app app) eqn:Va; [|discriminate].
  assert (A : valid_app app = true) by (unfold valid_app; rewrite Va; reflexivity).
  assert (E : valid_entry entry = true) by (unfold valid_entry; rewrite V; reflexivity).
  apply name_roundtrip; [apply safe_no_lead_slash, valid_app_safe, A | apply valid_entry_safe, E | exact Hi].
Qed.

(* ================================================================== *)
(* keys of accepted names                                              *)

Definition deploy_elem : bytes := s2l "deploy".

Lemma deploy_elem_safe : safe_elem deploy_elem.
Proof. unfold safe_elem, no_byte. repeat split; try reflexivity. discriminate. Qed.

Definition status_elem : bytes := s2l "status".
Lemma status_elem_safe : safe_elem status_elem.
Proof. unfold safe_elem, no_byte. repeat split; try reflexivity. discriminate. Qed.

(* the lemmas hold for any root "/" ++ r with r an ordinary element ("deploy", "status") *)
Lemma join_path_root : forall r es, safe_elem r -> Forall safe_or_empty es ->
  join_path ((slash :: r) :: es) = slash :: join [slash] (r :: filter GoStrLemmas.nonempty es).
Proof.
  intros r es Hr F.
  assert (E : join_path ((slash :: r) :: es) = clean (slash :: join [slash] (r :: es))).
  { destruct es as [|e es']; reflexivity. }
  rewrite E, clean_rooted; [|constructor; [right; exact Hr | exact F]].
  destruct r as [|c r']; [destruct Hr; congruence | reflexivity].
Qed.
Lemma join_path_deploy : forall es, Forall safe_or_empty es ->
  join_path (deploy_prefix :: es) = slash :: join [slash] (deploy_elem :: filter GoStrLemmas.nonempty es).
Proof. intros es F. exact (join_path_root deploy_elem es deploy_elem_safe F). Qed.

(* a workload record as the stores see it *)
Record names := mkNames { nm_app : bytes; nm_entry : bytes; nm_ident : bytes; nm_node : bytes; nm_id : bytes }.
Definition names_of (a : addc) : names :=
  mkNames (s2l (a_app a)) (s2l (a_entry a)) (s2l (a_ident a)) (s2l (a_node a)) (s2l (a_id a)).
Definition wl_of_names (x : names) : wl := mkWl (nm_id x) (make_name (nm_app x) (nm_entry x) (nm_ident x)) (nm_node x).

(* accepted by validation; id and suffix as the system generates them *)
Definition good (x : names) : Prop :=
  valid_app (nm_app x) = true /\ valid_entry (nm_entry x) = true /\ valid_node (nm_node x) = true /\
  safe_elem (nm_id x) /\ no_byte underscore (nm_ident x).

Definition gkey (r : bytes) (x : names) : bytes :=
  slash :: join [slash] [r; nm_app x; nm_entry x; nm_node x; nm_id x].
Definition key_of (x : names) : bytes := gkey deploy_elem x.

Lemma safe_nonempty : forall e, safe_elem e -> GoStrLemmas.nonempty e = true.
Proof. intros [|c e] [H _]; [congruence | reflexivity]. Qed.

Lemma obj_key_good : forall r x, safe_elem r -> good x -> obj_key (slash :: r) (wl_of_names x) = Some (gkey r x).
Proof.
  intros r x Hr [Ha [He [Hn [Hid Hi]]]]. unfold obj_key, wl_of_names. cbn [w_name w_node w_id].
  pose proof (valid_app_safe _ Ha) as Sa. destruct (valid_entry_safe _ He) as [Se Ue].
  pose proof (valid_node_safe _ Hn) as Sn.
  rewrite name_roundtrip; [|apply safe_no_lead_slash; exact Sa | exact Ue | exact Hi].
  rewrite (join_path_root r _ Hr).
  - cbn [filter]. rewrite !safe_nonempty by assumption. reflexivity.
  - fa; right; assumption.
Qed.
Lemma deploy_key_good : forall x, good x -> deploy_key (wl_of_names x) = Some (key_of x).
Proof. intros x G. exact (obj_key_good deploy_elem x deploy_elem_safe G). Qed.

(* effective filter of ListWorkloads: names after the first empty one are ignored *)
Definition eff (app entry node : bytes) : list bytes :=
  match app with
  | [] => []
  | _ => match entry with
         | [] => [app]
         | _ => match node with [] => [app; entry] | _ => [app; entry; node] end
         end
  end.

Definition ok_or_empty (e : bytes) : Prop := e = [] \/ safe_elem e.

Lemma filter_key_eff : forall r app entry node, safe_elem r ->
  ok_or_empty app -> ok_or_empty entry -> ok_or_empty node ->
  filter_key (slash :: r) app entry node = slash :: join [slash] (r :: eff app entry node) ++ [slash].
Proof.
  intros r app entry node Hr Ha He Hn. unfold filter_key.
  assert (SE : forall e, ok_or_empty e -> safe_or_empty e) by (intros e [->|H]; [left; reflexivity | right; exact H]).
  destruct app as [|a app'].
  - rewrite (join_path_root r _ Hr) by (fa; left; reflexivity). reflexivity.
  - destruct entry as [|e entry'].
    + rewrite (join_path_root r _ Hr) by (fa; [apply SE; exact Ha | left; reflexivity | left; reflexivity]).
      reflexivity.
    + destruct node as [|n node'].
      * rewrite (join_path_root r _ Hr) by (fa; [apply SE; exact Ha | apply SE; exact He | left; reflexivity]).
        reflexivity.
      * rewrite (join_path_root r _ Hr) by (fa; apply SE; assumption). reflexivity.
Qed.
Lemma list_key_eff : forall app entry node,
  ok_or_empty app -> ok_or_empty entry -> ok_or_empty node ->
  list_key app entry node = slash :: join [slash] (deploy_elem :: eff app entry node) ++ [slash].
Proof. intros. exact (filter_key_eff deploy_elem app entry node deploy_elem_safe H H0 H1). Qed.

Lemma safe_no_slash : forall e, safe_elem e -> no_byte slash e.
Proof. intros e [_ [H _]]. exact H. Qed.

Lemma eff_no_slash : forall app entry node,
  ok_or_empty app -> ok_or_empty entry -> ok_or_empty node -> Forall (no_byte slash) (eff app entry node).
Proof.
  intros app entry node Ha He Hn.
  assert (NS : forall e, ok_or_empty e -> no_byte slash e) by (intros e [->|H]; [reflexivity | apply safe_no_slash; exact H]).
  unfold eff. destruct app; [constructor|]. destruct entry; [fa; apply NS; assumption|].
  destruct node; fa; apply NS; assumption.
Qed.

(* "created under those names": the names equal the non-ignored filter names *)
Definition under_names (app entry node : bytes) (x : names) : Prop :=
  exists r, [nm_app x; nm_entry x; nm_node x] = eff app entry node ++ r.

(* the key-prefix test decides exactly that *)
Lemma gprefix_iff_names : forall r app entry node x, safe_elem r ->
  ok_or_empty app -> ok_or_empty entry -> ok_or_empty node -> good x ->
  (has_prefix (filter_key (slash :: r) app entry node) (gkey r x) = true <-> under_names app entry node x).
Proof.
  intros r app entry node x Hr Ha He Hn G.
  destruct G as [Va [Ve [Vn [Sid _]]]].
  pose proof (valid_app_safe _ Va) as Sa. destruct (valid_entry_safe _ Ve) as [Se _].
  pose proof (valid_node_safe _ Vn) as Sn.
  rewrite filter_key_eff by assumption. unfold gkey. cbn [has_prefix List.app]. rewrite Ascii.eqb_refl. cbn [andb].
  rewrite prefix_components.
  - change (r :: eff app entry node) with ([r] ++ eff app entry node).
    unfold under_names. split.
    + intros [rr [Nr E]]. cbn [List.app] in E. inversion E as [E'].
      (* eff has at most three elements and the key has four after the root: rr keeps the id *)
      destruct (eff app entry node) as [|e1 [|e2 [|e3 [|e4 l]]]] eqn:Ee; cbn [List.app] in E'.
      * exists [nm_app x; nm_entry x; nm_node x]. reflexivity.
      * inversion E'; subst. exists [nm_entry x; nm_node x]. reflexivity.
      * inversion E'; subst. exists [nm_node x]. reflexivity.
      * inversion E'; subst. exists []. reflexivity.
      * exfalso. unfold eff in Ee. destruct app; [discriminate|]. destruct entry; [discriminate|].
        destruct node; discriminate.
    + intros [rr E]. exists (rr ++ [nm_id x]). split; [destruct rr; discriminate|].
      cbn [List.app]. f_equal. rewrite app_assoc, <- E. reflexivity.
  - discriminate.
  - discriminate.
  - constructor; [apply safe_no_slash, Hr | apply eff_no_slash; assumption].
  - fa; apply safe_no_slash; assumption.
Qed.
Lemma prefix_iff_names : forall app entry node x,
  ok_or_empty app -> ok_or_empty entry -> ok_or_empty node -> good x ->
  (has_prefix (list_key app entry node) (key_of x) = true <-> under_names app entry node x).
Proof. intros. exact (gprefix_iff_names deploy_elem app entry node x deploy_elem_safe H H0 H1 H2). Qed.

(* ================================================================== *)
(* the key space built by AddWorkload                                  *)

Definition entry_of (x : names) : bytes * wl := (key_of x, wl_of_names x).

Lemma key_of_id_gen : forall r x y, safe_elem r -> good x -> good y -> gkey r x = gkey r y -> nm_id x = nm_id y.
Proof.
  intros r x y Hr Gx Gy E. unfold gkey in E. apply (f_equal (@tl ascii)) in E. cbn [tl] in E. rename E into E'.
  destruct Gx as [Va [Ve [Vn [Sid _]]]]. destruct Gy as [Va' [Ve' [Vn' [Sid' _]]]].
  apply join_inj in E'; try discriminate.
  - inversion E'. reflexivity.
  - fa; apply safe_no_slash; try assumption; try apply deploy_elem_safe;
      try (apply valid_app_safe; assumption); try (apply valid_entry_safe; assumption).
  - fa; apply safe_no_slash; try assumption; try apply deploy_elem_safe;
      try (apply valid_app_safe; assumption); try (apply valid_entry_safe; assumption).
Qed.
Lemma key_of_id : forall x y, good x -> good y -> key_of x = key_of y -> nm_id x = nm_id y.
Proof. intros x y. exact (key_of_id_gen deploy_elem x y deploy_elem_safe). Qed.

Lemma has_key_false : forall x pre, good x -> Forall good pre -> ~ In (nm_id x) (map nm_id pre) ->
  has_key (key_of x) (map entry_of pre) = false.
Proof.
  intros x pre G F N. induction pre as [|y pre IH]; [reflexivity|].
  inversion F as [|? ? Gy Fp]; subst. cbn [map has_key entry_of]. cbn [map In] in N.
  destruct (bytes_eqb (key_of x) (key_of y)) eqn:E.
  - apply bytes_eqb_eq in E. apply key_of_id in E; try assumption. elim N. left. congruence.
  - cbn [orb]. apply IH; [exact Fp|]. intro C. apply N. right. exact C.
Qed.
Lemma has_id_false : forall id pre, ~ In id (map nm_id pre) -> has_id id (map entry_of pre) = false.
Proof.
  intros id pre N. induction pre as [|y pre IH]; [reflexivity|].
  cbn [map has_id entry_of wl_of_names w_id]. cbn [map In] in N.
  destruct (bytes_eqb id (nm_id y)) eqn:E.
  - apply bytes_eqb_eq in E. elim N. left. congruence.
  - cbn [orb]. apply IH. intro C. apply N. right. exact C.
Qed.

Fixpoint build_names (s : kspace) (xs : list names) : kspace * list bool :=
  match xs with
  | [] => (s, [])
  | x :: t => let '(s', okb) := add_workload s (wl_of_names x) in
              let '(fin, oks) := build_names s' t in (fin, okb :: oks)
  end.

Lemma build_is_build_names : forall adds s, build s adds = build_names s (map names_of adds).
Proof.
  induction adds as [|a adds IH]; intro s; [reflexivity|]. simpl.
  change (wl_of a) with (wl_of_names (names_of a)).
  destruct (add_workload s (wl_of_names (names_of a))) as [s' okb]. rewrite IH. reflexivity.
Qed.

(* under accepted names and distinct ids every AddWorkload succeeds and files the workload under its key *)
Lemma build_good : forall xs pre, Forall good pre -> Forall good xs -> NoDup (map nm_id (pre ++ xs)) ->
  build_names (map entry_of pre) xs = (map entry_of (pre ++ xs), map (fun _ => true) xs).
Proof.
  induction xs as [|x xs IH]; intros pre Fp Fx ND.
  - simpl. rewrite app_nil_r. reflexivity.
  - inversion Fx as [|? ? Gx Fxs]; subst. simpl. unfold add_workload.
    rewrite (deploy_key_good x Gx). cbn [w_id wl_of_names].
    assert (Nin : ~ In (nm_id x) (map nm_id pre)).
    { rewrite map_app in ND. simpl in ND. apply NoDup_remove_2 in ND. intro C. apply ND. apply in_or_app. left. exact C. }
    rewrite (has_key_false x pre Gx Fp Nin), (has_id_false _ pre Nin). cbn [orb].
    change (map entry_of pre ++ [(key_of x, wl_of_names x)]) with (map entry_of pre ++ map entry_of [x]).
    rewrite <- map_app.
    rewrite (IH (pre ++ [x])).
    + rewrite <- app_assoc. reflexivity.
    + apply Forall_app. split; [exact Fp | constructor; [exact Gx | constructor]].
    + exact Fxs.
    + rewrite <- app_assoc. exact ND.
Qed.

(* ================================================================== *)
(* isolation on the etcd store                                         *)

Lemma filter_map_entry : forall (f : bytes -> bool) xs,
  map (fun kw => w_id (snd kw)) (filter (fun kw => f (fst kw)) (map entry_of xs))
  = map nm_id (filter (fun x => f (key_of x)) xs).
Proof.
  intros f xs. induction xs as [|x xs IH]; [reflexivity|]. simpl.
  destruct (f (key_of x)); simpl; [f_equal|]; exact IH.
Qed.

Lemma filter_ext_in : forall (A : Type) (f g : A -> bool) l,
  (forall x, In x l -> f x = g x) -> filter f l = filter g l.
Proof.
  induction l as [|a l IH]; intro H; [reflexivity|]. simpl.
  rewrite (H a (or_introl eq_refl)). rewrite IH; [reflexivity|]. intros x Hx. apply H. right. exact Hx.
Qed.

(* ListWorkloads on etcd returns exactly the workloads created under the (non-ignored) names *)
Lemma isolation_etcd : forall xs app entry node (sel : names -> bool),
  Forall good xs -> ok_or_empty app -> ok_or_empty entry -> ok_or_empty node ->
  (forall x, sel x = true <-> under_names app entry node x) ->
  list_workloads Etcd (map entry_of xs) app entry node = map nm_id (filter sel xs).
Proof.
  intros xs app entry node sel F Ha He Hn Sel. unfold list_workloads. cbv zeta.
  rewrite (filter_map_entry (fun k => under Etcd (list_key app entry node) k)). f_equal.
  apply filter_ext_in. intros x Hx. rewrite Forall_forall in F. specialize (F x Hx).
  cbn [under]. pose proof (prefix_iff_names app entry node x Ha He Hn F) as P.
  destruct (has_prefix (list_key app entry node) (key_of x)) eqn:E1; destruct (sel x) eqn:E2; try reflexivity.
  - assert (sel x = true) by (apply Sel, P; reflexivity). congruence.
  - assert (T : false = true) by (apply P, Sel, E2). discriminate.
Qed.

(* GetDeployStatus on etcd: the nodes of exactly the workloads of (app, entry) *)
Lemma key_node_key_of : forall x, good x -> key_node (key_of x) = nm_node x.
Proof.
  intros x [Va [Ve [Vn [Sid _]]]]. unfold key_node, key_of, gkey.
  pose proof (valid_app_safe _ Va) as Sa. destruct (valid_entry_safe _ Ve) as [Se _].
  pose proof (valid_node_safe _ Vn) as Sn.
  change (split_on slash (slash :: join [slash] [deploy_elem; nm_app x; nm_entry x; nm_node x; nm_id x]))
    with (let r := split_on slash (join [slash] [deploy_elem; nm_app x; nm_entry x; nm_node x; nm_id x]) in
          if Ascii.eqb slash slash then [] :: r else match r with h :: r' => (slash :: h) :: r' | [] => [[slash]] end).
  rewrite Ascii.eqb_refl. cbv zeta. rewrite split_join.
  - reflexivity.
  - discriminate.
  - fa; apply safe_no_slash; try assumption. apply deploy_elem_safe.
Qed.

Lemma status_key_list_key : forall app entry, safe_elem app -> safe_elem entry ->
  status_key app entry = list_key app entry [].
Proof.
  intros app entry Sa Se. rewrite list_key_eff by (try (right; assumption); left; reflexivity).
  unfold status_key. rewrite join_path_deploy by (fa; right; assumption).
  cbn [filter]. rewrite !safe_nonempty by assumption.
  unfold eff. destruct app as [|a app']; [destruct Sa; congruence|].
  destruct entry as [|e entry']; [destruct Se; congruence|]. reflexivity.
Qed.

Lemma status_etcd : forall xs app entry (sel : names -> bool),
  Forall good xs -> safe_elem app -> safe_elem entry ->
  (forall x, sel x = true <-> (nm_app x = app /\ nm_entry x = entry)) ->
  status_nodes Etcd (map entry_of xs) app entry = map nm_node (filter sel xs).
Proof.
  intros xs app entry sel F Sa Se Sel. unfold status_nodes. cbv zeta.
  assert (Na : app <> []) by apply Sa. assert (Ne : entry <> []) by apply Se.
  rewrite status_key_list_key by assumption.
  induction xs as [|x xs IH]; [reflexivity|]. inversion F as [|? ? Gx Fx]; subst.
  cbn [map filter under]. change (fst (entry_of x)) with (key_of x).
  pose proof (prefix_iff_names app entry [] x (or_intror Sa) (or_intror Se) (or_introl eq_refl) Gx) as P.
  assert (U : under_names app entry [] x <-> (nm_app x = app /\ nm_entry x = entry)).
  { unfold under_names, eff. destruct app; [congruence|]. destruct entry; [congruence|]. split.
    - intros [r E]. inversion E. auto.
    - intros [<- <-]. exists [nm_node x]. reflexivity. }
  destruct (has_prefix (list_key app entry []) (key_of x)) eqn:E1; destruct (sel x) eqn:E2; cbn [map fst].
  - change (fst (entry_of x)) with (key_of x). rewrite (key_node_key_of x Gx). f_equal. apply IH. exact Fx.
  - assert (sel x = true) by (apply Sel, U, P; reflexivity). congruence.
  - assert (T : false = true) by (apply P, U, Sel, E2). discriminate.
  - apply IH. exact Fx.
Qed.

(* ================================================================== *)
(* redis: a literal pattern followed by '*' is a prefix test            *)

Definition is_meta (c : ascii) : bool :=
  Ascii.eqb c star || Ascii.eqb c qmark || Ascii.eqb c lbracket || Ascii.eqb c backslash.
Definition no_meta (p : bytes) : Prop := forallb (fun c => negb (is_meta c)) p = true.

Lemma glob_star_any : forall s, glob [star] s = true.
Proof.
  intro s. cbn [glob]. rewrite Ascii.eqb_refl.
  induction s as [|x s IH]; [reflexivity|]. cbn [glob]. cbn [orb]. exact IH.
Qed.

Lemma glob_literal_prefix : forall p s, no_meta p -> glob (p ++ [star]) s = has_prefix p s.
Proof.
  induction p as [|c p IH]; intros s H.
  - simpl app. rewrite glob_star_any. reflexivity.
  - unfold no_meta in H. simpl in H. apply andb_true_iff in H. destruct H as [Hc Hp].
    apply negb_true_iff in Hc. unfold is_meta in Hc.
    apply orb_false_iff in Hc. destruct Hc as [Hc H4]. apply orb_false_iff in Hc. destruct Hc as [Hc H3].
    apply orb_false_iff in Hc. destruct Hc as [H1 H2].
    simpl app. cbn [glob]. rewrite H1, H2, H3, H4.
    destruct s as [|x s]; [reflexivity|]. cbn [has_prefix]. rewrite (IH s Hp). reflexivity.
Qed.

Lemma no_meta_app : forall a b, no_meta a -> no_meta b -> no_meta (a ++ b).
Proof. intros a b Ha Hb. unfold no_meta in *. rewrite forallb_app, Ha, Hb. reflexivity. Qed.

Lemma no_meta_join : forall es, Forall no_meta es -> no_meta (join [slash] es).
Proof.
  induction es as [|e es IH]; intro F; [reflexivity|]. inversion F as [|? ? Fe Fs]; subst.
  destruct es as [|e2 es']; [exact Fe|].
  change (join [slash] (e :: e2 :: es')) with (e ++ [slash] ++ join [slash] (e2 :: es')).
  apply no_meta_app; [exact Fe|]. apply no_meta_app; [reflexivity | apply IH; exact Fs].
Qed.

Lemma list_key_no_meta : forall app entry node,
  ok_or_empty app -> ok_or_empty entry -> ok_or_empty node ->
  no_meta app -> no_meta entry -> no_meta node -> no_meta (list_key app entry node).
Proof.
  intros app entry node Ha He Hn Ma Me Mn. rewrite list_key_eff by assumption.
  change (slash :: join [slash] (deploy_elem :: eff app entry node) ++ [slash])
    with ([slash] ++ join [slash] (deploy_elem :: eff app entry node) ++ [slash]).
  apply no_meta_app; [reflexivity|]. apply no_meta_app; [|reflexivity].
  apply no_meta_join. constructor; [reflexivity|].
  unfold eff. destruct app; [constructor|]. destruct entry; [fa; assumption|].
  destruct node; fa; assumption.
Qed.

(* on redis the same answer as on etcd, as long as the QUERY names contain no glob metacharacter *)
Lemma redis_as_etcd : forall s app entry node,
  ok_or_empty app -> ok_or_empty entry -> ok_or_empty node ->
  no_meta app -> no_meta entry -> no_meta node ->
  list_workloads Redis s app entry node = list_workloads Etcd s app entry node.
Proof.
  intros s app entry node Ha He Hn Ma Me Mn. unfold list_workloads. cbv zeta. f_equal.
  apply filter_ext. intro kw. cbn [under]. apply glob_literal_prefix. apply list_key_no_meta; assumption.
Qed.

Lemma redis_status_as_etcd : forall s app entry,
  safe_elem app -> safe_elem entry -> no_meta app -> no_meta entry ->
  status_nodes Redis s app entry = status_nodes Etcd s app entry.
Proof.
  intros s app entry Sa Se Ma Me. unfold status_nodes. cbv zeta. f_equal.
  apply filter_ext. intro kw. cbn [under]. apply glob_literal_prefix.
  rewrite status_key_list_key by assumption.
  apply list_key_no_meta; try assumption; try (right; assumption); try (left; reflexivity). reflexivity.
Qed.

(* ================================================================== *)
(* refutations (witnesses are replayed on the real stores by the harness corpus) *)

Definition nm (app entry node id : string) : names := mkNames (s2l app) (s2l entry) (s2l "abc001") (s2l node) (s2l id).

(* redis: accepted names with a glob metacharacter see other applications' workloads *)
Lemma redis_glob_refuted :
  exists xs app entry,
    Forall good xs /\ NoDup (map nm_id xs) /\ valid_app app = true /\ valid_entry entry = true /\
    list_workloads Redis (fst (build_names [] xs)) app entry []
    <> map nm_id (filter (fun x => bytes_eqb (nm_app x) app && bytes_eqb (nm_entry x) entry) xs).
Proof.
  exists [nm "a*" "e" "n1" "id1"; nm "ab" "e" "n1" "id2"], (s2l "a*"), (s2l "e").
  split; [|split; [|split; [|split]]].
  - fa; unfold good; simpl; repeat split; try reflexivity; try discriminate.
  - simpl. repeat constructor; simpl; intuition discriminate.
  - reflexivity.
  - reflexivity.
  - vm_compute. discriminate.
Qed.

(* the validation before the repair accepted names whose keys collide on both stores *)
Lemma old_validation_refuted :
  exists x y, validate_deploy_old (nm_app x) (nm_entry x) = 0%N /\ validate_deploy_old (nm_app y) (nm_entry y) = 0%N /\
    (nm_app x, nm_entry x) <> (nm_app y, nm_entry y) /\ nm_id x <> nm_id y /\
    (* both are filed, and listing x's application and entrypoint returns y's workload too *)
    snd (build_names [] [x; y]) = [true; true] /\
    list_workloads Etcd (fst (build_names [] [x; y])) (nm_app x) (nm_entry x) [] = [nm_id x; nm_id y] /\
    list_workloads Redis (fst (build_names [] [x; y])) (nm_app x) (nm_entry x) [] = [nm_id x; nm_id y] /\
    (* and the repaired validation rejects them *)
    validate_deploy (nm_app x) (nm_entry x) <> 0%N /\ validate_deploy (nm_app y) (nm_entry y) <> 0%N.
Proof.
  exists (nm "a/b" "c" "n1" "id1"), (nm "a" "b/c" "n1" "id2").
  vm_compute. repeat split; try reflexivity; try discriminate.
Qed.

Lemma old_roundtrip_refuted :
  exists app entry ident, validate_deploy_old app entry = 0%N /\ no_byte underscore ident /\
    parse_name (make_name app entry ident) <> Some (app, entry, ident) /\ validate_deploy app entry <> 0%N.
Proof.
  exists (s2l "/a"), (s2l "e"), (s2l "x"). vm_compute. repeat split; try reflexivity; discriminate.
Qed.

(* hypotheses are satisfiable *)
Example names_example :
  let xs := [nm "a" "b" "n1" "id1"; nm "ab" "b" "n1" "id2"; nm "a" "bc" "n1" "id3"; nm "a_b" "c" "n2" "id4"; nm "a" "b" "n2" "id5"] in
  Forall good xs /\ NoDup (map nm_id xs) /\
  snd (build_names [] xs) = [true; true; true; true; true] /\
  list_workloads Etcd (fst (build_names [] xs)) (s2l "a") (s2l "b") [] = [s2l "id1"; s2l "id5"] /\
  list_workloads Redis (fst (build_names [] xs)) (s2l "a") [] [] = [s2l "id1"; s2l "id3"; s2l "id5"] /\
  status_nodes Etcd (fst (build_names [] xs)) (s2l "a") (s2l "b") = [s2l "n1"; s2l "n2"].
Proof.
  split; [|split; [|vm_compute; repeat split; reflexivity]].
  - fa; unfold good; simpl; repeat split; try reflexivity; try discriminate.
  - simpl. repeat constructor; simpl; intuition discriminate.
Qed.

(* WorkloadStatusStream on etcd: exactly the workloads created under the (non-ignored) names *)
Lemma stream_etcd : forall xs app entry node (sel : names -> bool),
  Forall good xs -> ok_or_empty app -> ok_or_empty entry -> ok_or_empty node ->
  (forall x, sel x = true <-> under_names app entry node x) ->
  stream_ids (map wl_of_names xs) app entry node = map nm_id (filter sel xs).
Proof.
  intros xs app entry node sel F Ha He Hn Sel. unfold stream_ids. cbv zeta.
  induction xs as [|x xs IH]; [reflexivity|]. inversion F as [|? ? Gx Fx]; subst.
  cbn [map filter].
  change status_prefix with (slash :: status_elem).
  rewrite (obj_key_good status_elem x status_elem_safe Gx).
  pose proof (gprefix_iff_names status_elem app entry node x status_elem_safe Ha He Hn Gx) as P.
  destruct (has_prefix (filter_key (slash :: status_elem) app entry node) (gkey status_elem x)) eqn:E1;
    destruct (sel x) eqn:E2; cbn [map wl_of_names w_id].
  - f_equal. apply IH. exact Fx.
  - assert (sel x = true) by (apply Sel, P; reflexivity). congruence.
  - assert (T : false = true) by (apply P, Sel, E2). discriminate.
  - apply IH. exact Fx.
Qed.

(* ================================================================== *)
(* processing markers (deployments in flight)                          *)

Definition processing_elem : bytes := s2l "processing".
Lemma processing_elem_safe : safe_elem processing_elem.
Proof. unfold safe_elem, no_byte. repeat split; try reflexivity. discriminate. Qed.

Definition pnames (p : proc) : names := mkNames (p_app p) (p_entry p) [] (p_node p) (p_ident p).
(* names accepted by validation; the ident is system generated *)
Definition good_proc (p : proc) : Prop :=
  valid_app (p_app p) = true /\ valid_entry (p_entry p) = true /\ valid_node (p_node p) = true /\ safe_elem (p_ident p).
Lemma good_proc_good : forall p, good_proc p -> good (pnames p).
Proof. intros p [A [B [C D]]]. unfold good, pnames. cbn. repeat split; try assumption; apply D. Qed.

Lemma proc_key_good : forall p, good_proc p -> proc_key p = gkey processing_elem (pnames p).
Proof.
  intros p [Va [Ve [Vn Si]]]. unfold proc_key.
  change processing_prefix with (slash :: processing_elem).
  pose proof (valid_app_safe _ Va) as Sa. destruct (valid_entry_safe _ Ve) as [Se _].
  pose proof (valid_node_safe _ Vn) as Sn.
  rewrite (join_path_root processing_elem _ processing_elem_safe) by (fa; right; assumption).
  cbn [filter]. rewrite !safe_nonempty by assumption. reflexivity.
Qed.

Lemma root_key2 : forall r app entry, safe_elem r -> safe_elem app -> safe_elem entry ->
  join_path [slash :: r; app; entry] ++ [slash] = filter_key (slash :: r) app entry [].
Proof.
  intros r app entry Hr Sa Se.
  rewrite filter_key_eff by (try assumption; try (right; assumption); left; reflexivity).
  rewrite (join_path_root r _ Hr) by (fa; right; assumption).
  cbn [filter]. rewrite !safe_nonempty by assumption.
  unfold eff. destruct app as [|a app']; [destruct Sa; congruence|].
  destruct entry as [|e entry']; [destruct Se; congruence|]. reflexivity.
Qed.

Lemma gkey_node : forall r x, safe_elem r -> good x -> key_node (gkey r x) = nm_node x.
Proof.
  intros r x Hr [Va [Ve [Vn [Sid _]]]]. unfold key_node, gkey.
  pose proof (valid_app_safe _ Va) as Sa. destruct (valid_entry_safe _ Ve) as [Se _].
  pose proof (valid_node_safe _ Vn) as Sn.
  change (split_on slash (slash :: join [slash] [r; nm_app x; nm_entry x; nm_node x; nm_id x]))
    with (let s := split_on slash (join [slash] [r; nm_app x; nm_entry x; nm_node x; nm_id x]) in
          if Ascii.eqb slash slash then [] :: s else match s with h :: s' => (slash :: h) :: s' | [] => [[slash]] end).
  rewrite Ascii.eqb_refl. cbv zeta. rewrite split_join.
  - reflexivity.
  - discriminate.
  - fa; apply safe_no_slash; assumption.
Qed.

Definition pentry (p : proc) : bytes * proc := (proc_key p, p).

(* doLoadProcessing on etcd: exactly the counters filed under (app, entry), with their node *)
Lemma proc_counts_etcd : forall ps app entry (sel : proc -> bool),
  Forall good_proc ps -> safe_elem app -> safe_elem entry ->
  (forall p, sel p = true <-> (p_app p = app /\ p_entry p = entry)) ->
  proc_counts Etcd (map pentry ps) app entry = map (fun p => (p_node p, p_count p)) (filter sel ps).
Proof.
  intros ps app entry sel F Sa Se Sel. unfold proc_counts. cbv zeta.
  assert (K : proc_filter_key app entry = filter_key (slash :: processing_elem) app entry [])
    by (exact (root_key2 processing_elem app entry processing_elem_safe Sa Se)).
  rewrite K. clear K.
  induction ps as [|p ps IH]; [reflexivity|]. inversion F as [|? ? Gp Fp]; subst.
  cbn [map filter under]. change (fst (pentry p)) with (proc_key p). rewrite (proc_key_good p Gp).
  pose proof (gprefix_iff_names processing_elem app entry [] (pnames p) processing_elem_safe
                (or_intror Sa) (or_intror Se) (or_introl eq_refl) (good_proc_good p Gp)) as P.
  assert (U : under_names app entry [] (pnames p) <-> (p_app p = app /\ p_entry p = entry)).
  { unfold under_names, eff, pnames. cbn [nm_app nm_entry nm_node].
    destruct app; [destruct Sa; congruence|]. destruct entry; [destruct Se; congruence|]. split.
    - intros [r E]. inversion E. auto.
    - intros [<- <-]. exists [p_node p]. reflexivity. }
  destruct (has_prefix (filter_key (slash :: processing_elem) app entry []) (gkey processing_elem (pnames p))) eqn:E1;
    destruct (sel p) eqn:E2; cbn [map fst snd].
  - change (fst (pentry p)) with (proc_key p). rewrite (proc_key_good p Gp).
    rewrite (gkey_node processing_elem (pnames p) processing_elem_safe (good_proc_good p Gp)).
    change (snd (pentry p)) with p. cbn [pnames nm_node]. f_equal. apply IH. exact Fp.
  - assert (sel p = true) by (apply Sel, U, P; reflexivity). congruence.
  - assert (T : false = true) by (apply P, U, Sel, E2). discriminate.
  - apply IH. exact Fp.
Qed.

Lemma filter_key_no_meta : forall r app entry node, safe_elem r -> no_meta r ->
  ok_or_empty app -> ok_or_empty entry -> ok_or_empty node ->
  no_meta app -> no_meta entry -> no_meta node -> no_meta (filter_key (slash :: r) app entry node).
Proof.
  intros r app entry node Hr Mr Ha He Hn Ma Me Mn. rewrite filter_key_eff by assumption.
  change (slash :: join [slash] (r :: eff app entry node) ++ [slash])
    with ([slash] ++ join [slash] (r :: eff app entry node) ++ [slash]).
  apply no_meta_app; [reflexivity|]. apply no_meta_app; [|reflexivity].
  apply no_meta_join. constructor; [exact Mr|].
  unfold eff. destruct app; [constructor|]. destruct entry; [fa; assumption|].
  destruct node; fa; assumption.
Qed.

Lemma proc_counts_redis_as_etcd : forall s app entry,
  safe_elem app -> safe_elem entry -> no_meta app -> no_meta entry ->
  proc_counts Redis s app entry = proc_counts Etcd s app entry.
Proof.
  intros s app entry Sa Se Ma Me. unfold proc_counts. cbv zeta. f_equal.
  apply filter_ext. intro kp. cbn [under]. apply glob_literal_prefix.
  assert (K : proc_filter_key app entry = filter_key (slash :: processing_elem) app entry [])
    by (exact (root_key2 processing_elem app entry processing_elem_safe Sa Se)).
  rewrite K.
  apply (filter_key_no_meta processing_elem app entry [] processing_elem_safe);
    try assumption; try (right; assumption); try (left; reflexivity); reflexivity.
Qed.

(* ================================================================== *)
(* assembled statements over the key space built by AddWorkload        *)

Lemma build_names_good : forall xs, Forall good xs -> NoDup (map nm_id xs) ->
  build_names [] xs = (map entry_of xs, map (fun _ => true) xs).
Proof. intros xs F ND. apply (build_good xs [] (Forall_nil _) F ND). Qed.

Definition valid_or_empty (valid : bytes -> bool) (n : bytes) : Prop := n = [] \/ valid n = true.

Lemma voe_app : forall n, valid_or_empty valid_app n -> ok_or_empty n.
Proof. intros n [->|H]; [left; reflexivity | right; apply valid_app_safe; exact H]. Qed.
Lemma voe_entry : forall n, valid_or_empty valid_entry n -> ok_or_empty n.
Proof. intros n [->|H]; [left; reflexivity | right; apply valid_entry_safe; exact H]. Qed.
Lemma voe_node : forall n, valid_or_empty valid_node n -> ok_or_empty n.
Proof. intros n [->|H]; [left; reflexivity | right; apply valid_node_safe; exact H]. Qed.

Lemma isolation_etcd_built : forall xs app entry node (sel : names -> bool),
  Forall good xs -> NoDup (map nm_id xs) ->
  valid_or_empty valid_app app -> valid_or_empty valid_entry entry -> valid_or_empty valid_node node ->
  (forall x, sel x = true <-> under_names app entry node x) ->
  snd (build_names [] xs) = map (fun _ => true) xs /\
  list_workloads Etcd (fst (build_names [] xs)) app entry node = map nm_id (filter sel xs).
Proof.
  intros xs app entry node sel F ND Ha He Hn Sel. rewrite (build_names_good xs F ND). split; [reflexivity|].
  apply isolation_etcd; auto using voe_app, voe_entry, voe_node.
Qed.

Lemma isolation_redis_built : forall xs app entry node (sel : names -> bool),
  Forall good xs -> NoDup (map nm_id xs) ->
  valid_or_empty valid_app app -> valid_or_empty valid_entry entry -> valid_or_empty valid_node node ->
  no_meta app -> no_meta entry -> no_meta node ->
  (forall x, sel x = true <-> under_names app entry node x) ->
  list_workloads Redis (fst (build_names [] xs)) app entry node = map nm_id (filter sel xs).
Proof.
  intros xs app entry node sel F ND Ha He Hn Ma Me Mn Sel.
  rewrite redis_as_etcd by auto using voe_app, voe_entry, voe_node.
  apply isolation_etcd_built; assumption.
Qed.

(* GetDeployStatus: per node, the workloads created under (app, entry) plus the in-flight
   counters created under (app, entry) -- nothing of any other application or entrypoint *)
Lemma deploy_status_total : forall b xs ps app entry (selw : names -> bool) (selp : proc -> bool),
  Forall good xs -> NoDup (map nm_id xs) -> Forall good_proc ps ->
  valid_app app = true -> valid_entry entry = true ->
  (b = Redis -> no_meta app /\ no_meta entry) ->
  (forall x, selw x = true <-> (nm_app x = app /\ nm_entry x = entry)) ->
  (forall p, selp p = true <-> (p_app p = app /\ p_entry p = entry)) ->
  deploy_status b (fst (build_names [] xs)) (map pentry ps) app entry =
  agg (map (fun x => (nm_node x, 1%N)) (filter selw xs) ++ map (fun p => (p_node p, p_count p)) (filter selp ps)).
Proof.
  intros b xs ps app entry selw selp F ND Fp Va Ve Hb Sw Sp. unfold deploy_status.
  rewrite (build_names_good xs F ND). cbn [fst].
  pose proof (valid_app_safe _ Va) as Sa. destruct (valid_entry_safe _ Ve) as [Se _].
  assert (E1 : status_nodes b (map entry_of xs) app entry = map nm_node (filter selw xs)).
  { destruct b; [apply status_etcd; assumption|].
    destruct (Hb eq_refl) as [Ma Me]. rewrite redis_status_as_etcd by assumption. apply status_etcd; assumption. }
  assert (E2 : proc_counts b (map pentry ps) app entry = map (fun p => (p_node p, p_count p)) (filter selp ps)).
  { destruct b; [apply proc_counts_etcd; assumption|].
    destruct (Hb eq_refl) as [Ma Me]. rewrite proc_counts_redis_as_etcd by assumption. apply proc_counts_etcd; assumption. }
  rewrite E1, E2, map_map. reflexivity.
Qed.

(* distinct markers (by ident) are all created *)
Fixpoint build_procs_n (s : pspace) (l : list proc) : pspace * list bool :=
  match l with
  | [] => (s, [])
  | p :: t => let '(s', okb) := add_proc s p in let '(fin, oks) := build_procs_n s' t in (fin, okb :: oks)
  end.
Lemma build_procs_is_n : forall pcs s, build_procs s pcs = build_procs_n s (map proc_of pcs).
Proof.
  induction pcs as [|p pcs IH]; intro s; [reflexivity|]. simpl.
  destruct (add_proc s (proc_of p)) as [s' okb]. rewrite IH. reflexivity.
Qed.
Lemma build_procs_good : forall ps pre, Forall good_proc pre -> Forall good_proc ps ->
  NoDup (map p_ident (pre ++ ps)) ->
  build_procs_n (map pentry pre) ps = (map pentry (pre ++ ps), map (fun _ => true) ps).
Proof.
  induction ps as [|p ps IH]; intros pre Fpre Fps ND.
  - simpl. rewrite app_nil_r. reflexivity.
  - inversion Fps as [|? ? Gp Fps']; subst. cbn [build_procs_n]. unfold add_proc at 1. cbv zeta.
    assert (Nin : ~ In (p_ident p) (map p_ident pre)).
    { rewrite map_app in ND. simpl in ND. apply NoDup_remove_2 in ND. intro C. apply ND. apply in_or_app. left. exact C. }
    assert (HK : has_pkey (proc_key p) (map pentry pre) = false).
    { clear - Gp Fpre Nin. induction pre as [|q pre IH]; [reflexivity|]. inversion Fpre as [|? ? Gq Fq]; subst.
      cbn [map has_pkey pentry]. cbn [map In] in Nin.
      destruct (bytes_eqb (proc_key p) (proc_key q)) eqn:E.
      - apply bytes_eqb_eq in E. rewrite (proc_key_good p Gp), (proc_key_good q Gq) in E.
        apply key_of_id_gen in E; [|apply processing_elem_safe | apply good_proc_good; exact Gp | apply good_proc_good; exact Gq].
        elim Nin. left. symmetry. exact E.
      - cbn [orb]. apply IH; [exact Fq|]. intro C. apply Nin. right. exact C. }
    rewrite HK.
    change (map pentry pre ++ [(proc_key p, p)]) with (map pentry pre ++ map pentry [p]). rewrite <- map_app.
    rewrite (IH (pre ++ [p])).
    + rewrite <- app_assoc. reflexivity.
    + apply Forall_app. split; [exact Fpre | constructor; [exact Gp | constructor]].
    + exact Fps'.
    + rewrite <- app_assoc. exact ND.
Qed.

Lemma status_built : forall b xs app entry (sel : names -> bool),
  Forall good xs -> NoDup (map nm_id xs) ->
  valid_app app = true -> valid_entry entry = true ->
  (b = Redis -> no_meta app /\ no_meta entry) ->
  (forall x, sel x = true <-> (nm_app x = app /\ nm_entry x = entry)) ->
  status_nodes b (fst (build_names [] xs)) app entry = map nm_node (filter sel xs).
Proof.
  intros b xs app entry sel F ND Va Ve Hb Sel. rewrite (build_names_good xs F ND). cbn [fst].
  pose proof (valid_app_safe _ Va) as Sa. destruct (valid_entry_safe _ Ve) as [Se _].
  destruct b.
  - apply status_etcd; assumption.
  - destruct (Hb eq_refl) as [Ma Me]. rewrite redis_status_as_etcd by assumption. apply status_etcd; assumption.
Qed.

(* ================================================================== *)
(* link between the boolean check of the harness and the theorems      *)

Lemma s2l_nil_iff : forall s, s2l s = [] <-> s = EmptyString.
Proof.
  intro s. split; intro H.
  - apply s2l_inj. rewrite H. reflexivity.
  - subst. reflexivity.
Qed.

(* the selection used by the boolean check is the theorems' "created under those names" *)
Lemma created_under_iff : forall app entry node a, a_ok a = true ->
  (created_under app entry node a = true <->
   under_names (s2l app) (s2l entry) (s2l node) (names_of a)).
Proof.
  intros app entry node a Hok. unfold created_under, under_names, eff, names_of. cbn [nm_app nm_entry nm_node].
  rewrite Hok. cbn [andb].
  destruct (s2l app) as [|c1 t1] eqn:Ea.
  - split; [intros _; eexists; reflexivity | reflexivity].
  - rewrite andb_true_iff, String.eqb_eq.
    destruct (s2l entry) as [|c2 t2] eqn:Ee.
    + split.
      * intros [<- _]. rewrite Ea. eexists. reflexivity.
      * intros [r E]. inversion E as [[E1 E2]]. split; [|reflexivity]. apply s2l_inj. rewrite Ea. exact E1.
    + rewrite andb_true_iff, String.eqb_eq.
      destruct (s2l node) as [|c3 t3] eqn:En.
      * split.
        -- intros [<- [<- _]]. rewrite Ea, Ee. eexists. reflexivity.
        -- intros [r E]. inversion E as [[E1 E2 E3]]. split; [apply s2l_inj; rewrite Ea; exact E1|].
           split; [apply s2l_inj; rewrite Ee; exact E2 | reflexivity].
      * rewrite String.eqb_eq. split.
        -- intros [<- [<- <-]]. rewrite Ea, Ee, En. exists []. reflexivity.
        -- intros [r E]. inversion E as [[E1 E2 E3 E4]].
           split; [apply s2l_inj; rewrite Ea; exact E1|].
           split; [apply s2l_inj; rewrite Ee; exact E2 | apply s2l_inj; rewrite En; exact E3].
Qed.

Lemma accepted_safe_all : forall n,
  (valid_app n = true -> safe_elem n) /\ (valid_node n = true -> safe_elem n) /\
  (valid_entry n = true -> safe_elem n /\ no_byte underscore n).
Proof. intro n. split; [apply valid_app_safe | split; [apply valid_node_safe | apply valid_entry_safe]]. Qed.

Lemma processing_created : forall ps, Forall good_proc ps -> NoDup (map p_ident ps) ->
  build_procs_n [] ps = (map pentry ps, map (fun _ => true) ps).
Proof. intros ps F ND. exact (build_procs_good ps [] (Forall_nil _) F ND). Qed.
