(* Proofs about Names/Model.v (C24). *)
From Coq Require Import List Bool Arith NArith String Ascii Lia.
From Verif Require Import Base.GoStr Base.GoStrLemmas Names.Model.
Import ListNotations.
Open Scope list_scope.

(* split a goal [Forall P [a; b; ...]] into its element goals, nothing else *)
Ltac fa := repeat match goal with
                  | |- Forall _ (_ :: _) => constructor
                  | |- Forall _ [] => constructor
                  end.

(* ================================================================== *)
(* name round trip                                                     *)

Definition no_lead_slash (app : bytes) : Prop := forall c t, app = c :: t -> c <> slash.

Lemma trim_left_noop : forall s, no_lead_slash s -> trim_left [slash] s = s.
Proof.
  intros [|c t] H; [reflexivity|]. simpl.
  destruct (Ascii.eqb c slash) eqn:E; [|reflexivity].
  apply Ascii.eqb_eq in E. elim (H c t eq_refl). exact E.
Qed.

Lemma name_roundtrip : forall app entry ident,
  no_lead_slash app -> no_byte underscore entry -> no_byte underscore ident ->
  parse_name (make_name app entry ident) = Some (app, entry, ident).
Proof.
  intros app entry ident Ha He Hi. unfold parse_name, make_name.
  change (join [underscore] [app; entry; ident]) with (app ++ underscore :: (entry ++ underscore :: ident)).
  rewrite trim_left_noop.
  2:{ intros c t E. destruct app as [|a app']; simpl in E; inversion E; subst.
      - intro C. discriminate C.
      - apply (Ha c app' eq_refl). }
  rewrite split_on_app_gen, (split_on_app underscore entry ident He), (split_on_none underscore ident Hi).
  set (sa := split_on underscore app).
  assert (Ls : List.length (sa ++ [entry; ident]) = List.length sa + 2) by (rewrite app_length; reflexivity).
  assert (Lp : 1 <= List.length sa).
  { unfold sa. destruct (split_on underscore app) eqn:E; [exfalso; eapply split_on_nonnil; exact E | simpl; lia]. }
  rewrite Ls.
  replace (Nat.leb 3 (List.length sa + 2)) with true by (symmetry; apply Nat.leb_le; lia).
  replace (List.length sa + 2 - 2) with (List.length sa + 0) by lia.
  replace (List.length sa + 2 - 1) with (List.length sa + 1) by lia.
  rewrite firstn_app_2, app_nil_r. simpl firstn.
  rewrite !app_nth2_plus. simpl nth.
  unfold sa. rewrite join_split. reflexivity.
Qed.

(* ================================================================== *)
(* accepted names are single key elements                              *)

Lemma key_element_safe : forall n, nonempty n = true -> key_element n = true -> safe_elem n.
Proof.
  intros n Hn Hk. unfold key_element in Hk. apply andb_true_iff in Hk. destruct Hk as [Hk Hs].
  apply andb_true_iff in Hk. destruct Hk as [Hd Hdd].
  apply negb_true_iff in Hd, Hdd, Hs.
  repeat split; try assumption. destruct n; [discriminate | discriminate].
Qed.

Lemma valid_app_safe : forall n, valid_app n = true -> safe_elem n.
Proof.
  intros n H. unfold valid_app, validate_app in H.
  destruct (nonempty n) eqn:E1; simpl in H; [|discriminate].
  destruct (key_element n) eqn:E2; simpl in H; [|discriminate].
  apply key_element_safe; assumption.
Qed.
Lemma valid_node_safe : forall n, valid_node n = true -> safe_elem n.
Proof. exact valid_app_safe. Qed.
Lemma valid_entry_safe : forall n, valid_entry n = true -> safe_elem n /\ no_byte underscore n.
Proof.
  intros n H. unfold valid_entry, validate_entry in H.
  destruct (nonempty n) eqn:E1; simpl in H; [|discriminate].
  destruct (mem_byte underscore n) eqn:E3; [discriminate|].
  destruct (key_element n) eqn:E2; simpl in H; [|discriminate].
  split; [apply key_element_safe; assumption | exact E3].
Qed.

Lemma safe_no_lead_slash : forall n, safe_elem n -> no_lead_slash n.
Proof.
  intros n [_ [Hs _]] c t -> C. subst c. unfold no_byte in Hs. simpl in Hs. discriminate.
Qed.

Lemma accepted_roundtrip : forall app entry ident,
  validate_deploy app entry = 0%N -> no_byte underscore ident ->
  parse_name (make_name app entry ident) = Some (app, entry, ident).
Proof.
  intros app entry ident V Hi. unfold validate_deploy in V.
  destruct (validate_app app) eqn:Va; [|discriminate].
  assert (A : valid_app app = true) by (unfold valid_app; rewrite Va; reflexivity).
  assert (E : valid_entry entry = true) by (unfold valid_entry; rewrite V; reflexivity).
  apply name_roundtrip; [apply safe_no_lead_slash, valid_app_safe, A | apply valid_entry_safe, E | exact Hi].
Qed.

(* ================================================================== *)
(* keys of accepted names                                              *)

Definition deploy_elem : bytes := s2l "deploy".

Lemma deploy_elem_safe : safe_elem deploy_elem.
Proof. unfold safe_elem, no_byte. repeat split; try reflexivity. discriminate. Qed.

Definition status_elem : bytes := s2l "status".
Lemma status_elem_safe : safe_elem status_elem.
Proof. unfold safe_elem, no_byte. repeat split; try reflexivity. discriminate. Qed.

(* the lemmas hold for any root "/" ++ r with r an ordinary element ("deploy", "status") *)
Lemma join_path_root : forall r es, safe_elem r -> Forall safe_or_empty es ->
  join_path ((slash :: r) :: es) = slash :: join [slash] (r :: filter GoStrLemmas.nonempty es).
Proof.
  intros r es Hr F.
  assert (E : join_path ((slash :: r) :: es) = clean (slash :: join [slash] (r :: es))).
  { destruct es as [|e es']; reflexivity. }
  rewrite E, clean_rooted; [|constructor; [right; exact Hr | exact F]].
  destruct r as [|c r']; [destruct Hr; congruence | reflexivity].
Qed.
Lemma join_path_deploy : forall es, Forall safe_or_empty es ->
  join_path (deploy_prefix :: es) = slash :: join [slash] (deploy_elem :: filter GoStrLemmas.nonempty es).
Proof. intros es F. exact (join_path_root deploy_elem es deploy_elem_safe F). Qed.

(* a workload record as the stores see it *)
Record names := mkNames { nm_app : bytes; nm_entry : bytes; nm_ident : bytes; nm_node : bytes; nm_id : bytes }.
Definition names_of (a : addc) : names :=
  mkNames (s2l (a_app a)) (s2l (a_entry a)) (s2l (a_ident a)) (s2l (a_node a)) (s2l (a_id a)).
Definition wl_of_names (x : names) : wl := mkWl (nm_id x) (make_name (nm_app x) (nm_entry x) (nm_ident x)) (nm_node x).

(* accepted by validation; id and suffix as the system generates them *)
Definition good (x : names) : Prop :=
  valid_app (nm_app x) = true /\ valid_entry (nm_entry x) = true /\ valid_node (nm_node x) = true /\
  safe_elem (nm_id x) /\ no_byte underscore (nm_ident x).

Definition gkey (r : bytes) (x : names) : bytes :=
  slash :: join [slash] [r; nm_app x; nm_entry x; nm_node x; nm_id x].
Definition key_of (x : names) : bytes := gkey deploy_elem x.

Lemma safe_nonempty : forall e, safe_elem e -> GoStrLemmas.nonempty e = true.
Proof. intros [|c e] [H _]; [congruence | reflexivity]. Qed.

Lemma obj_key_good : forall r x, safe_elem r -> good x -> obj_key (slash :: r) (wl_of_names x) = Some (gkey r x).
Proof.
  intros r x Hr [Ha [He [Hn [Hid Hi]]]]. unfold obj_key, wl_of_names. cbn [w_name w_node w_id].
  pose proof (valid_app_safe _ Ha) as Sa. destruct (valid_entry_safe _ He) as [Se Ue].
  pose proof (valid_node_safe _ Hn) as Sn.
  rewrite name_roundtrip; [|apply safe_no_lead_slash; exact Sa | exact Ue | exact Hi].
  rewrite (join_path_root r _ Hr).
  - cbn [filter]. rewrite !safe_nonempty by assumption. reflexivity.
  - fa; right; assumption.
Qed.
Lemma deploy_key_good : forall x, good x -> deploy_key (wl_of_names x) = Some (key_of x).
Proof. intros x G. exact (obj_key_good deploy_elem x deploy_elem_safe G). Qed.

(* effective filter of ListWorkloads: names after the first empty one are ignored *)
Definition eff (app entry node : bytes) : list bytes :=
  match app with
  | [] => []
  | _ => match entry with
         | [] => [app]
         | _ => match node with [] => [app; entry] | _ => [app; entry; node] end
         end
  end.

Definition ok_or_empty (e : bytes) : Prop := e = [] \/ safe_elem e.

Lemma filter_key_eff : forall r app entry node, safe_elem r ->
  ok_or_empty app -> ok_or_empty entry -> ok_or_empty node ->
  filter_key (slash :: r) app entry node = slash :: join [slash] (r :: eff app entry node) ++ [slash].
Proof.
  intros r app entry node Hr Ha He Hn. unfold filter_key.
  assert (SE : forall e, ok_or_empty e -> safe_or_empty e) by (intros e [->|H]; [left; reflexivity | right; exact H]).
  destruct app as [|a app'].
  - rewrite (join_path_root r _ Hr) by (fa; left; reflexivity). reflexivity.
  - destruct entry as [|e entry'].
    + rewrite (join_path_root r _ Hr) by (fa; [apply SE; exact Ha | left; reflexivity | left; reflexivity]).
      reflexivity.
    + destruct node as [|n node'].
      * rewrite (join_path_root r _ Hr) by (fa; [apply SE; exact Ha | apply SE; exact He | left; reflexivity]).
        reflexivity.
      * rewrite (join_path_root r _ Hr) by (fa; apply SE; assumption). reflexivity.
Qed.
Lemma list_key_eff : forall app entry node,
  ok_or_empty app -> ok_or_empty entry -> ok_or_empty node ->
  list_key app entry node = slash :: join [slash] (deploy_elem :: eff app entry node) ++ [slash].
Proof. intros. exact (filter_key_eff deploy_elem app entry node deploy_elem_safe H H0 H1). Qed.

Lemma safe_no_slash : forall e, safe_elem e -> no_byte slash e.
Proof. intros e [_ [H _]]. exact H. Qed.

Lemma eff_no_slash : forall app entry node,
  ok_or_empty app -> ok_or_empty entry -> ok_or_empty node -> Forall (no_byte slash) (eff app entry node).
Proof.
  intros app entry node Ha He Hn.
  assert (NS : forall e, ok_or_empty e -> no_byte slash e) by (intros e [->|H]; [reflexivity | apply safe_no_slash; exact H]).
  unfold eff. destruct app; [constructor|]. destruct entry; [fa; apply NS; assumption|].
  destruct node; fa; apply NS; assumption.
Qed.

(* "created under those names": the names equal the non-ignored filter names *)
Definition under_names (app entry node : bytes) (x : names) : Prop :=
  exists r, [nm_app x; nm_entry x; nm_node x] = eff app entry node ++ r.

(* the key-prefix test decides exactly that *)
Lemma gprefix_iff_names : forall r app entry node x, safe_elem r ->
  ok_or_empty app -> ok_or_empty entry -> ok_or_empty node -> good x ->
  (has_prefix (filter_key (slash :: r) app entry node) (gkey r x) = true <-> under_names app entry node x).
Proof.
  intros r app entry node x Hr Ha He Hn G.
  destruct G as [Va [Ve [Vn [Sid _]]]].
  pose proof (valid_app_safe _ Va) as Sa. destruct (valid_entry_safe _ Ve) as [Se _].
  pose proof (valid_node_safe _ Vn) as Sn.
  rewrite filter_key_eff by assumption. unfold gkey. cbn [has_prefix List.app]. rewrite Ascii.eqb_refl. cbn [andb].
  rewrite prefix_components.
  - change (r :: eff app entry node) with ([r] ++ eff app entry node).
    unfold under_names. split.
    + intros [rr [Nr E]]. cbn [List.app] in E. inversion E as [E'].
      (* eff has at most three elements and the key has four after the root: rr keeps the id *)
      destruct (eff app entry node) as [|e1 [|e2 [|e3 [|e4 l]]]] eqn:Ee; cbn [List.app] in E'.
      * exists [nm_app x; nm_entry x; nm_node x]. reflexivity.
      * inversion E'; subst. exists [nm_entry x; nm_node x]. reflexivity.
      * inversion E'; subst. exists [nm_node x]. reflexivity.
      * inversion E'; subst. exists []. reflexivity.
      * exfalso. unfold eff in Ee. destruct app; [discriminate|]. destruct entry; [discriminate|].
        destruct node; discriminate.
    + intros [rr E]. exists (rr ++ [nm_id x]). split; [destruct rr; discriminate|].
      cbn [List.app]. f_equal. rewrite app_assoc, <- E. reflexivity.
  - discriminate.
  - discriminate.
  - constructor; [apply safe_no_slash, Hr | apply eff_no_slash; assumption].
  - fa; apply safe_no_slash; assumption.
Qed.
Lemma prefix_iff_names : forall app entry node x,
  ok_or_empty app -> ok_or_empty entry -> ok_or_empty node -> good x ->
  (has_prefix (list_key app entry node) (key_of x) = true <-> under_names app entry node x).
Proof. intros. exact (gprefix_iff_names deploy_elem app entry node x deploy_elem_safe H H0 H1 H2). Qed.

(* ================================================================== *)
(* redis: an escaped literal followed by '*' is a prefix test           *)

Lemma glob_star_any : forall s, glob [star] s = true.
Proof.
  intro s. cbn [glob]. rewrite Ascii.eqb_refl.
  induction s as [|x s IH]; [reflexivity|]. cbn [glob]. cbn [orb]. exact IH.
Qed.

Lemma glob_escape_prefix : forall p s, glob (escape_glob p ++ [star]) s = has_prefix p s.
Proof.
  induction p as [|c p IH]; intro s.
  - simpl. apply glob_star_any.
  - cbn [escape_glob]. destruct (is_meta c) eqn:M.
    + (* escaped: backslash, then the character taken literally *)
      change ((backslash :: c :: escape_glob p) ++ [star]) with (backslash :: c :: (escape_glob p ++ [star])).
      cbn [glob].
      change (Ascii.eqb backslash star) with false. change (Ascii.eqb backslash qmark) with false.
      change (Ascii.eqb backslash lbracket) with false. change (Ascii.eqb backslash backslash) with true.
      cbv iota. destruct s as [|x s]; [reflexivity|]. cbn [has_prefix]. rewrite IH. reflexivity.
    + unfold is_meta in M.
      apply orb_false_iff in M. destruct M as [M H4]. apply orb_false_iff in M. destruct M as [M H3].
      apply orb_false_iff in M. destruct M as [H1 H2].
      change ((c :: escape_glob p) ++ [star]) with (c :: (escape_glob p ++ [star])).
      cbn [glob]. rewrite H1, H2, H3, H4.
      destruct s as [|x s]; [reflexivity|]. cbn [has_prefix]. rewrite IH. reflexivity.
Qed.

(* after the repair both stores test the same thing, for every name *)
Lemma under_any : forall b p k, under b p k = has_prefix p k.
Proof. intros [|] p k; cbn [under]; [reflexivity | apply glob_escape_prefix]. Qed.

(* ================================================================== *)
(* processing markers (deployments in flight)                          *)

Definition processing_elem : bytes := s2l "processing".
Lemma processing_elem_safe : safe_elem processing_elem.
Proof. unfold safe_elem, no_byte. repeat split; try reflexivity. discriminate. Qed.

Definition pnames (p : proc) : names := mkNames (p_app p) (p_entry p) [] (p_node p) (p_ident p).
(* names accepted by validation; the ident is system generated *)
Definition good_proc (p : proc) : Prop :=
  valid_app (p_app p) = true /\ valid_entry (p_entry p) = true /\ valid_node (p_node p) = true /\ safe_elem (p_ident p).
Lemma good_proc_good : forall p, good_proc p -> good (pnames p).
Proof. intros p [A [B [C D]]]. unfold good, pnames. cbn. repeat split; try assumption; apply D. Qed.

Lemma proc_key_good : forall p, good_proc p -> proc_key p = gkey processing_elem (pnames p).
Proof.
  intros p [Va [Ve [Vn Si]]]. unfold proc_key.
  change processing_prefix with (slash :: processing_elem).
  pose proof (valid_app_safe _ Va) as Sa. destruct (valid_entry_safe _ Ve) as [Se _].
  pose proof (valid_node_safe _ Vn) as Sn.
  rewrite (join_path_root processing_elem _ processing_elem_safe) by (fa; right; assumption).
  cbn [filter]. rewrite !safe_nonempty by assumption. reflexivity.
Qed.

Lemma root_key2 : forall r app entry, safe_elem r -> safe_elem app -> safe_elem entry ->
  join_path [slash :: r; app; entry] ++ [slash] = filter_key (slash :: r) app entry [].
Proof.
  intros r app entry Hr Sa Se.
  rewrite filter_key_eff by (try assumption; try (right; assumption); left; reflexivity).
  rewrite (join_path_root r _ Hr) by (fa; right; assumption).
  cbn [filter]. rewrite !safe_nonempty by assumption.
  unfold eff. destruct app as [|a app']; [destruct Sa; congruence|].
  destruct entry as [|e entry']; [destruct Se; congruence|]. reflexivity.
Qed.

Lemma gkey_node : forall r x, safe_elem r -> good x -> key_node (gkey r x) = nm_node x.
Proof.
  intros r x Hr [Va [Ve [Vn [Sid _]]]]. unfold key_node, gkey.
  pose proof (valid_app_safe _ Va) as Sa. destruct (valid_entry_safe _ Ve) as [Se _].
  pose proof (valid_node_safe _ Vn) as Sn.
  change (split_on slash (slash :: join [slash] [r; nm_app x; nm_entry x; nm_node x; nm_id x]))
    with (let s := split_on slash (join [slash] [r; nm_app x; nm_entry x; nm_node x; nm_id x]) in
          if Ascii.eqb slash slash then [] :: s else match s with h :: s' => (slash :: h) :: s' | [] => [[slash]] end).
  rewrite Ascii.eqb_refl. cbv zeta. rewrite split_join.
  - reflexivity.
  - discriminate.
  - fa; apply safe_no_slash; assumption.
Qed.

(* ================================================================== *)
(* the one key space built by AddWorkload and CreateProcessing         *)

Definition entry_of (x : names) : bytes * item := (key_of x, IW (wl_of_names x)).
Definition pentry (p : proc) : bytes * item := (proc_key p, IP p).
Definition space (xs : list names) (ps : list proc) : kspace := map entry_of xs ++ map pentry ps.

Lemma gkey_elems_noslash : forall r x, safe_elem r -> good x ->
  Forall (no_byte slash) [r; nm_app x; nm_entry x; nm_node x; nm_id x].
Proof.
  intros r x Hr [Va [Ve [Vn [Sid _]]]].
  fa; apply safe_no_slash; try assumption;
    try (apply valid_app_safe; assumption); try (apply valid_entry_safe; assumption).
Qed.

Lemma gkey_inj : forall r1 r2 x y, safe_elem r1 -> safe_elem r2 -> good x -> good y ->
  gkey r1 x = gkey r2 y -> r1 = r2 /\ nm_id x = nm_id y.
Proof.
  intros r1 r2 x y H1 H2 Gx Gy E. unfold gkey in E. apply (f_equal (@tl ascii)) in E. cbn [tl] in E.
  apply join_inj in E; try discriminate.
  - inversion E. split; reflexivity.
  - apply gkey_elems_noslash; assumption.
  - apply gkey_elems_noslash; assumption.
Qed.
Lemma key_of_id : forall x y, good x -> good y -> key_of x = key_of y -> nm_id x = nm_id y.
Proof. intros x y Gx Gy E. apply (gkey_inj deploy_elem deploy_elem x y deploy_elem_safe deploy_elem_safe Gx Gy E). Qed.

Lemma roots_differ : deploy_elem <> processing_elem.
Proof. discriminate. Qed.

(* a key under one root is never under a filter prefix of another root *)
Lemma gprefix_cross : forall r1 r2 app entry node x, safe_elem r1 -> safe_elem r2 -> r1 <> r2 ->
  ok_or_empty app -> ok_or_empty entry -> ok_or_empty node -> good x ->
  has_prefix (filter_key (slash :: r1) app entry node) (gkey r2 x) = false.
Proof.
  intros r1 r2 app entry node x H1 H2 Ne Ha He Hn G.
  destruct (has_prefix (filter_key (slash :: r1) app entry node) (gkey r2 x)) eqn:E; [|reflexivity].
  exfalso. rewrite filter_key_eff in E by assumption. unfold gkey in E.
  cbn [has_prefix List.app] in E. rewrite Ascii.eqb_refl in E. cbn [andb] in E.
  apply prefix_components in E.
  - destruct E as [rr [_ E]]. cbn [List.app] in E. inversion E. congruence.
  - discriminate.
  - discriminate.
  - constructor; [apply safe_no_slash, H1 | apply eff_no_slash; assumption].
  - apply gkey_elems_noslash; assumption.
Qed.

Lemma has_key_app : forall k a b, has_key k (a ++ b) = has_key k a || has_key k b.
Proof.
  induction a as [|[k' i] a IH]; intro b; [reflexivity|]. cbn [List.app has_key]. rewrite IH. apply orb_assoc.
Qed.

Lemma has_key_false : forall x pre, good x -> Forall good pre -> ~ In (nm_id x) (map nm_id pre) ->
  has_key (key_of x) (map entry_of pre) = false.
Proof.
  intros x pre G F N. induction pre as [|y pre IH]; [reflexivity|].
  inversion F as [|? ? Gy Fp]; subst. cbn [map has_key entry_of]. cbn [map In] in N.
  destruct (bytes_eqb (key_of x) (key_of y)) eqn:E.
  - apply bytes_eqb_eq in E. apply key_of_id in E; try assumption. elim N. left. congruence.
  - cbn [orb]. apply IH; [exact Fp|]. intro C. apply N. right. exact C.
Qed.
Lemma has_id_false : forall id pre, ~ In id (map nm_id pre) -> has_id id (map entry_of pre) = false.
Proof.
  intros id pre N. induction pre as [|y pre IH]; [reflexivity|].
  cbn [map has_id entry_of wl_of_names w_id]. cbn [map In] in N.
  destruct (bytes_eqb id (nm_id y)) eqn:E.
  - apply bytes_eqb_eq in E. elim N. left. congruence.
  - cbn [orb]. apply IH. intro C. apply N. right. exact C.
Qed.

Fixpoint build_names (s : kspace) (xs : list names) : kspace * list bool :=
  match xs with
  | [] => (s, [])
  | x :: t => let '(s', okb) := add_workload s (wl_of_names x) in
              let '(fin, oks) := build_names s' t in (fin, okb :: oks)
  end.
Lemma build_is_build_names : forall adds s, build s adds = build_names s (map names_of adds).
Proof.
  induction adds as [|a adds IH]; intro s; [reflexivity|]. simpl.
  change (wl_of a) with (wl_of_names (names_of a)).
  destruct (add_workload s (wl_of_names (names_of a))) as [s' okb]. rewrite IH. reflexivity.
Qed.

Fixpoint build_procs_n (s : kspace) (l : list proc) : kspace * list bool :=
  match l with
  | [] => (s, [])
  | p :: t => let '(s', okb) := add_proc s p in let '(fin, oks) := build_procs_n s' t in (fin, okb :: oks)
  end.
Lemma build_procs_is_n : forall pcs s, build_procs s pcs = build_procs_n s (map proc_of pcs).
Proof.
  induction pcs as [|p pcs IH]; intro s; [reflexivity|]. simpl.
  destruct (add_proc s (proc_of p)) as [s' okb]. rewrite IH. reflexivity.
Qed.

(* under accepted names and distinct ids every AddWorkload succeeds and files the workload under its key *)
Lemma build_good : forall xs pre, Forall good pre -> Forall good xs -> NoDup (map nm_id (pre ++ xs)) ->
  build_names (map entry_of pre) xs = (map entry_of (pre ++ xs), map (fun _ => true) xs).
Proof.
  induction xs as [|x xs IH]; intros pre Fp Fx ND.
  - simpl. rewrite app_nil_r. reflexivity.
  - inversion Fx as [|? ? Gx Fxs]; subst. simpl. unfold add_workload.
    rewrite (deploy_key_good x Gx). cbn [w_id wl_of_names].
    assert (Nin : ~ In (nm_id x) (map nm_id pre)).
    { rewrite map_app in ND. simpl in ND. apply NoDup_remove_2 in ND. intro C. apply ND. apply in_or_app. left. exact C. }
    rewrite (has_key_false x pre Gx Fp Nin), (has_id_false _ pre Nin). cbn [orb].
    change (map entry_of pre ++ [(key_of x, IW (wl_of_names x))]) with (map entry_of pre ++ map entry_of [x]).
    rewrite <- map_app.
    rewrite (IH (pre ++ [x])).
    + rewrite <- app_assoc. reflexivity.
    + apply Forall_app. split; [exact Fp | constructor; [exact Gx | constructor]].
    + exact Fxs.
    + rewrite <- app_assoc. exact ND.
Qed.

(* ... and every CreateProcessing with a distinct ident succeeds, in the same key space *)
Lemma build_procs_good : forall ps xs pre, Forall good xs -> Forall good_proc pre -> Forall good_proc ps ->
  NoDup (map p_ident (pre ++ ps)) ->
  build_procs_n (space xs pre) ps = (space xs (pre ++ ps), map (fun _ => true) ps).
Proof.
  induction ps as [|p ps IH]; intros xs pre Fx Fpre Fps ND.
  - simpl. rewrite app_nil_r. reflexivity.
  - inversion Fps as [|? ? Gp Fps']; subst. cbn [build_procs_n]. unfold add_proc at 1. cbv zeta.
    assert (Nin : ~ In (p_ident p) (map p_ident pre)).
    { rewrite map_app in ND. simpl in ND. apply NoDup_remove_2 in ND. intro C. apply ND. apply in_or_app. left. exact C. }
    assert (HK : has_key (proc_key p) (space xs pre) = false).
    { unfold space. rewrite has_key_app. apply orb_false_iff. split.
      - clear - Gp Fx. induction xs as [|x xs IHx]; [reflexivity|]. inversion Fx as [|? ? Gx Fx']; subst.
        cbn [map has_key entry_of].
        destruct (bytes_eqb (proc_key p) (key_of x)) eqn:E.
        + apply bytes_eqb_eq in E. rewrite (proc_key_good p Gp) in E. unfold key_of in E.
          apply gkey_inj in E; [|apply processing_elem_safe | apply deploy_elem_safe | apply good_proc_good; exact Gp | exact Gx].
          destruct E as [E _]. discriminate E.
        + cbn [orb]. apply IHx. exact Fx'.
      - clear - Gp Fpre Nin. induction pre as [|q pre IH]; [reflexivity|]. inversion Fpre as [|? ? Gq Fq]; subst.
        cbn [map has_key pentry]. cbn [map In] in Nin.
        destruct (bytes_eqb (proc_key p) (proc_key q)) eqn:E.
        + apply bytes_eqb_eq in E. rewrite (proc_key_good p Gp), (proc_key_good q Gq) in E.
          apply gkey_inj in E; [|apply processing_elem_safe | apply processing_elem_safe | apply good_proc_good; exact Gp | apply good_proc_good; exact Gq].
          destruct E as [_ E]. elim Nin. left. symmetry. exact E.
        + cbn [orb]. apply IH; [exact Fq|]. intro C. apply Nin. right. exact C. }
    rewrite HK.
    assert (ES : space xs pre ++ [(proc_key p, IP p)] = space xs (pre ++ [p])).
    { unfold space. rewrite map_app, app_assoc. reflexivity. }
    rewrite ES. rewrite (IH xs (pre ++ [p])).
    + rewrite <- app_assoc. reflexivity.
    + exact Fx.
    + apply Forall_app. split; [exact Fpre | constructor; [exact Gp | constructor]].
    + exact Fps'.
    + rewrite <- app_assoc. exact ND.
Qed.

(* the whole scenario: workloads, then markers *)
Lemma build_all_good : forall xs ps, Forall good xs -> NoDup (map nm_id xs) ->
  Forall good_proc ps -> NoDup (map p_ident ps) ->
  build_names [] xs = (space xs [], map (fun _ => true) xs) /\
  build_procs_n (space xs []) ps = (space xs ps, map (fun _ => true) ps).
Proof.
  intros xs ps Fx NDx Fp NDp. split.
  - unfold space. simpl. rewrite app_nil_r. exact (build_good xs [] (Forall_nil _) Fx NDx).
  - exact (build_procs_good ps xs [] Fx (Forall_nil _) Fp NDp).
Qed.

(* ================================================================== *)
(* queries over the key space                                          *)

Lemma filter_ext_in : forall (A : Type) (f g : A -> bool) l,
  (forall x, In x l -> f x = g x) -> filter f l = filter g l.
Proof.
  induction l as [|a l IH]; intro H; [reflexivity|]. simpl.
  rewrite (H a (or_introl eq_refl)). rewrite IH; [reflexivity|]. intros x Hx. apply H. right. exact Hx.
Qed.

Lemma filter_none : forall (A : Type) (f : A -> bool) l, (forall x, In x l -> f x = false) -> filter f l = [].
Proof.
  induction l as [|a l IH]; intro H; [reflexivity|]. simpl. rewrite (H a (or_introl eq_refl)).
  apply IH. intros x Hx. apply H. right. exact Hx.
Qed.

Lemma ids_of_entries : forall (f : bytes -> bool) xs,
  ids_of (filter (fun kw => f (fst kw)) (map entry_of xs)) = Some (map nm_id (filter (fun x => f (key_of x)) xs)).
Proof.
  intros f xs. induction xs as [|x xs IH]; [reflexivity|]. cbn [map filter]. change (fst (entry_of x)) with (key_of x).
  destruct (f (key_of x)); [|exact IH]. cbn [ids_of entry_of]. rewrite IH. reflexivity.
Qed.

(* markers are never under a deploy prefix, workloads never under a processing prefix *)
Lemma markers_not_listed : forall b ps app entry node, Forall good_proc ps ->
  ok_or_empty app -> ok_or_empty entry -> ok_or_empty node ->
  filter (fun kw => under b (list_key app entry node) (fst kw)) (map pentry ps) = [].
Proof.
  intros b ps app entry node F Ha He Hn. apply filter_none. intros kw Hk.
  apply in_map_iff in Hk. destruct Hk as [p [<- Hp]]. rewrite Forall_forall in F. specialize (F p Hp).
  rewrite under_any. change (fst (pentry p)) with (proc_key p). rewrite (proc_key_good p F).
  exact (gprefix_cross deploy_elem processing_elem app entry node (pnames p) deploy_elem_safe processing_elem_safe
           roots_differ Ha He Hn (good_proc_good p F)).
Qed.
Lemma workloads_not_processing : forall b xs app entry, Forall good xs -> safe_elem app -> safe_elem entry ->
  filter (fun kw => under b (proc_filter_key app entry) (fst kw)) (map entry_of xs) = [].
Proof.
  intros b xs app entry F Sa Se. apply filter_none. intros kw Hk.
  apply in_map_iff in Hk. destruct Hk as [x [<- Hx]]. rewrite Forall_forall in F. specialize (F x Hx).
  rewrite under_any. change (fst (entry_of x)) with (key_of x).
  assert (K : proc_filter_key app entry = filter_key (slash :: processing_elem) app entry [])
    by (exact (root_key2 processing_elem app entry processing_elem_safe Sa Se)).
  rewrite K.
  apply (gprefix_cross processing_elem deploy_elem app entry [] x processing_elem_safe deploy_elem_safe);
    try (right; assumption); try (left; reflexivity); try assumption.
  intro C. apply roots_differ. symmetry. exact C.
Qed.

(* ListWorkloads, on both stores: exactly the workloads created under the (non-ignored) names *)
Lemma isolation : forall b xs ps app entry node (sel : names -> bool),
  Forall good xs -> Forall good_proc ps -> ok_or_empty app -> ok_or_empty entry -> ok_or_empty node ->
  (forall x, sel x = true <-> under_names app entry node x) ->
  list_workloads b (space xs ps) app entry node = Some (map nm_id (filter sel xs)).
Proof.
  intros b xs ps app entry node sel F Fp Ha He Hn Sel. unfold list_workloads, space. cbv zeta.
  rewrite filter_app, (markers_not_listed b ps app entry node Fp Ha He Hn), app_nil_r.
  rewrite (ids_of_entries (fun k => under b (list_key app entry node) k)). f_equal. f_equal.
  apply filter_ext_in. intros x Hx. rewrite Forall_forall in F. specialize (F x Hx).
  rewrite under_any. pose proof (prefix_iff_names app entry node x Ha He Hn F) as P.
  destruct (has_prefix (list_key app entry node) (key_of x)) eqn:E1; destruct (sel x) eqn:E2; try reflexivity.
  - assert (sel x = true) by (apply Sel, P; reflexivity). congruence.
  - assert (T : false = true) by (apply P, Sel, E2). discriminate.
Qed.

Lemma status_key_list_key : forall app entry, safe_elem app -> safe_elem entry ->
  status_key app entry = list_key app entry [].
Proof. intros app entry Sa Se. exact (root_key2 deploy_elem app entry deploy_elem_safe Sa Se). Qed.

Lemma key_node_key_of : forall x, good x -> key_node (key_of x) = nm_node x.
Proof. intros x G. exact (gkey_node deploy_elem x deploy_elem_safe G). Qed.

(* the deployed part of GetDeployStatus: the nodes of exactly the workloads of (app, entry) *)
Lemma status_nodes_spec : forall b xs ps app entry (sel : names -> bool),
  Forall good xs -> Forall good_proc ps -> safe_elem app -> safe_elem entry ->
  (forall x, sel x = true <-> (nm_app x = app /\ nm_entry x = entry)) ->
  status_nodes b (space xs ps) app entry = map nm_node (filter sel xs).
Proof.
  intros b xs ps app entry sel F Fp Sa Se Sel. unfold status_nodes, space. cbv zeta.
  rewrite status_key_list_key by assumption.
  rewrite filter_app, (markers_not_listed b ps app entry [] Fp (or_intror Sa) (or_intror Se) (or_introl eq_refl)), app_nil_r.
  induction xs as [|x xs IH]; [reflexivity|]. inversion F as [|? ? Gx Fx]; subst.
  cbn [map filter]. change (fst (entry_of x)) with (key_of x). rewrite under_any.
  pose proof (prefix_iff_names app entry [] x (or_intror Sa) (or_intror Se) (or_introl eq_refl) Gx) as P.
  assert (U : under_names app entry [] x <-> (nm_app x = app /\ nm_entry x = entry)).
  { unfold under_names, eff. destruct app; [destruct Sa; congruence|]. destruct entry; [destruct Se; congruence|]. split.
    - intros [r E]. inversion E. auto.
    - intros [<- <-]. exists [nm_node x]. reflexivity. }
  destruct (has_prefix (list_key app entry []) (key_of x)) eqn:E1; destruct (sel x) eqn:E2; cbn [map fst].
  - change (fst (entry_of x)) with (key_of x). rewrite (key_node_key_of x Gx). f_equal. apply IH. exact Fx.
  - assert (sel x = true) by (apply Sel, U, P; reflexivity). congruence.
  - assert (T : false = true) by (apply P, U, Sel, E2). discriminate.
  - apply IH. exact Fx.
Qed.

(* doLoadProcessing: exactly the counters filed under (app, entry), with their node *)
Lemma proc_counts_spec : forall b xs ps app entry (sel : proc -> bool),
  Forall good xs -> Forall good_proc ps -> safe_elem app -> safe_elem entry ->
  (forall p, sel p = true <-> (p_app p = app /\ p_entry p = entry)) ->
  proc_counts b (space xs ps) app entry = map (fun p => (p_node p, p_count p)) (filter sel ps).
Proof.
  intros b xs ps app entry sel F Fp Sa Se Sel. unfold proc_counts, space. cbv zeta.
  rewrite filter_app, (workloads_not_processing b xs app entry F Sa Se). cbn [List.app].
  assert (K : proc_filter_key app entry = filter_key (slash :: processing_elem) app entry [])
    by (exact (root_key2 processing_elem app entry processing_elem_safe Sa Se)).
  rewrite K. clear K.
  induction ps as [|p ps IH]; [reflexivity|]. inversion Fp as [|? ? Gp Fp']; subst.
  cbn [map filter]. change (fst (pentry p)) with (proc_key p). rewrite under_any, (proc_key_good p Gp).
  pose proof (gprefix_iff_names processing_elem app entry [] (pnames p) processing_elem_safe
                (or_intror Sa) (or_intror Se) (or_introl eq_refl) (good_proc_good p Gp)) as P.
  assert (U : under_names app entry [] (pnames p) <-> (p_app p = app /\ p_entry p = entry)).
  { unfold under_names, eff, pnames. cbn [nm_app nm_entry nm_node].
    destruct app; [destruct Sa; congruence|]. destruct entry; [destruct Se; congruence|]. split.
    - intros [r E]. inversion E. auto.
    - intros [<- <-]. exists [p_node p]. reflexivity. }
  destruct (has_prefix (filter_key (slash :: processing_elem) app entry []) (gkey processing_elem (pnames p))) eqn:E1;
    destruct (sel p) eqn:E2; cbn [flat_map map List.app].
  - change (snd (pentry p)) with (IP p). cbv iota. change (fst (pentry p)) with (proc_key p).
    rewrite (proc_key_good p Gp), (gkey_node processing_elem (pnames p) processing_elem_safe (good_proc_good p Gp)).
    cbn [pnames nm_node List.app]. f_equal. apply IH. exact Fp'.
  - assert (sel p = true) by (apply Sel, U, P; reflexivity). congruence.
  - assert (T : false = true) by (apply P, U, Sel, E2). discriminate.
  - apply IH. exact Fp'.
Qed.

(* GetDeployStatus: per node, the workloads created under (app, entry) plus the in-flight counters
   created under (app, entry) -- nothing of any other application or entrypoint; both stores *)
Lemma deploy_status_total : forall b xs ps app entry (selw : names -> bool) (selp : proc -> bool),
  Forall good xs -> Forall good_proc ps ->
  valid_app app = true -> valid_entry entry = true ->
  (forall x, selw x = true <-> (nm_app x = app /\ nm_entry x = entry)) ->
  (forall p, selp p = true <-> (p_app p = app /\ p_entry p = entry)) ->
  deploy_status b (space xs ps) app entry =
  agg (map (fun x => (nm_node x, 1%N)) (filter selw xs) ++ map (fun p => (p_node p, p_count p)) (filter selp ps)).
Proof.
  intros b xs ps app entry selw selp F Fp Va Ve Sw Sp. unfold deploy_status.
  pose proof (valid_app_safe _ Va) as Sa. destruct (valid_entry_safe _ Ve) as [Se _].
  rewrite (status_nodes_spec b xs ps app entry selw F Fp Sa Se Sw).
  rewrite (proc_counts_spec b xs ps app entry selp F Fp Sa Se Sp).
  rewrite map_map. reflexivity.
Qed.

(* WorkloadStatusStream on etcd: exactly the workloads created under the (non-ignored) names *)
Lemma stream_etcd : forall xs app entry node (sel : names -> bool),
  Forall good xs -> ok_or_empty app -> ok_or_empty entry -> ok_or_empty node ->
  (forall x, sel x = true <-> under_names app entry node x) ->
  stream_ids (map wl_of_names xs) app entry node = map nm_id (filter sel xs).
Proof.
  intros xs app entry node sel F Ha He Hn Sel. unfold stream_ids. cbv zeta.
  induction xs as [|x xs IH]; [reflexivity|]. inversion F as [|? ? Gx Fx]; subst.
  cbn [map filter].
  change status_prefix with (slash :: status_elem).
  rewrite (obj_key_good status_elem x status_elem_safe Gx).
  pose proof (gprefix_iff_names status_elem app entry node x status_elem_safe Ha He Hn Gx) as P.
  destruct (has_prefix (filter_key (slash :: status_elem) app entry node) (gkey status_elem x)) eqn:E1;
    destruct (sel x) eqn:E2; cbn [map wl_of_names w_id].
  - f_equal. apply IH. exact Fx.
  - assert (sel x = true) by (apply Sel, P; reflexivity). congruence.
  - assert (T : false = true) by (apply P, Sel, E2). discriminate.
  - apply IH. exact Fx.
Qed.

(* ================================================================== *)
(* assembled statements over the scenario built by the API calls       *)

Definition valid_or_empty (valid : bytes -> bool) (n : bytes) : Prop := n = [] \/ valid n = true.
Lemma voe_app : forall n, valid_or_empty valid_app n -> ok_or_empty n.
Proof. intros n [->|H]; [left; reflexivity | right; apply valid_app_safe; exact H]. Qed.
Lemma voe_entry : forall n, valid_or_empty valid_entry n -> ok_or_empty n.
Proof. intros n [->|H]; [left; reflexivity | right; apply valid_entry_safe; exact H]. Qed.
Lemma voe_node : forall n, valid_or_empty valid_node n -> ok_or_empty n.
Proof. intros n [->|H]; [left; reflexivity | right; apply valid_node_safe; exact H]. Qed.

(* the key space after creating the workloads xs and then the markers ps *)
Definition built (xs : list names) (ps : list proc) : kspace :=
  fst (build_procs_n (fst (build_names [] xs)) ps).

Lemma built_space : forall xs ps, Forall good xs -> NoDup (map nm_id xs) ->
  Forall good_proc ps -> NoDup (map p_ident ps) ->
  built xs ps = space xs ps /\
  snd (build_names [] xs) = map (fun _ => true) xs /\
  snd (build_procs_n (fst (build_names [] xs)) ps) = map (fun _ => true) ps.
Proof.
  intros xs ps Fx NDx Fp NDp. destruct (build_all_good xs ps Fx NDx Fp NDp) as [E1 E2].
  unfold built. rewrite E1. cbn [fst snd]. rewrite E2. cbn [fst snd]. auto.
Qed.

Lemma isolation_built : forall b xs ps app entry node (sel : names -> bool),
  Forall good xs -> NoDup (map nm_id xs) -> Forall good_proc ps -> NoDup (map p_ident ps) ->
  valid_or_empty valid_app app -> valid_or_empty valid_entry entry -> valid_or_empty valid_node node ->
  (forall x, sel x = true <-> under_names app entry node x) ->
  list_workloads b (built xs ps) app entry node = Some (map nm_id (filter sel xs)).
Proof.
  intros b xs ps app entry node sel Fx NDx Fp NDp Ha He Hn Sel.
  destruct (built_space xs ps Fx NDx Fp NDp) as [-> _].
  apply isolation; auto using voe_app, voe_entry, voe_node.
Qed.

Lemma deploy_status_built : forall b xs ps app entry (selw : names -> bool) (selp : proc -> bool),
  Forall good xs -> NoDup (map nm_id xs) -> Forall good_proc ps -> NoDup (map p_ident ps) ->
  valid_app app = true -> valid_entry entry = true ->
  (forall x, selw x = true <-> (nm_app x = app /\ nm_entry x = entry)) ->
  (forall p, selp p = true <-> (p_app p = app /\ p_entry p = entry)) ->
  deploy_status b (built xs ps) app entry =
  agg (map (fun x => (nm_node x, 1%N)) (filter selw xs) ++ map (fun p => (p_node p, p_count p)) (filter selp ps)).
Proof.
  intros b xs ps app entry selw selp Fx NDx Fp NDp Va Ve Sw Sp.
  destruct (built_space xs ps Fx NDx Fp NDp) as [-> _].
  apply deploy_status_total; assumption.
Qed.

(* ================================================================== *)
(* refutations (witnesses are replayed on the real stores by the harness corpus) *)

Definition nm (app entry node id : string) : names := mkNames (s2l app) (s2l entry) (s2l "abc001") (s2l node) (s2l id).

(* the redis store before the repair (names unescaped in the SCAN pattern): accepted names with a
   glob metacharacter saw other applications' workloads *)
Definition list_workloads_redis_old (s : kspace) (app entry node : bytes) : option (list bytes) :=
  ids_of (filter (fun kw => under_redis_old (list_key app entry node) (fst kw)) s).

Lemma redis_old_glob_refuted :
  exists xs app entry,
    Forall good xs /\ NoDup (map nm_id xs) /\ valid_app app = true /\ valid_entry entry = true /\
    list_workloads_redis_old (built xs []) app entry []
    <> Some (map nm_id (filter (fun x => bytes_eqb (nm_app x) app && bytes_eqb (nm_entry x) entry) xs)) /\
    list_workloads Redis (built xs []) app entry []
    = Some (map nm_id (filter (fun x => bytes_eqb (nm_app x) app && bytes_eqb (nm_entry x) entry) xs)).
Proof.
  exists [nm "a*" "e" "n1" "id1"; nm "ab" "e" "n1" "id2"], (s2l "a*"), (s2l "e").
  split; [|split; [|split; [|split; [|split]]]].
  - fa; unfold good; simpl; repeat split; try reflexivity; try discriminate.
  - simpl. repeat constructor; simpl; intuition discriminate.
  - reflexivity.
  - reflexivity.
  - vm_compute. discriminate.
  - vm_compute. reflexivity.
Qed.

(* the validation before the repair accepted names whose keys collide on both stores *)
Lemma old_validation_refuted :
  exists x y, validate_deploy_old (nm_app x) (nm_entry x) = 0%N /\ validate_deploy_old (nm_app y) (nm_entry y) = 0%N /\
    (nm_app x, nm_entry x) <> (nm_app y, nm_entry y) /\ nm_id x <> nm_id y /\
    (* both are filed, and listing x's application and entrypoint returns y's workload too *)
    snd (build_names [] [x; y]) = [true; true] /\
    list_workloads Etcd (built [x; y] []) (nm_app x) (nm_entry x) [] = Some [nm_id x; nm_id y] /\
    list_workloads Redis (built [x; y] []) (nm_app x) (nm_entry x) [] = Some [nm_id x; nm_id y] /\
    (* and the repaired validation rejects them *)
    validate_deploy (nm_app x) (nm_entry x) <> 0%N /\ validate_deploy (nm_app y) (nm_entry y) <> 0%N.
Proof.
  exists (nm "a/b" "c" "n1" "id1"), (nm "a" "b/c" "n1" "id2").
  vm_compute. repeat split; try reflexivity; try discriminate.
Qed.

Lemma old_roundtrip_refuted :
  exists app entry ident, validate_deploy_old app entry = 0%N /\ no_byte underscore ident /\
    parse_name (make_name app entry ident) <> Some (app, entry, ident) /\ validate_deploy app entry <> 0%N.
Proof.
  exists (s2l "/a"), (s2l "e"), (s2l "x"). vm_compute. repeat split; try reflexivity; discriminate.
Qed.

(* names outside validation: ".." lets a processing key escape to where a deploy query looks, and
   ListWorkloads then fails on it -- the single key space of the model shows it *)
Lemma escaping_names_meet :
  exists x p, list_workloads Etcd (fst (build_procs_n (fst (build_names [] [x])) [p])) (nm_app x) (nm_entry x) [] = None.
Proof.
  exists (nm ".." "e" "n1" "id1"), (mkProc (s2l "..") (s2l "e") (s2l "n1") (s2l "op1") 2%N).
  vm_compute. reflexivity.
Qed.

(* hypotheses are satisfiable *)
Example names_example :
  let xs := [nm "a" "b" "n1" "id1"; nm "ab" "b" "n1" "id2"; nm "a" "bc" "n1" "id3"; nm "a_b" "c" "n2" "id4"; nm "a" "b" "n2" "id5"] in
  let ps := [mkProc (s2l "a") (s2l "b") (s2l "n1") (s2l "op1") 3%N; mkProc (s2l "a") (s2l "b2") (s2l "n1") (s2l "op2") 5%N] in
  Forall good xs /\ NoDup (map nm_id xs) /\ Forall good_proc ps /\ NoDup (map p_ident ps) /\
  list_workloads Etcd (built xs ps) (s2l "a") (s2l "b") [] = Some [s2l "id1"; s2l "id5"] /\
  list_workloads Redis (built xs ps) (s2l "a") [] [] = Some [s2l "id1"; s2l "id3"; s2l "id5"] /\
  deploy_status Redis (built xs ps) (s2l "a") (s2l "b") = [(s2l "n1", 4%N); (s2l "n2", 1%N)].
Proof.
  split; [|split; [|split; [|split; [|vm_compute; repeat split; reflexivity]]]].
  - fa; unfold good; simpl; repeat split; try reflexivity; try discriminate.
  - simpl. repeat constructor; simpl; intuition discriminate.
  - fa; unfold good_proc, safe_elem, no_byte; simpl; repeat split; try reflexivity; try discriminate.
  - simpl. repeat constructor; simpl; intuition discriminate.
Qed.

(* ================================================================== *)
(* link between the boolean check of the harness and the theorems      *)

Lemma s2l_nil_iff : forall s, s2l s = [] <-> s = EmptyString.
Proof.
  intro s. split; intro H.
  - apply s2l_inj. rewrite H. reflexivity.
  - subst. reflexivity.
Qed.

(* the selection used by the boolean check is the theorems' "created under those names" *)
Lemma created_under_iff : forall app entry node a, a_ok a = true ->
  (created_under app entry node a = true <->
   under_names (s2l app) (s2l entry) (s2l node) (names_of a)).
Proof.
  intros app entry node a Hok. unfold created_under, under_names, eff, names_of. cbn [nm_app nm_entry nm_node].
  rewrite Hok. cbn [andb].
  destruct (s2l app) as [|c1 t1] eqn:Ea.
  - split; [intros _; eexists; reflexivity | reflexivity].
  - rewrite andb_true_iff, String.eqb_eq.
    destruct (s2l entry) as [|c2 t2] eqn:Ee.
    + split.
      * intros [<- _]. rewrite Ea. eexists. reflexivity.
      * intros [r E]. inversion E as [[E1 E2]]. split; [|reflexivity]. apply s2l_inj. rewrite Ea. exact E1.
    + rewrite andb_true_iff, String.eqb_eq.
      destruct (s2l node) as [|c3 t3] eqn:En.
      * split.
        -- intros [<- [<- _]]. rewrite Ea, Ee. eexists. reflexivity.
        -- intros [r E]. inversion E as [[E1 E2 E3]]. split; [apply s2l_inj; rewrite Ea; exact E1|].
           split; [apply s2l_inj; rewrite Ee; exact E2 | reflexivity].
      * rewrite String.eqb_eq. split.
        -- intros [<- [<- <-]]. rewrite Ea, Ee, En. exists []. reflexivity.
        -- intros [r E]. inversion E as [[E1 E2 E3 E4]].
           split; [apply s2l_inj; rewrite Ea; exact E1|].
           split; [apply s2l_inj; rewrite Ee; exact E2 | apply s2l_inj; rewrite En; exact E3].
Qed.

Lemma accepted_safe_all : forall n,
  (valid_app n = true -> safe_elem n) /\ (valid_node n = true -> safe_elem n) /\
  (valid_entry n = true -> safe_elem n /\ no_byte underscore n).
Proof. intro n. split; [apply valid_app_safe | split; [apply valid_node_safe | apply valid_entry_safe]]. Qed.


