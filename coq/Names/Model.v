(* C24 — model of workload names, name validation and the per-application key space.

   Anchors:
     utils/utils.go              MakeWorkloadName, ParseWorkloadName
     types/options.go            DeployOptions.Validate, ReplaceOptions.Validate, AddNodeOptions.Validate
     types/specs.go              Entrypoint.Validate, isKeyElement          (after the repair
                                 `fix: reject app, entrypoint and node names that are not a single key element`)
     store/{etcdv3,redis}/workload.go   doOpsWorkload (key construction), ListWorkloads
     store/{etcdv3,redis}/deploy.go     GetDeployStatus, doGetDeployStatus

   The stores are abstracted to the deploy key space: a workload is filed under
     filepath.Join("/deploy", app, entry, nodename, ID)        with (app, entry) = ParseWorkloadName(Name)
   ListWorkloads(app, entry, node) reads the keys under filepath.Join("/deploy", app, entry, node) + "/"
   (etcd: key prefix; redis: SCAN with the glob pattern prefix + "*"), GetDeployStatus(app, entry)
   counts the keys under filepath.Join("/deploy", app, entry) + "/" by their second-to-last element.
   Deploy and processing keys live in ONE key space (as in the stores), so names like ".." that
   let a key escape its root are modelled exactly as long as they stay away from the stores' other
   roots (/workloads, /node, /pod, /status ...; the harness alphabets do).  Status keys are only
   written in scenarios where every name is accepted.  No proofs in this file. *)
From Coq Require Import List Bool Arith NArith String Ascii.
From Verif Require Import Base.GoStr.
Import ListNotations.
Open Scope list_scope.

Definition underscore : ascii := "_"%char.
Definition star : ascii := "*"%char.
Definition qmark : ascii := "?"%char.
Definition backslash : ascii := "\"%char.
Definition lbracket : ascii := "["%char.

(* ---- utils.MakeWorkloadName / ParseWorkloadName ---- *)
Definition make_name (app entry ident : bytes) : bytes := join [underscore] [app; entry; ident].

Definition parse_name (name : bytes) : option (bytes * bytes * bytes) :=
  let n := trim_left [slash] name in
  let splits := split_on underscore n in
  let len := List.length splits in
  if Nat.leb 3 len
  then Some (join [underscore] (firstn (len - 2) splits), nth (len - 2) splits [], nth (len - 1) splits [])
  else None.

(* ---- validation ---- *)
Definition nonempty (n : bytes) : bool := match n with [] => false | _ => true end.
(* types.isKeyElement *)
Definition key_element (n : bytes) : bool :=
  negb (is_dot n) && negb (is_dotdot n) && negb (mem_byte slash n).

(* error codes: 0 = nil, 1 = empty name, 2 = underline in entrypoint name, 3 = not a key element *)
Definition validate_entry (n : bytes) : N :=
  if negb (nonempty n) then 1 else if mem_byte underscore n then 2 else if negb (key_element n) then 3 else 0.
Definition validate_app (n : bytes) : N :=
  if negb (nonempty n) then 1 else if negb (key_element n) then 3 else 0.
Definition validate_node (n : bytes) : N :=
  if negb (nonempty n) then 1 else if negb (key_element n) then 3 else 0.
(* DeployOptions.Validate / ReplaceOptions.Validate with the other fields filled in *)
Definition validate_deploy (app entry : bytes) : N :=
  match validate_app app with 0%N => validate_entry entry | e => e end.

Definition valid_app (n : bytes) : bool := N.eqb (validate_app n) 0.
Definition valid_entry (n : bytes) : bool := N.eqb (validate_entry n) 0.
Definition valid_node (n : bytes) : bool := N.eqb (validate_node n) 0.

(* the validation before the repair: only emptiness and '_' in the entrypoint *)
Definition validate_deploy_old (app entry : bytes) : N :=
  if negb (nonempty app) then 1 else if negb (nonempty entry) then 1
  else if mem_byte underscore entry then 2 else 0.

(* ---- keys ---- *)
Definition deploy_prefix : bytes := s2l "/deploy".

Record wl := mkWl { w_id : bytes; w_name : bytes; w_node : bytes }.

Definition status_prefix : bytes := s2l "/status".

(* key of a workload under a root: /deploy (doOpsWorkload) or /status (SetWorkloadStatus) *)
Definition obj_key (root : bytes) (w : wl) : option bytes :=
  match parse_name (w_name w) with
  | Some (app, entry, _) => Some (join_path [root; app; entry; w_node w; w_id w])
  | None => None
  end.
Definition deploy_key (w : wl) : option bytes := obj_key deploy_prefix w.

(* ListWorkloads / WorkloadStatusStream: if appname == "" { entrypoint = "" }; if entrypoint == "" { nodename = "" } *)
Definition filter_key (root app entry node : bytes) : bytes :=
  let entry := match app with [] => [] | _ => entry end in
  let node := match entry with [] => [] | _ => node end in
  join_path [root; app; entry; node] ++ [slash].
Definition list_key (app entry node : bytes) : bytes := filter_key deploy_prefix app entry node.

(* WorkloadStatusStream(app, entry, node) on etcd: a watch on the prefix filter_key "/status";
   it reports the ids of the workloads whose status key changes under it *)
Definition stream_ids (ws : list wl) (app entry node : bytes) : list bytes :=
  let fk := filter_key status_prefix app entry node in
  map w_id (filter (fun w => match obj_key status_prefix w with Some k => has_prefix fk k | None => false end) ws).
Definition status_key (app entry : bytes) : bytes := join_path [deploy_prefix; app; entry] ++ [slash].

(* ---- redis glob (SCAN MATCH): '*', '?', '\x'; character classes are not modelled
   (treated as never matching) and never generated ---- *)
Fixpoint glob (p s : bytes) : bool :=
  match p with
  | [] => match s with [] => true | _ => false end
  | c :: p' =>
      if Ascii.eqb c star then
        (fix try (s : bytes) : bool :=
           glob p' s || match s with [] => false | _ :: s' => try s' end) s
      else if Ascii.eqb c qmark then
        match s with [] => false | _ :: s' => glob p' s' end
      else if Ascii.eqb c lbracket then false
      else if Ascii.eqb c backslash then
        match p' with
        | e :: p'' => match s with x :: s' => Ascii.eqb e x && glob p'' s' | [] => false end
        | [] => match s with x :: s' => Ascii.eqb c x && match s' with [] => true | _ => false end | [] => false end
        end
      else match s with x :: s' => Ascii.eqb c x && glob p' s' | [] => false end
  end.

(* store/redis escapeGlob (after the repair `fix: redis store escapes glob metacharacters`):
   backslash, '*', '?' and '[' are preceded by a backslash *)
Definition is_meta (c : ascii) : bool :=
  Ascii.eqb c star || Ascii.eqb c qmark || Ascii.eqb c lbracket || Ascii.eqb c backslash.
Fixpoint escape_glob (s : bytes) : bytes :=
  match s with
  | [] => []
  | c :: t => if is_meta c then backslash :: c :: escape_glob t else c :: escape_glob t
  end.

Inductive backend := Etcd | Redis.
Definition under (b : backend) (prefix key : bytes) : bool :=
  match b with
  | Etcd => has_prefix prefix key
  | Redis => glob (escape_glob prefix ++ [star]) key
  end.
(* the redis store before the repair: the names went into the pattern unescaped *)
Definition under_redis_old (prefix key : bytes) : bool := glob (prefix ++ [star]) key.

(* ---- processing markers (store/*/processing.go): deployments in flight ----
   CreateProcessing files a counter under Join("/processing", app, entry, node, ident);
   doLoadProcessing(app, entry) sums, per node (second-to-last key element), the counters under
   Join("/processing", app, entry) + "/"; GetDeployStatus adds them to the deployed counts. *)
Definition processing_prefix : bytes := s2l "/processing".
Record proc := mkProc { p_app : bytes; p_entry : bytes; p_node : bytes; p_ident : bytes; p_count : N }.
Definition proc_key (p : proc) : bytes :=
  join_path [processing_prefix; p_app p; p_entry p; p_node p; p_ident p].
Definition proc_filter_key (app entry : bytes) : bytes := join_path [processing_prefix; app; entry] ++ [slash].

(* ---- ONE key space: every key lives in the same etcd / redis namespace, so a name like ".."
   that lets a key escape its root can make deploy and processing keys meet ---- *)
Inductive item := IW (w : wl) | IP (p : proc).
Definition kspace := list (bytes * item).

Fixpoint has_key (k : bytes) (s : kspace) : bool :=
  match s with [] => false | (k', _) :: t => bytes_eqb k k' || has_key k t end.
Fixpoint has_id (id : bytes) (s : kspace) : bool :=
  match s with
  | [] => false
  | (_, IW w) :: t => bytes_eqb id (w_id w) || has_id id t
  | (_, IP _) :: t => has_id id t
  end.

(* AddWorkload: BatchCreate of /workloads/ID, /node/N:workloads/ID and the deploy key: all must be new *)
Definition add_workload (s : kspace) (w : wl) : kspace * bool :=
  match deploy_key w with
  | None => (s, false)
  | Some k => if has_key k s || has_id (w_id w) s then (s, false) else (s ++ [(k, IW w)], true)
  end.
(* CreateProcessing: Create, the key must be new *)
Definition add_proc (s : kspace) (p : proc) : kspace * bool :=
  let k := proc_key p in if has_key k s then (s, false) else (s ++ [(k, IP p)], true).

(* ListWorkloads unmarshals every value under the prefix as a workload: a processing counter there
   ("2") makes the call fail.  None = error. *)
Fixpoint ids_of (l : kspace) : option (list bytes) :=
  match l with
  | [] => Some []
  | (_, IW w) :: t => match ids_of t with Some r => Some (w_id w :: r) | None => None end
  | (_, IP _) :: _ => None
  end.
Definition list_workloads (b : backend) (s : kspace) (app entry node : bytes) : option (list bytes) :=
  let lk := list_key app entry node in     (* computed once *)
  ids_of (filter (fun kw => under b lk (fst kw)) s).

(* doGetDeployStatus reads keys only: parts := Split(key, "/"); nodename := parts[len(parts)-2] *)
Definition key_node (k : bytes) : bytes :=
  let parts := split_on slash k in nth (List.length parts - 2) parts [].
Definition status_nodes (b : backend) (s : kspace) (app entry : bytes) : list bytes :=
  let sk := status_key app entry in
  map (fun kw => key_node (fst kw)) (filter (fun kw => under b sk (fst kw)) s).

(* doLoadProcessing: a value that is not a number (a workload) is logged and skipped *)
Definition proc_counts (b : backend) (s : kspace) (app entry : bytes) : list (bytes * N) :=
  let pk := proc_filter_key app entry in
  flat_map (fun kp => match snd kp with IP p => [(key_node (fst kp), p_count p)] | IW _ => [] end)
           (filter (fun kp => under b pk (fst kp)) s).

(* node -> count maps as sorted association lists *)
Fixpoint add_count (k : bytes) (n : N) (l : list (bytes * N)) : list (bytes * N) :=
  match l with
  | [] => [(k, n)]
  | (k', m) :: t =>
      if bytes_eqb k k' then (k', (m + n)%N) :: t
      else if bytes_ltb k k' then (k, n) :: l
      else (k', m) :: add_count k n t
  end.
Definition agg (l : list (bytes * N)) : list (bytes * N) :=
  fold_right (fun kn acc => add_count (fst kn) (snd kn) acc) [] l.

(* GetDeployStatus: deployed workloads count 1 each, plus the processing counters *)
Definition deploy_status (b : backend) (s : kspace) (app entry : bytes) : list (bytes * N) :=
  agg (map (fun n => (n, 1%N)) (status_nodes b s app entry) ++ proc_counts b s app entry).

(* ================= correspondence cases: the stores ================= *)
Record addc := mkAdd { a_app : string; a_entry : string; a_ident : string; a_node : string; a_id : string;
                       a_acc : bool (* observed: DeployOptions.Validate(app, entry) and AddNodeOptions.Validate(node) return nil *);
                       a_ok : bool (* observed: AddWorkload returned nil *) }.
(* acc: observed, every non-empty filter name passes the corresponding Validate *)
Inductive query :=
| QList (app entry node : string) (acc : bool) (obs : option (list string))   (* observed ids, sorted; None = error *)
| QStatus (app entry : string) (acc : bool) (obs : list (string * N))          (* observed node -> count, sorted by node *)
| QStream (app entry node : string) (acc : bool) (obs : list string).           (* etcd: ids reported by WorkloadStatusStream after every
                                                                                   workload's status was set once; sorted *)

Record procc := mkPc { pc_app : string; pc_entry : string; pc_node : string; pc_ident : string; pc_count : N;
                        pc_acc : bool (* observed: names pass DeployOptions / AddNodeOptions .Validate *);
                        pc_ok : bool  (* observed: CreateProcessing returned nil *) }.
Definition proc_of (p : procc) : proc :=
  mkProc (s2l (pc_app p)) (s2l (pc_entry p)) (s2l (pc_node p)) (s2l (pc_ident p)) (pc_count p).

Record case := mkCase { c_backend : backend; c_adds : list addc; c_procs : list procc; c_queries : list query }.

Fixpoint build_procs (s : kspace) (ps : list procc) : kspace * list bool :=
  match ps with
  | [] => (s, [])
  | p :: t => let '(s', okb) := add_proc s (proc_of p) in
              let '(fin, oks) := build_procs s' t in (fin, okb :: oks)
  end.

Definition wl_of (a : addc) : wl :=
  mkWl (s2l (a_id a)) (make_name (s2l (a_app a)) (s2l (a_entry a)) (s2l (a_ident a))) (s2l (a_node a)).

Fixpoint build (s : kspace) (adds : list addc) : kspace * list bool :=
  match adds with
  | [] => (s, [])
  | a :: t => let '(s', okb) := add_workload s (wl_of a) in
              let '(fin, oks) := build s' t in (fin, okb :: oks)
  end.

Fixpoint insert_bytes (x : bytes) (l : list bytes) : list bytes :=
  match l with [] => [x] | y :: t => if bytes_ltb y x then y :: insert_bytes x t else x :: l end.
Fixpoint sort_bytes (l : list bytes) : list bytes :=
  match l with [] => [] | x :: t => insert_bytes x (sort_bytes t) end.

Fixpoint count_runs (l : list bytes) : list (bytes * N) :=
  match l with
  | [] => []
  | x :: t => match count_runs t with
              | (y, n) :: r => if bytes_eqb x y then (y, N.succ n) :: r else (x, 1%N) :: (y, n) :: r
              | [] => [(x, 1%N)]
              end
  end.

Fixpoint bytes_list_eqb (a b : list bytes) : bool :=
  match a, b with
  | [], [] => true
  | x :: a', y :: b' => bytes_eqb x y && bytes_list_eqb a' b'
  | _, _ => false
  end.
Fixpoint counts_eqb (a : list (bytes * N)) (b : list (string * N)) : bool :=
  match a, b with
  | [], [] => true
  | (x, n) :: a', (y, m) :: b' => bytes_eqb x (s2l y) && N.eqb n m && counts_eqb a' b'
  | _, _ => false
  end.

Definition accepted_add (a : addc) : bool :=
  valid_app (s2l (a_app a)) && valid_entry (s2l (a_entry a)) && valid_node (s2l (a_node a)).
Definition accepted_or_empty (valid : bytes -> bool) (n : string) : bool :=
  match s2l n with [] => true | l => valid l end.

Definition query_agrees (b : backend) (s : kspace) (q : query) : bool :=
  match q with
  | QList app entry node acc obs =>
      Bool.eqb acc (accepted_or_empty valid_app app && accepted_or_empty valid_entry entry && accepted_or_empty valid_node node)
      && match obs with
         | Some ids => match list_workloads b s (s2l app) (s2l entry) (s2l node) with
                       | Some l => bytes_list_eqb (sort_bytes l) (map s2l ids)
                       | None => false
                       end
         | None => match list_workloads b s (s2l app) (s2l entry) (s2l node) with None => true | Some _ => false end
         end
  | QStatus app entry acc obs =>
      Bool.eqb acc (valid_app (s2l app) && valid_entry (s2l entry))
      && counts_eqb (deploy_status b s (s2l app) (s2l entry)) obs
  | QStream app entry node acc obs =>
      Bool.eqb acc (accepted_or_empty valid_app app && accepted_or_empty valid_entry entry && accepted_or_empty valid_node node)
      && bytes_list_eqb (sort_bytes (stream_ids (flat_map (fun kw => match snd kw with IW w => [w] | IP _ => [] end) s) (s2l app) (s2l entry) (s2l node))) (map s2l obs)
  end.

Fixpoint bools_eqb (a b : list bool) : bool :=
  match a, b with
  | [], [] => true
  | x :: a', y :: b' => Bool.eqb x y && bools_eqb a' b'
  | _, _ => false
  end.

Definition accepted_proc (p : procc) : bool :=
  valid_app (s2l (pc_app p)) && valid_entry (s2l (pc_entry p)) && valid_node (s2l (pc_node p)).

Definition agree (c : case) : bool :=
  let '(s0, oks) := build [] (c_adds c) in
  let '(s, poks) := build_procs s0 (c_procs c) in   (* markers are created after the workloads, in the same key space *)
  bools_eqb oks (map a_ok (c_adds c))
  && bools_eqb poks (map pc_ok (c_procs c))
  && forallb (fun a => Bool.eqb (a_acc a) (accepted_add a)) (c_adds c)
  && forallb (fun p => Bool.eqb (pc_acc p) (accepted_proc p)) (c_procs c)
  && forallb (query_agrees (c_backend c) s) (c_queries c).

(* ---- boolean reflection of the property on the implementation's answers.
   It uses the names only (no keys, no cleaning, no prefixes): a query must return exactly the
   workloads CREATED UNDER those names.  It applies when every name involved is accepted by the
   API's validation AS OBSERVED on the implementation (a_acc / acc; ids and idents are generated
   by the system: non-empty hex strings). ---- *)

Definition created_under (app entry node : string) (a : addc) : bool :=
  a_ok a &&
  match s2l app with
  | [] => true
  | _ => String.eqb (a_app a) app &&
         match s2l entry with
         | [] => true
         | _ => String.eqb (a_entry a) entry &&
                match s2l node with [] => true | _ => String.eqb (a_node a) node end
         end
  end.

Definition proc_under (app entry : string) (p : procc) : bool :=
  pc_ok p && String.eqb (pc_app p) app && String.eqb (pc_entry p) entry.

Definition query_ok (adds : list addc) (procs : list procc) (q : query) : bool :=
  match q with
  | QList app entry node acc obs =>
      if acc
      then match obs with
           | Some ids => bytes_list_eqb (sort_bytes (map (fun a => s2l (a_id a)) (filter (created_under app entry node) adds)))
                                        (map s2l ids)
           | None => false
           end
      else true
  | QStatus app entry acc obs =>
      if acc
      then (* deployed workloads of exactly (app, entry), plus the in-flight counters of exactly (app, entry) *)
           counts_eqb (agg (map (fun a => (s2l (a_node a), 1%N)) (filter (created_under app entry EmptyString) adds)
                            ++ map (fun p => (s2l (pc_node p), pc_count p)) (filter (proc_under app entry) procs))) obs
      else true
  | QStream app entry node acc obs =>
      if acc
      then bytes_list_eqb (sort_bytes (map (fun a => s2l (a_id a)) (filter (created_under app entry node) adds))) (map s2l obs)
      else true
  end.

Definition ok (c : case) : bool :=
  if forallb a_acc (c_adds c) && forallb pc_acc (c_procs c)
  then (* every workload (distinct ids) and marker (distinct idents) under accepted names can be created,
          and every query is exact *)
       forallb a_ok (c_adds c) && forallb pc_ok (c_procs c)
       && forallb (query_ok (c_adds c) (c_procs c)) (c_queries c)
  else true.

(* ================= stream: names and validation ================= *)
Record ncase := mkN {
  n_app : string; n_entry : string; n_ident : string;
  n_made : string;                                   (* MakeWorkloadName *)
  n_parsed : option (string * string * string);      (* ParseWorkloadName of it; None = error *)
  n_vdeploy : N; n_ventry : N; n_vnode : N           (* DeployOptions / Entrypoint / AddNodeOptions(app as node name) .Validate *)
}.
Definition opt3_eqb (a : option (bytes * bytes * bytes)) (b : option (string * string * string)) : bool :=
  match a, b with
  | None, None => true
  | Some (x, y, z), Some (x', y', z') => bytes_eqb x (s2l x') && bytes_eqb y (s2l y') && bytes_eqb z (s2l z')
  | _, _ => false
  end.
Definition nagree (c : ncase) : bool :=
  let app := s2l (n_app c) in let entry := s2l (n_entry c) in let ident := s2l (n_ident c) in
  bytes_eqb (make_name app entry ident) (s2l (n_made c))
  && opt3_eqb (parse_name (s2l (n_made c))) (n_parsed c)
  && N.eqb (validate_deploy app entry) (n_vdeploy c)
  && N.eqb (validate_entry entry) (n_ventry c)
  && N.eqb (validate_node app) (n_vnode c).
(* a workload's name parses back to the application and entrypoint it was created with,
   for every (app, entry) the API accepts; ident is system generated ('_'-free) *)
Definition nok (c : ncase) : bool :=
  if N.eqb (n_vdeploy c) 0 && negb (mem_byte underscore (s2l (n_ident c)))
  then match n_parsed c with
       | Some (a, e, i) => String.eqb a (n_app c) && String.eqb e (n_entry c) && String.eqb i (n_ident c)
       | None => false
       end
  else true.

(* ================= stream: filepath.Clean / Join ================= *)
Record pcase := mkP { p_elems : list string; p_join : string; p_clean : string (* Clean of the first element *) }.
Definition pagree (c : pcase) : bool :=
  String.eqb (sjoin_path (p_elems c)) (p_join c)
  && match p_elems c with e :: _ => String.eqb (sclean e) (p_clean c) | [] => true end.
Definition pok (c : pcase) : bool := true.
