(* C33 — re-allocating a bound workload without change keeps its cores.
   Model: Cobalt/Realloc.v (Plugin.CalculateRealloc over builder B's GetCPUPlans).
   This file contains only the property theorems.

   FULL STATEMENT (false of the faithful model, hence of the code):
     for every node whose cores have whole-core shares (with or without NUMA),
     every bound workload on it and every keep-cpu-bind request with zero cpu
     delta and any memory delta: if CalculateRealloc grants the request, the new
     resource has exactly the origin's cpu map and NUMA node.
   It is refuted (witnesses replayed on the real code by the harness corpus,
   see known_findings.d/C33.json):
     C33_fractional_refuted   a fractional bound workload gets its whole core and
                              its fragment core swapped;
     C33_numa_memory_refuted  a memory growth beyond the free memory of the
                              workload's NUMA node is granted across NUMA nodes
                              (NUMA node cleared) instead of being refused.
   A third refutation is history: before /repo 3d8e6c0 the first plan came from
   whichever NUMA node Go's map iteration visited first (C33_numa_refuted: the
   model still takes the order as an argument and the old witness fails for the
   order ["0";"1"]); the code now visits the origin's NUMA node first and the
   witness keeps its cores (C33_numa_witness_now). *)
From Coq Require Import String List ZArith.
From Verif Require Import Base.GoFloat Cpumem.Types Cpumem.Schedule Cobalt.Merge Cobalt.Realloc Cobalt.ReallocProofs.
Import ListNotations.
Local Open Scope string_scope.

Theorem C33_numa_refuted :
  match numa_run ["0"; "1"] with
  | Ok (inr (new, _)) => keeps_cores numa_origin new = false
  | _ => False
  end /\ In ["0"; "1"] (perms (numa_nodes numa_info)).
Proof. exact numa_witness. Qed.
Print Assumptions C33_numa_refuted.

Theorem C33_numa_order_dependent :
  match numa_run ["1"; "0"] with
  | Ok (inr (new, _)) => keeps_cores numa_origin new = true
  | _ => False
  end.
Proof. exact numa_witness_other_order. Qed.
Print Assumptions C33_numa_order_dependent.

Theorem C33_numa_witness_now :
  numa_visit_order (put_back numa_info numa_origin) (wr_cpumap numa_origin) = ["1"; "0"] /\
  match numa_run (numa_visit_order (put_back numa_info numa_origin) (wr_cpumap numa_origin)) with
  | Ok (inr (new, _)) => keeps_cores numa_origin new = true
  | _ => False
  end.
Proof. exact numa_witness_now. Qed.
Print Assumptions C33_numa_witness_now.

Theorem C33_numa_memory_refuted :
  match calculate_realloc numa_info 100 (-1) numa_origin grow_req
          (numa_visit_order (put_back numa_info numa_origin) (wr_cpumap numa_origin))
          (default_fuel (put_back numa_info numa_origin)) with
  | Ok (inr (new, _)) => keeps_cores numa_origin new = false /\ wr_numanode new = ""
  | _ => False
  end.
Proof. exact numa_memory_witness. Qed.
Print Assumptions C33_numa_memory_refuted.

Theorem C33_fractional_refuted :
  match frac_run with
  | Ok (inr (new, _)) => keeps_cores frac_origin new = false
  | _ => False
  end /\ numa_nodes frac_info = [].
Proof. exact frac_witness. Qed.
Print Assumptions C33_fractional_refuted.

(* C33_affinity (the strongest true statement; "C33_partial"): on a node WITHOUT
   NUMA, for a bound workload holding WHOLE cores (each at shareBase), a
   keep-cpu-bind request whose validated cpu amount is the same whole number of
   cores, any memory delta, any final sort of the planner and any fuel: if
   CalculateRealloc grants the request, the new resource has exactly the origin's
   cores (each at shareBase) and no NUMA node.  The two hypotheses on the
   available map say that after the origin is put back its cores are whole free
   cores (what the bookkeeping invariant of C08 gives on a node whose cores have
   whole-core shares). *)
Theorem C33_affinity : forall sortf (info : node_info) (base maxshare : Z) (origin : wres) (raw nr : wreq)
    (fuel : nat) (new d : wres),
  (0 < base)%Z ->
  nr_numa (ni_cap info) = [] ->
  rq_keep raw = true ->
  wr_cpumap origin <> [] -> NoDup (keys (wr_cpumap origin)) ->
  (forall c v, In (c, v) (wr_cpumap origin) -> v = base) ->
  NoDup (keys (nr_cpumap (get_available_nofloat (put_back info origin)))) ->
  (forall c, In c (keys (wr_cpumap origin)) ->
             lookup_opt (nr_cpumap (get_available_nofloat (put_back info origin))) c = Some base) ->
  wreq_validate (realloc_newreq origin raw) = inr nr ->
  pieces_request base (rq_cpu_req nr) = (base * Z.of_nat (List.length (wr_cpumap origin)))%Z ->
  Realloc.calculate_realloc_g sortf info base maxshare origin raw [] fuel = Ok (inr (new, d)) ->
  wr_numanode new = EmptyString /\ forall k, lookup_opt (wr_cpumap new) k = lookup_opt (wr_cpumap origin) k.
Proof. exact realloc_keeps_cores. Qed.
Print Assumptions C33_affinity.

(* the two hypotheses of C33_affinity on the available map hold on a node whose
   cores have whole-core shares when the origin is recorded on whole cores that
   it alone occupies (capacity = usage = origin = shareBase on those cores) *)
Theorem C33_available_after_put_back : forall (info : node_info) (origin : wres) (base : Z),
  NoDup (keys (nr_cpumap (ni_cap info))) ->
  NoDup (keys (nr_cpumap (ni_usage info))) ->
  NoDup (keys (wr_cpumap origin)) ->
  (forall c, In c (keys (nr_cpumap (ni_usage info))) -> In c (keys (nr_cpumap (ni_cap info)))) ->
  (forall c, In c (keys (wr_cpumap origin)) -> In c (keys (nr_cpumap (ni_usage info)))) ->
  (forall c, In c (keys (wr_cpumap origin)) ->
     Types.lookup 0%Z (nr_cpumap (ni_cap info)) c = base /\ Types.lookup 0%Z (nr_cpumap (ni_usage info)) c = base
     /\ Types.lookup 0%Z (wr_cpumap origin) c = base) ->
  let av := nr_cpumap (get_available_nofloat (put_back info origin)) in
  NoDup (keys av) /\ forall c, In c (keys (wr_cpumap origin)) -> lookup_opt av c = Some base.
Proof. exact avail_after_put_back. Qed.
Print Assumptions C33_available_after_put_back.

(* C33_affinity_numa: the NUMA case after /repo 3d8e6c0.  GetCPUPlans visits the
   NUMA node [nu] holding the origin's cores first (C33_visit_order_head), and for
   every such order: a granted keep-bind realloc for the same whole number of
   cores stays on exactly the origin's cores and on node [nu], with the node's
   memory record {nu: new memory}, UNLESS node [nu] itself yields no plan, i.e.
   its memory cannot hold the new request (the remaining known finding
   C33-numa-memory-tight).  The two hypotheses on the per-node map say that the
   origin's cores are whole free cores of node [nu] after the put-back. *)
Theorem C33_affinity_numa : forall sortf (info : node_info) (base maxshare : Z) (origin : wres) (raw nr : wreq)
    (nu : string) (order : list string) (fuel : nat) (new d : wres),
  (0 < base)%Z ->
  rq_keep raw = true ->
  nu <> EmptyString ->
  wr_cpumap origin <> [] -> NoDup (keys (wr_cpumap origin)) ->
  (forall c v, In (c, v) (wr_cpumap origin) -> v = base) ->
  let info' := put_back info origin in
  let avail := get_available_nofloat info' in
  let numamap := numa_cpu_map (nr_numa (ni_cap info)) (nr_cpumap avail) nu in
  let numamem := Z.min (Types.lookup 0%Z (nr_numamem avail) nu) (nr_mem avail) in
  NoDup (keys numamap) ->
  (forall c, In c (keys (wr_cpumap origin)) -> lookup_opt numamap c = Some base) ->
  wreq_validate (realloc_newreq origin raw) = inr nr ->
  pieces_request base (rq_cpu_req nr) = (base * Z.of_nat (List.length (wr_cpumap origin)))%Z ->
  Realloc.calculate_realloc_g sortf info base maxshare origin raw (nu :: order) fuel = Ok (inr (new, d)) ->
  (wr_numanode new = nu /\ wr_numamem new = [(nu, rq_mem_req nr)] /\
   forall k, lookup_opt (wr_cpumap new) k = lookup_opt (wr_cpumap origin) k)
  \/ do_get_cpu_plans_g sortf (wr_cpumap origin) numamap numamem base maxshare (rq_cpu_req nr) (rq_mem_req nr) fuel = Ok [].
Proof. exact realloc_keeps_cores_numa. Qed.
Print Assumptions C33_affinity_numa.

From Verif Require Import Cobalt.AffinityProofs.
Theorem C33_visit_order_head : forall (info : node_info) (origin : smap Z) (nu : string),
  In nu (numa_nodes info) ->
  origin_on (nr_numa (ni_cap info)) origin nu = true ->
  (forall y, y <> nu -> origin_on (nr_numa (ni_cap info)) origin y = false) ->
  exists rest, numa_visit_order info origin = nu :: rest.
Proof. exact visit_order_head. Qed.
Print Assumptions C33_visit_order_head.
