(* C33 — re-allocating a bound workload without change keeps its cores.
   Model: Cobalt/Realloc.v (Plugin.CalculateRealloc over builder B's GetCPUPlans).
   This file contains only the property theorems.

   FULL STATEMENT (false of the faithful model, hence of the code):
     for every node whose cores have whole-core shares (with or without NUMA),
     every bound workload on it and every keep-cpu-bind request with zero cpu
     delta and any memory delta: if CalculateRealloc grants the request, the new
     resource has exactly the origin's cpu map and NUMA node.
   It is refuted twice (both witnesses replayed on the real code by the harness
   corpus, see known_findings.d/C33.json):
     C33_numa_refuted        with NUMA, plans[0] comes from whichever NUMA node
                             Go's map iteration visits first;
     C33_fractional_refuted  a fractional bound workload gets its whole core and
                             its fragment core swapped. *)
From Coq Require Import String List ZArith.
From Verif Require Import Base.GoFloat Cpumem.Types Cpumem.Schedule Cobalt.Merge Cobalt.Realloc Cobalt.ReallocProofs.
Import ListNotations.
Local Open Scope string_scope.

Theorem C33_numa_refuted :
  match numa_run ["0"; "1"] with
  | Ok (inr (new, _)) => keeps_cores numa_origin new = false
  | _ => False
  end /\ In ["0"; "1"] (perms (numa_nodes numa_info)).
Proof. exact numa_witness. Qed.
Print Assumptions C33_numa_refuted.

Theorem C33_numa_order_dependent :
  match numa_run ["1"; "0"] with
  | Ok (inr (new, _)) => keeps_cores numa_origin new = true
  | _ => False
  end.
Proof. exact numa_witness_other_order. Qed.
Print Assumptions C33_numa_order_dependent.

Theorem C33_fractional_refuted :
  match frac_run with
  | Ok (inr (new, _)) => keeps_cores frac_origin new = false
  | _ => False
  end /\ numa_nodes frac_info = [].
Proof. exact frac_witness. Qed.
Print Assumptions C33_fractional_refuted.
