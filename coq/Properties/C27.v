(* C27 — service discovery subscribers converge to the registered set.
   Only the property theorems; model in Discovery/Helium.v, proofs in
   Discovery/StreamProofs.v and Discovery/HeliumProofs.v.

   Full statement (refuted, see C27_full_refuted): for every history, after the
   next tick every live subscriber has received exactly the registered set and
   no Unsubscribe call is left waiting.  It fails when some subscriber in the
   map neither receives nor is cancelled (C27_stall_blocks); the strongest true
   statements are C27_converge (safety, all schedules), C27_full_partial
   (liveness under "no stalled subscriber") and C27_unsub. *)
From Coq Require Import List.
From Verif Require Import Discovery.Helium Discovery.StreamProofs Discovery.HeliumProofs Discovery.OkProofs Discovery.GenProofs.
Import ListNotations.

(* store/etcdv3 ServiceStatusStream: watch before get.  Whatever is committed
   between establishing the watch and serving the Get, and however the watch
   batches later events, the last address list sent equals the registered keys. *)
Theorem C27_stream : forall keys0 between after,
  no_err (between ++ after) ->
  meq (last_item (service_status_stream true keys0 between after) [])
      (kv_apply keys0 (events_of (between ++ after))).
Proof. exact stream_converges. Qed.
Print Assumptions C27_stream.

(* every delivered message is the list most recently consumed from the stream
   (for all event scripts = all interleavings), and what a subscriber holds is
   exactly its deliveries *)
Theorem C27_latest : forall evs,
  let s := run init evs in
  deliveries_ok (trace s) /\ (forall i, recv_of s i = deliveries_of i (trace s)).
Proof. exact latest_holds. Qed.
Print Assumptions C27_latest.

(* after any history, a tick and ANY continuation of the system goroutines:
   once they are at rest every live subscriber's last message is the list the
   stream last produced *)
Theorem C27_converge : forall evs ks, Forall sys_event ks ->
  let s0 := run init evs in
  let s1 := run s0 (ETick :: ks) in
  quiescentb s1 = true ->
  forall i, liveb s1 i = true -> last_recv s1 i = Some (registered s0).
Proof. exact converge_safe. Qed.
Print Assumptions C27_converge.

(* ... and they do come to rest within drain_bound steps of the next tick when
   no subscriber is stalled; live subscribers stay live; no Unsubscribe waits *)
Theorem C27_full_partial : forall evs,
  let s0 := run init evs in
  aliveb s0 = true -> no_stallb s0 = true ->
  let s1 := drain (drain_bound s0) (step s0 ETick) in
  quiescentb s1 = true /\
  (forall i, liveb s1 i = true -> last_recv s1 i = Some (registered s0)) /\
  (forall i, liveb s0 i = true -> ~ In i (unsubq s0) -> liveb s1 i = true) /\
  unsubq s1 = [].
Proof. exact converge_live. Qed.
Print Assumptions C27_full_partial.

(* cancel-then-Unsubscribe (calcium.WatchServiceStatus) completes and closes the channel *)
Theorem C27_unsub : forall evs i,
  let s0 := run init evs in
  i < length (clients s0) ->
  let s := run s0 [ECancel i; EUnsubscribe i] in
  aliveb s = true -> no_stallb s = true ->
  let s1 := drain (drain_bound s) s in
  quiescentb s1 = true /\ In (TUnsubRet i) (trace s1) /\ ~ In i (subs s1) /\
  exists c, nth_error (clients s1) i = Some c /\ cclosed c = true.
Proof. exact unsub_completes. Qed.
Print Assumptions C27_unsub.

(* ... and when EVERY subscriber is cancelled and unsubscribed this way no
   hypothesis about stalled readers is needed: all calls return, the map is
   empty, every channel is closed *)
Theorem C27_unsub_all : forall evs,
  let s0 := run init evs in
  aliveb s0 = true ->
  let s := run s0 (cancel_all (length (clients s0))) in
  let s1 := drain (drain_bound s) s in
  quiescentb s1 = true /\ subs s1 = [] /\ unsubq s1 = [] /\
  (forall i c, nth_error (clients s1) i = Some c -> cclosed c = true).
Proof. exact unsub_all. Qed.
Print Assumptions C27_unsub_all.

(* the unrestricted statement is false of the code as it is *)
Theorem C27_full_refuted : ~ C27_full.
Proof. exact full_refuted. Qed.
Print Assumptions C27_full_refuted.

(* the defect in general: dispatch waiting on a stalled subscriber blocks
   deliveries to everybody else, stream consumption and every Unsubscribe, for ever *)
Theorem C27_stall_blocks : forall ks s cur msg,
  loop s = LDispatch cur msg -> stalledb (clients s) cur = true ->
  Forall (fun e => sys_event e \/ e = ETick) ks -> same_but_tick s (run s ks).
Proof. exact stall_blocks. Qed.
Print Assumptions C27_stall_blocks.

(* ---- the boolean check evaluated by the harness ---- *)

(* ok c = true implies the clauses of the property as propositions over the
   observed run: per slot "latest" (every message is one of the lists produced so
   far, never going back) and, across a tick with the stream alive, "converge"
   (every live subscriber's last message is the current list); at the end every
   Unsubscribe call returned and the channels of the unsubscribed are closed *)
Theorem C27_ok_reflects : forall c, ok c = true ->
  (forall pre sl post, slots c = pre ++ sl :: post -> OkProofs.slot_clause (fold_left ok_step pre (ok_init c)) sl) /\
  unsub_clause c.
Proof. exact OkProofs.ok_reflects. Qed.
Print Assumptions C27_ok_reflects.

(* ... and conversely ok accepts every run whose slots satisfy the clauses and
   whose Unsubscribe calls completed (or whose stream was closed) *)
Theorem C27_ok_complete : forall c,
  (forall pre sl post, slots c = pre ++ sl :: post -> OkProofs.slot_clause (fold_left ok_step pre (ok_init c)) sl) ->
  (o_dead (ok_final c) = true \/
   ((forall b, In b (fin_unsub c) -> b = true) /\
    length (fin_unsub c) = length (o_calls (ok_final c)) /\
    (forall i, In i (o_calls (ok_final c)) -> nth i (fin_closed c) false = true))) ->
  ok c = true.
Proof. exact OkProofs.ok_complete. Qed.
Print Assumptions C27_ok_complete.


(* ok accepts the model's own observations (canonical schedule of the system
   goroutines) for EVERY script the harness can produce (subscriber keys
   distinct, subscriber numbers in range) in which no dispatch is triggered
   while a subscriber in the map neither reads nor is cancelled -- the tag
   stall_exposed of the known finding, defined here as OkProofs.exposed *)
Theorem C27_ok_gen : forall acts,
  wf_from [] acts = true -> exposed acts = false -> ok (OkProofs.gen_case acts) = true.
Proof. exact GenProofs.ok_gen. Qed.
Print Assumptions C27_ok_gen.
