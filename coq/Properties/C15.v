(* C15 — resource repair restores consistent usage.
   Model: Cpumem/Node.v (get_diffs = getNodeResourceInfo's comparison,
   fix_node_resource = Plugin.FixNodeResource).  This file contains only the
   property theorems.

   Hypotheses, all necessary:
   - [usage_keys_in_cap]: the (arbitrarily drifted) usage mentions only cores and
     NUMA nodes of the capacity.  The comparison in getNodeResourceInfo ranges
     over the capacity's cores and NUMA nodes only, so drift on any other key
     would be invisible; NodeResourceInfo.Validate enforces this inclusion for
     cores on every write of the plugin.
   - [fits]: the recorded workloads fit the capacity (Validate accepts their sum
     as usage) and name only NUMA nodes of the capacity.
   - the workloads' cpu requests are decimals on the 1e-9 grid with a total up to
     2^49 units ([on_grid], [ktotal]); C15_fix_general replaces this by the bare
     float fact that is used ([cpu_stable]).
   Conclusion: the repair is stored, the capacity is untouched, per-core pieces,
   memory and per-NUMA memory equal the sums over the workloads, total CPU equals
   the sum in the plugin's own rounded comparison, and a second check reports no
   differences. *)
From Coq Require Import String List ZArith.
From Verif Require Import Base.GoFloat Cpumem.Types Cpumem.Node Cpumem.BookProofs Cpumem.BookCpuProofs Cpumem.BookFixProofs.
Import ListNotations.

Theorem C15_fix : forall (info : node_info) (ws : list wres),
  Forall wf_wres ws -> Forall on_grid ws -> (ktotal ws <= BND)%Z ->
  usage_keys_in_cap info -> fits (ni_cap info) ws ->
  let '(info', resp, d, failed) := fix_node_resource info ws in
  failed = false /\ ni_cap info' = ni_cap info /\
  usage_exact_int (ni_usage info') ws /\
  feq (wr_cpu_req (sum_workloads ws)) (f_round9 (nr_cpu (ni_usage info'))) = true /\
  no_diffs (get_diffs info' ws) = true.
Proof. exact fix_then_clean. Qed.
Print Assumptions C15_fix.

Theorem C15_fix_general : forall (info : node_info) (ws : list wres),
  Forall wf_wres ws -> usage_keys_in_cap info -> fits (ni_cap info) ws -> cpu_stable ws ->
  let '(info', resp, d, failed) := fix_node_resource info ws in
  failed = false /\ ni_cap info' = ni_cap info /\ resp = ni_usage info' /\
  usage_exact_int (ni_usage info') ws /\
  feq (wr_cpu_req (sum_workloads ws)) (f_round9 (nr_cpu (ni_usage info'))) = true /\
  no_diffs (get_diffs info' ws) = true.
Proof. exact fix_spec. Qed.
Print Assumptions C15_fix_general.

(* the cpu hypothesis of the general form holds on the decimal grid *)
Theorem C15_cpu_stable_on_grid : forall ws : list wres,
  Forall on_grid ws -> (ktotal ws <= BND)%Z -> cpu_stable ws.
Proof. exact cpu_stable_on_grid. Qed.
Print Assumptions C15_cpu_stable_on_grid.
