(* C15 — resource repair restores consistent usage.
   Model: Cpumem/Node.v (get_diffs = getNodeResourceInfo's comparison,
   fix_node_resource = Plugin.FixNodeResource).  This file contains only the
   property theorems.

   Hypotheses, all necessary:
   - [usage_keys_in_cap]: the (arbitrarily drifted) usage mentions only cores and
     NUMA nodes of the capacity.  The comparison in getNodeResourceInfo ranges
     over the capacity's cores and NUMA nodes only, so drift on any other key
     would be invisible; NodeResourceInfo.Validate enforces this inclusion for
     cores on every write of the plugin.
   - [fits]: the recorded workloads fit the capacity (Validate accepts their sum
     as usage) and name only NUMA nodes of the capacity.
   - the workloads' cpu requests are decimals on the 1e-9 grid with a total up to
     2^49 units ([on_grid], [ktotal]); C15_fix_general replaces this by the bare
     float fact that is used ([cpu_stable]).
   Conclusion: the repair is stored, the capacity is untouched, per-core pieces,
   memory and per-NUMA memory equal the sums over the workloads, total CPU equals
   the sum in the plugin's own rounded comparison, and a second check reports no
   differences. *)
From Coq Require Import String List ZArith.
From Verif Require Import Base.GoFloat Cpumem.Types Cpumem.Node Cpumem.BookProofs Cpumem.BookCpuProofs Cpumem.BookFixProofs.
Import ListNotations.

Theorem C15_fix : forall (info : node_info) (ws : list wres),
  Forall wf_wres ws -> Forall on_grid ws -> (ktotal ws <= BND)%Z ->
  usage_keys_in_cap info -> fits (ni_cap info) ws ->
  let '(info', resp, d, failed) := fix_node_resource info ws in
  failed = false /\ ni_cap info' = ni_cap info /\
  usage_exact_int (ni_usage info') ws /\
  feq (wr_cpu_req (sum_workloads ws)) (f_round9 (nr_cpu (ni_usage info'))) = true /\
  no_diffs (get_diffs info' ws) = true.
Proof. exact fix_then_clean. Qed.
Print Assumptions C15_fix.

Theorem C15_fix_general : forall (info : node_info) (ws : list wres),
  Forall wf_wres ws -> usage_keys_in_cap info -> fits (ni_cap info) ws -> cpu_stable ws ->
  let '(info', resp, d, failed) := fix_node_resource info ws in
  failed = false /\ ni_cap info' = ni_cap info /\ resp = ni_usage info' /\
  usage_exact_int (ni_usage info') ws /\
  feq (wr_cpu_req (sum_workloads ws)) (f_round9 (nr_cpu (ni_usage info'))) = true /\
  no_diffs (get_diffs info' ws) = true.
Proof. exact fix_spec. Qed.
Print Assumptions C15_fix_general.

(* the cpu hypothesis of the general form holds on the decimal grid *)
Theorem C15_cpu_stable_on_grid : forall ws : list wres,
  Forall on_grid ws -> (ktotal ws <= BND)%Z -> cpu_stable ws.
Proof. exact cpu_stable_on_grid. Qed.
Print Assumptions C15_cpu_stable_on_grid.

(* the repair next to a concurrent re-allocation (calcium level): both take the
   pod lock of the node.  For every schedule of the interleaving model
   (Cobalt/RepairLock.v) the usage equals the recorded sum once both operations
   have finished, and before that it differs only while the re-allocation holds
   the lock between its two writes; with the node-operation lock instead of the
   pod lock a schedule exists that ends with usage <> record. *)
From Coq Require Import ZArith.
From Verif Require Import Cobalt.RepairLock Cobalt.RepairLockProofs.

Theorem C15_repair_serialised : forall (d x : Z) (sched : list tid),
  let s := crun d LPod (cinit x) sched in
  cinv d s /\ (finished s = true -> c_usage s = c_record s).
Proof. exact repair_serialised. Qed.
Print Assumptions C15_repair_serialised.

Theorem C15_repair_needs_pod_lock :
  let s := crun 5 LNode (cinit 10) [TA; TA; TB; TB; TB; TA; TA] in
  finished s = true /\ c_usage s <> c_record s.
Proof. exact repair_needs_pod_lock. Qed.
Print Assumptions C15_repair_needs_pod_lock.

(* the hypothesis [fits] holds for the live set after ANY bookkeeping history
   (C08) from a valid empty node: the stored usage passes Validate and has the
   same lookups as the recomputed sum.  The one thing the invariants cannot give
   is that the scheduler names NUMA nodes of the capacity (Validate never checks
   it), which stays a hypothesis on the oracle values. *)
From Verif Require Import Cpumem.BookFitsProofs.

Theorem C15_live_set_fits : forall (info : node_info) (h : list op),
  inv_valid (mkState info []) -> usage_zero (ni_usage info) -> Forall op_wf h ->
  let s := run (mkState info []) h in
  (forall w k, In w (st_live s) -> In k (keys (wr_numamem w)) -> In k (keys (nr_numamem (ni_cap info)))) ->
  fits (ni_cap info) (st_live s).
Proof. exact live_fits_after_history. Qed.
Print Assumptions C15_live_set_fits.
