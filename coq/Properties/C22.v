(* C22 — pods, nodes, node resources and workloads stay referentially consistent.

   FULL STATEMENT (false of the code as it is):
     forall world w with Ref w, operations ops (add-pod / remove-pod / add-node /
     remove-node / create / remove, overlapping names, at most one injected
     failure of a store or plugin step), schedules s:
       all threads finished after s -> Ref (final world).
   It is refuted by three witnesses (a fourth, three-operation race found by exploring
   triples was repaired: RemoveNode now re-reads the node under the pod lock) (the C22_refuted theorems); what holds instead is the
   C22_partial theorems below; C22_general* are the UNBOUNDED ones (all worlds,
   all names, any number of concurrent operations of all six kinds, every
   schedule, no injected failure), proved by an ownership invariant over the
   interleaving system; the bounded explorer results are kept as instances
   (they also cover single failures).  This file contains only the property theorems. *)
From Coq Require Import List String.
From Verif Require Import Calcium.Refs Calcium.RefsProofs Calcium.RefsIsolation Calcium.RefsGeneral.
Import ListNotations.
Local Open Scope string_scope.

(* witness 1: AddNode takes no pod lock.  AddNode: plugin add, GetPod ok ||
   RemovePod: pod has no node -> no lock -> pod deleted || AddNode: node keys
   created.  The node lives in a removed pod. *)
Theorem C22_refuted_addnode_removepod :
  quiescent_bad W1 [(OAddNode "n" "p", None); (ORemovePod "p", None)] [0; 0; 1; 1; 1; 0].
Proof. exact refuted_addnode_removepod. Qed.
Print Assumptions C22_refuted_addnode_removepod.

(* witness 2: create records the workload after releasing the pod lock.
   create: alloc, unlock, node fetched || RemoveNode: node empty -> removed ||
   create: workload recorded on the missing node (and it can no longer be listed). *)
Theorem C22_refuted_create_removenode :
  quiescent_bad W2 [(OCreate "n" "x", None); (ORemoveNode "n", None)] [0; 0; 0; 0; 0; 0; 1; 1; 1; 1; 1; 1; 1; 1; 1; 0].
Proof. exact refuted_create_removenode. Qed.
Print Assumptions C22_refuted_create_removenode.

(* witness 3 (single injected failure): RemoveNode's plugin removal fails after
   the store record is gone; the rollback is empty: a resource record without node. *)
Theorem C22_refuted_removenode_fault :
  quiescent_bad W2 [(ORemoveNode "n", Some 6)] [0; 0; 0; 0; 0; 0; 0; 0; 0; 0; 0].
Proof. exact refuted_removenode_fault. Qed.
Print Assumptions C22_refuted_removenode_fault.

(* the decision procedure used below is sound for ALL schedules: if [explore]
   accepts, every run that ends with all threads finished has a good verdict *)
Theorem C22_explore_sound : forall fuel good w ts tr, explore fuel good w ts tr = true ->
  forall sched w' ts' tr', run_sched w ts sched tr = (w', ts', tr') ->
  forallb finished ts' = true -> good w' tr' = true.
Proof. exact explore_sound. Qed.
Print Assumptions C22_explore_sound.

(* GENERAL (unbounded): ANY world with Ref, distinct node names and no lock
   held; ANY list of AddPod / RemovePod / AddNode / RemoveNode / create (one
   instance) / remove-workload operations (any number, any names, repeated and
   overlapping); EVERY schedule; no injected failure.  When all operations have
   finished, Ref holds or the trace contains one of the two check-then-act
   overlaps (witness 1's and witness 2's windows).  Proof: inductive invariant
   over the interleaving system (RefsGeneral.v): ownership of resource records
   without a node by exactly one in-flight AddNode / RemoveNode, lock table =
   the lock footprints of the control states (pod locks and workload locks),
   per control-state assertions about the trace; no bound, no exploration.
   [rop_of] maps the six operation kinds (RefsGeneral.pnop) to Refs.rop. *)
Theorem C22_general : forall w ops sched w' ts' tr,
  ref_ok w = true -> NoDup (node_names w) -> held w = [] ->
  run_sched w (mk_threads (map (fun o => (rop_of o, None)) ops)) sched [] = (w', ts', tr) ->
  forallb finished ts' = true ->
  ref_ok w' = true \/ window_addnode_removepod tr = true \/ window_create_removenode tr = true.
Proof. exact general_quiescent. Qed.
Print Assumptions C22_general.

(* ... and at EVERY reachable state (operations still in flight): every node's
   pod exists, every node has its resource record, every workload's node
   exists - unless one of the overlaps has happened.  (Only "every resource
   record has a node" is a quiescent-only clause: an in-flight AddNode /
   RemoveNode owns its record.) *)
Theorem C22_general_always : forall w ops sched w' ts' tr,
  ref_ok w = true -> NoDup (node_names w) -> held w = [] ->
  run_sched w (mk_threads (map (fun o => (rop_of o, None)) ops)) sched [] = (w', ts', tr) ->
  window_addnode_removepod tr = true \/ window_create_removenode tr = true \/
  ((forall n p, In (n, p) (nodes w') -> In p (pods w')) /\
   (forall n p, In (n, p) (nodes w') -> In n (nres w')) /\
   (forall id n, In (id, n) (wls w') -> In n (node_names w'))).
Proof. exact general_always. Qed.
Print Assumptions C22_general_always.

(* ... and no reachable state is a deadlock: some operation can take a step
   until all have finished (an operation waits for a pod lock holding nothing,
   and for a workload lock holding one pod lock; holders of workload locks never
   wait).  Nothing is claimed after an overlap. *)
Theorem C22_general_no_deadlock : forall w ops sched w' ts' tr,
  ref_ok w = true -> NoDup (node_names w) -> held w = [] ->
  run_sched w (mk_threads (map (fun o => (rop_of o, None)) ops)) sched [] = (w', ts', tr) ->
  window_addnode_removepod tr = true \/ window_create_removenode tr = true \/
  forallb finished ts' = true \/ enabled_steps w' ts' <> [].
Proof. exact general_no_deadlock. Qed.
Print Assumptions C22_general_no_deadlock.

(* PARTIAL 1 (bounded universe, all schedules): for every world of u_worlds
   (empty; pod; pod+node; pod+node+workload; two pods with a node each), every
   ordered pair of operations of u_ops (add-pod, remove-pod, add-node x2,
   remove-node, create x2, remove-workload) and EVERY schedule: the run never
   deadlocks, and at quiescence Ref holds unless the trace contains one of the
   two named check-then-act windows. *)
Theorem C22_partial_pairs : forall w a b sched w' ts' tr',
  In w u_worlds -> In a u_ops -> In b u_ops ->
  run_sched w (mk_threads [(a, None); (b, None)]) sched [] = (w', ts', tr') ->
  (forallb finished ts' = true \/ enabled_steps w' ts' <> []) /\
  (forallb finished ts' = true ->
   ref_ok w' = true \/ window_addnode_removepod tr' = true \/ window_create_removenode tr' = true).
Proof. exact pairs_partial. Qed.
Print Assumptions C22_partial_pairs.

(* PARTIAL 1b: all TRIPLES of the pod / node operations (add-pod, remove-pod,
   add-node, remove-node on the worlds {pod} and {pod, node}), every schedule *)
Theorem C22_partial_triples : forall w a b c sched w' ts' tr',
  In w t_worlds -> In a t_ops -> In b t_ops -> In c t_ops ->
  run_sched w (mk_threads [(a, None); (b, None); (c, None)]) sched [] = (w', ts', tr') ->
  (forallb finished ts' = true \/ enabled_steps w' ts' <> []) /\
  (forallb finished ts' = true ->
   ref_ok w' = true \/ window_addnode_removepod tr' = true \/ window_create_removenode tr' = true).
Proof. exact triples_partial. Qed.
Print Assumptions C22_partial_triples.

(* PARTIAL 2: every operation run in isolation preserves Ref *)
Theorem C22_partial_isolation : forall w a sched w' ts' tr',
  In w u_worlds -> In a u_ops ->
  run_sched w (mk_threads [(a, None)]) sched [] = (w', ts', tr') ->
  forallb finished ts' = true -> ref_ok w' = true.
Proof. exact isolation_partial. Qed.
Print Assumptions C22_partial_isolation.

(* PARTIAL 3: with one injected failure at any store / plugin step of any
   operation, Ref is preserved except for witness 3 and for a failure injected
   into AddNode's own compensation step *)
Theorem C22_partial_single_fault : forall w a fl sched w' ts' tr',
  In w u_worlds -> In a u_ops -> In fl fault_opts ->
  run_sched w (mk_threads [(a, fl)]) sched [] = (w', ts', tr') ->
  forallb finished ts' = true ->
  ref_ok w' = true \/ fault_removenode_plugin tr' = true \/ addnode_rollback_failed tr' = true.
Proof. exact single_fault_partial. Qed.
Print Assumptions C22_partial_single_fault.

(* UNBOUNDED partial theorems: for ALL worlds satisfying Ref (any pods, nodes,
   records, workloads, any names) the pod / node operations run in isolation
   preserve Ref; AddNode and RemoveNode do so under every placement of a single
   injected failure, except when the failure hits AddNode's own compensation
   (fault index 2 or 3 = the plugin removal after a failed store step) or
   RemoveNode's plugin removal (index 6, witness 3; indices 3 and 5 are the node-status set / delete whose results the code ignores).  [RefP] is the Prop form of
   ref_ok (C22_ref_reflect); [run1] runs one thread alone (= run_sched with the
   constant schedule, RefsIsolation.run1_sched). *)
Theorem C22_ref_reflect : forall w, ref_ok w = true <-> RefP w.
Proof. exact ref_ok_RefP. Qed.
Print Assumptions C22_ref_reflect.

Theorem C22_isolation_add_pod : forall w p, RefP w ->
  let '(w', t') := run1 4 w (mkTh (add_pod p) 0 None) in finished t' = true /\ RefP w'.
Proof. exact add_pod_ref. Qed.
Print Assumptions C22_isolation_add_pod.

Theorem C22_isolation_remove_pod : forall w p, RefP w -> held w = nil ->
  let '(w', t') := run1 8 w (mkTh (remove_pod p) 0 None) in finished t' = true /\ RefP w'.
Proof. exact remove_pod_ref. Qed.
Print Assumptions C22_isolation_remove_pod.

Theorem C22_single_fault_add_node : forall w n p fl, RefP w ->
  let '(w', t') := run1 8 w (mkTh (add_node n p) 0 fl) in
  finished t' = true /\ (RefP w' \/ exists j, fl = Some j /\ (j = 2 \/ j = 3)%nat).
Proof. exact add_node_ref. Qed.
Print Assumptions C22_single_fault_add_node.

Theorem C22_single_fault_remove_node : forall w n fl, RefP w -> held w = nil ->
  let '(w', t') := run1 14 w (mkTh (remove_node n) 0 fl) in
  finished t' = true /\ (RefP w' \/ fl = Some 6%nat).
Proof. exact remove_node_ref. Qed.
Print Assumptions C22_single_fault_remove_node.
