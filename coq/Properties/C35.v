(* C35 — RPC authentication accepts exactly matching credentials.
   This file contains only the property theorems.

   [rpc k std us ps uc pc] is one call of kind k (unary / streaming) from a
   client configured with (uc, pc) to a server configured with (us, ps), through
   the modelled gRPC transport whose own headers are [std] (any list of protocol
   headers).  The client's credentials are arbitrary strings (in particular any
   pair valid as metadata, or no credentials at all: uc = ""). *)
From Coq Require Import String List.
From Verif Require Import Rpc.Auth Rpc.AuthProofs.

(* served iff the caller presents the configured user name (as gRPC metadata
   keys compare: up to ASCII case) with the configured password *)
Theorem C35_auth : forall k std us ps uc pc,
  std_only std = true -> valid_key us = true ->
  (rpc k std us ps uc pc = Accept <-> matching us ps uc pc).
Proof. exact auth_iff. Qed.
Print Assumptions C35_auth.

(* a client configured with the same credentials as the server is always accepted *)
Theorem C35_same_credentials : forall k std u p,
  std_only std = true -> valid_cred u p = true -> rpc k std u p u p = Accept.
Proof. exact same_credentials_accepted. Qed.
Print Assumptions C35_same_credentials.

(* right user, wrong password: refused with the password error *)
Theorem C35_wrong_password : forall k std us ps uc pc,
  std_only std = true -> valid_key us = true ->
  lower uc = lower us -> pc <> ps -> rpc k std us ps uc pc = RejPass.
Proof. exact reject_kind. Qed.
Print Assumptions C35_wrong_password.

(* core.go installs no interceptor when no user name is configured *)
Theorem C35_unconfigured : forall k std ps uc pc, rpc k std EmptyString ps uc pc = Accept.
Proof. exact unconfigured_serves_all. Qed.
Print Assumptions C35_unconfigured.

(* the boolean check evaluated on the implementation's answers is the property *)
Theorem C35_ok_spec : forall c, in_domain (c_us c) = true ->
  (ok c = true <->
   served_iff_match (c_us c) (c_ps c) (c_uc c) (c_pc c) (obs_unary c) /\
   served_iff_match (c_us c) (c_ps c) (c_uc c) (c_pc c) (obs_stream c)).
Proof. exact ok_spec. Qed.
Print Assumptions C35_ok_spec.

(* ... and it accepts the model on every input *)
Theorem C35_ok_on_model : forall std us ps uc pc md',
  std_only std = true ->
  ok (mkCase us ps uc pc md' (rpc Unary std us ps uc pc) (rpc Stream std us ps uc pc)) = true.
Proof. exact ok_on_model. Qed.
Print Assumptions C35_ok_on_model.

(* before the repair (meta[b.username] verbatim) the property was false:
   identical credentials "Admin"/"secret" on both sides were refused *)
Theorem C35_verbatim_lookup_refuted : exists std u p,
  std_only std = true /\ valid_cred u p = true /\
  rpc_verbatim Unary std u p u p = RejUser /\ rpc_verbatim Stream std u p u p = RejUser.
Proof. exact verbatim_refuted. Qed.
Print Assumptions C35_verbatim_lookup_refuted.
