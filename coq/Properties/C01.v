(* C01 — deploy plans respect the requested count and each node's capacity.
   Only theorem statements here; proofs are in Strategy/Proofs*.v.

   [deploy s need limit infos total] is the model of strategy.Deploy
   (Strategy/Model.v).  [valid_infos]: distinct names, 0 <= capacity, 0 <= count
   (usage and rate arbitrary).  [C01_spec s need limit infos p]:
     keys of p are distinct candidate names; 0 <= p n <= cap n for every candidate;
     AUTO/GLOBAL/DRAINED: sum p = need;
     EACH: exactly limit' keys (limit' = limit, or all nodes when 0), each with value need;
     FILL: exactly limit' keys, each selected node ends at max(count, need);
     AUTO with limit <> 0: count n + p n <= limit for every node that received >= 1. *)
From Coq Require Import String ZArith List Permutation Sorted.
From Verif Require Import Base.GoInt Base.GoSort Base.GoSortSpec Strategy.Model Strategy.ProofsBase
  Strategy.ProofsSort Strategy.Proofs Strategy.ProofsOk Strategy.ProofsOld Strategy.Statements Strategy.Glue Strategy.ProofsGlue Strategy.ProofsProj Strategy.ModelW Strategy.ProofsW Strategy.ProofsW2 Calcium.DeployPath Calcium.DeployPathProofs Calcium.DeployPathCaps Calcium.DeployPathCommit.
Local Open Scope Z_scope.

(* full statement, all five strategies, all tables / counts / limits / totals *)
Theorem C01_plans_sound :
  forall infos need limit total,
  valid_infos infos -> 0 < need -> 0 <= limit ->
  forall s p, is_plan (deploy s need limit infos total) p -> C01_spec s need limit infos p.
Proof. exact C01_sound. Qed.
Print Assumptions C01_plans_sound.

(* EACH / FILL / DRAINED for every sorted permutation sort.Slice may produce *)
(* the sort-based strategies for EVERY sorted permutation sort.Slice may produce *)
Theorem C01_any_sorted_order :
  (forall infos sorted need limit,
  valid_infos infos -> Permutation infos sorted -> Sorted (ngt each_less) sorted -> 0 < need -> 0 <= limit ->
  forall p, each_from sorted need (each_limit infos limit) = Ok p -> C01_spec Each need limit infos p) /\
  (forall infos sorted need limit,
  valid_infos infos -> Permutation infos sorted -> Sorted (ngt fill_less) sorted -> 0 <= limit ->
  forall r p, fill_from sorted need (each_limit infos limit) = r -> is_plan r p ->
  C01_spec Fill need limit infos p /\ (r = AlreadyFilled p -> plan_sum p = 0)) /\
  (forall infos sorted need total,
  valid_infos infos -> Permutation infos sorted -> Sorted (ngt drained_less) sorted -> 0 < need ->
  forall p limit, drained_from sorted need total = Ok p -> C01_spec Drained need limit infos p).
Proof. exact (conj each_C01 (conj fill_C01 drained_C01_limit)). Qed.
Print Assumptions C01_any_sorted_order.

(* ErrAlreadyFilled is returned only by FILL and plans nothing *)
Theorem C01_already_filled :
  forall infos need limit total,
  valid_infos infos -> 0 < need -> 0 <= limit ->
  forall s p, deploy s need limit infos total = AlreadyFilled p -> s = Fill /\ plan_sum p = 0.
Proof. exact already_filled_fill. Qed.
Print Assumptions C01_already_filled.

(* the boolean check decides the specification, and the model's output passes it *)
(* the boolean check evaluated on the implementation's output decides the specification ... *)
(* ... and the model's own output always passes it *)
Theorem C01_ok_reflects_and_sound :
  (forall s need limit infos p,
  C01_plan_ok s need limit infos p = true <-> C01_spec s need limit infos p) /\
  (forall s need limit infos total ord,
  C01_ok (mkCase s need limit infos total (deploy s need limit infos total) ord) = true).
Proof. exact (conj C01_reflect C01_ok_model). Qed.
Print Assumptions C01_ok_reflects_and_sound.

(* non-vacuity: a valid table on which every strategy returns a plan *)
Theorem C01_hypotheses_satisfiable :
  valid_infos ex_infos /\
  (exists p, deploy Auto 4 3 ex_infos max_int = Ok p) /\
  (exists p, deploy Global 5 0 ex_infos max_int = Ok p) /\
  (exists p, deploy Drained 5 0 ex_infos max_int = Ok p) /\
  (exists p, deploy Each 2 2 ex_infos max_int = Ok p) /\
  (exists p, deploy Fill 4 2 ex_infos max_int = Ok p) /\
  feasible Auto 4 3 ex_infos = true /\ feasible Fill 4 2 ex_infos = true /\
  feasible Each 2 0 ex_infos = true /\ feasible Auto 5 3 ex_infos = false.
Proof. exact (conj ex_valid ex_all_strategies_plan). Qed.
Print Assumptions C01_hypotheses_satisfiable.

(* through the glue doGetDeployStrategy (cluster/calcium/resource.go), for every
   iteration order of the capacity map *)
Theorem C01_glue :
  forall caps order status need limit total,
  valid_caps caps status -> Permutation caps order -> 0 < need -> 0 <= limit ->
  forall s p, glue s need limit order status total = Ok p ->
  C01_spec s need limit (glue_infos order status) p.
Proof. exact glue_C01. Qed.
Print Assumptions C01_glue.

(* comparison modulo ties: projection and outcome class are the same for all sorted permutations *)
(* The comparison "modulo ties" the correspondence check uses for slices longer
   than 12 (unstable pdqsort) is well defined: any two sorted permutations give the
   same multiset of projected tuples (attributes the strategy reads, plan entry). *)
(* ... and the outcome class (plan / already filled / which refusal) does not depend
   on the sorted permutation either *)
Theorem C01_ties_well_defined :
  (forall infos s1 s2 need limit,
  valid_infos infos -> Permutation infos s1 -> Permutation infos s2 ->
  Sorted (ngt each_less) s1 -> Sorted (ngt each_less) s2 -> 0 <= limit ->
  forall p1 p2, each_from s1 need (each_limit infos limit) = Ok p1 ->
  each_from s2 need (each_limit infos limit) = Ok p2 ->
  Permutation (map (proj Each p1) infos) (map (proj Each p2) infos)) /\
  (forall infos s1 s2 need limit,
  valid_infos infos -> Permutation infos s1 -> Permutation infos s2 ->
  Sorted (ngt fill_less) s1 -> Sorted (ngt fill_less) s2 -> 0 <= limit ->
  forall r1 r2 p1 p2, fill_from s1 need (each_limit infos limit) = r1 -> is_plan r1 p1 ->
  fill_from s2 need (each_limit infos limit) = r2 -> is_plan r2 p2 ->
  Permutation (map (proj Fill p1) infos) (map (proj Fill p2) infos)) /\
  (forall infos s1 s2 need total,
  valid_infos infos -> (forall x, In x infos -> GoFloat.f_finite (usage x) = true) ->
  Permutation infos s1 -> Permutation infos s2 ->
  Sorted (ngt drained_less) s1 -> Sorted (ngt drained_less) s2 -> 0 < need ->
  forall p1 p2, drained_from s1 need total = Ok p1 -> drained_from s2 need total = Ok p2 ->
  Permutation (map (proj Drained p1) infos) (map (proj Drained p2) infos)) /\
  (forall infos s1 s2 need limit,
  Permutation infos s1 -> Permutation infos s2 ->
  Sorted (ngt each_less) s1 -> Sorted (ngt each_less) s2 -> 0 <= limit ->
  res_class_eqb (each_from s1 need (each_limit infos limit)) (each_from s2 need (each_limit infos limit)) = true) /\
  (forall infos s1 s2 need limit,
  valid_infos infos -> Permutation infos s1 -> Permutation infos s2 ->
  Sorted (ngt fill_less) s1 -> Sorted (ngt fill_less) s2 -> 0 <= limit ->
  res_class_eqb (fill_from s1 need (each_limit infos limit)) (fill_from s2 need (each_limit infos limit)) = true) /\
  (forall infos s1 s2 need total,
  valid_infos infos -> Permutation infos s1 -> Permutation infos s2 -> 0 < need ->
  res_class_eqb (drained_from s1 need total) (drained_from s2 need total) = true).
Proof. exact (conj each_proj_invariant (conj fill_proj_invariant (conj drained_proj_invariant (conj each_class_invariant (conj fill_class_invariant drained_class_invariant))))). Qed.
Print Assumptions C01_ties_well_defined.

(* int64 twin equals the Z model on the domain; the theorem for the twin *)
(* ---- int64 ---- the twin model with every + and - wrapped to int64 (the one the
   correspondence check runs) equals the Z model on the domain; so the theorem also
   holds for the int64 twin there, and the domain conditions are needed *)
Theorem C01_int64 :
  (forall s need limit infos total,
  NoDup (names infos) -> dom64 s need limit infos ->
  deploy_fullW s need limit infos total = deploy_full s need limit infos total) /\
  (forall s need limit infos total,
  NoDup (names infos) -> dom64 s need limit infos ->
  forall p, is_plan (deployW s need limit infos total) p -> C01_spec s need limit infos p).
Proof. exact (conj deploy_fullW_eq C01_sound_W). Qed.
Print Assumptions C01_int64.

Theorem C01_int64_domain_needed :
  ((exists p, deployW Fill max_int 0 w_fill_wrap max_int = AlreadyFilled p /\ plan_sum p <> 0) /\
   (exists p, deploy Fill max_int 0 w_fill_wrap max_int = Ok p) /\
   int64_domain Fill max_int 0 w_fill_wrap = false) /\
  (deployW Auto 4 0 w_auto_wrap 10 <> deploy Auto 4 0 w_auto_wrap 10 /\
   int64_domain Auto 4 0 w_auto_wrap = false).
Proof. exact (conj fill_todeploy_wraps auto_count_wraps). Qed.
Print Assumptions C01_int64_domain_needed.

(* composed deploy path (Calcium/DeployPath.v, details in Calcium/DeployPathProofs.v) *)
(* ---- the composed deploy path (Calcium/DeployPath.v): cpumem capacity -> cobalt
   aggregation -> doGetDeployStrategy -> strategy.Deploy -> per-node Alloc.
   [path_hyps]: valid request, distinct node names, the plugin computed [caps],
   capacities are Go ints (named hypothesis caps_int64), deploy status >= 0,
   [morder] any iteration order of the merged capacity map. ---- *)

(* (b) every planned allocation is accepted by the plugin on the unchanged node *)
(* (b) for any set of plugins: the planned count is within every plugin's capacity *)
(* (c) a node that some plugin does not offer never receives instances *)
Theorem C01_path :
  (forall sortf base maxshare raw req orders nodes caps morder status need limit s p n,
  path_hyps sortf base maxshare raw req orders nodes caps morder status need limit ->
  deploy_path sortf base maxshare raw orders nodes morder status s need limit = PResult (Ok p) ->
  In n nodes -> 1 <= mget p (fst n) ->
  alloc_accepts sortf base maxshare raw orders n (mget p (fst n)) = true) /\
  (forall (answers : list Merge.famap) morder status need limit,
  answers <> nil ->
  (forall a, In a answers -> NoDup (map fst a)) ->
  (forall a k v, In a answers -> In (k, v) a -> 0 <= Merge.n_cap v <= max_int) ->
  (forall k, 0 <= mget status k) ->
  Permutation (entries_of (fst (Merge.gndc_f answers))) morder ->
  0 < need -> 0 <= limit ->
  forall s p n a i,
  manager_then_deploy answers morder status s need limit = Ok p ->
  In a answers -> Merge.lookup n a = Some i -> 0 <= mget p n <= Merge.n_cap i) /\
  (forall (answers : list Merge.famap) morder status need limit,
  answers <> nil ->
  (forall a, In a answers -> NoDup (map fst a)) ->
  (forall a k v, In a answers -> In (k, v) a -> 0 <= Merge.n_cap v <= max_int) ->
  (forall k, 0 <= mget status k) ->
  Permutation (entries_of (fst (Merge.gndc_f answers))) morder ->
  0 < need -> 0 <= limit ->
  forall s p n,
  manager_then_deploy answers morder status s need limit = Ok p ->
  mhas p n = true -> forall a, In a answers -> In n (map fst a)) /\
  (forall sortf base maxshare raw req orders nodes caps morder status need limit s p n c,
  path_hyps sortf base maxshare raw req orders nodes caps morder status need limit ->
  deploy_path sortf base maxshare raw orders nodes morder status s need limit = PResult (Ok p) ->
  In (n, c) caps -> Calc.cap_capacity c <= 0 -> mhas p n = false /\ mget p n = 0).
Proof. exact (conj deploy_path_alloc_accepted (conj path_within_every_plugin (conj path_only_offered deploy_path_not_offered))). Qed.
Print Assumptions C01_path.

(* the hypothesis caps_int64 inside [path_hyps] follows from the node records being Go
   ints with well-formed maps (builder B's get_cpu_plans_content): [nodes_ok] *)
Theorem C01_path_hyps_discharged :
  forall (sortf : list Schedule.keyed -> Types.outcome (list Schedule.keyed)),
  (forall l, exists l', sortf l = Types.Ok l' /\ Permutation l' l) ->
  forall base maxshare (raw req : Types.wreq) orders nodes caps morder status need limit,
  Types.wreq_validate raw = Datatypes.inr req -> NoDup (map fst nodes) -> 0 < base -> nodes_ok orders nodes ->
  plugin_caps sortf base maxshare req orders nodes = Types.Ok caps ->
  (forall k, 0 <= mget status k) ->
  Permutation (entries_of (fst (Capacity.manager_capacity caps))) morder ->
  0 < need -> 0 <= limit ->
  path_hyps sortf base maxshare raw req orders nodes caps morder status need limit.
Proof. exact path_hyps_of_nodes. Qed.
Print Assumptions C01_path_hyps_discharged.

(* (d) commit step along the path: a node that received instances keeps its capacity and
   its memory usage grows by exactly planned count * memory request *)
Theorem C01_path_commit :
  forall sortf base maxshare (raw req : Types.wreq) orders nodes caps morder status need limit s p n,
  path_hyps sortf base maxshare raw req orders nodes caps morder status need limit ->
  deploy_path sortf base maxshare raw orders nodes morder status s need limit = PResult (Ok p) ->
  In n nodes -> 1 <= mget p (fst n) ->
  exists info', node_after sortf base maxshare raw orders n (mget p (fst n)) = Some info' /\
    Types.ni_cap info' = Types.ni_cap (snd n) /\
    Types.nr_mem (Types.ni_usage info') =
      Types.nr_mem (Types.ni_usage (snd n)) + mget p (fst n) * Types.rq_mem_req req.
Proof. exact deploy_path_commit. Qed.
Print Assumptions C01_path_commit.

(* (d, cpu side): on every node that received instances the usage of every core grows by
   exactly what the recorded workloads bind on it, as many workloads as planned are
   recorded, and the node record stays valid (per-core usage <= capacity, memory <= capacity) *)
Theorem C01_path_commit_cpu :
  forall (sortf : list Schedule.keyed -> Types.outcome (list Schedule.keyed)),
  (forall l, exists l', sortf l = Types.Ok l' /\ Permutation l' l) ->
  forall base maxshare (raw req : Types.wreq) orders nodes caps morder status need limit s p n,
  path_hyps sortf base maxshare raw req orders nodes caps morder status need limit ->
  0 < base -> SchedCase.valid_node (snd n) = true -> NoDup (orders (fst n)) -> ~ In EmptyString (orders (fst n)) ->
  deploy_path sortf base maxshare raw orders nodes morder status s need limit = PResult (Ok p) ->
  In n nodes -> 1 <= mget p (fst n) ->
  exists eps ws,
    Calc.calculate_deploy_g sortf (snd n) base maxshare (mget p (fst n)) raw (orders (fst n)) (Schedule.default_fuel (snd n))
      = Types.Ok (Datatypes.inr (eps, ws)) /\
    node_after sortf base maxshare raw orders n (mget p (fst n)) = Some (Calc.commit_usage (snd n) ws) /\
    length ws = Z.to_nat (mget p (fst n)) /\
    (forall id, Types.lookup 0 (Types.nr_cpumap (Types.ni_usage (Calc.commit_usage (snd n) ws))) id =
                Types.lookup 0 (Types.nr_cpumap (Types.ni_usage (snd n))) id
                + SchedProofsFit.used (map Types.wr_cpumap ws) id) /\
    Types.validate_ok (Calc.commit_usage (snd n) ws) = true.
Proof. exact deploy_path_commit_cpu. Qed.
Print Assumptions C01_path_commit_cpu.
