(* C01 — deploy plans respect the requested count and each node's capacity. *)
From Coq Require Import String ZArith List.
From Verif Require Import Base.GoInt Strategy.Model Strategy.ProofsOld.

Theorem C01_fill_fixed_witness : deploy Fill 3 0 w_fill max_int = Ok [("u"%string, 2%Z)].
Proof. exact fill_fixed_witness. Qed.
Print Assumptions C01_fill_fixed_witness.
