(* C23 — the etcd and Redis metadata stores behave identically; a failed create
   leaves the store unchanged.  This file contains only the property theorems.

   Full statement (kept visible): for every operation history h over safe names,
     run estep e_init h  ~  run spec_step s_init h  ~  run rstep r_init h
   (same success/failure and payload for every operation, same abstract state),
   and on both stores a create that fails leaves every read-only call unchanged.
   The etcd half is proved for all histories.  The Redis half is false of the
   faithful model (C23_redis_refuted, C23_redis_failed_create_changes); it is
   proved for all histories whose steps are redis-safe (Spec.redis_safe, a
   decidable condition on the abstract state): C23_redis_refines_spec_partial,
   C23_equiv, C23_redis_failed_create_noop_partial. *)
From Verif Require Import Store.KVPrims Store.Ops Store.Spec Store.EtcdModel Store.RedisModel Store.Case
  Store.EtcdProofs Store.RedisProofs Store.C23Proofs Store.KeyStrings Store.RedisGlob Store.ScanOracle Store.Concurrent Store.ConcurrentProofs Store.BatchOp Store.BatchOpProofs.

Theorem C23_etcd_refines_spec : etcd_refines_spec_stmt.
Proof. exact etcd_refines_spec_holds. Qed.
Print Assumptions C23_etcd_refines_spec.

Theorem C23_etcd_step_refines : etcd_step_refines_stmt.
Proof. exact etcd_step_refines_holds. Qed.
Print Assumptions C23_etcd_step_refines.

Theorem C23_failed_create_noop : etcd_failed_create_noop_stmt.
Proof. exact etcd_failed_create_noop_holds. Qed.
Print Assumptions C23_failed_create_noop.

Theorem C23_spec_failed_create_noop : spec_failed_create_noop_stmt.
Proof. exact spec_failed_create_noop. Qed.
Print Assumptions C23_spec_failed_create_noop.

Theorem C23_redis_refuted : redis_refuted_stmt.
Proof. exact redis_refuted_holds. Qed.
Print Assumptions C23_redis_refuted.

Theorem C23_redis_failed_create_changes : redis_failed_create_changes_stmt.
Proof. exact redis_failed_create_changes_holds. Qed.
Print Assumptions C23_redis_failed_create_changes.

Theorem C23_redis_refines_spec_partial : redis_refines_spec_partial_stmt.
Proof. exact redis_refines_spec_partial_holds. Qed.
Print Assumptions C23_redis_refines_spec_partial.

Theorem C23_equiv : equiv_stmt.
Proof. exact equiv_holds. Qed.
Print Assumptions C23_equiv.

Theorem C23_redis_failed_create_noop_partial : redis_failed_create_noop_partial_stmt.
Proof. exact redis_failed_create_noop_partial_holds. Qed.
Print Assumptions C23_redis_failed_create_noop_partial.

(* the string level of the shared key layout: for names without '/' and ':' the
   key formats are injective and every prefix read / "prefix*" pattern selects
   exactly the structural matches the models use *)
Theorem C23_key_strings_injective : render_injective_stmt.
Proof. exact render_injective. Qed.
Print Assumptions C23_key_strings_injective.

Theorem C23_prefix_scans_exact : scans_exact_stmt.
Proof. exact scans_exact_holds. Qed.
Print Assumptions C23_prefix_scans_exact.

(* Redis: the key patterns as globs (matcher of coq/Names, C24) select exactly the
   structural matches; escapeGlob makes metacharacters in names harmless *)
Theorem C23_redis_patterns_exact : redis_patterns_exact_stmt.
Proof. exact redis_patterns_exact_holds. Qed.
Print Assumptions C23_redis_patterns_exact.

(* Redis: for every order in which SCAN may return the keys, a limited pattern
   read fetches exactly min(limit, matches) matching records (the count of the
   etcd range read), and the same set when the limit does not truncate *)
Theorem C23_redis_scan_order_oracle : scan_oracle_stmt.
Proof. exact scan_oracle_holds. Qed.
Print Assumptions C23_redis_scan_order_oracle.

(* ---- two concurrent writers.  "The same observable metadata afterwards" is
   read as linearizability: whatever the interleaving of the atomic steps
   (transactions / MULTI blocks / single commands) of two Store calls, both
   calls return what they return in one of the two sequential orders and the
   store ends in the state of that order.

   etcd: every writing method except AddWorkload-with-processing is a single
   transaction (C23_conc_etcd_atomic_pair); two AddWorkload calls on one
   processing counter -- Get, then the compare-value transaction in a retry
   loop -- are linearizable under every schedule and return after at most three
   own steps each (C23_conc_etcd_add_add_linearizable / _terminates).
   AddWorkload-with-processing against DeleteProcessing is linearizable under
   every schedule since the repair 85b2a9b (C23_conc_etcd_add_del_linearizable).
   redis: every writing method except UpdateWorkload is one MULTI block or one
   command (C23_conc_redis_atomic_pair); UpdateWorkload (EXISTS, then MULTI{SET})
   is not linearizable: a RemoveWorkload in the window is undone
   (C23_conc_redis_update_window_refuted). ---- *)
Theorem C23_conc_etcd_atomic_pair : atomic_pair_linearizable_stmt.
Proof. exact atomic_pair_linearizable_holds. Qed.
Print Assumptions C23_conc_etcd_atomic_pair.

Theorem C23_conc_etcd_add_add_linearizable : add_add_linearizable_stmt.
Proof. exact add_add_linearizable_holds. Qed.
Print Assumptions C23_conc_etcd_add_add_linearizable.

Theorem C23_conc_etcd_add_add_terminates : add_add_terminates_stmt.
Proof. exact add_add_terminates_holds. Qed.
Print Assumptions C23_conc_etcd_add_add_terminates.

Theorem C23_conc_etcd_add_del_linearizable : add_del_linearizable_stmt.
Proof. exact add_del_linearizable_holds. Qed.
Print Assumptions C23_conc_etcd_add_del_linearizable.

Theorem C23_conc_redis_atomic_pair : ratomic_pair_linearizable_stmt.
Proof. exact ratomic_pair_linearizable_holds. Qed.
Print Assumptions C23_conc_redis_atomic_pair.

Theorem C23_conc_etcd_decr_delete_window_closed : etcd_decr_delete_window_closed_stmt.
Proof. exact etcd_decr_delete_window_closed_holds. Qed.
Print Assumptions C23_conc_etcd_decr_delete_window_closed.

Theorem C23_conc_redis_update_window_refuted : redis_update_window_stmt.
Proof. exact redis_update_window_holds. Qed.
Print Assumptions C23_conc_redis_update_window_refuted.

(* ---- doBatchOp and its split into commits of at most 125 operations: a batch
   of at most 125 keys is exactly the single transaction of the etcd model, for
   every commit order (all conditioned batches of the Store methods have at most
   5 keys); a condition-free batch of any size (UpdateNodes) leaves the same
   key-value content as one transaction, for every commit order ---- *)
Theorem C23_batch_small_is_one_txn : small_batch_stmt.
Proof. exact small_batch_holds. Qed.
Print Assumptions C23_batch_small_is_one_txn.

Theorem C23_batch_conditioned_small : conditioned_batches_small_stmt.
Proof. exact conditioned_batches_small_holds. Qed.
Print Assumptions C23_batch_conditioned_small.

Theorem C23_batch_big_put_any_order : big_put_stmt.
Proof. exact big_put_holds. Qed.
Print Assumptions C23_batch_big_put_any_order.
