(* C07 — the reported deploy capacity equals what an allocation accepts.
   Models: Cpumem/Calc.v (builder B: node_capacity = doGetNodeDeployCapacity,
   calculate_deploy = CalculateDeploy, commit_usage), Cobalt/Capacity.v (plugin
   and manager GetNodesDeployCapacity), Cobalt/Merge.v (the manager's total,
   after the `fix:` that makes it saturate).  This file contains only the
   property theorems.  [sortf] is the final sort of getFullCPUPlans (any
   function; Go's sort.Slice is unstable), [order] the NUMA iteration order,
   [fuel] the loop fuel: the theorems hold for every value of each. *)
From Coq Require Import String List ZArith Permutation.
From Verif Require Import Base.GoInt Base.GoFloat Cpumem.Types Cpumem.Schedule Cpumem.Calc
  Cobalt.Merge Cobalt.Capacity Cobalt.CapacityProofs.
Import ListNotations.
Local Open Scope Z_scope.

(* the capacity reported for a node is exactly the largest instance count that
   CalculateDeploy accepts on it (bound and memory-only requests; a memory
   request of zero means unlimited: capacity MaxInt, every count accepted) *)
Theorem C07_capacity_is_max : forall sortf info base maxshare raw req order fuel count c,
  wreq_validate raw = inr req -> 1 <= count <= max_int ->
  node_capacity_g sortf info base maxshare req order fuel = Ok c ->
  ((exists r, calculate_deploy_g sortf info base maxshare count raw order fuel = Ok (inr r))
   <-> count <= cap_capacity c).
Proof. exact capacity_is_max. Qed.
Print Assumptions C07_capacity_is_max.

(* nodes with zero capacity are not offered by the manager *)
Theorem C07_zero_not_offered : forall (caps : list (string * capinfo)) (n : string),
  In n (map fst (fst (manager_capacity caps))) <-> exists c, In (n, c) caps /\ 0 < cap_capacity c.
Proof. exact offered_iff_positive. Qed.
Print Assumptions C07_zero_not_offered.

(* the manager's total is the saturating sum of the offered capacities for
   every iteration order of the merged map *)
Theorem C07_total_saturating : forall caps order : list Z,
  Forall (fun c => 0 <= c <= max_int) caps -> Permutation caps order -> total_of order = satsum caps.
Proof. exact manager_total_saturating. Qed.
Print Assumptions C07_total_saturating.

(* the plugin's own total (which the manager ignores) saturates as long as the
   finite capacities alone do not exceed MaxInt *)
Theorem C07_plugin_total : forall caps : list Z,
  Forall (fun c => 0 <= c <= max_int) caps ->
  fold_right Z.add 0 (filter (fun c => negb (c =? max_int)) caps) <= max_int ->
  fold_left plugin_total_step caps 0 = satsum caps.
Proof. exact plugin_total_saturating. Qed.
Print Assumptions C07_plugin_total.

(* memory-only: committing k accepted instances lowers the capacity by exactly k *)
Theorem C07_memory_commit : forall sortf info base maxshare req order fuel c k r,
  rq_bind req = false -> 0 < rq_mem_req req -> 1 <= k <= cap_capacity c ->
  node_capacity_g sortf info base maxshare req order fuel = Ok c ->
  do_alloc_by_memory info k req = inr r ->
  exists c', node_capacity_g sortf (commit_usage info (snd r)) base maxshare req order fuel = Ok c' /\
             cap_capacity c' = cap_capacity c - k.
Proof. exact mem_commit_lowers. Qed.
Print Assumptions C07_memory_commit.

(* and the capacity the manager reports for an offered node is the plugin's *)
Theorem C07_manager_capacity : forall (caps : list (string * capinfo)) (n : string) (i : fndc),
  Merge.lookup n (fst (manager_capacity caps)) = Some i ->
  exists c, In (n, c) caps /\ 0 < cap_capacity c /\ n_cap i = cap_capacity c.
Proof. exact manager_reports_plugin_capacity. Qed.
Print Assumptions C07_manager_capacity.

(* several plugins.  Manager.Alloc is refused as soon as one plugin refuses; if
   every plugin's capacity is the largest count it admits, the merged capacity
   (the minimum, C09) is the largest count the manager admits *)
Theorem C07_min_capacity_is_max : forall (c1 c2 k : Z) (acc1 acc2 : Z -> Prop),
  (forall j, acc1 j <-> j <= c1) -> (forall j, acc2 j <-> j <= c2) ->
  (acc1 k /\ acc2 k <-> k <= Z.min c1 c2).
Proof. exact min_capacity_is_max. Qed.
Print Assumptions C07_min_capacity_is_max.

(* zero capacity not offered, several plugins: FULL statement "no node is offered
   with capacity 0" is refuted when a plugin reports an entry with capacity 0 (the
   manager does not filter: C07_zero_entry_refuted; known finding); it holds when
   every plugin filters its own answer as cpumem does (C07_zero_not_offered_partial) *)
Theorem C07_zero_entry_refuted :
  let a := [("n"%string, mkNdc 5 (fb 0) (fb 0) (f_of_Z 1))] in
  let b := [("n"%string, mkNdc 0 (fb 0) (fb 0) (f_of_Z 1))] in
  option_map n_cap (Merge.lookup "n"%string (fst (gndc_f [a; b]))) = Some 0.
Proof. exact zero_entry_is_offered. Qed.
Print Assumptions C07_zero_entry_refuted.

Theorem C07_zero_not_offered_partial : forall (answers : list famap) (n : string) (i : fndc),
  answers <> [] ->
  (forall a k j, In a answers -> Merge.lookup k a = Some j -> 0 < n_cap j) ->
  Merge.lookup n (fst (gndc_f answers)) = Some i -> 0 < n_cap i.
Proof. exact positive_in_positive_out. Qed.
Print Assumptions C07_zero_not_offered_partial.
