(* C12 — deployment results are complete and truthful.

   FULL STATEMENT: for every accepted create request, world and fault position the message list is either a
   single failure with nothing created or one message per planned instance; successes are recorded, started,
   on the reported node with the reported resources; failures leave no record, container or usage; the stream
   closes.  Proved here for EVERY fault position (every call index k that is not a channel send) on the explicit
   scenario family Sweeps.create_ops x {base3, busy3} (1-3 nodes, 1-4 instances, refused plan, second pod);
   the unbounded statement over all worlds and plans is not proved (partial). c12_check is the boolean the
   harness evaluates on the implementation's output (Run.c12_step_ok) plus the usage invariant. *)
From Coq Require Import ZArith.
From Coq Require Import List.
From Verif Require Import Base.Effects Calcium.World Calcium.Ops Calcium.Run Calcium.Sweeps.

Theorem C12_messages_scenarios : forall w o, (w = busy3 \/ w = base3) -> In o create_ops ->
  forall k, is_send_at (script_of o) (prep w o) k = false ->
  c12_check (prep w o) o (fst (final (script_of o) (prep w o) (Some k))) = true.
Proof. exact create_scenarios_all_k. Qed.
Print Assumptions C12_messages_scenarios.

(* a check that holds for the fault-free run and at every call index of it holds for every k *)
Theorem C12_all_positions : forall A (p : cprog A) w (chk : world -> A -> bool),
  forallb (fun k => let '(w', a) := final p w (Some k) in chk w' a) (seq 0 (ncalls p w)) = true ->
  (let '(w', a) := final p w None in chk w' a) = true ->
  forall k, (let '(w', a) := final p w k in chk w' a) = true.
Proof. exact all_k. Qed.
Print Assumptions C12_all_positions.
