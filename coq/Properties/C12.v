(* C12 — deployment results are complete and truthful.

   C12_messages (EVERY world in which the op index is fresh, EVERY feasible plan or a refusal, EVERY position k
   of the single injected fault): the create script returns either the single message [MCreateErr] or one
   message per planned instance; the records and containers added are exactly those of the success messages
   (recorded on the reported node with the reported resources, container running), nothing else is added;
   every node's usage grows by exactly the resources of the instances created on it (so failures leave no
   record, container or usage); every message is sent on the channel, in order, and then the channel is closed
   (cr_out: out w' = MClose :: rev ms ++ out w).  Fault positions are the faultable calls (store, resource
   manager, engine, WAL, locks); a channel send is not a fault position (C12_send_is_no_fault_position).
   C12_instance / C12_plan are the per-instance and per-plan statements it is built from.
   C12_messages_scenarios re-checks, for every fault position, the boolean the harness evaluates on the
   implementation, on explicit scenarios.  Hypotheses: the plan is feasible for the plugin (every Alloc of it
   succeeds), its nodes exist and are distinct, no record/container of this op index exists yet. *)
From Coq Require Import List ZArith.
From Verif Require Import Base.Effects Calcium.World Calcium.Ops Calcium.Run Calcium.Sweeps
  Calcium.OpsProofs2 Calcium.DeployProofs Calcium.DeployProofs2 Calcium.CreateProofs Calcium.CreateProofs2.

Theorem C12_messages : forall opi pod r plan w k, create_hyp w opi r plan ->
  exists w' k' ms, crunk (create opi pod r plan) w k = (w', k', ms) /\ create_post opi pod r plan w w' ms.
Proof. exact create_spec. Qed.
Print Assumptions C12_messages.

Theorem C12_instance : forall x decr w k,
  find_wl w (w_id x) = None -> find_cont w (w_id x) = None ->
  exists w' k' r, crunk (deploy_one x decr) w k = (w', k', r) /\
  (r = None -> core_eq w' w (wls w ++ (x :: nil)) (conts w ++ (mkCont (w_id x) CRunning :: nil))) /\
  (r <> None -> core_eq w' w (wls w) (conts w) /\ k' = None).
Proof. exact deploy_one_spec. Qed.
Print Assumptions C12_instance.

Theorem C12_plan : forall opi pod r plan w k,
  NoDup (map fst plan) -> fresh_on w opi (map fst plan) -> (forall n, In n (map fst plan) -> find_node w n <> None) ->
  exists w' k' rb ms, crunk (deploy_all opi pod r plan) w k = (w', k', (rb, ms)) /\
    length ms = plan_total plan /\
    (rb <> nil -> k' = None) /\
    (forall p, In p (created_of ms) -> wi_op (fst p) = opi /\ In (wi_node (fst p)) (map fst plan) /\ snd p = r) /\
    (forall n cnt, In (n, cnt) plan -> (rb_len rb n + created_on ms n = cnt)%nat) /\
    (forall n, ~ In n (map fst plan) -> rb_len rb n = 0%nat) /\
    (forall g, In g rb -> In (fst g) (map fst plan)) /\
    out w' = rev ms ++ out w /\
    core3 w' w (wls w ++ map (wl_of pod) (created_of ms)) (conts w ++ map cont_of (created_of ms)).
Proof. exact deploy_all_ms. Qed.
Print Assumptions C12_plan.

Theorem C12_messages_scenarios : forall w o, (w = busy3 \/ w = base3) -> In o create_ops ->
  forall k, c12_check (prep w o) o (fst (final (script_of o) (prep w o) k)) = true.
Proof. exact create_scenarios_every_k. Qed.
Print Assumptions C12_messages_scenarios.

(* the positions k range over the faultable calls only: no position is a channel send *)
Theorem C12_send_is_no_fault_position : forall A (p : cprog A) w k c,
  In c (calls_of p w k) -> is_faultable c = true.
Proof. exact calls_faultable. Qed.
Print Assumptions C12_send_is_no_fault_position.

(* a check that holds for the fault-free run and at every call index of it holds for every k *)
Theorem C12_all_positions : forall A (p : cprog A) w (chk : world -> A -> bool),
  forallb (fun k => let '(w', a) := final p w (Some k) in chk w' a) (seq 0 (ncalls p w)) = true ->
  (let '(w', a) := final p w None in chk w' a) = true ->
  forall k, (let '(w', a) := final p w k in chk w' a) = true.
Proof. exact all_k. Qed.
Print Assumptions C12_all_positions.
