(* C03 — strategies place instances according to their documented balancing rule.
   fin p x = count x + p x;  usage_fin p x = the float the code computes by adding
   rate to usage p x times (binary64, round to nearest even). *)
From Coq Require Import String ZArith List Permutation Sorted.
From Verif Require Import Base.GoInt Base.GoFloat Base.GoSort Base.GoSortSpec Strategy.Model Strategy.ProofsBase
  Strategy.ProofsSort Strategy.Proofs Strategy.ProofsOk Strategy.ProofsOld Strategy.Statements Strategy.Glue Strategy.ProofsGlue Strategy.ModelW Strategy.ProofsW Strategy.ProofsW2.
Local Open Scope Z_scope.

(* AUTO: a node that received an instance never ends more than one above a node
   that could still have taken one *)
Theorem C03_auto :
  forall infos need limit total p,
  valid_infos infos -> 0 < need -> 0 <= limit ->
  deploy Auto need limit infos total = Ok p ->
  forall a b, In a infos -> In b infos ->
  1 <= mget p (name a) -> 1 <= cap b - mget p (name b) -> (limit = 0 \/ fin p b < limit) ->
  fin p a <= fin p b + 1.
Proof. exact C03_auto_stmt. Qed.
Print Assumptions C03_auto.

(* GLOBAL: float-exact form of "never ends above a node with spare capacity by
   more than that node's per-instance share" (usage, rate finite, rate >= 0) *)
Theorem C03_global :
  forall infos need limit total p,
  valid_infos infos -> 0 < need -> 0 <= limit -> float_ok infos ->
  deploy Global need limit infos total = Ok p ->
  forall a b, In a infos -> In b infos ->
  1 <= mget p (name a) -> 1 <= cap b - mget p (name b) ->
  fle (usage_fin p a) (fadd (usage_fin p b) (rate b)) = true.
Proof. exact C03_global_stmt. Qed.
Print Assumptions C03_global.

(* DRAINED: every smaller-capacity node is filled completely before a larger one is used *)
Theorem C03_drained :
  forall infos need limit total p,
  valid_infos infos -> 0 < need -> 0 <= limit ->
  deploy Drained need limit infos total = Ok p ->
  forall a b, In a infos -> In b infos ->
  cap a < cap b -> 1 <= mget p (name b) -> mget p (name a) = cap a.
Proof. exact C03_drained_stmt. Qed.
Print Assumptions C03_drained.

(* EACH: the selected nodes are those with the most capacity *)
Theorem C03_each :
  forall infos need limit total p,
  valid_infos infos -> 0 < need -> 0 <= limit ->
  deploy Each need limit infos total = Ok p ->
  forall a b, In a infos -> In b infos ->
  mhas p (name a) = true -> mhas p (name b) = false -> cap b <= cap a.
Proof. exact C03_each_stmt. Qed.
Print Assumptions C03_each.

(* FILL: nodes already running more instances are preferred (then more capacity) *)
Theorem C03_fill :
  forall infos need limit total p,
  valid_infos infos -> 0 < need -> 0 <= limit ->
  is_plan (deploy Fill need limit infos total) p ->
  forall a b, In a infos -> In b infos ->
  mhas p (name a) = true -> mhas p (name b) = false -> need <= cnt b + cap b ->
  cnt b < cnt a \/ (cnt b = cnt a /\ cap b <= cap a).
Proof. exact C03_fill_stmt. Qed.
Print Assumptions C03_fill.

(* the three sort-based rules for every sorted permutation *)
(* the same three rules for EVERY sorted permutation sort.Slice may produce *)
Theorem C03_any_sorted_order :
  (forall infos sorted need limit,
  valid_infos infos -> Permutation infos sorted -> Sorted (ngt each_less) sorted -> 0 <= limit ->
  forall p, each_from sorted need (each_limit infos limit) = Ok p -> C03_spec Each need limit infos p) /\
  (forall infos sorted need limit,
  valid_infos infos -> Permutation infos sorted -> Sorted (ngt fill_less) sorted -> 0 <= limit ->
  forall r p, fill_from sorted need (each_limit infos limit) = r -> is_plan r p ->
  C03_spec Fill need limit infos p) /\
  (forall infos sorted need total,
  valid_infos infos -> Permutation infos sorted -> Sorted (ngt drained_less) sorted -> 0 < need ->
  forall p limit, drained_from sorted need total = Ok p -> C03_spec Drained need limit infos p).
Proof. exact (conj each_C03 (conj fill_C03 drained_C03)). Qed.
Print Assumptions C03_any_sorted_order.

(* the code before the repair (/repo: "fix: DRAINED sort comparator ...") violated
   the property: big (capacity 3) got both instances, small (capacity 1) none *)
Theorem C03_drained_old_refuted :
  exists p, drained_old w_drained 2 4 = Ok p /\ mget p "big" = 2 /\ mget p "small" = 0.
Proof. exact drained_old_refuted. Qed.
Print Assumptions C03_drained_old_refuted.

(* the boolean check decides the specification, and the model's output passes it *)
Theorem C03_ok_reflects_and_sound :
  (forall s need limit infos p,
  all_pairs (C03_pair s need limit p) infos = true <-> C03_spec s need limit infos p) /\
  (forall s need limit infos total ord,
  C03_ok (mkCase s need limit infos total (deploy s need limit infos total) ord) = true).
Proof. exact (conj C03_reflect C03_ok_model). Qed.
Print Assumptions C03_ok_reflects_and_sound.

Theorem C03_hypotheses_satisfiable :
  valid_infos ex_infos /\ float_ok ex_infos.
Proof. exact (conj ex_valid ex_float_ok). Qed.
Print Assumptions C03_hypotheses_satisfiable.

Theorem C03_glue :
  forall caps order status need limit total,
  valid_caps caps status -> Permutation caps order -> 0 < need -> 0 <= limit ->
  forall s p, (s = Global -> float_ok (glue_infos order status)) ->
  glue s need limit order status total = Ok p ->
  C03_spec s need limit (glue_infos order status) p.
Proof. exact glue_C03. Qed.
Print Assumptions C03_glue.

Theorem C03_rules_int64 :
  forall s need limit infos total,
  NoDup (names infos) -> dom64 s need limit infos ->
  forall p, (s = Global -> float_ok infos) ->
  is_plan (deployW s need limit infos total) p -> C03_spec s need limit infos p.
Proof. exact C03_rules_W. Qed.
Print Assumptions C03_rules_int64.

