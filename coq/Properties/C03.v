(* C03 — strategies place instances according to their documented balancing rule. *)
From Coq Require Import String ZArith List.
From Verif Require Import Base.GoInt Strategy.Model Strategy.ProofsOld.

(* the code before the repair (fix: DRAINED comparator) violated the property *)
Theorem C03_drained_old_refuted :
  exists p, drained_old w_drained 2 4 = Ok p /\ mget p "big" = 2%Z /\ mget p "small" = 0%Z.
Proof. exact drained_old_refuted. Qed.
Print Assumptions C03_drained_old_refuted.
