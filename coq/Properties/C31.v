(* C31 — engine settings faithfully enforce allocated resources.
   This file contains only the property theorems.

   [create p] / [update n p]: the dockercontainer.Resources that
   VirtualizationCreate / VirtualizationUpdateResource (node of n cpus) hand to
   the Docker API for engine parameters p = (cpu limit, memory limit, cpu_map
   keys, NUMA node, remap flag).  quota_of true c = int64(math.Round(c * 100000)),
   shares_of c = int64(math.Round(1024 * frac c)) (1024 when frac c = 0),
   as binary64 computations. *)
From Coq Require Import ZArith List String.
From Flocq Require Import IEEE754.BinarySingleNaN IEEE754.Binary IEEE754.Bits.
From Coq Require Import Reals.
From Flocq Require Import Core.
From Verif Require Import Base.GoFloat Base.GoInt Engine.Docker Engine.DockerProofs Engine.DockerReal.
Import ListNotations.
Local Open Scope Z_scope.

(* bound workload, create path *)
Theorem C31_create_bound : forall p,
  mem_invalid (p_memory p) = false -> p_cores p <> [] ->
  let o := create p in
  o_outcome o = Ok /\ o_cpuset o = p_cores p /\ o_mems o = p_numa p /\ o_quota o = -1 /\
  o_shares o = shares_of (p_cpu p) /\ o_period o = period /\
  o_memory o = p_memory p /\ o_swap o = p_memory p /\ o_reservation o = reservation_spec (p_memory p).
Proof. exact create_bound_statement. Qed.
Print Assumptions C31_create_bound.

(* unbound workload, create path *)
Theorem C31_create_unbound : forall p,
  mem_invalid (p_memory p) = false -> p_cores p = [] ->
  let o := create p in
  o_outcome o = Ok /\ o_cpuset o = [] /\ o_mems o = EmptyString /\
  o_quota o = quota_spec true (p_cpu p) /\ o_shares o = 1024 /\ o_period o = period /\
  o_memory o = p_memory p /\ o_swap o = p_memory p /\ o_reservation o = reservation_spec (p_memory p).
Proof. exact create_unbound_statement. Qed.
Print Assumptions C31_create_unbound.

(* the same holds on update: a bound workload gets exactly what create computes *)
Theorem C31_update_bound : forall n p,
  mib4 <= p_memory p -> p_cores p <> [] -> p_remap p = false -> feq (p_cpu p) fzero = false ->
  update n p = create p.
Proof. exact update_same_as_create. Qed.
Print Assumptions C31_update_bound.

(* update of an unbound workload with a limit: quota of the limit, all cores, default shares *)
Theorem C31_update_unbound : forall n p,
  mem_invalid (p_memory p) = false -> p_cores p = [] -> flt fzero (p_cpu p) = true -> 0 < n ->
  let o := update n p in
  o_outcome o = Ok /\ o_cpuset o = seqZ 0 (Z.to_nat n) /\ o_mems o = p_numa p /\
  o_quota o = quota_of true (p_cpu p) /\ o_shares o = 1024 /\ o_period o = period /\
  o_memory o = update_memory (p_memory p) /\ o_swap o = update_memory (p_memory p).
Proof. exact update_unbound_statement. Qed.
Print Assumptions C31_update_unbound.

(* update of a remapped workload (shared core set) with a limit *)
Theorem C31_update_remap : forall n p,
  mem_invalid (p_memory p) = false -> p_cores p <> [] -> p_remap p = true -> flt fzero (p_cpu p) = true ->
  let o := update n p in
  o_outcome o = Ok /\ o_cpuset o = p_cores p /\ o_mems o = p_numa p /\
  o_quota o = quota_of true (p_cpu p) /\ o_shares o = 1024 /\ o_period o = period.
Proof. exact update_remap_statement. Qed.
Print Assumptions C31_update_remap.

(* update without a cpu limit: unrestricted on all cores *)
Theorem C31_update_unlimited : forall n p,
  mem_invalid (p_memory p) = false -> feq (p_cpu p) fzero = true -> 0 < n ->
  let o := update n p in
  o_outcome o = Ok /\ o_cpuset o = seqZ 0 (Z.to_nat n) /\ o_mems o = EmptyString /\
  o_quota o = -1 /\ o_period o = period.
Proof. exact update_unlimited_statement. Qed.
Print Assumptions C31_update_unlimited.

(* memory and memory+swap = the limit on update; the reservation never exceeds it *)
Theorem C31_update_memory : forall n p, mib4 <= p_memory p ->
  o_memory (update n p) = p_memory p /\ o_swap (update n p) = p_memory p.
Proof. exact update_memory_statement. Qed.
Print Assumptions C31_update_memory.

Theorem C31_reservation : forall memory, mib4 <= memory ->
  reservation_spec memory = Z.max (Z.quot memory 2) mib4 /\ reservation_spec memory <= memory.
Proof. exact reservation_bounds. Qed.
Print Assumptions C31_reservation.

(* memory below 4 MiB (or negative) is refused on both paths *)
Theorem C31_invalid_memory : forall n p, mem_invalid (p_memory p) = true ->
  o_outcome (create p) = ErrInvalidMemory /\ o_outcome (update n p) = ErrInvalidMemory.
Proof. exact invalid_memory_statement. Qed.
Print Assumptions C31_invalid_memory.

(* numeric accuracy, bounded sweep (bound in the statement): for every limit
   k/100 up to 64 cpus the quota is exactly k/100 x period and the shares of a
   bound workload are 1024 x fraction rounded to the nearest integer *)
Theorem C31_decimal_grid : forall k, 1 <= k <= 6400 ->
  quota_of true (hundredth k) = 1000 * k /\
  shares_of (hundredth k) = (let r := k mod 100 in if r =? 0 then 1024 else (2 * 1024 * r + 100) / 200).
Proof. exact grid_exact. Qed.
Print Assumptions C31_decimal_grid.

(* the conversion used for the quota and the shares, int64(math.Round(y)), yields an
   integer nearest to the exact value of the float y (pure integer arithmetic on
   mantissa and exponent, every finite y): |z * den - num| * 2 <= den for |y| = num/den *)
Theorem C31_round_is_nearest : forall s m e H,
  let a : f64 := B754_finite 53 1024 s m e H in
  let z := if s then - f_round_Z a else f_round_Z a in
  let '(num, den) := mag_frac (Zpos m) e in
  0 < den /\ 0 <= z /\ Z.abs (z * den - num) * 2 <= den.
Proof. exact round_nearest. Qed.
Print Assumptions C31_round_is_nearest.

(* one real-number bound for ALL binary64 cpu limits in range (0 <= limit x period <= 2^31,
   i.e. up to 21474 cpus): the quota differs from the real product limit x period by at most
   1/2 + 2^-22  (Flocq: the binary64 product is the rounding of the real product, half an ulp;
   then int64(math.Round(.)) is a nearest integer) *)
Theorem C31_quota_real_bound : forall cpu : f64,
  is_finite 53 1024 cpu = true ->
  (0 <= B2R 53 1024 cpu)%R ->
  (B2R 53 1024 cpu * 100000 <= bpow radix2 31)%R ->
  (Rabs (IZR (quota_of true cpu) - B2R 53 1024 cpu * 100000) <= / 2 + bpow radix2 (-22))%R.
Proof. exact quota_real_bound. Qed.
Print Assumptions C31_quota_real_bound.

(* before the repairs: truncation gave 0.29 cpu a quota of 28999us, and updating
   an unbound workload with limit 0.5 gave it quota -1 (unrestricted) *)
Theorem C31_truncating_quota_refuted : quota_of false f029 = 28999 /\ quota_of true f029 = 29000.
Proof. exact truncation_refuted. Qed.
Print Assumptions C31_truncating_quota_refuted.

Theorem C31_update_unbound_refuted :
  let p := mkParams f05 67108864 [] EmptyString false in
  o_quota (update_with false true 4 p) = -1 /\ o_shares (update_with false true 4 p) = 512 /\
  o_quota (create p) = 50000 /\ o_quota (update 4 p) = 50000 /\ o_shares (update 4 p) = 1024.
Proof. exact update_unbound_refuted. Qed.
Print Assumptions C31_update_unbound_refuted.
