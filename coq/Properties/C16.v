(* C16 — the recovery log replays exactly the uncommitted events.
   This file contains only the property theorems.  Histories are arbitrary lists of
   Log / Commit / Reopen (with crashed Logs) / Recover (with arbitrary handler outcomes,
   including a handler that kills the process) / Inject (a foreign writer puts a corrupt or
   foreign entry into the file).  Hypotheses: the bucket sequence has not reached 2^64, and the
   foreign entries are inert (Forall op_inert: not a canonical event key, and outside /events/,
   or with a key that does not parse, or with a value that does not decode). *)
From Coq Require Import List NArith Sorted.
From Verif Require Import Base.GoStr Base.GoStrLemmas Wal.Model Wal.Proofs Wal.OkSound.
Import ListNotations.
Local Open Scope N_scope.

(* Every recovery, at any point of any history, calls handlers exactly along the walk over the
   events that were logged and not removed (committed, or handled ok / not needed by an earlier
   recovery), in increasing id = logging order, each at most once, skipping types without
   handler, all of them unless a handler kills the process (then that call is the last).
   In particular no handler is ever called for a foreign or corrupt entry. *)
Theorem C16_replay : forall regs ops tr st oc,
  run (init regs) ops = (tr, st) -> seq st < two64N -> Forall op_inert ops ->
  exists st' calls, step st (Recover oc) = (st', RRecovered calls) /\ replay_spec tr (reg st) oc calls.
Proof. exact replay_theorem. Qed.
Print Assumptions C16_replay.

(* An event disappears in a recovery iff its handler succeeded or declared it unnecessary;
   the file afterwards holds exactly the live events (and the foreign entries). *)
Theorem C16_removed_iff : forall regs ops tr st oc st' calls,
  run (init regs) ops = (tr, st) -> seq st < two64N -> Forall op_inert ops ->
  step st (Recover oc) = (st', RRecovered calls) ->
  (exists F, wfkv (kv st') (live (tr ++ [(Recover oc, RRecovered calls)])) F) /\
  forall e, In e (live tr) ->
    (~ In e (live (tr ++ [(Recover oc, RRecovered calls)])) <->
     exists o, In (e, o) calls /\ (o = OOk \/ o = ONotNeeded)).
Proof. exact removed_iff. Qed.
Print Assumptions C16_removed_iff.

(* At every point the file is the key-ordered interleaving of exactly the logged-and-not-removed
   events with the foreign entries F; F holds exactly the keys the foreign writer wrote: no
   operation of the WAL ever deletes or overwrites one. *)
Theorem C16_file_is_live : forall regs ops tr st,
  run (init regs) ops = (tr, st) -> seq st < two64N -> Forall op_inert ops ->
  exists F, wfkv (kv st) (live tr) F /\ ids_ok (live tr) (seq st) /\
            (forall x, In x F -> In (fst x) (injected tr)) /\
            (forall k, In k (injected tr) -> exists ov, In (k, ov) F).
Proof. exact state_is_live. Qed.
Print Assumptions C16_file_is_live.

(* Ids handed out by Log strictly increase over the whole history, across close/reopen and
   crashed Logs: never reused; the first is >= 1. *)
Theorem C16_ids_fresh : forall regs ops tr st,
  run (init regs) ops = (tr, st) -> seq st < two64N -> Forall op_inert ops ->
  StronglySorted N.lt (logged_ids tr) /\ Forall (fun id => 1 <= id /\ id <= seq st) (logged_ids tr).
Proof. exact ids_fresh. Qed.
Print Assumptions C16_ids_fresh.

(* Key codec: filepath.Join("/events/", %016x) parses back, and byte order of keys = id order
   (so the bbolt cursor yields events in id order). *)
Theorem C16_key_roundtrip : forall id, 1 <= id -> id < two64N -> parse_event_id (event_key id) = Some id.
Proof. exact key_roundtrip_range. Qed.
Print Assumptions C16_key_roundtrip.

Theorem C16_key_order : forall a b, a < two64N -> b < two64N ->
  (bytes_ltb (event_key a) (event_key b) = true <-> a < b).
Proof. exact key_order_iff. Qed.
Print Assumptions C16_key_order.

Theorem C16_key_shape : forall id, event_key id = event_prefix ++ hex16 id.
Proof. exact event_key_shape. Qed.
Print Assumptions C16_key_shape.

(* Scan: on the key-sorted bucket, Seek(prefix) + "while HasPrefix" visits exactly the prefixed keys *)
Theorem C16_scan_is_filter : forall p s, ksorted s -> kv_scan p s = filter (prefixed p) s.
Proof. exact scan_filter. Qed.
Print Assumptions C16_scan_is_filter.

(* the inertness hypothesis is needed: a foreign entry with a parsable key under /events/ and a
   decodable value IS handed to its handler although nothing logged it (the WAL trusts its file) *)
Theorem C16_wellformed_foreign_event_is_replayed :
  exists ops oc calls, ~ op_inert (nth 0 ops (Commit 0)) /\
    snd (step (snd (run (init [0]) ops)) (Recover oc)) = RRecovered calls /\
    logged (fst (run (init [0]) ops)) = [] /\ calls <> [].
Proof. exact wellformed_foreign_event_is_replayed. Qed.
Print Assumptions C16_wellformed_foreign_event_is_replayed.

(* The boolean check [Model.ok] that the harness evaluates on the IMPLEMENTATION's observations
   accepts every behaviour of the model: for every history with distinct event items and inert
   foreign writes, the observations the model produces (obs_trace: Log result kinds, Commit
   results, file snapshots with keys, ids and foreign entries, handler calls with the methods
   reached) pass the check.  Together with C16_replay / C16_removed_iff / C16_ids_fresh the check
   accepts the behaviours the theorems describe, and a run with V = [] and M = [] is a run the
   theorems cover. *)
Theorem C16_ok_sound : forall regs ops tr st,
  run (init regs) ops = (tr, st) -> seq st < two64N -> Forall op_inert ops -> NoDup (log_items ops) ->
  ok (mkCase regs ops (obs_trace tr)) = true.
Proof. exact ok_sound. Qed.
Print Assumptions C16_ok_sound.
