(* C24 — metadata queries are isolated per application, entrypoint and node.
   This file contains only the property theorems. *)
From Coq Require Import List NArith Bool.
Open Scope bool_scope.
From Verif Require Import Base.GoStr Base.GoStrLemmas Names.Model Names.Proofs.
Import ListNotations.

(* A workload's name parses back to the application and entrypoint it was created with, for
   every (app, entrypoint) the API accepts and every '_'-free suffix. *)
Theorem C24_name_roundtrip : forall app entry ident,
  validate_deploy app entry = 0%N -> no_byte underscore ident ->
  parse_name (make_name app entry ident) = Some (app, entry, ident).
Proof. exact accepted_roundtrip. Qed.
Print Assumptions C24_name_roundtrip.

(* more generally: any application name not starting with '/' (underscores allowed) *)
Theorem C24_name_roundtrip_general : forall app entry ident,
  no_lead_slash app -> no_byte underscore entry -> no_byte underscore ident ->
  parse_name (make_name app entry ident) = Some (app, entry, ident).
Proof. exact name_roundtrip. Qed.
Print Assumptions C24_name_roundtrip_general.

(* names accepted by the (repaired) validation are single key elements *)
Theorem C24_accepted_safe : forall n,
  (valid_app n = true -> safe_elem n) /\ (valid_node n = true -> safe_elem n) /\
  (valid_entry n = true -> safe_elem n /\ no_byte underscore n).
Proof. exact accepted_safe_all. Qed.
Print Assumptions C24_accepted_safe.

(* etcd: for all workloads created under accepted names (distinct ids) every AddWorkload succeeds
   and ListWorkloads(app, entry, node), for every filter combination of accepted-or-empty names,
   returns exactly the workloads created under the non-ignored names *)
Theorem C24_isolation_etcd : forall xs app entry node (sel : names -> bool),
  Forall good xs -> NoDup (map nm_id xs) ->
  valid_or_empty valid_app app -> valid_or_empty valid_entry entry -> valid_or_empty valid_node node ->
  (forall x, sel x = true <-> under_names app entry node x) ->
  snd (build_names [] xs) = map (fun _ => true) xs /\
  list_workloads Etcd (fst (build_names [] xs)) app entry node = map nm_id (filter sel xs).
Proof. exact isolation_etcd_built. Qed.
Print Assumptions C24_isolation_etcd.

(* redis: the same when the queried names contain no glob metacharacter *)
Theorem C24_isolation_redis : forall xs app entry node (sel : names -> bool),
  Forall good xs -> NoDup (map nm_id xs) ->
  valid_or_empty valid_app app -> valid_or_empty valid_entry entry -> valid_or_empty valid_node node ->
  no_meta app -> no_meta entry -> no_meta node ->
  (forall x, sel x = true <-> under_names app entry node x) ->
  list_workloads Redis (fst (build_names [] xs)) app entry node = map nm_id (filter sel xs).
Proof. exact isolation_redis_built. Qed.
Print Assumptions C24_isolation_redis.

(* GetDeployStatus(app, entry) counts, per node, exactly the workloads created under (app, entry) *)
Theorem C24_deploy_status : forall b xs app entry (sel : names -> bool),
  Forall good xs -> NoDup (map nm_id xs) ->
  valid_app app = true -> valid_entry entry = true ->
  (b = Redis -> no_meta app /\ no_meta entry) ->
  (forall x, sel x = true <-> (nm_app x = app /\ nm_entry x = entry)) ->
  status_nodes b (fst (build_names [] xs)) app entry = map nm_node (filter sel xs).
Proof. exact status_built. Qed.
Print Assumptions C24_deploy_status.

(* GetDeployStatus in full: deployed workloads plus deployments in flight (processing markers),
   per node, of exactly (app, entry) -- on both stores (redis: queried names without glob
   metacharacters); and every marker with a distinct ident can be created *)
Theorem C24_deploy_status_total : forall b xs ps app entry (selw : names -> bool) (selp : proc -> bool),
  Forall good xs -> NoDup (map nm_id xs) -> Forall good_proc ps ->
  valid_app app = true -> valid_entry entry = true ->
  (b = Redis -> no_meta app /\ no_meta entry) ->
  (forall x, selw x = true <-> (nm_app x = app /\ nm_entry x = entry)) ->
  (forall p, selp p = true <-> (p_app p = app /\ p_entry p = entry)) ->
  deploy_status b (fst (build_names [] xs)) (map pentry ps) app entry =
  agg (map (fun x => (nm_node x, 1%N)) (filter selw xs) ++ map (fun p => (p_node p, p_count p)) (filter selp ps)).
Proof. exact deploy_status_total. Qed.
Print Assumptions C24_deploy_status_total.

Theorem C24_processing_created : forall ps, Forall good_proc ps -> NoDup (map p_ident ps) ->
  build_procs_n [] ps = (map pentry ps, map (fun _ => true) ps).
Proof. exact processing_created. Qed.
Print Assumptions C24_processing_created.

(* WorkloadStatusStream(app, entry, node) on etcd watches exactly the status keys of the workloads
   created under the (non-ignored) names *)
Theorem C24_status_stream : forall xs app entry node (sel : names -> bool),
  Forall good xs -> ok_or_empty app -> ok_or_empty entry -> ok_or_empty node ->
  (forall x, sel x = true <-> under_names app entry node x) ->
  stream_ids (map wl_of_names xs) app entry node = map nm_id (filter sel xs).
Proof. exact stream_etcd. Qed.
Print Assumptions C24_status_stream.

(* the key-prefix test is exactly "created under those names" (the prefix-freeness lemma) *)
Theorem C24_prefix_iff_names : forall app entry node x,
  ok_or_empty app -> ok_or_empty entry -> ok_or_empty node -> good x ->
  (has_prefix (list_key app entry node) (key_of x) = true <-> under_names app entry node x).
Proof. exact prefix_iff_names. Qed.
Print Assumptions C24_prefix_iff_names.

(* the selection predicate of the boolean check evaluated on the implementation's answers
   (Model.created_under, on the request strings) is the theorems' "created under those names" *)
Theorem C24_ok_selects : forall app entry node a, a_ok a = true ->
  (created_under app entry node a = true <->
   under_names (s2l app) (s2l entry) (s2l node) (names_of a)).
Proof. exact created_under_iff. Qed.
Print Assumptions C24_ok_selects.

(* the full statement is false on redis: accepted names with glob metacharacters collide *)
Theorem C24_refuted_redis_glob :
  exists xs app entry,
    Forall good xs /\ NoDup (map nm_id xs) /\ valid_app app = true /\ valid_entry entry = true /\
    list_workloads Redis (fst (build_names [] xs)) app entry []
    <> map nm_id (filter (fun x => bytes_eqb (nm_app x) app && bytes_eqb (nm_entry x) entry) xs).
Proof. exact redis_glob_refuted. Qed.
Print Assumptions C24_refuted_redis_glob.

(* the validation before the repair accepted colliding names (app a/b + entry c vs app a + entry b/c)
   and names that do not parse back (app /a); the repaired validation rejects them *)
Theorem C24_old_validation_refuted :
  exists x y, validate_deploy_old (nm_app x) (nm_entry x) = 0%N /\ validate_deploy_old (nm_app y) (nm_entry y) = 0%N /\
    (nm_app x, nm_entry x) <> (nm_app y, nm_entry y) /\ nm_id x <> nm_id y /\
    snd (build_names [] [x; y]) = [true; true] /\
    list_workloads Etcd (fst (build_names [] [x; y])) (nm_app x) (nm_entry x) [] = [nm_id x; nm_id y] /\
    list_workloads Redis (fst (build_names [] [x; y])) (nm_app x) (nm_entry x) [] = [nm_id x; nm_id y] /\
    validate_deploy (nm_app x) (nm_entry x) <> 0%N /\ validate_deploy (nm_app y) (nm_entry y) <> 0%N.
Proof. exact old_validation_refuted. Qed.
Print Assumptions C24_old_validation_refuted.

Theorem C24_old_roundtrip_refuted :
  exists app entry ident, validate_deploy_old app entry = 0%N /\ no_byte underscore ident /\
    parse_name (make_name app entry ident) <> Some (app, entry, ident) /\ validate_deploy app entry <> 0%N.
Proof. exact old_roundtrip_refuted. Qed.
Print Assumptions C24_old_roundtrip_refuted.
