(* C24 — metadata queries are isolated per application, entrypoint and node.
   This file contains only the property theorems. *)
From Coq Require Import List NArith Bool.
Open Scope bool_scope.
From Verif Require Import Base.GoStr Base.GoStrLemmas Names.Model Names.Proofs.
Import ListNotations.

(* A workload's name parses back to the application and entrypoint it was created with, for
   every (app, entrypoint) the API accepts and every '_'-free suffix. *)
Theorem C24_name_roundtrip : forall app entry ident,
  validate_deploy app entry = 0%N -> no_byte underscore ident ->
  parse_name (make_name app entry ident) = Some (app, entry, ident).
Proof. exact accepted_roundtrip. Qed.
Print Assumptions C24_name_roundtrip.

(* more generally: any application name not starting with '/' (underscores allowed) *)
Theorem C24_name_roundtrip_general : forall app entry ident,
  no_lead_slash app -> no_byte underscore entry -> no_byte underscore ident ->
  parse_name (make_name app entry ident) = Some (app, entry, ident).
Proof. exact name_roundtrip. Qed.
Print Assumptions C24_name_roundtrip_general.

(* names accepted by the (repaired) validation are single key elements *)
Theorem C24_accepted_safe : forall n,
  (valid_app n = true -> safe_elem n) /\ (valid_node n = true -> safe_elem n) /\
  (valid_entry n = true -> safe_elem n /\ no_byte underscore n).
Proof. exact accepted_safe_all. Qed.
Print Assumptions C24_accepted_safe.

(* every workload (distinct ids) and every in-flight marker (distinct idents) under accepted names
   is created, in the one key space of the store *)
Theorem C24_all_created : forall xs ps, Forall good xs -> NoDup (map nm_id xs) ->
  Forall good_proc ps -> NoDup (map p_ident ps) ->
  built xs ps = space xs ps /\
  snd (build_names [] xs) = map (fun _ => true) xs /\
  snd (build_procs_n (fst (build_names [] xs)) ps) = map (fun _ => true) ps.
Proof. exact built_space. Qed.
Print Assumptions C24_all_created.

(* ListWorkloads(app, entry, node), ON BOTH STORES and for every filter combination of
   accepted-or-empty names (glob metacharacters included), succeeds and returns exactly the
   workloads created under the non-ignored names, whatever deployments are in flight *)
Theorem C24_isolation : forall b xs ps app entry node (sel : names -> bool),
  Forall good xs -> NoDup (map nm_id xs) -> Forall good_proc ps -> NoDup (map p_ident ps) ->
  valid_or_empty valid_app app -> valid_or_empty valid_entry entry -> valid_or_empty valid_node node ->
  (forall x, sel x = true <-> under_names app entry node x) ->
  list_workloads b (built xs ps) app entry node = Some (map nm_id (filter sel xs)).
Proof. exact isolation_built. Qed.
Print Assumptions C24_isolation.

(* GetDeployStatus(app, entry), on both stores: per node, the workloads created under (app, entry)
   plus the in-flight counters created under (app, entry), nothing else *)
Theorem C24_deploy_status : forall b xs ps app entry (selw : names -> bool) (selp : proc -> bool),
  Forall good xs -> NoDup (map nm_id xs) -> Forall good_proc ps -> NoDup (map p_ident ps) ->
  valid_app app = true -> valid_entry entry = true ->
  (forall x, selw x = true <-> (nm_app x = app /\ nm_entry x = entry)) ->
  (forall p, selp p = true <-> (p_app p = app /\ p_entry p = entry)) ->
  deploy_status b (built xs ps) app entry =
  agg (map (fun x => (nm_node x, 1%N)) (filter selw xs) ++ map (fun p => (p_node p, p_count p)) (filter selp ps)).
Proof. exact deploy_status_built. Qed.
Print Assumptions C24_deploy_status.

(* WorkloadStatusStream(app, entry, node) on etcd watches exactly the status keys of the workloads
   created under the (non-ignored) names *)
Theorem C24_status_stream : forall xs app entry node (sel : names -> bool),
  Forall good xs -> ok_or_empty app -> ok_or_empty entry -> ok_or_empty node ->
  (forall x, sel x = true <-> under_names app entry node x) ->
  stream_ids (map wl_of_names xs) app entry node = map nm_id (filter sel xs).
Proof. exact stream_etcd. Qed.
Print Assumptions C24_status_stream.

(* the key-prefix test is exactly "created under those names" (the prefix-freeness lemma) *)
Theorem C24_prefix_iff_names : forall app entry node x,
  ok_or_empty app -> ok_or_empty entry -> ok_or_empty node -> good x ->
  (has_prefix (list_key app entry node) (key_of x) = true <-> under_names app entry node x).
Proof. exact prefix_iff_names. Qed.
Print Assumptions C24_prefix_iff_names.

(* the repaired redis store: the escaped SCAN pattern is a prefix test, for EVERY byte string *)
Theorem C24_redis_pattern_is_prefix : forall b p k, under b p k = has_prefix p k.
Proof. exact under_any. Qed.
Print Assumptions C24_redis_pattern_is_prefix.

(* the selection predicate of the boolean check evaluated on the implementation's answers
   (Model.created_under, on the request strings) is the theorems' "created under those names" *)
Theorem C24_ok_selects : forall app entry node a, a_ok a = true ->
  (created_under app entry node a = true <->
   under_names (s2l app) (s2l entry) (s2l node) (names_of a)).
Proof. exact created_under_iff. Qed.
Print Assumptions C24_ok_selects.

(* before the repair of the redis store (unescaped names in the pattern) the statement was false
   there: app a* listed app ab; the repaired store answers exactly *)
Theorem C24_old_redis_glob_refuted :
  exists xs app entry,
    Forall good xs /\ NoDup (map nm_id xs) /\ valid_app app = true /\ valid_entry entry = true /\
    list_workloads_redis_old (built xs []) app entry []
    <> Some (map nm_id (filter (fun x => bytes_eqb (nm_app x) app && bytes_eqb (nm_entry x) entry) xs)) /\
    list_workloads Redis (built xs []) app entry []
    = Some (map nm_id (filter (fun x => bytes_eqb (nm_app x) app && bytes_eqb (nm_entry x) entry) xs)).
Proof. exact redis_old_glob_refuted. Qed.
Print Assumptions C24_old_redis_glob_refuted.

(* the validation before the repair accepted colliding names (app a/b + entry c vs app a + entry b/c)
   and names that do not parse back (app /a); the repaired validation rejects them *)
Theorem C24_old_validation_refuted :
  exists x y, validate_deploy_old (nm_app x) (nm_entry x) = 0%N /\ validate_deploy_old (nm_app y) (nm_entry y) = 0%N /\
    (nm_app x, nm_entry x) <> (nm_app y, nm_entry y) /\ nm_id x <> nm_id y /\
    snd (build_names [] [x; y]) = [true; true] /\
    list_workloads Etcd (built [x; y] []) (nm_app x) (nm_entry x) [] = Some [nm_id x; nm_id y] /\
    list_workloads Redis (built [x; y] []) (nm_app x) (nm_entry x) [] = Some [nm_id x; nm_id y] /\
    validate_deploy (nm_app x) (nm_entry x) <> 0%N /\ validate_deploy (nm_app y) (nm_entry y) <> 0%N.
Proof. exact old_validation_refuted. Qed.
Print Assumptions C24_old_validation_refuted.

Theorem C24_old_roundtrip_refuted :
  exists app entry ident, validate_deploy_old app entry = 0%N /\ no_byte underscore ident /\
    parse_name (make_name app entry ident) <> Some (app, entry, ident) /\ validate_deploy app entry <> 0%N.
Proof. exact old_roundtrip_refuted. Qed.
Print Assumptions C24_old_roundtrip_refuted.

(* outside validation: with ".." a processing key escapes to where a deploy query looks and
   ListWorkloads fails on it (one key space) *)
Theorem C24_escaping_names_meet :
  exists x p, list_workloads Etcd (fst (build_procs_n (fst (build_names [] [x])) [p])) (nm_app x) (nm_entry x) [] = None.
Proof. exact escaping_names_meet. Qed.
Print Assumptions C24_escaping_names_meet.
