(* C30 — run-and-wait workloads are always cleaned up.

   C30_cleanup (EVERY world, EVERY engine outcome for logs / attach / wait / exit code, EVERY position k of the
   single injected fault, for the closure handling one created workload): let kc be the fault budget left when
   the deferred clean-up starts.  If kc = None (there is no fault, or it fired earlier: writing the WAL entry,
   looking the record up, fetching logs, attaching, waiting) then when the closure sends its last message the
   workload has no record, no container, its resources are back in the node's usage, and nothing else about
   nodes changed.  kc = None is implied by k = None and by k = 0 (the WAL entry cannot be written: the repaired
   code removes the workload all the same).  A fault inside the clean-up (kc <> None) is outside the property:
   the compensation itself has to succeed.  C30_cleanup_runs states the clean-up in isolation.
   The exit-code / WAL-commit / stream-closure clauses are established for every fault position on explicit
   scenarios (C30_cleanup_scenarios, the boolean the harness evaluates on the implementation). *)
From Coq Require Import List ZArith.
From Verif Require Import Base.Effects Calcium.World Calcium.Ops Calcium.Run Calcium.Sweeps Calcium.LambdaProofs.

Theorem C30_cleanup : forall stdin lines id r w k x nd p,
  find_wl w id = Some x -> find_node w (w_node x) = Some nd -> find_plug w (w_node x) = Some p ->
  exists w' k' (kc : option nat), crunk (lambda_one stdin lines (MCreateOk id r)) w k = (w', k', tt) /\
    (k = None -> kc = None) /\ (k = Some 0%nat -> kc = None) /\
    (kc = None -> lambda_removed id x w w').
Proof. exact lambda_one_spec. Qed.
Print Assumptions C30_cleanup.

Theorem C30_cleanup_runs : forall id tok final w0 w x nd p,
  body_post id w0 w -> find_wl w0 id = Some x -> find_node w0 (w_node x) = Some nd -> find_plug w0 (w_node x) = Some p ->
  exists w', crunk (lambda_cleanup id tok final) w None = (w', None, tt) /\ lambda_removed id x w0 w'.
Proof. exact cleanup_none. Qed.
Print Assumptions C30_cleanup_runs.

(* the rpc handler (sync mode) drains the channel to its end whatever the stream does *)
Theorem C30_rpc_drains : forall ms n k, fst (rpc_forward ms n k) = ms.
Proof. exact rpc_forward_drains. Qed.
Print Assumptions C30_rpc_drains.

Theorem C30_cleanup_scenarios : forall o, In o lambda_ops ->
  forall k, is_send_at (script_of o) (prep busy3 o) k = false ->
  match addr_of (script_of o) (prep busy3 o) k with Some f => in_cleanup f | None => false end = false ->
  c30_check (prep busy3 o) o (waited_of (script_of o) (prep busy3 o) (Some k))
            (fst (final (script_of o) (prep busy3 o) (Some k))) = true.
Proof. exact lambda_scenarios_all_k. Qed.
Print Assumptions C30_cleanup_scenarios.

Theorem C30_beyond_last_call : forall A (p : cprog A) w k, (ncalls p w <= k)%nat ->
  fst (fst (crunk p w (Some k))) = fst (fst (crunk p w None)) /\
  snd (crunk p w (Some k)) = snd (crunk p w None).
Proof. exact runk_beyond. Qed.
Print Assumptions C30_beyond_last_call.
