(* C30 — run-and-wait workloads are always cleaned up.

   C30_cleanup (EVERY world, EVERY engine outcome for logs / attach / wait / exit code, EVERY position k of the
   single injected fault, for the closure handling one created workload): let kc be the fault budget left when
   the deferred clean-up starts.  If kc = None (there is no fault, or it fired earlier: writing the WAL entry,
   looking the record up, fetching logs, attaching, waiting) then when the closure ends (closure_post):
     - the workload has no record, no container, its resources are back in the node's usage, and nothing else
       about nodes changed (cl_removed);
     - the closure's WAL entry is committed: the WAL queue is what it was before the closure (cl_wal);
     - on the channel: the forwarded output, then exactly one last message and nothing after it; the last
       message carries the exit code of the process ([ls_code], the engine's answer) or is an error message
       (cl_out; lambda_body_spec/body_io: the exit code exactly when the wait succeeded).
   kc = None is implied by k = None and by k = 0 (the WAL entry cannot be written: the repaired code removes the
   workload all the same).  A fault inside the clean-up (kc <> None) is outside the property: the compensation
   itself has to succeed.  C30_cleanup_runs states the clean-up in isolation.  C30_stream_closes (every world,
   every fault position): the last thing the whole operation does is close the stream.  Fault positions are the
   faultable calls; a channel send is not one.  C30_all_removed (the WHOLE operation, EVERY world satisfying the
   history invariant, every feasible plan, no fault): every workload the run-and-wait created is gone when it ends (no
   record, no container), the records are exactly those of before and usage = sum holds: nothing of the run is left
   on any node.  With a fault the whole-operation statement is checked on scenarios: C30_cleanup_scenarios re-checks, for every fault position
   outside the clean-up, the boolean the harness evaluates on the implementation, on explicit scenarios.
   Hypothesis on the WAL: the token it issues next is not in use (tokens only grow). *)
From Coq Require Import List ZArith.
From Verif Require Import Base.Effects Calcium.World Calcium.Ops Calcium.Run Calcium.Sweeps Calcium.LambdaProofs
  Calcium.OpsProofs2 Calcium.CreateProofs2 Calcium.HistoryProofs Calcium.LambdaAll.

Theorem C30_cleanup : forall stdin lines id r w k x nd p,
  find_wl w id = Some x -> find_node w (w_node x) = Some nd -> find_plug w (w_node x) = Some p ->
  (forall e, ~ In (wal_seq w, e) (walq w)) ->
  exists w' k' (kc : option nat), crunk (lambda_one stdin lines (MCreateOk id r)) w k = (w', k', tt) /\
    (k = None -> kc = None) /\ (k = Some 0%nat -> kc = None) /\
    (kc = None -> closure_post id x w w').
Proof. exact lambda_one_spec. Qed.
Print Assumptions C30_cleanup.

Theorem C30_cleanup_runs : forall id tok final w0 w x nd p,
  body_post id w0 w -> find_wl w0 id = Some x -> find_node w0 (w_node x) = Some nd -> find_plug w0 (w_node x) = Some p ->
  exists w', crunk (lambda_cleanup id tok final) w None = (w', None, tt) /\ lambda_removed id x w0 w' /\
    out w' = final :: out w /\
    walq w' = filter (fun e => negb (Nat.eqb (fst e) tok)) (walq w).
Proof. exact cleanup_none. Qed.
Print Assumptions C30_cleanup_runs.

(* the body of the closure: what it leaves on the channel and in the WAL, and its last message *)
Theorem C30_body : forall stdin lines id w k,
  exists w1 k1 final, crunk (lambda_body stdin lines id) w k = (w1, k1, final) /\ body_post id w w1 /\ body_io id w w1 final.
Proof. exact lambda_body_spec. Qed.
Print Assumptions C30_body.

Theorem C30_stream_closes : forall opi pod r plan stdin lines w k,
  exists w1 k', crunk (lambda opi pod r plan stdin lines) w k = (set_out w1 (MClose :: out w1), k', tt).
Proof. exact lambda_closes. Qed.
Print Assumptions C30_stream_closes.

(* the whole operation without a fault: nothing of the run is left *)
Theorem C30_all_removed : forall opi pod r plan stdin lines w,
  create_hyp w opi r plan -> Inv w -> wal_ok w ->
  let w' := after (lambda opi pod r plan stdin lines) w None in
  wls w' = wls w /\ Inv w' /\
  exists ms, snd (crunk (create opi pod r plan) w None) = ms /\
    forall p, In p (created_of ms) -> find_wl w' (fst p) = None /\ find_cont w' (fst p) = None.
Proof. exact lambda_all_removed. Qed.
Print Assumptions C30_all_removed.

(* the rpc handler (sync mode) drains the channel to its end whatever the stream does *)
Theorem C30_rpc_drains : forall ms n k, fst (rpc_forward ms n k) = ms.
Proof. exact rpc_forward_drains. Qed.
Print Assumptions C30_rpc_drains.

Theorem C30_cleanup_scenarios : forall o, In o lambda_ops ->
  forall k, match addr_of (script_of o) (prep busy3 o) k with Some f => in_cleanup f | None => false end = false ->
  c30_check (prep busy3 o) o (waited_of (script_of o) (prep busy3 o) (Some k))
            (fst (final (script_of o) (prep busy3 o) (Some k))) = true.
Proof. exact lambda_scenarios_every_k. Qed.
Print Assumptions C30_cleanup_scenarios.

Theorem C30_beyond_last_call : forall A (p : cprog A) w k, (ncalls p w <= k)%nat ->
  fst (fst (crunk p w (Some k))) = fst (fst (crunk p w None)) /\
  snd (crunk p w (Some k)) = snd (crunk p w None).
Proof. exact runk_beyond. Qed.
Print Assumptions C30_beyond_last_call.
