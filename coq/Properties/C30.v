(* C30 — run-and-wait workloads are always cleaned up.

   FULL STATEMENT: for every run-and-wait request, engine outcome (logs / attach / wait ok or failing, exit code)
   and fault position outside the clean-up itself: every workload started by the call is gone afterwards (record,
   container, usage), the exit code is the last message of a workload whose wait succeeded, the WAL entries are
   committed, the output stream closes.  Proved for EVERY such fault position on the explicit scenario family
   Sweeps.lambda_ops (count 1-3, stdin on/off, logs/attach/wait failing, exit code 0/7) over world busy3; the
   unbounded statement over all worlds is not proved (partial). *)
From Coq Require Import ZArith.
From Coq Require Import List.
From Verif Require Import Base.Effects Calcium.World Calcium.Ops Calcium.Run Calcium.Sweeps.

Theorem C30_cleanup_scenarios : forall o, In o lambda_ops ->
  forall k, is_send_at (script_of o) (prep busy3 o) k = false ->
  match addr_of (script_of o) (prep busy3 o) k with Some f => in_cleanup f | None => false end = false ->
  c30_check (prep busy3 o) o (waited_of (script_of o) (prep busy3 o) (Some k))
            (fst (final (script_of o) (prep busy3 o) (Some k))) = true.
Proof. exact lambda_scenarios_all_k. Qed.
Print Assumptions C30_cleanup_scenarios.

Theorem C30_beyond_last_call : forall A (p : cprog A) w k, (ncalls p w <= k)%nat ->
  fst (fst (crunk p w (Some k))) = fst (fst (crunk p w None)) /\
  snd (crunk p w (Some k)) = snd (crunk p w None).
Proof. exact runk_beyond. Qed.
Print Assumptions C30_beyond_last_call.
