(* C17 — the transaction helper rolls back exactly when a step failed.
   This file contains only the property theorems. *)
From Verif Require Import Utils.Txn Utils.TxnProofs.

Theorem C17_txn : forall cnd thn rb cp ca, cnd <> Absent -> txn_spec cnd thn rb cp ca.
Proof. exact txn_spec_holds. Qed.
Print Assumptions C17_txn.

Theorem C17_pcr : forall prep com rb cp ca,
  prep <> Absent -> com <> Absent -> rb <> Absent -> pcr_spec prep com rb cp ca.
Proof. exact pcr_spec_holds. Qed.
Print Assumptions C17_pcr.

(* the boolean check the harness evaluates on implementation output accepts the model *)
Theorem C17_ok_sound_on_model : forall cnd thn rb cp ca, cnd <> Absent ->
  txn_ok cnd thn rb ca (fst (txn cnd thn rb cp ca)) (snd (txn cnd thn rb cp ca)) = true.
Proof. exact txn_ok_model. Qed.
Print Assumptions C17_ok_sound_on_model.
