(* C26 — ephemeral registrations are exclusive and owner-safe.
   etcd implementation (store/etcdv3/meta/ephemeral.go): proved, for any number of
   registrants under any schedule of register / tick / stop / third-party lease
   revocation / clock advance.
   redis implementation (store/redis/ephemeral.go): REFUTED (known finding
   C26-redis-no-owner-check): EXPIRE and DEL carry no owner check and a lapse is
   never notified.  Full statement for redis, false of the faithful model:
     forall reachable s, two believers -> i = j;  a lapsed believer is closed at
     its next tick;  QTick i / QStop i leave a key created by j <> i untouched.
   Strongest true statement: C26_redis_partial (no lapse: exclusive, and the one
   believer is the creator of the key, so its refresh / delete act on its own key).
   This file contains only the property theorems. *)
From Coq Require Import List ZArith.
From Verif Require Import Base.KV Locks.Interleave Locks.Ephemeral Locks.EphemeralProofs Locks.EphemeralOkProofs.

Theorem C26_etcd_exclusive : forall s i j a b,
  reachable estep esys_init s ->
  nth_error (es_rs s) i = Some a -> nth_error (es_rs s) j = Some b ->
  e_holds s a = true -> e_holds s b = true -> i = j.
Proof. exact etcd_exclusive. Qed.
Print Assumptions C26_etcd_exclusive.

Theorem C26_etcd_holder_owns_key : forall s i a,
  reachable estep esys_init s -> nth_error (es_rs s) i = Some a -> e_holds s a = true ->
  e_owner_lease s = Some (g_lease a).
Proof. exact etcd_holder_owns_key. Qed.
Print Assumptions C26_etcd_holder_owns_key.

Theorem C26_etcd_notified : forall s i g,
  nth_error (es_rs s) i = Some g -> g_pc g = EActive -> e_lease_live (es_kv s) (g_lease g) = false ->
  exists s1 s2 g2, estep s (GTick i) = Some s1 /\ estep s1 (GRevokeOwn i) = Some s2 /\
                   nth_error (es_rs s2) i = Some g2 /\ g_pc g2 = EClosed.
Proof. exact etcd_notified. Qed.
Print Assumptions C26_etcd_notified.

Theorem C26_etcd_owner_safe : forall s l s' i g',
  own_step i l -> estep s l = Some s' -> nth_error (es_rs s') i = Some g' ->
  touches_only (g_lease g') (es_kv s) (es_kv s').
Proof. exact etcd_owner_safe. Qed.
Print Assumptions C26_etcd_owner_safe.

Theorem C26_etcd_others_cannot_disturb : forall s l s' i j a,
  reachable estep esys_init s ->
  own_step i l -> i <> j -> estep s l = Some s' ->
  nth_error (es_rs s) j = Some a -> e_holds s a = true ->
  nth_error (es_rs s') j = Some a /\ e_holds s' a = true /\ e_owner_lease s' = Some (g_lease a).
Proof. exact etcd_others_cannot_disturb. Qed.
Print Assumptions C26_etcd_others_cannot_disturb.

Theorem C26_redis_refuted :
  exists s0 s1 s2 a0 b0 a1 b2,
    run sstep ssys_init c26_prefix = Some s0 /\
    nth_error (ss_rs s0) 0 = Some a0 /\ nth_error (ss_rs s0) 1 = Some b0 /\
    s_believes a0 = true /\ s_believes b0 = true /\ s_owner s0 = Some 1%nat /\
    r_ttl ueq (ss_kv s0) tt = Some (Some 200%Z) /\
    sstep s0 (QTick 0) = Some s1 /\
    s_owner s1 = Some 1%nat /\ r_ttl ueq (ss_kv s1) tt = Some (Some 1000%Z) /\
    nth_error (ss_rs s1) 0 = Some a1 /\ s_believes a1 = true /\
    sstep s1 (QStop 0) = Some s2 /\
    s_owner s2 = None /\ nth_error (ss_rs s2) 1 = Some b2 /\ s_believes b2 = true.
Proof. exact redis_c26_refuted. Qed.
Print Assumptions C26_redis_refuted.

Theorem C26_redis_never_notified : forall ls s s' i g,
  run sstep s ls = Some s' -> nth_error (ss_rs s) i = Some g -> q_pc g = SActive -> no_stop i ls ->
  exists g', nth_error (ss_rs s') i = Some g' /\ q_pc g' = SActive.
Proof. exact redis_never_notified_run. Qed.
Print Assumptions C26_redis_never_notified.

Theorem C26_redis_partial : forall s i j a b,
  reachable sstep_nl ssys_init s ->
  nth_error (ss_rs s) i = Some a -> nth_error (ss_rs s) j = Some b ->
  s_believes a = true -> s_believes b = true -> i = j /\ s_owner s = Some i.
Proof. exact redis_exclusive_without_lapse. Qed.
Print Assumptions C26_redis_partial.

(* bounded sweep (the bound is part of the statement): on every schedule of at most
   5 macro operations over two registrants that the harness can produce, directly
   and through selfmon.withActiveLock, the boolean reflection [Ephemeral.ok]
   evaluated on what the etcd model produces is true *)
Theorem C26_ok_accepts_etcd_model_bounded :
  forallb (fun ops => orb (negb (e_legal e_start ops)) (ok_on_model BEtcd (1%Z :: 1%Z :: nil) ops)) (schedules 5) = true /\
  forallb (fun ops => orb (negb (ew_legal (e_start, None) ops)) (ok_on_model BEtcdW (1%Z :: 1%Z :: nil) ops)) (schedules 5) = true.
Proof. exact ok_sound_on_etcd_model_bounded. Qed.
Print Assumptions C26_ok_accepts_etcd_model_bounded.

(* the registrants named by the property — service registration
   (calcium.RegisterService) and the active node-status watcher (selfmon.run /
   withActiveLock) — are client loops over StartEphemeral: in any of the three
   loops, for any number of registrants and any schedule of start / lapse / tick /
   stop, across restarts and re-registrations, at most one registrant believes it
   holds the key with a live lease, and the key carries its lease *)
Theorem C26_etcd_loops_exclusive : forall mode obsf ttls ops s i j a b,
  s = fst (w_state mode obsf (run_skip estep esys_init (map GNew ttls), None) ops) ->
  nth_error (es_rs s) i = Some a -> nth_error (es_rs s) j = Some b ->
  e_holds s a = true -> e_holds s b = true ->
  i = j /\ e_owner_lease s = Some (g_lease a).
Proof. exact etcd_loops_exclusive. Qed.
Print Assumptions C26_etcd_loops_exclusive.

Theorem C26_ok_accepts_etcd_loops_bounded :
  forallb (fun ops => orb (negb (er_legal WRun e_obs2 (e_start, None) ops)) (ok_on_model BEtcdR (1%Z :: 1%Z :: nil) ops)) (schedules 5) = true /\
  forallb (fun ops => orb (negb (er_legal WService e_obs2 (e_start, None) ops)) (ok_on_model BEtcdS (1%Z :: 1%Z :: nil) ops)) (schedules 5) = true.
Proof. exact ok_sound_on_etcd_loops_bounded. Qed.
Print Assumptions C26_ok_accepts_etcd_loops_bounded.

(* unbounded: for schedules of any length over any number of registrants that the
   harness can produce (a registrant is (re)started only when it is not
   registered), the boolean reflection [Ephemeral.ok] is true on what the etcd
   model produces (plain StartEphemeral mode; for the client loops see the bounded
   sweeps above) *)
Theorem C26_ok_accepts_etcd_model : forall ttls ops,
  e_legal (run_skip estep esys_init (map GNew ttls)) ops = true ->
  ok (mkCase BEtcd ttls ops (model_obs (mkCase BEtcd ttls ops nil))) = true.
Proof. exact ok_accepts_etcd_model. Qed.
Print Assumptions C26_ok_accepts_etcd_model.

Theorem C26_ok_accepts_etcd_loops_bounded3 :
  forallb (fun ops => orb (negb (ew_legal (e_start3, None) ops)) (ok_on_model BEtcdW (1%Z :: 1%Z :: 1%Z :: nil) ops)) (schedules3 4) = true /\
  forallb (fun ops => orb (negb (er_legal WRun e_obs2 (e_start3, None) ops)) (ok_on_model BEtcdR (1%Z :: 1%Z :: 1%Z :: nil) ops)) (schedules3 4) = true /\
  forallb (fun ops => orb (negb (er_legal WService e_obs2 (e_start3, None) ops)) (ok_on_model BEtcdS (1%Z :: 1%Z :: 1%Z :: nil) ops)) (schedules3 4) = true.
Proof. exact ok_sound_on_etcd_loops_bounded3. Qed.
Print Assumptions C26_ok_accepts_etcd_loops_bounded3.
