(* C02 — a deployment is refused only when no plan under the strategy's rule exists. *)
From Coq Require Import String ZArith List.
From Verif Require Import Base.GoInt Strategy.Model Strategy.ProofsOld.

(* the code before the repair (fix: FILL ... overflow) violated the property *)
Theorem C02_fill_old_refuted :
  feasible Fill 3 0 w_fill = true /\ fill_old w_fill 3 0 = Err EInsufficientResource.
Proof. exact fill_old_refuted. Qed.
Print Assumptions C02_fill_old_refuted.
