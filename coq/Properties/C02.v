(* C02 — a deployment is refused only when no plan under the strategy's rule exists.

   [feasible s need limit infos] (Strategy/Model.v) is the reference feasibility:
     AUTO: need <= sum of room n, room n = min(cap n, max(0, limit - count n)) (cap n when limit = 0);
     GLOBAL / DRAINED: need <= sum of capacities (mathematical sum);
     EACH: limit' <= #nodes, 1 <= limit', limit' <= #{cap >= need};
     FILL: the same with #{count + cap >= need}  (mathematical +).
   [total = satsum caps] is the saturating sum the caller passes. *)
From Coq Require Import String ZArith List Permutation.
From Verif Require Import Base.GoInt Strategy.Model Strategy.ProofsBase Strategy.Proofs
  Strategy.ProofsOk Strategy.ProofsOld Strategy.Glue Strategy.ProofsGlue Strategy.ModelW Strategy.ProofsW Strategy.ProofsW2 Calcium.DeployPath Calcium.DeployPathProofs.
Local Open Scope Z_scope.

Theorem C02_complete :
  forall infos need limit total,
  valid_infos infos -> 0 < need -> 0 <= limit ->
  forall s, s <> Other -> need <= max_int -> total = satsum (map cap infos) ->
  (feasible s need limit infos = true -> exists p, is_plan (deploy s need limit infos total) p) /\
  (feasible s need limit infos = false ->
     deploy s need limit infos total = Err EInsufficientResource \/
     deploy s need limit infos total = Err EInsufficientCapacity).
Proof. exact Proofs.C02_complete. Qed.
Print Assumptions C02_complete.

(* whatever total the caller passes: the outcome is a plan or an insufficient-* refusal
   (never a panic, never fuel exhaustion of the model) *)
Theorem C02_total_outcome :
  forall infos need limit total,
  valid_infos infos -> 0 < need -> 0 <= limit ->
  forall s, s <> Other ->
  (exists p, is_plan (deploy s need limit infos total) p) \/
  (deploy s need limit infos total = Err EInsufficientResource \/
   deploy s need limit infos total = Err EInsufficientCapacity).
Proof. exact deploy_total_outcome. Qed.
Print Assumptions C02_total_outcome.

(* the code before the repair (/repo: "fix: FILL skips a node with unlimited capacity ...")
   violated the property: a feasible request was refused *)
Theorem C02_fill_old_refuted :
  feasible Fill 3 0 w_fill = true /\ fill_old w_fill 3 0 = Err EInsufficientResource.
Proof. exact fill_old_refuted. Qed.
Print Assumptions C02_fill_old_refuted.

(* links between the boolean check, the statement and the model *)
(* meaning of a passing check on an implementation output *)
Theorem C02_ok_links :
  (forall s need limit infos total ord,
  C02_ok (mkCase s need limit infos total (deploy s need limit infos total) ord) = true) /\
  (forall c, valid_case c = true -> c_total c = satsum (map cap (c_infos c)) ->
  C02_ok c = true ->
  (feasible (c_strat c) (c_need c) (c_limit c) (c_infos c) = true ->
     exists p, o_res c = Ok p \/ o_res c = AlreadyFilled p) /\
  (feasible (c_strat c) (c_need c) (c_limit c) (c_infos c) = false ->
     o_res c = Err EInsufficientResource \/ o_res c = Err EInsufficientCapacity)).
Proof. exact (conj C02_ok_model ProofsOk.C02_ok_meaning). Qed.
Print Assumptions C02_ok_links.

Theorem C02_glue :
  forall caps order status need limit total,
  valid_caps caps status -> Permutation caps order -> 0 < need -> 0 <= limit ->
  forall s, s <> Other -> need <= max_int -> total = satsum (map ce_cap order) ->
  (feasible s need limit (glue_infos order status) = true ->
     (exists p, glue s need limit order status total = Ok p) \/
     glue s need limit order status total = AlreadyFilled nil) /\
  (feasible s need limit (glue_infos order status) = false ->
     glue s need limit order status total = Err EInsufficientResource \/
     glue s need limit order status total = Err EInsufficientCapacity).
Proof. exact glue_C02. Qed.
Print Assumptions C02_glue.

Theorem C02_complete_int64 :
  forall s need limit infos total,
  NoDup (names infos) -> dom64 s need limit infos ->
  s <> Other -> total = satsum (map cap infos) ->
  (feasible s need limit infos = true -> exists p, is_plan (deployW s need limit infos total) p) /\
  (feasible s need limit infos = false ->
     deployW s need limit infos total = Err EInsufficientResource \/
     deployW s need limit infos total = Err EInsufficientCapacity).
Proof. exact C02_complete_W. Qed.
Print Assumptions C02_complete_int64.

(* composed deploy path: the total IS the saturating sum, C02 without that hypothesis *)
(* ---- along the composed deploy path the total IS the saturating sum: C02 without
   the hypothesis on [total] (discharged by the cobalt / cpumem models) ---- *)
Theorem C02_path :
  (forall (answers : list Merge.famap) morder,
  answers <> nil ->
  (forall a, In a answers -> NoDup (map fst a)) ->
  (forall a k v, In a answers -> In (k, v) a -> 0 <= Merge.n_cap v <= max_int) ->
  Permutation (entries_of (fst (Merge.gndc_f answers))) morder ->
  snd (Merge.gndc_f answers) = satsum (map ce_cap morder)) /\
  (forall sortf base maxshare raw req orders nodes caps morder status need limit s,
  path_hyps sortf base maxshare raw req orders nodes caps morder status need limit ->
  s <> Other -> need <= max_int ->
  (feasible s need limit (glue_infos morder status) = true ->
     (exists p, deploy_path sortf base maxshare raw orders nodes morder status s need limit = PResult (Ok p)) \/
     deploy_path sortf base maxshare raw orders nodes morder status s need limit = PResult (AlreadyFilled nil)) /\
  (feasible s need limit (glue_infos morder status) = false ->
     deploy_path sortf base maxshare raw orders nodes morder status s need limit = PResult (Err EInsufficientResource) \/
     deploy_path sortf base maxshare raw orders nodes morder status s need limit = PResult (Err EInsufficientCapacity))).
Proof. exact (conj path_total deploy_path_C02). Qed.
Print Assumptions C02_path.

