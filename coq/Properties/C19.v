(* C19 — a holder is told when it loses its lock.
   etcd backend: proved (theorems C19_etcd_...).  redis backend: REFUTED — the lock returns
   context.TODO(), which no step ever cancels (C19_redis_refuted; known finding
   C19-redis-context-never-cancelled); the strongest true statement for redis is
   C19_redis_partial.  Full statement for redis, false of the faithful model:
     forall reachable s, holder a past its TTL and another contender in its
     critical section -> some bounded number of helper steps cancels a's context.
   The wall-clock length of "one keepalive interval" is the etcd client's
   behaviour (trusted); the bounds here are in model steps.
   This file contains only the property theorems. *)
From Coq Require Import List ZArith.
From Verif Require Import Base.KV Locks.Interleave Locks.LockLog Locks.EtcdLock Locks.EtcdLockProofs
  Locks.RedisLock Locks.RedisLockProofs Locks.MultiLock Locks.MultiLockProofs.

Theorem C19_etcd_notify : forall s i c,
  reachable step sys_init s ->
  nth_error (s_cs s) i = Some c -> c_pc c = Held ->
  e_lease_live (s_kv s) (c_lease c) = false -> ctx_view c <> CtxSessionDone ->
  exists s' c', run step s (notify_steps i c) = Some s' /\
                nth_error (s_cs s') i = Some c' /\ ctx_view c' = CtxSessionDone /\ c_pc c' = Held.
Proof. exact etcd_notify. Qed.
Print Assumptions C19_etcd_notify.

(* ordering obligation on the watcher: setting the error and closing Done() are
   not preceded by (and do not contain) any call to the store, so they cannot
   block when etcd is unreachable *)
Theorem C19_etcd_cancel_needs_no_store : forall s kv' i l,
  l = LWatch i \/ l = LCancel i ->
  step (mkSys kv' (s_cs s)) l =
  match step s l with Some s' => Some (mkSys kv' (s_cs s')) | None => None end /\
  (forall s', step s l = Some s' -> s_kv s' = s_kv s).
Proof. exact etcd_watch_cancel_store_free. Qed.
Print Assumptions C19_etcd_cancel_needs_no_store.

Theorem C19_etcd_overlap_bound : forall s i j a b,
  reachable step sys_init s ->
  nth_error (s_cs s) i = Some a -> nth_error (s_cs s) j = Some b -> i <> j ->
  c_pc a = Held -> ctx_view a <> CtxSessionDone -> holds s b = true ->
  e_lease_live (s_kv s) (c_lease a) = false /\ (c_w a = WWatching \/ c_w a = WCancelling) /\
  (exists s' a', run step s (notify_steps i a) = Some s' /\
                 nth_error (s_cs s') i = Some a' /\ ctx_view a' = CtxSessionDone).
Proof. exact etcd_overlap_bound. Qed.
Print Assumptions C19_etcd_overlap_bound.

Theorem C19_etcd_no_false_alarm : forall s i c,
  reachable step sys_init s ->
  nth_error (s_cs s) i = Some c -> c_ctx c = CtxSessionDone ->
  e_lease_live (s_kv s) (c_lease c) = false.
Proof. exact etcd_ctx_sound. Qed.
Print Assumptions C19_etcd_no_false_alarm.

Theorem C19_redis_refuted :
  exists s a b,
    run rstep rsys_init c19_witness = Some s /\
    nth_error (rs_cs s) 0 = Some a /\ nth_error (rs_cs s) 1 = Some b /\
    in_cs a = true /\ in_cs b = true /\ rholds s b = true /\
    within_lease s a = false /\
    (forall ls s' a', run rstep s ls = Some s' -> nth_error (rs_cs s') 0 = Some a' -> r_ctx a' = CtxLive).
Proof. exact redis_c19_refuted. Qed.
Print Assumptions C19_redis_refuted.

Theorem C19_redis_never_cancelled : forall s c,
  reachable rstep rsys_init s -> In c (rs_cs s) -> r_ctx c = CtxLive.
Proof. exact redis_ctx_never_cancelled. Qed.
Print Assumptions C19_redis_never_cancelled.

Theorem C19_redis_partial : forall s i j a b,
  reachable rstep rsys_init s ->
  nth_error (rs_cs s) i = Some a -> nth_error (rs_cs s) j = Some b -> i <> j ->
  r_pc a = RHeld -> r_pc b = RHeld ->
  within_lease s a = false \/ within_lease s b = false.
Proof. exact redis_overlap_only_after_ttl. Qed.
Print Assumptions C19_redis_partial.

(* the multi-lock helpers of cluster/calcium/lock.go (withWorkloadsLocked,
   withNodesLocked) chain the lock contexts: the critical section runs under the
   last of the chain, which is cancelled as soon as the own context of ANY of the
   locks is cancelled with the session-done error (C19_etcd_notify for that key) *)
Theorem C19_chain_cancelled : forall own,
  Forall own_state own -> In CtxSessionDone own -> is_done (last (chain false own) CtxLive) = true.
Proof. exact chain_cancelled. Qed.
Print Assumptions C19_chain_cancelled.
