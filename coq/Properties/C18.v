(* C18 — distributed locks are mutually exclusive (etcd and redis backends).
   This file contains only the property theorems.  The transition systems
   (EtcdLock.step over EtcdLock.sys, RedisLock.rstep over RedisLock.rsys) have an
   unbounded number of contenders (label LNew / RNew creates one) and every
   theorem about "reachable" states holds under every schedule, including lease
   revocation / expiry and clock advance. *)
From Coq Require Import List ZArith.
From Verif Require Import Base.KV Locks.Interleave Locks.LockLog Locks.EtcdLock Locks.EtcdLockProofs
  Locks.EtcdAcceptProofs Locks.EtcdFifoProofs Locks.RedisLock Locks.RedisLockProofs Locks.RedisAcceptProofs.

(* ---- etcd ---- *)
Theorem C18_etcd_mutex : forall s i j a b,
  reachable step sys_init s ->
  nth_error (s_cs s) i = Some a -> nth_error (s_cs s) j = Some b ->
  holds s a = true -> holds s b = true -> i = j.
Proof. exact etcd_mutex. Qed.
Print Assumptions C18_etcd_mutex.

Theorem C18_etcd_at_most_one_holder : forall s, reachable step sys_init s -> (holders s <= 1)%nat.
Proof. exact etcd_holders_le_one. Qed.
Print Assumptions C18_etcd_at_most_one_holder.

Theorem C18_etcd_mutex_while_leases_live : forall s i j a b,
  reachable step sys_init s ->
  (forall c, In c (s_cs s) -> c_pc c = Held -> e_lease_live (s_kv s) (c_lease c) = true) ->
  nth_error (s_cs s) i = Some a -> nth_error (s_cs s) j = Some b ->
  c_pc a = Held -> c_pc b = Held -> i = j.
Proof. exact etcd_mutex_no_expiry. Qed.
Print Assumptions C18_etcd_mutex_while_leases_live.

Theorem C18_etcd_trylock : forall s s' i j c h,
  reachable step sys_init s ->
  nth_error (s_cs s) j = Some h -> holds s h = true -> i <> j ->
  nth_error (s_cs s) i = Some c -> c_pc c = Called OpTry ->
  step s (LAcq i) = Some s' ->
  exists c', nth_error (s_cs s') i = Some c' /\
             (c_pc c' = TryDel \/ c_pc c' = Failed ErrLeaseNotFound).
Proof. exact etcd_trylock_fails. Qed.
Print Assumptions C18_etcd_trylock.

Theorem C18_etcd_trylock_returns_locked : forall s i c,
  nth_error (s_cs s) i = Some c -> c_pc c = TryDel ->
  exists s' c', step s (LDelOwn i) = Some s' /\ nth_error (s_cs s') i = Some c' /\ c_pc c' = Failed ErrLocked.
Proof. exact etcd_trydel_fails. Qed.
Print Assumptions C18_etcd_trylock_returns_locked.

Theorem C18_etcd_wait_acquires : forall s i c,
  reachable step sys_init s ->
  nth_error (s_cs s) i = Some c -> c_pc c = Waiting -> e_lease_live (s_kv s) (c_lease c) = true ->
  nobody_ahead s c ->
  exists s1 s2 c2, step s (LPoll i) = Some s1 /\ step s1 (LVerify i) = Some s2 /\
                   nth_error (s_cs s2) i = Some c2 /\ c_pc c2 = Held /\ s_kv s2 = s_kv s.
Proof. exact etcd_wait_acquires. Qed.
Print Assumptions C18_etcd_wait_acquires.

Theorem C18_etcd_wait_timeout : forall s i c,
  nth_error (s_cs s) i = Some c -> c_pc c = Waiting ->
  exists s1 s2 c2, step s (LTimeout i) = Some s1 /\ step s1 (LDelOwn i) = Some s2 /\
                   nth_error (s_cs s2) i = Some c2 /\ c_pc c2 = Failed ErrDeadline.
Proof. exact etcd_wait_timeout. Qed.
Print Assumptions C18_etcd_wait_timeout.

(* nobody overtakes a waiter: the number of keys ahead of a waiting contender
   never grows, whatever step anybody takes *)
Theorem C18_etcd_no_overtaking : forall s l s' i c c',
  reachable step sys_init s -> step s l = Some s' ->
  nth_error (s_cs s) i = Some c -> nth_error (s_cs s') i = Some c' ->
  c_pc c = Waiting -> c_pc c' = Waiting -> e_lease_live (s_kv s) (c_lease c) = true ->
  (ahead s' c' <= ahead s c)%nat.
Proof. exact etcd_ahead_mono. Qed.
Print Assumptions C18_etcd_no_overtaking.

(* the tie between the three parts: an event log (with no injected loss) that the
   trace acceptor explains by the model has no overlapping critical sections, so
   an implementation run that breaks mutual exclusion also breaks agreement *)
Theorem C18_etcd_agree_implies_mutex_ok : forall c,
  EtcdLock.agree c = true -> no_lose (k_log c) -> mutex_ok (k_log c) = true.
Proof. exact etcd_agree_implies_mutex_ok. Qed.
Print Assumptions C18_etcd_agree_implies_mutex_ok.

(* ---- redis ---- *)
Theorem C18_redis_mutex : forall s i j a b,
  reachable rstep rsys_init s ->
  nth_error (rs_cs s) i = Some a -> nth_error (rs_cs s) j = Some b ->
  rholds s a = true -> rholds s b = true -> i = j.
Proof. exact redis_mutex. Qed.
Print Assumptions C18_redis_mutex.

Theorem C18_redis_at_most_one_holder : forall s, reachable rstep rsys_init s -> (rholders s <= 1)%nat.
Proof. exact redis_holders_le_one. Qed.
Print Assumptions C18_redis_at_most_one_holder.

Theorem C18_redis_trylock : forall s s' i j c h,
  reachable rstep rsys_init s ->
  nth_error (rs_cs s) j = Some h -> rholds s h = true -> i <> j ->
  nth_error (rs_cs s) i = Some c -> r_pc c = RCalled OpTry ->
  rstep s (RTry i) = Some s' ->
  exists c' e, nth_error (rs_cs s') i = Some c' /\ r_pc c' = RFailed e /\ rs_kv s' = rs_kv s.
Proof. exact redis_trylock_fails. Qed.
Print Assumptions C18_redis_trylock.

Theorem C18_redis_wait_acquires : forall s i c,
  nth_error (rs_cs s) i = Some c -> waiting_pc (r_pc c) -> r_dead c = false -> key_free s = true ->
  exists s' c', rstep s (RTry i) = Some s' /\ nth_error (rs_cs s') i = Some c' /\ r_pc c' = RHeld.
Proof. exact redis_wait_acquires. Qed.
Print Assumptions C18_redis_wait_acquires.

Theorem C18_redis_wait_blocked : forall s i c,
  nth_error (rs_cs s) i = Some c -> waiting_pc (r_pc c) -> r_dead c = false -> key_free s = false ->
  exists s' c', rstep s (RTry i) = Some s' /\ nth_error (rs_cs s') i = Some c' /\ r_pc c' = RRetrying
                /\ rs_kv s' = rs_kv s.
Proof. exact redis_wait_blocked. Qed.
Print Assumptions C18_redis_wait_blocked.

Theorem C18_redis_wait_timeout : forall s i c,
  nth_error (rs_cs s) i = Some c -> waiting_pc (r_pc c) ->
  exists s1 s2 c2, rstep s (RTimeout i) = Some s1 /\ rstep s1 (RTry i) = Some s2 /\
                   nth_error (rs_cs s2) i = Some c2 /\ r_pc c2 = RFailed RDeadline /\ rs_kv s2 = rs_kv s.
Proof. exact redis_wait_timeout. Qed.
Print Assumptions C18_redis_wait_timeout.

Theorem C18_redis_agree_implies_mutex_ok : forall c,
  RedisLock.ragree c = true -> no_lose (rk_log c) -> mutex_ok (rk_log c) = true.
Proof. exact redis_agree_implies_mutex_ok. Qed.
Print Assumptions C18_redis_agree_implies_mutex_ok.
