(* C05 — CPU-bound instances receive exactly the CPU amount requested.
   This file contains only the property theorems (proofs: Cpumem/SchedProofs*.v).

   A request "expressible with the share base's precision" is the double nearest
   to the decimal k/base ([decimal_request k base], what a client's 0.29 is).
   The model follows the code after the repair `int(math.Round(cpu*base))`
   (/repo 5bf30c8); before it the piece count was truncated
   (C05_truncation_before_repair). *)
From Coq Require Import String List ZArith Permutation.
From Verif Require Import Base.GoFloat Cpumem.Types Cpumem.Schedule Cpumem.Calc Cpumem.SchedCase.
From Verif Require Import Cpumem.SchedProofsPieces Cpumem.SchedProofsTop Cpumem.SchedProofsDeploy Cpumem.SchedProofsExtra Cpumem.SchedProofsExamples.
Local Open Scope Z_scope.

(* the arithmetic core, analytically (Flocq): two correctly rounded operations
   lose less than half a piece for every k < 2^50 and every base up to 2^53 *)
Theorem C05_pieces_exact : forall k base, 1 <= k < 2^50 -> 1 <= base <= 2^53 ->
  pieces_request base (decimal_request k base) = k.
Proof. exact decimal_pieces. Qed.
Print Assumptions C05_pieces_exact.

(* every plan GetCPUPlans returns for such a request: pieces total k, as
   k/base cores at exactly [base] plus, when k mod base <> 0, exactly one more
   core with the remainder; for every node, NUMA order and any permuting sort *)
Theorem C05_exact : forall sortf,
  (forall l, exists l', sortf l = Ok l' /\ Permutation l' l) ->
  forall info origin base maxfrag req numa_order fuel plans k,
  get_cpu_plans_g sortf info origin base maxfrag req numa_order fuel = Ok plans ->
  wf_maps info -> NoDup numa_order ->
  1 <= k < 2^50 -> 1 <= base <= 2^53 -> rq_cpu_req req = decimal_request k base ->
  forall tp, In tp plans ->
    c05_plan_ok base k (snd tp) = true
    /\ exists p0 fr, snd tp = p0 ++ fr /\ Z.of_nat (length p0) = Z.quot k base
         /\ Forall (fun kv => snd kv = base) p0
         /\ ((Z.rem k base = 0 /\ fr = nil) \/ (0 < Z.rem k base /\ exists c, fr = cons (c, Z.rem k base) nil))
         /\ total_pieces (snd tp) = k.
Proof. exact plans_exact. Qed.
Print Assumptions C05_exact.

(* for ANY float request (on the decimal grid or not): every plan totals exactly
   int(math.Round(request * base)) pieces, the request times the share base to the nearest
   piece, with the same core layout *)
Theorem C05_nearest_piece : forall sortf,
  (forall l, exists l', sortf l = Ok l' /\ Permutation l' l) ->
  forall info origin base maxfrag req numa_order fuel plans,
  get_cpu_plans_g sortf info origin base maxfrag req numa_order fuel = Ok plans ->
  wf_maps info -> NoDup numa_order -> 0 < base ->
  forall tp, In tp plans ->
    let pr := pieces_request base (rq_cpu_req req) in
    0 < pr /\ total_pieces (snd tp) = pr /\ c05_plan_ok base pr (snd tp) = true.
Proof. exact plans_total_nearest. Qed.
Print Assumptions C05_nearest_piece.

(* the amount recorded for the workload agrees with the pieces it was given *)
Theorem C05_recorded : forall sortf,
  (forall l, exists l', sortf l = Ok l' /\ Permutation l' l) ->
  forall info base maxshare count raw numa_order fuel eps ws req k,
  calculate_deploy_g sortf info base maxshare count raw numa_order fuel = Ok (inr (eps, ws)) ->
  wreq_validate raw = inr req -> rq_bind req = true ->
  wf_maps info -> NoDup numa_order ->
  1 <= k < 2^50 -> 1 <= base <= 2^53 -> rq_cpu_req req = decimal_request k base ->
  length eps = length ws
  /\ forall i w e, nth_error ws i = Some w -> nth_error eps i = Some e ->
       wr_cpu_req w = decimal_request k base
       /\ total_pieces (wr_cpumap w) = k
       /\ c05_plan_ok base k (wr_cpumap w) = true
       /\ ep_cpumap e = wr_cpumap w.
Proof. exact deploy_recorded. Qed.
Print Assumptions C05_recorded.

(* the code before the repair violated the property *)
Theorem C05_truncation_before_repair :
  pieces_request_trunc 100 (decimal_request 29 100) = 28
  /\ pieces_request_trunc 100 (decimal_request 57 100) = 56
  /\ pieces_request_trunc 100 (decimal_request 115 100) = 114.
Proof. exact truncation_defect. Qed.
Print Assumptions C05_truncation_before_repair.
