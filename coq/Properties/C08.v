(* C08 — plugin resource bookkeeping is exact and reversible.
   Model: Cpumem/Node.v (after the `fix:` of WorkloadResource.DeepCopy).
   This file contains only the property theorems.

   Full statement: after any history of alloc / rollback-alloc / realloc /
   rollback-realloc / release committed through the resource manager, the
   node's usage equals the sum of the resources of the live workloads in total
   CPU, per-core pieces, memory and per-NUMA-node memory; a rollback restores
   the usage exactly.

   The allocation and re-allocation steps take what CalculateDeploy /
   CalculateRealloc returned as an arbitrary oracle value (only required to be
   a Go map, i.e. unique keys), so the theorems hold whatever the scheduler
   does. *)
From Coq Require Import String List ZArith Reals.
From Flocq Require Import IEEE754.Binary.
From Verif Require Import Base.GoFloat Cpumem.Types Cpumem.Node Cpumem.BookProofs Cpumem.BookCpuProofs Cpumem.BookGridProofs.
Import ListNotations.

(* per-core pieces, memory, per-NUMA memory: every history, every oracle *)
Theorem C08_exact_int : forall (info : node_info) (h : list op),
  inv_valid (mkState info []) -> usage_zero (ni_usage info) -> Forall op_wf h ->
  usage_exact_int (ni_usage (st_info (run (mkState info []) h))) (st_live (run (mkState info []) h)).
Proof. exact exact_int_all_histories. Qed.
Print Assumptions C08_exact_int.

(* the invariant is inductive: it is preserved from ANY state in which it holds *)
Theorem C08_step_int : forall (s : state) (o : op),
  op_wf o -> inv_valid s -> inv_int s -> inv_int (sr_state (step s o)).
Proof. exact step_inv_int. Qed.
Print Assumptions C08_step_int.

(* the stored record stays valid (passes Validate, usage maps are Go maps) *)
Theorem C08_step_valid : forall (o : op) (s : state), inv_valid s -> inv_valid (sr_state (step s o)).
Proof. exact step_valid. Qed.
Print Assumptions C08_step_valid.

(* a manager-level operation that fails because ANOTHER plugin of the manager
   refuses the commit leaves this plugin's usage exactly as before: cobalt writes
   the saved "before" usage back, the write is always accepted from a valid
   state, and the maps, memory (and, by C08_step_cpu, the cpu total) are those
   of the state before; the live set is untouched.  (An operation refused by
   this plugin itself stores nothing: every theorem above covers that case.) *)
Theorem C08_failed_commit : forall (s : state) (inner : op), inv_valid s ->
  let r := step s (OpFailedCommit inner) in
  sr_err r = true /\ st_live (sr_state r) = st_live s /\
  (st_info (sr_state r) = st_info s \/
   st_info (sr_state r) = mkNI (ni_cap (st_info s)) (written_back (ni_usage (st_info s)))).
Proof. exact failed_commit_state. Qed.
Print Assumptions C08_failed_commit.

Theorem C08_written_back : forall u : node_resource,
  NoDup (keys (nr_cpumap u)) -> NoDup (keys (nr_numamem u)) ->
  nr_cpumap (written_back u) = nr_cpumap u /\ nr_numamem (written_back u) = nr_numamem u /\
  nr_mem (written_back u) = nr_mem u.
Proof. exact written_back_maps. Qed.
Print Assumptions C08_written_back.

(* RollbackAlloc / RollbackRealloc (Decr of what was just Incr-ed) and the
   re-adding rollback of a release restore the usage *)
Theorem C08_rollback_int : forall (info : node_info) (ws : list wres) (info1 info2 : node_info),
  set_node_resource_usage info None ws true true = inr info1 ->
  set_node_resource_usage info1 None ws true false = inr info2 ->
  usage_equiv_int (ni_usage info2) (ni_usage info) /\ ni_cap info2 = ni_cap info.
Proof. exact incr_then_decr_int. Qed.
Print Assumptions C08_rollback_int.

Theorem C08_rollback_release_int : forall (info : node_info) (ws : list wres) (info1 info2 : node_info),
  set_node_resource_usage info None ws true false = inr info1 ->
  set_node_resource_usage info1 None ws true true = inr info2 ->
  usage_equiv_int (ni_usage info2) (ni_usage info) /\ ni_cap info2 = ni_cap info.
Proof. exact decr_then_incr_int. Qed.
Print Assumptions C08_rollback_release_int.

(* total CPU.  CPU amounts are binary64 and every update goes through
   utils.Round, so the sum is read on the decimal grid of 1e-9 units:
   [cpu_is u k] = u is finite and has the real value of the double nearest to
   k * 1e-9; [kf w] = the workload's cpu request in 1e-9 units; [on_grid w] = the
   request is such a double with 0 <= k <= 2^49 (any decimal with at most nine
   places up to about 5.6e5 CPUs); [bounded_run] = the running total stays
   <= 2^49 units.  Then, for every history and every oracle value on the grid,
   usage.CPU is exactly (as a real value; the sign of a zero is not tracked) the
   double nearest to the exact decimal sum of the live workloads' requests. *)
Theorem C08_exact_cpu : forall (info : node_info) (h : list op),
  inv_valid (mkState info []) ->
  f_finite (nr_cpu (ni_usage info)) = true -> B2R 53 1024 (nr_cpu (ni_usage info)) = 0%R ->
  Forall op_grid h -> bounded_run (mkState info []) h ->
  inv_cpu (run (mkState info []) h).
Proof. exact cpu_all_histories. Qed.
Print Assumptions C08_exact_cpu.

Theorem C08_step_cpu : forall (s : state) (o : op), op_grid o -> inv_valid s -> inv_cpu s ->
  (ktotal (st_live (sr_state (step s o))) <= BND)%Z -> inv_cpu (sr_state (step s o)).
Proof. exact cpu_step. Qed.
Print Assumptions C08_step_cpu.

Theorem C08_rollback_cpu : forall (info : node_info) (ws : list wres) (info1 info2 : node_info) (K : Z),
  cpu_is (nr_cpu (ni_usage info)) K -> (0 <= K)%Z -> (K + ktotal ws <= BND)%Z -> Forall on_grid ws ->
  set_node_resource_usage info None ws true true = inr info1 ->
  set_node_resource_usage info1 None ws true false = inr info2 ->
  cpu_is (nr_cpu (ni_usage info2)) K.
Proof. exact cpu_rollback. Qed.
Print Assumptions C08_rollback_cpu.

(* utils.Round keeps sums on the grid: the float fact behind the three theorems above *)
Theorem C08_round_keeps_grid : grid_closed.
Proof. exact grid_closed_holds. Qed.
Print Assumptions C08_round_keeps_grid.

(* [on_grid] is satisfied by every workload whose cpu request is (as a real
   value) the double nearest to k * 1e-9 for some 0 <= k <= 2^49: the plugin's
   own reading of the amount in 1e-9 units returns k *)
Theorem C08_on_grid_of_decimal : forall (w : wres) (k : Z),
  cpu_is (wr_cpu_req w) k -> (0 <= k <= BND)%Z -> on_grid w.
Proof. exact on_grid_of_decimal. Qed.
Print Assumptions C08_on_grid_of_decimal.

(* a rollback is never refused: from a valid record whose usage has an entry
   for every core and NUMA node the workloads name (AddNode's Validate creates
   one for every capacity core and NUMA node), once the Incr of [ws] has been
   accepted the Decr of [ws] (RollbackAlloc, RollbackRealloc with ws = [delta])
   is accepted by Validate and gives back the very same maps and memory; the
   same for re-adding what a release took away *)
From Verif Require Import Cpumem.BookRollbackProofs.

Theorem C08_rollback_never_refused : forall (info info1 : node_info) (ws : list wres),
  inv_valid (mkState info []) -> names_known (ni_usage info) ws ->
  set_node_resource_usage info None ws true true = inr info1 ->
  exists info2, set_node_resource_usage info1 None ws true false = inr info2 /\
                nr_cpumap (ni_usage info2) = nr_cpumap (ni_usage info) /\
                nr_numamem (ni_usage info2) = nr_numamem (ni_usage info) /\
                nr_mem (ni_usage info2) = nr_mem (ni_usage info).
Proof. exact rollback_never_refused. Qed.
Print Assumptions C08_rollback_never_refused.

Theorem C08_readd_never_refused : forall (info info1 : node_info) (ws : list wres),
  inv_valid (mkState info []) -> names_known (ni_usage info) ws ->
  set_node_resource_usage info None ws true false = inr info1 ->
  exists info2, set_node_resource_usage info1 None ws true true = inr info2 /\
                nr_cpumap (ni_usage info2) = nr_cpumap (ni_usage info) /\
                nr_numamem (ni_usage info2) = nr_numamem (ni_usage info) /\
                nr_mem (ni_usage info2) = nr_mem (ni_usage info).
Proof. exact readd_never_refused. Qed.
Print Assumptions C08_readd_never_refused.
