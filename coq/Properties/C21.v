(* C21 — node selection yields exactly the filtered set of distinct nodes.
   This file contains only the property theorems. *)
From Coq Require Import List String Sorted.
From Verif Require Import Base.GoStr Base.GoStrLemmas Select.Model Select.Proofs.
Import ListNotations.

(* For every store with distinct node names, every filter: the result of filterNodes is
   strictly sorted by name (each node once); with an include list it is exactly the set of
   named nodes (error iff one is unknown); otherwise it is exactly the pod's (or all pods')
   nodes carrying the labels, minus the excludes, minus down/bypassed nodes unless all. *)
Theorem C21_select : forall st f, store_wf st -> select_spec st f (filter_nodes st f).
Proof. exact filter_nodes_spec. Qed.
Print Assumptions C21_select.

(* regardless of repeats or order of the include list *)
Theorem C21_includes_order_irrelevant : forall st f1 f2 ns1 ns2,
  store_wf st -> f_includes f1 <> [] -> f_includes f2 <> [] ->
  (forall x, In x (f_includes f1) <-> In x (f_includes f2)) ->
  filter_nodes st f1 = Some ns1 -> filter_nodes st f2 = Some ns2 -> ns1 = ns2.
Proof. exact includes_order_irrelevant. Qed.
Print Assumptions C21_includes_order_irrelevant.

Theorem C21_includes_error_iff : forall st f, f_includes f <> [] ->
  (filter_nodes st f <> None <-> forall x, In x (f_includes f) -> In x (map n_name (s_nodes st))).
Proof. exact includes_defined_iff. Qed.
Print Assumptions C21_includes_error_iff.

(* the (nondeterministic) order in which the store returns nodes and pods is irrelevant *)
Theorem C21_store_order_irrelevant : forall st1 st2 f ns1 ns2,
  store_wf st1 -> store_wf st2 ->
  (forall n, In n (s_nodes st1) <-> In n (s_nodes st2)) ->
  (forall p, In p (s_pods st1) <-> In p (s_pods st2)) ->
  filter_nodes st1 f = Some ns1 -> filter_nodes st2 f = Some ns2 -> ns1 = ns2.
Proof. exact store_order_irrelevant. Qed.
Print Assumptions C21_store_order_irrelevant.

(* utils.Unique: the first p elements are the distinct elements of the input, sorted *)
Theorem C21_unique : forall s out p, unique s = (out, p) ->
  StronglySorted slt (firstn p out) /\ (forall y, In y (firstn p out) <-> In y s)
  /\ List.length out = List.length s.
Proof. exact unique_spec. Qed.
Print Assumptions C21_unique.

(* the code before the repair (Unique on a copy of the names, then ns[:p]) violated the
   statement: Includes = [a; a; b] selects [a; a] *)
Theorem C21_old_code_refuted :
  exists st f ns, store_wf st /\ filter_nodes_old st f = Some ns /\ ~ select_spec st f (Some ns).
Proof. exact old_code_refuted. Qed.
Print Assumptions C21_old_code_refuted.

(* the boolean check evaluated on the implementation's output is the Prop-level statement *)
Theorem C21_ok_reflects : forall st f names, store_wf st ->
  (select_ok st f (Some names) = true <->
   StronglySorted slt names /\
   match f_includes f with
   | _ :: _ => forall x, In x names <-> In x (f_includes f)
   | [] => forall x, In x names <-> exists n, selected st f n /\ n_name n = x
   end).
Proof. exact select_ok_some_iff. Qed.
Print Assumptions C21_ok_reflects.

Theorem C21_ok_sound_on_model : forall st f, store_wf st ->
  select_ok st f (option_map (map n_name) (filter_nodes st f)) = true.
Proof. exact select_ok_on_model. Qed.
Print Assumptions C21_ok_sound_on_model.
