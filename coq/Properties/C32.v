(* C32 — unbound workloads are remapped onto free shared cores only.
   Model: Cpumem/Node.v (share_cpumap, calculate_remap = Plugin.CalculateRemap).
   This file contains only the property theorems.

   [wf_info]: the node record is a pair of Go maps and every core of the usage
   occurs in the capacity (what NodeResourceInfo.Validate enforces on every
   write).  [roomy info base c]: c is a capacity core with at least [base] free
   pieces (capacity minus usage). *)
From Coq Require Import String List ZArith.
From Verif Require Import Base.GoFloat Cpumem.Types Cpumem.Node Cpumem.BookProofs Cpumem.BookRemapProofs.
Import ListNotations.
Local Open Scope Z_scope.

(* the shared cpu map: exactly the cores with a full core's worth of free
   pieces, each at shareBase; all capacity cores when there is none *)
Theorem C32_share_map : forall (info : node_info) (base : Z), wf_info info ->
  let s := share_cpumap info base in
  (forall c v, In (c, v) s -> v = base) /\
  ((exists c, roomy info base c) -> forall c, In c (keys s) <-> roomy info base c) /\
  ((~ exists c, roomy info base c) -> keys s = keys (nr_cpumap (ni_cap info))).
Proof. exact share_spec. Qed.
Print Assumptions C32_share_map.

(* exactly the workloads without cpu binding receive it (with their own cpu
   limit, memory limit and NUMA node, and the remap flag); bound workloads are
   left untouched *)
Theorem C32_remap : forall (info : node_info) (base : Z) (ws : list (string * wres)),
  let share := share_cpumap info base in
  forall id ep, In (id, ep) (calculate_remap info base ws) <->
    exists w, In (id, w) ws /\ wr_cpumap w = [] /\
              ep = mkEP (wr_cpu_lim w) share (wr_numanode w) (wr_mem_lim w) true.
Proof. exact (@remap_spec string). Qed.
Print Assumptions C32_remap.

(* after ANY history of alloc / release / realloc / rollbacks (every oracle
   value), the cores shared out are those whose capacity minus the pieces held
   by the live workloads leaves at least shareBase *)
Theorem C32_after_history : forall (info : node_info) (h : list op) (base : Z),
  inv_valid (mkState info []) -> wf_info info -> usage_zero (ni_usage info) -> Forall op_wf h ->
  let s := run (mkState info []) h in
  let free c := lookup 0 (nr_cpumap (ni_cap info)) c - zs (fun w => lookup 0 (wr_cpumap w) c) (st_live s) in
  let share := share_cpumap (st_info s) base in
  let roomy' c := In c (keys (nr_cpumap (ni_cap info))) /\ base <= free c in
  (forall c v, In (c, v) share -> v = base) /\
  ((exists c, roomy' c) -> forall c, In c (keys share) <-> roomy' c) /\
  ((~ exists c, roomy' c) -> keys share = keys (nr_cpumap (ni_cap info))).
Proof. exact remap_after_history. Qed.
Print Assumptions C32_after_history.

(* the engine half (calcium's doRemapResource): every workload of the remap
   result whose engine update succeeds ends up with exactly the cpu map computed
   for it; bound workloads (not in the result) and workloads whose update fails
   keep what they had; the iteration order of the Go map is irrelevant *)
From Verif Require Import Cobalt.RemapPush Cobalt.RemapPushProofs.
From Coq Require Import Permutation.

Theorem C32_push_reaches : forall fails remap, NoDup (map fst remap) ->
  forall e i m, In (i, m) remap -> fails i = false -> eng_get (push_all fails e remap) i = Some m.
Proof. exact push_all_reaches. Qed.
Print Assumptions C32_push_reaches.

Theorem C32_push_untouched : forall fails remap e i,
  ~ In i (map fst remap) \/ fails i = true -> eng_get (push_all fails e remap) i = eng_get e i.
Proof. exact push_all_untouched. Qed.
Print Assumptions C32_push_untouched.

Theorem C32_push_order_indep : forall fails remap remap' e i,
  NoDup (map fst remap) -> Permutation remap remap' ->
  eng_get (push_all fails e remap) i = eng_get (push_all fails e remap') i.
Proof. exact push_all_order_indep. Qed.
Print Assumptions C32_push_order_indep.
