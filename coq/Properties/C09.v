(* C09 — multi-plugin capacity aggregation is independent of plugin order.
   Model: Cobalt/Merge.v (mergeCapacity / GetNodesDeployCapacity after the two
   repairs).  This file contains only the property theorems.

   Full statement of the property: for all sets of plugin answers and all answer
   orders, a node is offered iff every plugin offers it, its capacity is the
   smallest capacity, its usage and rate are the weight-averaged plugin values,
   and the result does not depend on the answer order.

   What is proved, precisely:
   - C09_aggregate, C09_offered_iff_all, C09_capacity_is_min: for all answer
     sets and every answer order (the list order), in binary64 with the code's
     operation order.
   - C09_order_indep_exact_part: node set and capacity are bit-for-bit
     independent of the order, any number of plugins.
   - C09_order_indep_two_plugins: with two plugins and finite values the whole
     result (usage, rate, weight too) is bit-identical for both orders.
   - C09_weighted_mean_real, C09_order_indep_real: the value of the exact
     expression (the same text read over the reals) is the weighted mean and is
     independent of the order for any number of plugins.  With three or more
     plugins the binary64 results for different orders may differ in the last
     bits (float addition is not associative); this is inherent and observed
     by the harness (bounded there by 2^-40 relative). *)
From Coq Require Import List ZArith String Permutation Reals.
From Verif Require Import Base.GoFloat Cobalt.Merge Cobalt.MergeProofs Cobalt.MergeFloat.
Import ListNotations.

Theorem C09_aggregate : forall (answers : list famap) (n : string), answers <> [] ->
  lookup n (fst (gndc_f answers)) =
  match infos_of n answers with
  | Some (i1 :: rest) =>
      Some (mkNdc (mincap i1 rest)
                  (fdiv (wsum fadd fmul n_usage i1 rest) (sumw fadd i1 rest))
                  (fdiv (wsum fadd fmul n_rate i1 rest) (sumw fadd i1 rest))
                  (sumw fadd i1 rest))
  | _ => None
  end.
Proof. exact aggregate_f64. Qed.
Print Assumptions C09_aggregate.

Theorem C09_offered_iff_all : forall (answers : list famap) (n : string), answers <> [] ->
  (In n (map fst (fst (gndc_f answers))) <-> forall a, In a answers -> In n (map fst a)).
Proof. exact offered_iff_all. Qed.
Print Assumptions C09_offered_iff_all.

Theorem C09_capacity_is_min : forall (i1 : fndc) (rest : list fndc),
  (forall i, In i (i1 :: rest) -> (mincap i1 rest <= n_cap i)%Z) /\
  (exists i, In i (i1 :: rest) /\ mincap i1 rest = n_cap i).
Proof. exact (@mincap_is_min f64). Qed.
Print Assumptions C09_capacity_is_min.

Theorem C09_order_indep_exact_part : forall (answers answers' : list famap) (n : string),
  Permutation answers answers' ->
  option_map n_cap (lookup n (fst (gndc_f answers))) = option_map n_cap (lookup n (fst (gndc_f answers'))).
Proof. exact cap_order_indep_f64. Qed.
Print Assumptions C09_order_indep_exact_part.

Theorem C09_order_indep_two_plugins : forall (a b : famap) (n : string),
  all_finite [a; b] = true ->
  lookup n (fst (gndc_f [a; b])) = lookup n (fst (gndc_f [b; a])).
Proof. exact two_plugins_exact. Qed.
Print Assumptions C09_order_indep_two_plugins.

Theorem C09_weighted_mean_real : forall (answers : list ramap) (n : string), answers <> [] ->
  lookup n (fst (gndc_R answers)) =
  match infos_of n answers with
  | Some (i1 :: rest) =>
      let is := i1 :: rest in
      Some (mkNdc (mincap i1 rest)
                  (Rsum (map (fun i => n_usage i * n_weight i) is) / Rsum (map n_weight is))%R
                  (Rsum (map (fun i => n_rate i * n_weight i) is) / Rsum (map n_weight is))%R
                  (Rsum (map n_weight is)))
  | _ => None
  end.
Proof. exact gndc_R_spec. Qed.
Print Assumptions C09_weighted_mean_real.

Theorem C09_order_indep_real : forall (answers answers' : list ramap) (n : string),
  Permutation answers answers' ->
  lookup n (fst (gndc_R answers)) = lookup n (fst (gndc_R answers')).
Proof. exact gndc_R_order_indep. Qed.
Print Assumptions C09_order_indep_real.

(* three or more plugins, binary64: the weighted sums (and the weight sums)
   computed for two answer orders differ by at most
       2 * (EA (n-1) * T + EB (n-1)),
   T the exact sum of value * weight over the n plugins, for non-negative
   values and weights and intermediate values that stay finite.  EA(k) is about
   (2k+1) * 2^-53 (EA 3 <= 2^-50: four plugins), EB(k) a few units of 2^-100
   (a generous stand-in for the underflow unit).  So the aggregated usage / rate /
   weight are order independent up to a few units in the last place. *)
From Verif Require Import Cobalt.MergeErrorProofs.
From Flocq Require Import IEEE754.Binary.

Theorem C09_order_close_weighted_sum : forall (f : fndc -> f64) (i1 : fndc) rest (j1 : fndc) rest',
  Permutation (i1 :: rest) (j1 :: rest') ->
  Forall (nonneg_info f) (i1 :: rest) ->
  f_finite (fmul (f i1) (n_weight i1)) = true -> fin_run f (fmul (f i1) (n_weight i1)) rest ->
  f_finite (fmul (f j1) (n_weight j1)) = true -> fin_run f (fmul (f j1) (n_weight j1)) rest' ->
  let T := Rsum' (map (term f) (i1 :: rest)) in
  (Rabs (B2R 53 1024 (wsum fadd fmul f i1 rest) - B2R 53 1024 (wsum fadd fmul f j1 rest')) <=
   2 * (EA (List.length rest) * T + EB (List.length rest)))%R.
Proof. exact wsum_order_close. Qed.
Print Assumptions C09_order_close_weighted_sum.

Theorem C09_order_close_weight_sum : forall (i1 : fndc) rest (j1 : fndc) rest',
  Permutation (i1 :: rest) (j1 :: rest') ->
  Forall (fun i : fndc => (0 <= B2R 53 1024 (n_weight i))%R) (i1 :: rest) ->
  f_finite (n_weight i1) = true -> fin_run_w (n_weight i1) rest ->
  f_finite (n_weight j1) = true -> fin_run_w (n_weight j1) rest' ->
  let W := Rsum' (map (fun i => B2R 53 1024 (n_weight i)) (i1 :: rest)) in
  (Rabs (B2R 53 1024 (sumw fadd i1 rest) - B2R 53 1024 (sumw fadd j1 rest')) <=
   2 * (EA (List.length rest) * W + EB (List.length rest)))%R.
Proof. exact sumw_order_close. Qed.
Print Assumptions C09_order_close_weight_sum.

Theorem C09_error_size_four_plugins : (EA 3 <= / 1125899906842624)%R.
Proof. exact EA3_small. Qed.
Print Assumptions C09_error_size_four_plugins.

(* the fan-out helper (resource/cobalt/call.go): GetNodesDeployCapacity waits for
   every plugin; it either fails or aggregates over ALL of them - a result never
   is a silent merge of the plugins that happened to have answered *)
Theorem C09_no_partial_merge : forall (answers : list (option famap)) (r : famap * Z),
  gndc_call answers = Some r -> exists l, answers = map Some l /\ r = gndc_f l.
Proof. exact no_partial_merge. Qed.
Print Assumptions C09_no_partial_merge.

Theorem C09_any_error_is_error : forall answers : list (option famap),
  In None answers -> gndc_call answers = None.
Proof. exact any_error_is_error. Qed.
Print Assumptions C09_any_error_is_error.
