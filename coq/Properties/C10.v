(* C10 — node usage always equals the sum of the workloads recorded on the node.

   MAIN THEOREM (C10_history): for EVERY history of add-pod / add-node / remove-node / set-node / create /
   remove / dissociate / realloc / replace / run-and-wait operations, each with at most one injected fault at ANY faultable call of the
   operation (store, resource plugin, engine, WAL, lock; [k : option nat] is the index of the failing call), from
   EVERY world satisfying Inv: Inv holds after the history, in particular (C10_history_usage)
       for every plugin record p:  p_use p = sum of w_res over the workloads recorded on p_node p.
   Inv w := wf w (distinct ids; a recorded workload's node has a plugin record; it has a container)
            /\ use_ok w /\ one plugin record per node name /\ every node record is available.
   Step validity (valid_step, the only hypotheses on the steps):
     * create: the plan handed to create is a strategy output for the world of that moment (distinct node names,
       the nodes exist, each node's plugin can fit its count) and the operation index is fresh;
     * remove: force, or the engine does not refuse to remove running containers (a natural refusal PLUS an
       injected fault on the compensation is a second, independent failure);
     * replace: the operation index is fresh, and the step did not report, for any workload, a failure AFTER its
       new workload was deployed (a message MReplace id (Some new) false (Some err); is_window).  With that outcome
       the statement is FALSE of the code as it is: C10_replace_refuted (a replace whose removal of the old
       workload fails leaves old and new workload recorded on one allocation; known finding
       replace-remove-old-fails).  C10_replace_op is the whole-operation theorem.
     * run-and-wait: create's hypotheses (C10_lambda_op: the whole operation keeps Inv at every fault position).
   The per-operation theorems below are the same statement one operation at a time (C10_step); C10_create_capacity
   adds usage <= capacity for create; C10_fault_addresses: every fault address (method, target, ordinal) of the
   harness is one of the positions k.
   CONCURRENCY (C10_interleaving, C10_orders_agree, C10_inplace_ops_interleave): operations of a history run one
   after the other; two operations interleaved at call granularity (run2: a schedule says whose call is next, each
   operation has its own fault position) give EXACTLY the result of the sequential history whenever their calls
   lie in classes that commute pairwise; this is proved for the operations that update records in place (realloc,
   set-node) on disjoint footprints (workload ids, node names), and, up to the message channel (ONE shared list in
   the model, one channel per operation in the code), for dissociate as well (C10_xops_interleave).  Operations that
   append records (create, the re-adding rollbacks of remove/replace) commute only up to the order of the appended
   elements: not proved; the harness drives concurrent pairs of realloc/dissociate/remove/set-node through a
   call-by-call gate and compares with the sequential model. *)
From Coq Require Import List Bool Arith ZArith.
From Verif Require Import Base.Effects Calcium.World Calcium.Ops Calcium.Run Calcium.EffectsProofs
  Calcium.OpsProofs Calcium.OpsProofs2 Calcium.InvProofs Calcium.Sweeps Calcium.DeployProofs Calcium.DeployProofs2
  Calcium.CreateProofs Calcium.CreateProofs2 Calcium.NodeProofs Calcium.CapProofs Calcium.HistoryProofs
  Calcium.Interleave Calcium.InterleaveOps Calcium.InterleaveGen Calcium.InterleaveMsg Calcium.LambdaHistory Calcium.Examples.

(* ---- the theorem over histories ---- *)
Theorem C10_history : forall (h : list (op * option nat)) w, Inv w -> valid_hist_all w h -> Inv (run_hist w h).
Proof. exact history_all_keeps_Inv. Qed.
Print Assumptions C10_history.

Theorem C10_history_usage : forall (h : list (op * option nat)) w, Inv w -> valid_hist_all w h -> use_ok (run_hist w h).
Proof. exact history_all_keeps_usage. Qed.
Print Assumptions C10_history_usage.

(* valid_hist_all = valid_hist (below: C10_step) extended with run-and-wait steps *)
Theorem C10_valid_hist_all_of : forall h w, valid_hist w h -> valid_hist_all w h.
Proof. exact valid_hist_all_of. Qed.
Print Assumptions C10_valid_hist_all_of.

(* whole run-and-wait: create, the closure of every created workload, close *)
Theorem C10_lambda_op : forall opi pod r plan stdin lines w k, create_hyp w opi r plan -> Inv w ->
  Inv (after (lambda opi pod r plan stdin lines) w k).
Proof. exact lambda_keeps_Inv. Qed.
Print Assumptions C10_lambda_op.

(* one step: any operation, any fault position *)
Theorem C10_step : forall w o k, Inv w -> valid_step_all w (o, k) -> Inv (step_world w (o, k)).
Proof. exact step_keeps_Inv_all. Qed.
Print Assumptions C10_step.

(* whole RemoveWorkload / DissociateWorkload (all nodes, all ids, all messages), every world, every fault position *)
Theorem C10_remove_op : forall emit idl force w k, Inv w ->
  (force = true \/ strict_remove w = false) ->
  Inv (after (remove emit idl force) w k).
Proof. exact remove_keeps_Inv. Qed.
Print Assumptions C10_remove_op.

Theorem C10_dissociate_op : forall idl w k, Inv w -> Inv (after (dissociate idl) w k).
Proof. exact dissociate_keeps_Inv. Qed.
Print Assumptions C10_dissociate_op.

(* whole ReplaceWorkload: unless it reports the known outcome, the invariant is kept *)
Theorem C10_replace_op : forall opi idl w k l, Inv w -> fresh_from opi 0 w ->
  out (after (replace opi idl) w k) = l ++ out w ->
  (forall m, In m l -> ~ is_window m) ->
  Inv (after (replace opi idl) w k).
Proof. exact replace_keeps_Inv. Qed.
Print Assumptions C10_replace_op.

(* the side condition of the replace step is necessary, in EVERY world: the reported outcome "failed after the new
   workload was deployed" breaks usage = sum as soon as the old workload holds any resource *)
Theorem C10_replace_window_breaks_usage : forall opi index old w w' r,
  Inv w -> find_wl w (w_id old) = Some old -> w_res old <> rzero ->
  replace_post opi index old w w' r -> snd r <> None -> fst (fst r) <> None ->
  ~ use_ok w'.
Proof. exact replace_window_breaks_usage. Qed.
Print Assumptions C10_replace_window_breaks_usage.

(* AddNode in EVERY world (also when the store refuses the node and the plugin's clean-up is the failing call) *)
Theorem C10_add_node_op : forall n p cap w k, Inv w -> Inv (after (add_node n p cap) w k).
Proof. exact add_node_keeps_Inv. Qed.
Print Assumptions C10_add_node_op.

(* the invariant and the step hypotheses are satisfiable: a concrete world and a concrete history with faults *)
Theorem C10_history_instance : Inv busy3v /\ valid_hist busy3v history_example /\ Inv (run_hist busy3v history_example)
  /\ valid_hist busy3v history_example2.
Proof. exact (conj busy3_Inv (conj history_example_valid (conj history_example_Inv history_example2_valid))). Qed.
Print Assumptions C10_history_instance.

(* ---- two operations interleaved at call granularity ---- *)
Theorem C10_interleaving : forall (P1 P2 : call -> Prop) (I : world -> Prop),
  (forall c w, P1 c -> I w -> I (fst (exec w c))) ->
  (forall c w, P2 c -> I w -> I (fst (exec w c))) ->
  (forall c1 c2 w, P1 c1 -> P2 c2 -> I w ->
    fst (exec (fst (exec w c1)) c2) = fst (exec (fst (exec w c2)) c1) /\
    snd (exec (fst (exec w c1)) c2) = snd (exec w c2) /\
    snd (exec (fst (exec w c2)) c1) = snd (exec w c1)) ->
  forall A B sched (p1 : cprog A) (p2 : cprog B) k1 k2 w,
    I w -> safe P1 I p1 -> safe P2 I p2 ->
    run2 sched p1 k1 p2 k2 w = run2 nil p1 k1 p2 k2 w.
Proof. exact interleave_is_sequential. Qed.
Print Assumptions C10_interleaving.

Theorem C10_orders_agree : forall (P1 P2 : call -> Prop) (I : world -> Prop),
  (forall c w, P1 c -> I w -> I (fst (exec w c))) ->
  (forall c w, P2 c -> I w -> I (fst (exec w c))) ->
  (forall c1 c2 w, P1 c1 -> P2 c2 -> I w ->
    fst (exec (fst (exec w c1)) c2) = fst (exec (fst (exec w c2)) c1) /\
    snd (exec (fst (exec w c1)) c2) = snd (exec w c2) /\
    snd (exec (fst (exec w c2)) c1) = snd (exec w c1)) ->
  forall A B (p2 : cprog B), safe P2 I p2 -> forall (p1 : cprog A) k1 k2 w, I w -> safe P1 I p1 ->
  run2 nil p1 k1 p2 k2 w = (let '(w', b, a) := run2 nil p2 k2 p1 k1 w in (w', a, b)).
Proof. exact sequential_orders_agree. Qed.
Print Assumptions C10_orders_agree.

Theorem C10_inplace_ops_interleave : forall F1 F2 o1 o2 w, disjoint F1 F2 -> ip_in F1 o1 -> ip_in F2 o2 ->
  fp_inv F1 w -> fp_inv F2 w ->
  (forall sched k1 k2, run2 sched (ip_script o1) k1 (ip_script o2) k2 w = run2 nil (ip_script o1) k1 (ip_script o2) k2 w) /\
  (forall k1 k2, run2 nil (ip_script o1) k1 (ip_script o2) k2 w =
                 (let '(w', b, a) := run2 nil (ip_script o2) k2 (ip_script o1) k1 w in (w', a, b))).
Proof. exact inplace_ops_interleave. Qed.
Print Assumptions C10_inplace_ops_interleave.

(* the calls of two disjoint footprints commute: same world, same replies, whichever goes first *)
Theorem C10_calls_commute : forall F1 F2 c1 c2 w, disjoint F1 F2 -> in_fp F1 c1 -> in_fp F2 c2 ->
  fst (exec (fst (exec w c1)) c2) = fst (exec (fst (exec w c2)) c1) /\
  snd (exec (fst (exec w c1)) c2) = snd (exec w c2) /\
  snd (exec (fst (exec w c2)) c1) = snd (exec w c1).
Proof. exact fp_calls_commute. Qed.
Print Assumptions C10_calls_commute.

(* realloc, set-node and dissociate on disjoint footprints: every interleaving, any two fault positions, gives the
   results and the world of the sequential history, equal in everything but the shared message channel *)
Theorem C10_xops_interleave : forall F1 F2 o1 o2 w, disjoint F1 F2 -> x_in F1 o1 -> x_in F2 o2 ->
  fp_inv F1 w -> fp_inv F2 w ->
  forall sched k1 k2,
    let '(w1, a, b) := run2 sched (x_script o1) k1 (x_script o2) k2 w in
    let '(w2, a', b') := run2 nil (x_script o1) k1 (x_script o2) k2 w in
    hide w1 = hide w2 /\ a = a' /\ b = b'.
Proof. exact xops_interleave. Qed.
Print Assumptions C10_xops_interleave.

Theorem C10_realloc_pair : forall id1 id2 n1 n2 req1 req2 w, id1 <> id2 -> n1 <> n2 ->
  (forall x, In x (wls w) -> w_id x = id1 -> w_node x = n1) ->
  (forall x, In x (wls w) -> w_id x = id2 -> w_node x = n2) ->
  forall sched k1 k2,
    run2 sched (realloc id1 req1) k1 (realloc id2 req2) k2 w = run2 nil (realloc id1 req1) k1 (realloc id2 req2) k2 w.
Proof. exact realloc_pair_interleave. Qed.
Print Assumptions C10_realloc_pair.

(* ---- the blocks, as in round 1 ---- *)
Theorem C10_realloc : forall id req w k, wf w -> use_ok w ->
  use_ok (fst (fst (crunk (realloc id req) w k))).
Proof. exact realloc_keeps_usage. Qed.
Print Assumptions C10_realloc.

Theorem C10_remove : forall n id force w k, wf w -> use_ok w ->
  (force = true \/ strict_remove w = false) ->
  (forall x, find_wl w id = Some x -> w_node x = n) ->
  use_ok (fst (fst (crunk (with_workload_locked id (fun x => remove_txn n x force)) w k))).
Proof. exact remove_keeps_usage. Qed.
Print Assumptions C10_remove.

Theorem C10_dissociate : forall n id w k, wf w -> use_ok w ->
  (forall x, find_wl w id = Some x -> w_node x = n) ->
  use_ok (fst (fst (crunk (with_workload_locked id (fun x => dissociate_txn n x)) w k))).
Proof. exact dissociate_keeps_usage. Qed.
Print Assumptions C10_dissociate.

Theorem C10_add_node : forall n p cap w k,
  existsb (Nat.eqb p) (pods w) = true -> find_node w n = None ->
  (forall x, In x (wls w) -> w_node x <> n) ->
  use_ok w -> use_ok (fst (fst (crunk (add_node n p cap) w k))).
Proof. exact add_node_keeps_usage. Qed.
Print Assumptions C10_add_node.

(* create, every world in which the op index is fresh, every feasible plan or refusal, every fault position *)
Theorem C10_create : forall opi pod r plan w k, create_hyp w opi r plan -> use_ok w ->
  use_ok (fst (fst (crunk (create opi pod r plan) w k))).
Proof. exact create_keeps_usage. Qed.
Print Assumptions C10_create.

(* "no allocation ever raises a node's memory usage above its capacity": create, every world with distinct
   plugin records, every feasible plan, every fault position *)
Theorem C10_create_capacity : forall opi pod r plan w k, create_hyp w opi r plan -> (0 <= snd r)%Z ->
  NoDup (pnames (plugs w)) -> cap_ok w ->
  cap_ok (fst (fst (crunk (create opi pod r plan) w k))).
Proof. exact create_keeps_capacity. Qed.
Print Assumptions C10_create_capacity.

(* create: usage = sum and usage <= capacity (and C12) after every fault position, on the scenario family *)
Theorem C10_create_scenarios : forall w o, (w = busy3 \/ w = base3) -> In o create_ops ->
  forall k, c12_check (prep w o) o (fst (final (script_of o) (prep w o) k)) = true.
Proof. exact create_scenarios_every_k. Qed.
Print Assumptions C10_create_scenarios.

(* the full statement is false for replace *)
Theorem C10_replace_refuted :
  r_err replace_bad = 0%Z /\
  In (MReplace (mkWid 7 0 0) (Some (mkWid 9 0 0)) false (Some EInjected)) (r_msgs replace_bad) /\
  use_okb busy3 = true /\ use_okb (r_world replace_bad) = false /\
  same_proj (r_world replace_bad) busy3 = false.
Proof. exact replace_breaks_usage. Qed.
Print Assumptions C10_replace_refuted.

(* every single fail-before fault addressed as (method, target, ordinal) is a fault at some index k of the
   faultable calls (store, resource manager, engine, WAL, locks; a channel send is not a fault position) *)
Theorem C10_fault_addresses : forall A (p : cprog A) (s : ist call world key),
  (forall f, i_fault s = Some f -> f_what f = FailBefore) ->
  exists k, (i_hit s = true -> k = None) /\
    exists s' a k', crun p s = (s', Some a) /\ crunk p (i_world s) k = (i_world s', k', a).
Proof. exact (run_is_runk call reply world key key_eqb key_of exec fail_reply is_faultable unfaultable_has_no_key). Qed.
Print Assumptions C10_fault_addresses.

(* the hypotheses are satisfiable *)
Theorem C10_hypotheses_hold : wf busy3v /\ use_ok busy3v /\
  create_hyp base3v 9 (50, 100)%Z (Some ((0%nat, 2%nat) :: (1%nat, 1%nat) :: nil)).
Proof. exact (conj busy3_wf (conj busy3_use_ok create_hyp_example)). Qed.
Print Assumptions C10_hypotheses_hold.
