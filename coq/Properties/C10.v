(* C10 — node usage always equals the sum of the workloads recorded on the node.

   FULL STATEMENT (not proved in this generality):
     forall history of create/remove/dissociate/realloc/replace/set-node calls, each with at most
     one injected fault at any call, use_ok w0 -> use_ok (world after the history).
   It is FALSE of the code as it is: C10_replace_refuted (a replace whose removal of the old workload
   fails leaves old and new workload recorded on one allocation).  What is proved:
     * for EVERY world and EVERY fault position: create (whole operation, every feasible plan, C10_create),
       realloc (whole operation), the locked transaction of one workload of remove and of dissociate,
       add-node keep the invariant;
     * for every fault position on explicit scenario families: create again with usage <= capacity
       (C10_create_scenarios, together with C12) and set-node (in C11.v);
     * every fault address (method, target, ordinal) of the harness is one of the positions k
       (C10_fault_addresses).
   use_ok w := forall plugin record p of w, p_use p = sum of w_res over the workloads recorded on p_node p. *)
From Coq Require Import List Bool Arith ZArith.
From Verif Require Import Base.Effects Calcium.World Calcium.Ops Calcium.Run Calcium.EffectsProofs
  Calcium.OpsProofs Calcium.OpsProofs2 Calcium.InvProofs Calcium.Sweeps Calcium.DeployProofs Calcium.DeployProofs2
  Calcium.CreateProofs Calcium.CreateProofs2 Calcium.NodeProofs Calcium.CapProofs Calcium.Examples.

Theorem C10_realloc : forall id req w k, wf w -> use_ok w ->
  use_ok (fst (fst (crunk (realloc id req) w k))).
Proof. exact realloc_keeps_usage. Qed.
Print Assumptions C10_realloc.

Theorem C10_remove : forall n id force w k, wf w -> use_ok w ->
  (force = true \/ strict_remove w = false) ->
  (forall x, find_wl w id = Some x -> w_node x = n) ->
  use_ok (fst (fst (crunk (with_workload_locked id (fun x => remove_txn n x force)) w k))).
Proof. exact remove_keeps_usage. Qed.
Print Assumptions C10_remove.

Theorem C10_dissociate : forall n id w k, wf w -> use_ok w ->
  (forall x, find_wl w id = Some x -> w_node x = n) ->
  use_ok (fst (fst (crunk (with_workload_locked id (fun x => dissociate_txn n x)) w k))).
Proof. exact dissociate_keeps_usage. Qed.
Print Assumptions C10_dissociate.

Theorem C10_add_node : forall n p cap w k,
  existsb (Nat.eqb p) (pods w) = true -> find_node w n = None ->
  (forall x, In x (wls w) -> w_node x <> n) ->
  use_ok w -> use_ok (fst (fst (crunk (add_node n p cap) w k))).
Proof. exact add_node_keeps_usage. Qed.
Print Assumptions C10_add_node.

(* create, every world in which the op index is fresh, every feasible plan or refusal, every fault position *)
Theorem C10_create : forall opi pod r plan w k, create_hyp w opi r plan -> use_ok w ->
  use_ok (fst (fst (crunk (create opi pod r plan) w k))).
Proof. exact create_keeps_usage. Qed.
Print Assumptions C10_create.

(* "no allocation ever raises a node's memory usage above its capacity": create, every world with distinct
   plugin records, every feasible plan, every fault position *)
Theorem C10_create_capacity : forall opi pod r plan w k, create_hyp w opi r plan -> (0 <= snd r)%Z ->
  NoDup (pnames (plugs w)) -> cap_ok w ->
  cap_ok (fst (fst (crunk (create opi pod r plan) w k))).
Proof. exact create_keeps_capacity. Qed.
Print Assumptions C10_create_capacity.

(* create: usage = sum and usage <= capacity (and C12) after every fault position, on the scenario family *)
Theorem C10_create_scenarios : forall w o, (w = busy3 \/ w = base3) -> In o create_ops ->
  forall k, is_send_at (script_of o) (prep w o) k = false ->
  c12_check (prep w o) o (fst (final (script_of o) (prep w o) (Some k))) = true.
Proof. exact create_scenarios_all_k. Qed.
Print Assumptions C10_create_scenarios.

(* the full statement is false for replace *)
Theorem C10_replace_refuted :
  r_err replace_bad = 0%Z /\
  In (MReplace (mkWid 7 0 0) (Some (mkWid 9 0 0)) false (Some EInjected)) (r_msgs replace_bad) /\
  use_okb busy3 = true /\ use_okb (r_world replace_bad) = false /\
  same_proj (r_world replace_bad) busy3 = false.
Proof. exact replace_breaks_usage. Qed.
Print Assumptions C10_replace_refuted.

(* every single fail-before fault addressed as (method, target, ordinal) is a fault at some index k of the
   faultable calls (store, resource manager, engine, WAL, locks; a channel send is not a fault position) *)
Theorem C10_fault_addresses : forall A (p : cprog A) (s : ist call world key),
  (forall f, i_fault s = Some f -> f_what f = FailBefore) ->
  exists k, (i_hit s = true -> k = None) /\
    exists s' a k', crun p s = (s', Some a) /\ crunk p (i_world s) k = (i_world s', k', a).
Proof. exact (run_is_runk call reply world key key_eqb key_of exec fail_reply is_faultable unfaultable_has_no_key). Qed.
Print Assumptions C10_fault_addresses.

(* the hypotheses are satisfiable *)
Theorem C10_hypotheses_hold : wf busy3v /\ use_ok busy3v /\
  create_hyp base3v 9 (50, 100)%Z (Some ((0%nat, 2%nat) :: (1%nat, 1%nat) :: nil)).
Proof. exact (conj busy3_wf (conj busy3_use_ok create_hyp_example)). Qed.
Print Assumptions C10_hypotheses_hold.
