(* C25 — status reports are bound to live entities and expire.
   This file contains only the property theorems.

   Full statement (kept visible): on both stores, for every history: a node or
   workload status reported with ttl > 0 is accepted iff the entity exists; it is
   visible at every time < last report + ttl unless re-reported / the workload is
   removed; a same-value re-report extends to now + ttl; ttl 0 never expires.
   Proved for the etcd store model for all histories (the statement is relative
   to an arbitrary reachable state, so it covers first reports, same-value
   re-reports through KeepAliveOnce and value / ttl changes alike).
   The node half is false of the Redis store (C25_redis_node_refuted); on
   redis-safe histories (Spec.redis_safe: in particular node status only for
   existing nodes) the Redis store model has the same lifetime behaviour
   (C25_status_redis_node_partial, C25_status_redis_workload_partial). *)
From Verif Require Import Store.KVPrims Store.Ops Store.Spec Store.EtcdModel Store.RedisModel
  Store.EtcdProofs Store.RedisProofs Store.C23Proofs Store.StatusProofs.

Theorem C25_status_etcd_node : C25_etcd_node_stmt.
Proof. exact C25_etcd_node_holds. Qed.
Print Assumptions C25_status_etcd_node.

Theorem C25_status_etcd_workload : C25_etcd_workload_stmt.
Proof. exact C25_etcd_workload_holds. Qed.
Print Assumptions C25_status_etcd_workload.

Theorem C25_redis_workload_accept : C25_redis_workload_accept_stmt.
Proof. exact C25_redis_workload_accept_holds. Qed.
Print Assumptions C25_redis_workload_accept.

Theorem C25_redis_node_refuted : C25_redis_node_refuted_stmt.
Proof. exact C25_redis_node_refuted_holds. Qed.
Print Assumptions C25_redis_node_refuted.

Theorem C25_status_redis_node_partial : C25_redis_node_partial_stmt.
Proof. exact C25_redis_node_partial_holds. Qed.
Print Assumptions C25_status_redis_node_partial.

Theorem C25_status_redis_workload_partial : C25_redis_workload_partial_stmt.
Proof. exact C25_redis_workload_partial_holds. Qed.
Print Assumptions C25_status_redis_workload_partial.

Theorem C25_status_etcd_node_expires : C25_etcd_node_expires_stmt.
Proof. exact C25_etcd_node_expires_holds. Qed.
Print Assumptions C25_status_etcd_node_expires.

(* the status record of C25_status_etcd_workload is what GetWorkloadStatus shows
   when the workload record carries the names the status was reported under *)
Theorem C25_workload_status_api : workload_status_api_stmt.
Proof. exact workload_status_api_holds. Qed.
Print Assumptions C25_workload_status_api.

Theorem C25_status_redis_node_expires_partial : C25_redis_node_expires_partial_stmt.
Proof. exact C25_redis_node_expires_partial_holds. Qed.
Print Assumptions C25_status_redis_node_expires_partial.
