(* C04 — allocations never overcommit a node's CPU cores or memory.
   This file contains only the property theorems (proofs: Cpumem/SchedProofs*.v).

   [fits info mem plans] (Cpumem/SchedProofsDeploy.v) says, with avail = capacity - usage:
     (a) for every core, the pieces given by all plans together <= max 0 (free pieces of the core);
     (b) a plan tagged with a NUMA node uses only cores of that node, and the plans of a
         NUMA node together request at most the node's free NUMA memory;
     (c) all plans together request at most the node's free memory;
     and every plan entry carries a positive number of pieces.
   The theorems hold for every node whose Go maps have unique keys (wf_maps; nothing else is
   assumed about capacities, usage or NUMA memory, except free memory >= 0 for clause c), every
   origin map, every request, every NUMA iteration order (any duplicate-free list of node ids)
   and any permuting final sort.  The model follows the code after the repair that limits
   NUMA plans by the node's total free memory (/repo 476e7d6); before it clause (c) failed. *)
From Coq Require Import String List ZArith Permutation.
From Verif Require Import Base.GoFloat Cpumem.Types Cpumem.Schedule Cpumem.Calc Cpumem.SchedCase.
From Verif Require Import Cpumem.SchedProofsFit Cpumem.SchedProofsTop Cpumem.SchedProofsDeploy Cpumem.SchedProofsCommit Cpumem.SchedProofsOrder Cpumem.SchedProofsExamples.
Local Open Scope Z_scope.

(* GetCPUPlans: the whole returned plan list is jointly feasible *)
Theorem C04_fit_plans : forall sortf,
  (forall l, exists l', sortf l = Ok l' /\ Permutation l' l) ->
  forall info origin base maxfrag req numa_order fuel plans,
  get_cpu_plans_g sortf info origin base maxfrag req numa_order fuel = Ok plans ->
  wf_maps info -> NoDup numa_order -> ~ In EmptyString numa_order -> 0 < base ->
  0 <= rq_mem_req req -> 0 <= nr_mem (get_available_nofloat info) ->
  let avail := get_available_nofloat info in
  (forall id, used (map snd plans) id <= Z.max 0 (lookup 0 (nr_cpumap avail) id))
  /\ (forall tp, In tp plans -> fst tp <> EmptyString ->
        In (fst tp) numa_order
        /\ (forall c, In c (keys (snd tp)) -> lookup_opt (nr_numa (ni_cap info)) c = Some (fst tp))
        /\ count_tag plans (fst tp) * rq_mem_req req <= Z.max 0 (lookup 0 (nr_numamem avail) (fst tp)))
  /\ Z.of_nat (length plans) * rq_mem_req req <= nr_mem avail
  /\ (forall tp c, In tp plans -> In c (snd tp) -> 0 < snd c).
Proof. exact plans_fit. Qed.
Print Assumptions C04_fit_plans.

(* CalculateDeploy (cpu-bind): exactly [count] workloads, jointly feasible (a, b, c), each
   recording the memory request and, when placed on a NUMA node, that node's memory *)
Theorem C04_fit : forall sortf,
  (forall l, exists l', sortf l = Ok l' /\ Permutation l' l) ->
  forall info base maxshare count raw numa_order fuel eps ws req,
  calculate_deploy_g sortf info base maxshare count raw numa_order fuel = Ok (inr (eps, ws)) ->
  wreq_validate raw = inr req -> rq_bind req = true ->
  wf_maps info -> NoDup numa_order -> ~ In EmptyString numa_order -> 0 < base ->
  0 <= rq_mem_req req -> 0 <= nr_mem (get_available_nofloat info) ->
  Z.of_nat (length ws) = count
  /\ fits info (rq_mem_req req) (tagged_of ws)
  /\ (forall w, In w ws -> wr_mem_req w = rq_mem_req req
        /\ wr_numamem w = match wr_numanode w with EmptyString => nil | nid => cons (nid, rq_mem_req req) nil end).
Proof. exact deploy_fit. Qed.
Print Assumptions C04_fit.

(* memory-only allocation (no cpu-bind): the requested memory fits the free memory *)
Theorem C04_fit_memory_only : forall info count req eps ws,
  do_alloc_by_memory info count req = inr (eps, ws) -> 0 <= count -> 0 <= rq_mem_req req ->
  0 <= nr_mem (get_available_nofloat info) ->
  Z.of_nat (length ws) = count
  /\ count * rq_mem_req req <= nr_mem (get_available_nofloat info)
  /\ forall w, In w ws -> wr_mem_req w = rq_mem_req req /\ wr_cpumap w = nil /\ wr_numamem w = nil.
Proof. exact alloc_by_memory_fit. Qed.
Print Assumptions C04_fit_memory_only.

(* (d) committing feasible workloads to a valid node leaves a state the plugin's own
   Validate accepts, with memory usage within capacity *)
Theorem C04_commit_valid : forall info mem ws,
  valid_node info = true -> 0 <= mem ->
  fits info mem (tagged_of ws) ->
  (forall w, In w ws -> wr_mem_req w = mem
     /\ wr_numamem w = match wr_numanode w with EmptyString => nil | nid => cons (nid, mem) nil end) ->
  Forall (fun w => NoDup (keys (wr_cpumap w))) ws ->
  validate_ok (commit_usage info ws) = true
  /\ nr_mem (ni_usage (commit_usage info ws)) <= nr_mem (ni_cap info).
Proof. exact commit_valid. Qed.
Print Assumptions C04_commit_valid.

(* end to end: whatever CalculateDeploy returns (cpu-bind or memory-only, any count >= 0)
   for a valid node can be committed: the plugin's Validate accepts the new state and
   memory usage stays within capacity *)
Theorem C04_deploy_commit : forall sortf,
  (forall l, exists l', sortf l = Ok l' /\ Permutation l' l) ->
  forall info base maxshare count raw numa_order fuel eps ws,
  calculate_deploy_g sortf info base maxshare count raw numa_order fuel = Ok (inr (eps, ws)) ->
  valid_node info = true -> NoDup numa_order -> ~ In EmptyString numa_order -> 0 < base -> 0 <= count ->
  validate_ok (commit_usage info ws) = true
  /\ nr_mem (ni_usage (commit_usage info ws)) <= nr_mem (ni_cap info).
Proof. exact deploy_commit_valid. Qed.
Print Assumptions C04_deploy_commit.

(* the boolean check the harness evaluates on the implementation's output accepts
   every plan list that is feasible in the sense of the theorems above *)
Theorem C04_ok_reflects : forall info mem plans,
  0 <= mem -> 0 <= nr_mem (get_available_nofloat info) ->
  fits info mem plans -> c04_plans_ok info mem plans = true.
Proof. exact fits_ok. Qed.
Print Assumptions C04_ok_reflects.

(* ... and therefore holds of everything the model of GetCPUPlans returns *)
Theorem C04_ok_on_model : forall sortf,
  (forall l, exists l', sortf l = Ok l' /\ Permutation l' l) ->
  forall info origin base maxfrag req numa_order fuel plans,
  get_cpu_plans_g sortf info origin base maxfrag req numa_order fuel = Ok plans ->
  wf_maps info -> NoDup numa_order -> ~ In EmptyString numa_order -> 0 < base ->
  0 <= rq_mem_req req -> 0 <= nr_mem (get_available_nofloat info) ->
  c04_plans_ok info (rq_mem_req req) plans = true.
Proof. exact plans_ok_on_model. Qed.
Print Assumptions C04_ok_on_model.

(* since /repo 3d8e6c0 GetCPUPlans visits the NUMA nodes in a fixed order (the nodes holding
   the origin's cores first, then by id): that order is a duplicate-free permutation of the
   node's NUMA ids, so the theorems above apply to the code without any order oracle *)
Theorem C04_visit_order : forall info origin,
  NoDup (numa_visit_order info origin) /\ Permutation (numa_visit_order info origin) (numa_nodes info).
Proof. exact (fun info origin => conj (visit_order_nodup info origin) (visit_order_perm info origin)). Qed.
Print Assumptions C04_visit_order.

Theorem C04_fit_plans_det : forall sortf,
  (forall l, exists l', sortf l = Ok l' /\ Permutation l' l) ->
  forall info origin base maxfrag req fuel plans,
  get_cpu_plans_det_g sortf info origin base maxfrag req fuel = Ok plans ->
  wf_maps info -> ~ In EmptyString (map snd (nr_numa (ni_cap info))) -> 0 < base ->
  0 <= rq_mem_req req -> 0 <= nr_mem (get_available_nofloat info) ->
  fits info (rq_mem_req req) plans.
Proof. exact plans_fit_det. Qed.
Print Assumptions C04_fit_plans_det.

(* ... and when exactly one NUMA node holds cores of the origin map (a realloc), that node
   is visited first, so the first plan comes from it whenever it can hold the request *)
Theorem C04_origin_node_first : forall info origin a,
  In a (numa_nodes info) ->
  origin_on (nr_numa (ni_cap info)) origin a = true ->
  (forall b, In b (numa_nodes info) -> b <> a -> origin_on (nr_numa (ni_cap info)) origin b = false) ->
  exists t, numa_visit_order info origin = cons a t.
Proof. exact visit_order_origin_first. Qed.
Print Assumptions C04_origin_node_first.
