(* C20 — cluster operations take locks in one global order; hence no
   combination of concurrent operations can deadlock on locks.
   This file contains only the property theorems. *)
From Coq Require Import List.
From Verif Require Import Base.LockOrder Base.LockOrderProofs Calcium.Locks Calcium.LocksProofs.

(* Every goroutine of every operation (create, capacity, remove-pod, remove,
   dissociate, realloc, replace, control, send, raw-engine, set-node,
   remove-node, node/pod resource, remap, and the two lock helpers with
   arbitrary filters / id lists), for every store content, every outcome oracle
   and every placement of failing lock attempts:
   - attempts keys in strictly increasing (class, key) order w.r.t. everything it
     holds (pod keys < workload keys < node-operation keys, bytewise inside a
     class), releases only held keys and ends holding nothing   [k_ordered]
   - releases in LIFO order                                       [k_nested]
     (exception: the multi-id workload helper called directly, whose releases after
      a failing attempt follow Go map order - an oracle of the model; still ordered)
   - uses only the three key classes                              [known_class]
   - attempts a node-operation key only while holding nothing and attempts
     nothing while holding one                                    [nodeop_alone]
     (the multi-node node-operation helper, never called by an operation with
      more than one node, is the stated exception). *)
Theorem C20_order : forall s o fls flr t, In t (op_threads s o fls flr) ->
  k_ordered t = true /\
  (match o with OHelperWorkloads _ _ _ => True | _ => k_nested t = true end) /\
  known_class t = true /\
  (match o with OHelperNodes _ true => True | _ => nodeop_alone t = true end).
Proof. exact op_threads_ok. Qed.
Print Assumptions C20_order.

(* Any number of operations (each on its own view of the store, with its own
   oracles) running concurrently, under every schedule: no reachable state is a
   deadlock (somebody unfinished and nobody able to move). *)
Theorem C20_no_deadlock : forall ops st,
  steps key_eqb (start (threads_of ops)) st -> ~ deadlocked key_eqb st.
Proof. exact no_deadlock_ops. Qed.
Print Assumptions C20_no_deadlock.

(* every maximal run ends with all goroutines finished and every lock free *)
Theorem C20_runs_end_unlocked : forall ops st,
  steps key_eqb (start (threads_of ops)) st -> (forall st', ~ step key_eqb st st') ->
  all_finished st /\ all_held st = nil.
Proof. exact runs_end_unlocked. Qed.
Print Assumptions C20_runs_end_unlocked.

(* the transition system itself never lets two goroutines hold one key *)
Theorem C20_mutex_model : forall ops st,
  steps key_eqb (start (threads_of ops)) st -> mutex st.
Proof. exact mutex_ops. Qed.
Print Assumptions C20_mutex_model.

(* the generic theorem (Base/LockOrder): for ANY key type with a decidable strict
   order, threads whose scripts are [ordered] cannot deadlock *)
Theorem C20_lock_order_generic :
  forall (key : Type) (eqb ltb : key -> key -> bool),
  (forall a b, eqb a b = true <-> a = b) ->
  (forall a, ltb a a = false) ->
  (forall a b c, ltb a b = true -> ltb b c = true -> ltb a c = true) ->
  forall scripts st,
  (forall sc, In sc scripts -> ordered eqb ltb sc = true) ->
  steps eqb (start scripts) st -> ~ deadlocked eqb st.
Proof. exact (@no_deadlock). Qed.
Print Assumptions C20_lock_order_generic.

(* the boolean check evaluated on the implementation's recorded lock calls
   accepts every thread of the model *)
Theorem C20_ok_sound_on_model : forall s o fls flr t,
  match o with OHelperNodes _ true => False | OHelperWorkloads _ _ _ => False | _ => True end ->
  In t (op_threads s o fls flr) -> thread_ok t = true.
Proof. exact op_thread_ok_bool. Qed.
Print Assumptions C20_ok_sound_on_model.
