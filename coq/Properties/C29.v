(* C29 — file transfers deliver identical content and always finish.
   This file contains only the property theorems.

   [to_chunks size c]: rpc.toSendLargeFileChunks; [send_file size c targets behs]:
   Vibranium.Send of one file = Calcium.SendLargeFile fed with those chunks, for
   targets (Some o = the o-th existing workload, None = an unknown id; repeats
   allowed) whose engines behave as behs (read to EOF | read to EOF then fail |
   fail after k bytes | return success unread).  Both polymorphic in the bytes. *)
From Coq Require Import List Permutation Bool.
From Verif Require Import Xfer.Chunks Xfer.ChunksProofs Xfer.Pipeline Xfer.PipelineProofs Xfer.Steps Xfer.StepsProofs Xfer.StepsBridge Xfer.Direct Xfer.DirectProofs Xfer.Multi Xfer.MultiProofs.
Import ListNotations.
Local Open Scope bool_scope.

(* chunking round trip, any content (the empty file included), any positive chunk size:
   the chunks concatenate to the content, all but the last are full, there is at
   least one, and no chunk of a non-empty file is empty *)
Theorem C29_chunks : forall {A} size (c : list A), 0 < size ->
  concat (to_chunks size c) = c /\
  shape size (to_chunks size c) /\
  (c <> [] -> Forall (fun ch => ch <> []) (to_chunks size c)).
Proof. exact @chunks_statement. Qed.
Print Assumptions C29_chunks.

(* ids, destination, owner, mode and total size are repeated on every chunk *)
Theorem C29_chunk_metadata : forall {M A} size (meta : M) (c : list A),
  map o_chunk (to_options size meta c) = to_chunks size c /\
  Forall (fun o => o_meta o = meta /\ o_size o = length c) (to_options size meta c).
Proof. exact @options_statement. Qed.
Print Assumptions C29_chunk_metadata.

(* an engine that reads to EOF receives exactly the content; one that aborts has
   read a prefix; a workload that is not a target receives nothing *)
Theorem C29_delivery : forall {A} size (content : list A) targets behs o,
  0 < size ->
  let out := send_file size content targets behs in
  (In (Some o) targets ->
     received out o = Some (match beh_of behs o with
                            | Drain | DrainErr => content
                            | GiveUp k => firstn k content
                            | Ignore => []
                            end)) /\
  (~ In (Some o) targets -> received out o = None).
Proof. exact @delivery. Qed.
Print Assumptions C29_delivery.

(* exactly one result per distinct target -- existing, missing or listed twice *)
Theorem C29_one_result_per_target : forall {A} size (content : list A) targets behs,
  0 < size ->
  let out := send_file size content targets behs in
  Permutation (messages out) (map (message behs) (dedupe targets)) /\
  NoDup (dedupe targets) /\ (forall t, In t (dedupe targets) <-> In t targets).
Proof. exact @one_result_per_target. Qed.
Print Assumptions C29_one_result_per_target.

(* ... carrying the engine's verdict, or an error for an unknown id *)
Theorem C29_verdicts : forall behs t,
  message behs t = match t with
                   | Some o => mkMsg (Some o) (engine_err (beh_of behs o)) true
                   | None => mkMsg None EOther false
                   end.
Proof. exact verdicts. Qed.
Print Assumptions C29_verdicts.

(* the call always finishes (dataflow model of the repaired network: nothing can block) *)
Theorem C29_termination : forall {A} size (content : list A) targets behs,
  finished (send_file size content targets behs) = true.
Proof. exact @terminates. Qed.
Print Assumptions C29_termination.

(* ... and in model steps, for ALL schedules of the goroutines (dispatcher, one
   sender and one engine goroutine per target, buffers of 10, io.Pipe rendezvous,
   reader closed after the copy): from the initial state, any execution of k steps
   (1) has k <= mu(init) -- every schedule terminates, with an explicit bound;
   (2) ends in a state that is finished or can still move -- no deadlock, whatever
       the engines do (read to EOF, give up after any number of bytes, never start);
   (3) if finished: every target reported exactly once and its engine read exactly
       the whole content / its first k bytes *)
Theorem C29_all_schedules : forall {A} (chunks : list (list A)) (ts : list target) (behs : list beh),
  chunks <> [] ->
  let n := length ts in
  let want := fun i => want_of_target behs (nth i ts None) in
  forall k s, steps A n want k (init A n chunks) s ->
    k <= mu A n (init A n chunks) /\
    (dst A s <> DFinished A -> exists s', step A n want s s') /\
    (dst A s = DFinished A ->
       forall i, i < n ->
         nmsg A (tg A s i) = 1 /\
         got A (tg A s i) = reads_spec A (want i) (concat chunks)).
Proof. exact @transfer_all_schedules. Qed.
Print Assumptions C29_all_schedules.

(* what an engine has read when the network finished is what the dataflow model
   (the one the correspondence harness runs against the code) computes *)
Theorem C29_steps_match_dataflow : forall {A} (chunks : list (list A)) (ts : list target) (behs : list beh),
  chunks <> [] ->
  let n := length ts in
  let want := fun i => want_of_target behs (nth i ts None) in
  forall k s, steps A n want k (init A n chunks) s -> dst A s = DFinished A ->
  forall i o, i < n -> nth i ts None = Some o ->
    got A (tg A s i) = engine_reads (beh_of behs o) chunks.
Proof. exact @transfer_matches_dataflow. Qed.
Print Assumptions C29_steps_match_dataflow.

(* Calcium.Send, the non-chunked path of the cluster API: the engine is handed the
   whole content; exactly one result per (listed target, file) for any id list
   (after the repair; before it an id listed twice was served and reported twice) *)
Theorem C29_direct_delivery : forall {A} (content : list A),
  direct_reads Drain content = content /\ direct_reads DrainErr content = content /\
  forall k, direct_reads (GiveUp k) content = firstn k content.
Proof. exact @direct_delivery. Qed.
Print Assumptions C29_direct_delivery.

Theorem C29_direct_one_result : forall nfiles ids behs o f,
  In (Some o) ids -> f < nfiles ->
  fst (send_direct nfiles ids behs) = DOk /\
  length (filter (fun m => onat_eqb (d_target m) (Some o) && onat_eqb (d_file m) (Some f))
                 (snd (send_direct nfiles ids behs))) = 1.
Proof. exact direct_one_result_any. Qed.
Print Assumptions C29_direct_one_result.

Theorem C29_direct_orig_duplicate_refuted :
  snd (send_direct_with false 1 [Some 0; Some 0] []) = [mkDMsg (Some 0) (Some 0) ENone; mkDMsg (Some 0) (Some 0) ENone] /\
  snd (send_direct 1 [Some 0; Some 0] []) = [mkDMsg (Some 0) (Some 0) ENone].
Proof. exact direct_duplicate_refuted. Qed.
Print Assumptions C29_direct_orig_duplicate_refuted.

(* the outcome does not depend on how the client of the streaming RPC cut the file into
   chunks (2500 bytes as 1000+1000+500 or as the core's own 2048+452) *)
Theorem C29_chunking_independent : forall {A} (c1 c2 : list (list A)) targets behs,
  c1 <> [] -> c2 <> [] -> concat c1 = concat c2 ->
  messages (send_chunks c1 targets behs) = messages (send_chunks c2 targets behs) /\
  finished (send_chunks c1 targets behs) = finished (send_chunks c2 targets behs) /\
  forall o, received (send_chunks c1 targets behs) o = received (send_chunks c2 targets behs) o.
Proof. exact @chunking_independent. Qed.
Print Assumptions C29_chunking_independent.

(* several files on ONE SendLargeFile input channel (a client of the streaming RPC):
   every (distinct target, file) gets a result and every file is delivered completely
   to every engine that reads to EOF (after the repair; before it only the first file) *)
Theorem C29_multi_results : forall {A} (files : list (list (list A))) targets behs,
  let out := send_files files targets behs in
  mfinished out = true /\
  Permutation (mresults out) (flat_map (results_of (length files)) (dedupe targets)) /\
  length (mresults out) = length files * length (dedupe targets).
Proof. exact @multi_results. Qed.
Print Assumptions C29_multi_results.

Theorem C29_multi_delivery : forall {A} size (contents : list (list A)) targets behs o f c,
  0 < size -> In (Some o) targets -> nth_error contents f = Some c ->
  mreceived (send_files (map (to_chunks size) contents) targets behs) o f =
    Some (match beh_of behs o with
          | Drain | DrainErr => c
          | GiveUp k => firstn k c
          | Ignore => []
          end).
Proof. exact @multi_delivery. Qed.
Print Assumptions C29_multi_delivery.

Theorem C29_multi_orig_refuted :
  let out := send_files_with false [[[1; 2]]; [[3]]] [Some 0] [] in
  mresults out = [(Some 0, Some 0)] /\ mreceived out 0 1 = None /\
  mresults (send_files [[[1; 2]]; [[3]]] [Some 0] []) = [(Some 0, Some 0); (Some 0, Some 1)] /\
  mreceived (send_files [[[1; 2]]; [[3]]] [Some 0] []) 0 1 = Some [3].
Proof. exact multi_orig_refuted. Qed.
Print Assumptions C29_multi_orig_refuted.

(* the unrepaired network: finished when every target existed and every engine
   read to EOF, but blocked for ever on a missing target or an aborting engine
   once more than 11 chunks were pending; duplicated ids doubled the content;
   an empty file produced no chunk, no transfer and no result *)
Theorem C29_orig_partial : forall lens targets behs,
  (forall t, In t targets -> exists o, t = Some o /\ (beh_of behs o = Drain \/ beh_of behs o = DrainErr)) ->
  finishes_with false lens targets behs = true.
Proof. exact orig_finishes_when_all_drain. Qed.
Print Assumptions C29_orig_partial.

Theorem C29_orig_missing_target_refuted : finishes_with false thirteen [Some 0; None] [] = false.
Proof. exact orig_missing_target_blocks. Qed.
Print Assumptions C29_orig_missing_target_refuted.

Theorem C29_orig_abort_refuted :
  finishes_with false thirteen [Some 0; Some 1] [GiveUp 3000] = false /\
  finishes_with false (repeat 2048 12) [Some 0] [GiveUp 10] = false /\
  finishes_with false (repeat 2048 11) [Some 0] [GiveUp 10] = true.
Proof. exact orig_aborting_engine_blocks. Qed.
Print Assumptions C29_orig_abort_refuted.

Theorem C29_orig_duplicate_refuted :
  engine_reads Drain (dup_stream 2 (to_chunks 2 [1; 2; 3])) = [1; 2; 1; 2; 3; 3] /\
  engine_reads Drain (dup_stream 1 (to_chunks 2 [1; 2; 3])) = [1; 2; 3].
Proof. exact orig_duplicate_garbles. Qed.
Print Assumptions C29_orig_duplicate_refuted.

Theorem C29_orig_empty_file_refuted : forall {A} size, @to_chunks_orig A size [] = [].
Proof. exact @orig_empty_refuted. Qed.
Print Assumptions C29_orig_empty_file_refuted.
