(* C14 — a crash during deployment is repaired by recovery.
   This file contains only the property theorems.  (Model of create.go after the
   repair of the order of the deferred clean-up; the defect is kept as
   RecoverProofs.old_order_marker_leak and as a fixed finding.) *)
From Coq Require Import List ZArith.
From Verif Require Import Calcium.Recover Calcium.RecoverProofs.
Import ListNotations.
Local Open Scope Z_scope.

(* For every plan (any number of nodes and instances), every crash
   configuration g satisfying the program-order invariant [valid] (= every
   crash point between two externally visible steps - store write, plugin
   write, engine call, log write / commit - under every interleaving of the
   instance goroutines), every node whose usage equalled the sum of its recorded
   workloads before the deployment: after the WAL handlers ran in log order
   - usage = sum of the recorded workloads,
   - every instance is recorded and running, or absent from store and engine,
     or is the container created right before the crash and not yet logged,
   - no in-progress marker of the deployment remains. *)
Theorem C14_recovery : forall g (before : list (Z * Z)),
  valid g = true -> List.length before = List.length (per_node g) ->
  (forall p, In p before -> fst p = snd p) ->
  forall p nc, In (p, nc) (combine before (per_node g)) ->
  let ns := crash_node (fst p) (snd p) nc in
  let ns' := recover_node (wal_alloc_open g) ns in
  usage_ok ns' = true /\ insts_ok ns ns' = true /\ marker_ok ns' = true.
Proof. exact recovery_ok. Qed.
Print Assumptions C14_recovery.

(* program order rules out the window in which a marker would leak *)
Theorem C14_no_leak_window : forall g nc, valid g = true -> In nc (per_node g) -> leak_window nc = false.
Proof. exact valid_no_leak_window. Qed.
Print Assumptions C14_no_leak_window.

(* every configuration reached by executing calls in program order (any
   interleaving of instances) is a valid crash configuration *)
Theorem C14_reachable_valid : forall plan cs g,
  grun (gc_start plan) cs = Some g -> valid g = true.
Proof. exact reachable_valid. Qed.
Print Assumptions C14_reachable_valid.
