(* C14 — a crash during deployment is repaired by recovery.

   FULL STATEMENT (false of the code as it is, see C14_refuted_marker_leak):
     for every deployment and every crash configuration allowed by program
     order, after recovery: usage = sum of recorded workloads on every affected
     node, no marker of the deployment remains, every instance is fully created
     or absent (except the unlogged container).
   This file contains only the property theorems. *)
From Coq Require Import List ZArith.
From Verif Require Import Calcium.Recover Calcium.RecoverProofs.
Import ListNotations.
Local Open Scope Z_scope.

(* For every plan (any number of nodes and instances), every crash
   configuration g satisfying the program-order invariant [valid] (= every
   crash point between two externally visible steps under every interleaving
   of the instance goroutines), every node whose usage equalled the sum of its
   recorded workloads before the deployment: after the handlers ran in log order
   - usage = sum of the recorded workloads,
   - every instance is recorded and running, or absent from store and engine,
     or is the container created right before the crash and not yet logged,
   - the marker is gone, PROVIDED the crash did not fall between the WAL commit
     of the node's create-processing entry and DeleteProcessing. *)
Theorem C14_recovery_partial : forall g (before : list (Z * Z)),
  valid g = true -> List.length before = List.length (per_node g) ->
  (forall p, In p before -> fst p = snd p) ->
  forall p nc, In (p, nc) (combine before (per_node g)) ->
  let ns := crash_node (fst p) (snd p) nc in
  let ns' := recover_node (wal_alloc_open g) ns in
  usage_ok ns' = true /\ insts_ok ns ns' = true /\ (leak_window nc = false -> marker_ok ns' = true).
Proof. exact recovery_ok. Qed.
Print Assumptions C14_recovery_partial.

(* the marker clause is false in that window: the deferred functions of
   doCreateWorkloads commit the create-processing WAL entries BEFORE the markers
   are deleted; a crash in between leaves a marker nothing will ever delete *)
Theorem C14_refuted_marker_leak : exists g nc,
  grun (gc_start [1%nat]) leak_calls = Some g /\ valid g = true /\ per_node g = [nc] /\
  marker_ok (recover_node (wal_alloc_open g) (crash_node 0 0 nc)) = false.
Proof. exact marker_leak. Qed.
Print Assumptions C14_refuted_marker_leak.
