(* C06 — CPU planning always terminates without crashing.
   This file contains only the property theorems (proofs: Cpumem/SchedProofs*.v).

   The model (Cpumem/Schedule.v, Calc.v) gives every loop explicit fuel and
   turns every bad slice bound, index and integer division by zero into a
   [Panic] outcome; [Ok] therefore means "returned, no panic, fuel not
   exhausted".  The theorems hold for EVERY node state (valid or not), every
   origin map (the affinity path used by realloc), every float request (also
   below one piece, NaN, infinite, out of range), every max-share value and every
   NUMA iteration order; the only hypothesis is a positive share base.  They are
   stated for an arbitrary final sort of getFullCPUPlans that permutes its input
   (Go's sort.Slice is unstable above 12 elements) and instantiated for the
   stable sort used by the correspondence check. *)
From Coq Require Import String List ZArith Permutation.
From Verif Require Import Cpumem.Types Cpumem.Schedule Cpumem.Calc Cpumem.SchedProofs Cpumem.SchedProofsCalc.
Local Open Scope Z_scope.

Theorem C06_total : forall sortf,
  (forall l, exists l', sortf l = Ok l' /\ Permutation l' l) ->
  forall info origin base maxfrag req numa_order fuel,
  0 < base -> (default_fuel info <= fuel)%nat ->
  exists plans, get_cpu_plans_g sortf info origin base maxfrag req numa_order fuel = Ok plans.
Proof. exact get_cpu_plans_total'. Qed.
Print Assumptions C06_total.

Theorem C06_total_model : forall info origin base maxfrag req numa_order,
  0 < base ->
  exists plans, get_cpu_plans info origin base maxfrag req numa_order (default_fuel info) = Ok plans.
Proof. exact get_cpu_plans_total_model. Qed.
Print Assumptions C06_total_model.

Theorem C06_deploy_total : forall sortf,
  (forall l, exists l', sortf l = Ok l' /\ Permutation l' l) ->
  forall info base maxshare count raw numa_order fuel,
  0 < base -> 0 <= count -> (default_fuel info <= fuel)%nat ->
  exists r, calculate_deploy_g sortf info base maxshare count raw numa_order fuel = Ok r.
Proof. exact calculate_deploy_total. Qed.
Print Assumptions C06_deploy_total.

Theorem C06_capacity_total : forall sortf,
  (forall l, exists l', sortf l = Ok l' /\ Permutation l' l) ->
  forall info base maxshare req numa_order fuel,
  0 < base -> (default_fuel info <= fuel)%nat ->
  exists c, node_capacity_g sortf info base maxshare req numa_order fuel = Ok c.
Proof. exact node_capacity_total. Qed.
Print Assumptions C06_capacity_total.

(* CalculateRealloc: the origin's resources are given back, then the same planner runs
   with the origin map (affinity path) *)
Theorem C06_realloc_total : forall sortf,
  (forall l, exists l', sortf l = Ok l' /\ Permutation l' l) ->
  forall info base maxshare origin raw numa_order fuel,
  0 < base -> (default_fuel (realloc_info info origin) <= fuel)%nat ->
  exists r, calculate_realloc_g sortf info base maxshare origin raw numa_order fuel = Ok r.
Proof. exact calculate_realloc_total. Qed.
Print Assumptions C06_realloc_total.
