(* C36 — client watch streams retry transparently.
   This file contains only the property theorems.

   [run_stream m max script pl r]: the caller opens streaming method m with
   request r through NewStreamRetry(Max = max) and receives until an error;
   the i-th stream that reaches the server behaves as script[i] (messages, then
   error | clean end | hang; streams beyond the script fail at once); pl says
   whether / when the caller cancels.  [recv_msg pl max s] is one call of
   retryStream.RecvMsg ("one break").  [Inv s]: the context is only cancelled on
   a drained stream (true of every state of a run); [pending s]: the messages
   still owed to the caller, in server order. *)
From Coq Require Import List Arith.
From Verif Require Import Rpc.Retry Rpc.RetryProofs Rpc.RetryOk Rpc.Concurrent Rpc.ConcurrentProofs.
Import ListNotations.

(* watch streams, all scripts, budgets and cancellation plans: the caller
   receives exactly the messages of the streams that reached the server, stream
   after stream in order (delivered = concatenation); every stream carried the
   original request; after a cancellation no stream reaches the server; the
   model's fuel always suffices *)
Theorem C36_retry : forall m max script pl r t fin,
  need_retry m = true -> run_stream m max script pl r = (t, fin) ->
  deliveries t = all_from 0 (firstn (opens t) script) /\
  Forall (eq r) (requests t) /\
  1 <= opens t /\
  quiet t = true /\
  fin <> FOutOfFuel.
Proof. exact retry_run_statement. Qed.
Print Assumptions C36_retry.

(* each break opens at most Max+1 new streams, each re-sending the recorded request *)
Theorem C36_budget : forall pl max s ev r s', Inv s ->
  recv_msg pl max s = (ev, r, s') ->
  opens ev <= S max /\ Forall (eq (sent s)) (requests ev).
Proof. exact recv_msg_budget. Qed.
Print Assumptions C36_budget.

(* a successful RecvMsg returns the next message owed, whichever stream it comes from *)
Theorem C36_transparent : forall pl max s ev i j s', Inv s ->
  recv_msg pl max s = (ev, RMsg i j, s') -> pending s = (i, j) :: pending s'.
Proof. exact recv_msg_delivers. Qed.
Print Assumptions C36_transparent.

(* exhausted budget surfaces the error: a RecvMsg that fails with a live context
   (and is not blocked for ever) has made all Max+1 attempts, none delivered a
   message, and it returns the error of the last attempt's stream *)
Theorem C36_exhausted : forall pl max s ev e s', Inv s ->
  recv_msg pl max s = (ev, RErr e, s') -> cancelled s' = false -> e <> FTimeout ->
  opens ev = S max /\ deliveries ev = [] /\ e = err_of (c_end (cur s')) /\ (e = FBreak \/ e = FEOF).
Proof. exact recv_msg_exhausted. Qed.
Print Assumptions C36_exhausted.

(* ... whole run: a watch stream that ends with anything but context.Canceled (and
   is not blocked) ends with the error of the last stream that reached the
   server, after a last RecvMsg that made all Max+1 attempts in vain *)
Theorem C36_exhausted_run : forall m max script pl r t fin,
  need_retry m = true -> run_stream m max script pl r = (t, fin) ->
  fin <> FCtxCanceled -> fin <> FTimeout ->
  fin = err_of (s_end (nth_script script (opens t - 1))) /\ (fin = FBreak \/ fin = FEOF) /\
  exists tp tl, t = tp ++ tl /\ opens tl = S max /\ deliveries tl = [].
Proof. exact retry_run_exhausted. Qed.
Print Assumptions C36_exhausted_run.

(* which streams a whole run opens (no cancellation, no hanging stream; n = streams that
   reached the server): the last Max+1 of them are empty failing re-opens, the error of the
   last one surfaces, and NO earlier window of Max+1 consecutive empty failing re-opens
   exists -- the client neither gave up earlier nor went on longer than its budget *)
Theorem C36_no_earlier_window : forall m max script r t fin,
  need_retry m = true -> NoHang script -> run_stream m max script plain r = (t, fin) ->
  let n := opens t in
  S (S max) <= n /\
  all_empty script (n - S max) (S max) = true /\
  no_early_window script max 1 (n - S max - 1) = true /\
  fin = err_of (s_end (nth_script script (n - 1))).
Proof. exact plain_run_shape. Qed.
Print Assumptions C36_no_earlier_window.

(* the boolean check the harness evaluates on the implementation's answers accepts the
   model's own output, for every such script and budget *)
Theorem C36_ok_on_model : forall m max script t fin,
  need_retry m = true -> NoHang script -> run m max script plain the_req = (t, fin) ->
  ok (mkCase m max script plain (deliveries t) fin (opens t) (map (Nat.eqb the_req) (requests t))) = true.
Proof. exact ok_on_model_plain. Qed.
Print Assumptions C36_ok_on_model.

(* a cancelled context is never retried at the server: RecvMsg after the
   cancellation opens nothing that reaches the server and returns context.Canceled *)
Theorem C36_cancelled_call : forall pl max s ev r s', Inv s -> cancelled s = true ->
  recv_msg pl max s = (ev, r, s') -> opens ev = 0 /\ r = RErr FCtxCanceled.
Proof. exact recv_msg_cancelled. Qed.
Print Assumptions C36_cancelled_call.

Theorem C36_cancelled_run : forall m max script pl r t fin,
  need_retry m = true -> run_stream m max script pl r = (t, fin) ->
  has_cancel t = true -> fin = FCtxCanceled.
Proof. exact retry_run_cancel. Qed.
Print Assumptions C36_cancelled_run.

(* streaming calls outside the allow-list are passed through untouched: exactly
   one stream reaches the server whatever the budget *)
Theorem C36_passthrough : forall m max script pl r t fin,
  need_retry m = false -> run_stream m max script pl r = (t, fin) ->
  opens t = 1 /\ deliveries t = all_from 0 (firstn 1 script) /\ fin <> FOutOfFuel.
Proof. exact passthrough_statement. Qed.
Print Assumptions C36_passthrough.

(* unary calls: invoked at most Max+1 times, and exactly once with the budget
   client.dial configures (Max = 0) *)
Theorem C36_unary : forall left script idx r t fin,
  unary_loop left script idx r = (t, fin) ->
  1 <= opens t /\ opens t <= S left /\ Forall (eq r) (requests t) /\
  (fin = FNone \/ (fin = FBreak /\ opens t = S left)).
Proof. exact unary_facts. Qed.
Print Assumptions C36_unary.

Theorem C36_unary_once : forall script pl r t fin, run MUnary 0 script pl r = (t, fin) -> opens t = 1.
Proof. exact unary_once. Qed.
Print Assumptions C36_unary_once.

(* ---- several watch streams at the same time behind ONE interceptor ----
   [cstep]: one step of one stream's client (a RecvMsg of the caller, or ONE attempt of the
   reopen loop with its own policy); [grun max cfgs schedule]: the whole client, streams
   stepping in the order of an arbitrary schedule; Max is the only thing they share. *)

(* the step-wise client of one stream computes exactly the single-stream run *)
Theorem C36_single_stream_steps : forall m max script pl r t fin,
  need_retry m = true -> run_stream m max script pl r = (t, fin) ->
  exists k s', forall k', k <= k' ->
    iter k' (cstep pl max) (cinit script r) = mkCst s' (PDone fin) t.
Proof. exact single_stream_steps. Qed.
Print Assumptions C36_single_stream_steps.

(* frame: whatever the schedule, a stream's state is the result of its own steps only *)
Theorem C36_frame : forall max cfgs sched g j c cfg,
  nth_error g j = Some c -> nth_error cfgs j = Some cfg ->
  nth_error (grun max cfgs sched g) j =
    Some (iter (count_occ Nat.eq_dec sched j) (cstep (g_plan cfg) max) c).
Proof. exact frame. Qed.
Print Assumptions C36_frame.

(* independence: any number of concurrent watch streams, any schedule that lets stream j
   run long enough: stream j ends exactly as it would alone -- the budget is per stream
   and per break, never shared *)
Theorem C36_independence : forall m max cfgs j cfg t fin,
  need_retry m = true ->
  nth_error cfgs j = Some cfg ->
  run_stream m max (g_script cfg) (g_plan cfg) (g_req cfg) = (t, fin) ->
  exists k s', forall sched, k <= count_occ Nat.eq_dec sched j ->
    nth_error (grun max cfgs sched (ginit cfgs)) j = Some (mkCst s' (PDone fin) t).
Proof. exact independence. Qed.
Print Assumptions C36_independence.
