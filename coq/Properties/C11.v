(* C11 — a failed cluster operation leaves no lasting effect.

   FULL STATEMENT (false of the code as it is): for every operation, world and fault position, a
   reported failure leaves workloads, nodes, capacity and usage as they were.
   Refuted for remove-node (C11_remove_node_refuted: the plugin's removal failing after the store record
   is gone has an empty rollback) and for replace (C11_replace_refuted).  Proved for EVERY world and EVERY
   fault position: realloc, set-node (after the repair; whole operation), add-node (fresh name, existing pod),
   the locked per-workload transactions of remove (records equal up to order) and dissociate; and for replace
   (C11_replace_outcomes, C11_replace_failed, every world, every fault position): the replacement of one
   workload ends in exactly one of three ways: success; a failure before the new workload exists, which leaves
   records, usage and nodes as they were and the old container untouched or running again; a failure after the
   new workload was deployed (only the removal of the old workload can fail there: the known finding), which
   leaves old AND new recorded.  In every failed case the old workload is still recorded and its container is
   untouched or running.  The transaction combinator used by every script is the C17 model (C11_txn_is_C17). *)
From Coq Require Import Bool Arith ZArith.
From Coq Require Import List Permutation.
From Verif Require Import Base.Effects Utils.Txn Calcium.World Calcium.Ops Calcium.Run Calcium.EffectsProofs
  Calcium.OpsProofs Calcium.OpsProofs2 Calcium.NodeProofs Calcium.Sweeps Calcium.HistoryProofs.

Theorem C11_realloc_atomic : forall id req w k, wf w ->
  exists w' k' r, crunk (realloc id req) w k = (w', k', r) /\
  (r <> None -> w' = w) /\
  (r = None -> exists x, find_wl w id = Some x /\
     w' = oth w (upd_wl (mkWl (w_id x) (w_node x) (w_pod x) (radd (w_res x) req)) (wls w))
                (upd_plug (w_node x) (add_use req) (plugs w)) (conts w)).
Proof. exact realloc_atomic. Qed.
Print Assumptions C11_realloc_atomic.

Theorem C11_remove_atomic : forall n id force w k, wf w ->
  (force = true \/ strict_remove w = false) ->
  (forall x, find_wl w id = Some x -> w_node x = n) ->
  exists w' k' r, crunk (with_workload_locked id (fun x => remove_txn n x force)) w k = (w', k', r) /\
  (r <> None -> exists l, w' = oth w l (plugs w) (conts w) /\ Permutation l (wls w)) /\
  (r = None -> exists x, find_wl w id = Some x /\
     w' = oth w (del_wl id (wls w)) (upd_plug n (sub_use (w_res x)) (plugs w)) (del_cont id (conts w))).
Proof. exact remove_locked_atomic. Qed.
Print Assumptions C11_remove_atomic.

Theorem C11_dissociate_atomic : forall n id w k, wf w ->
  (forall x, find_wl w id = Some x -> w_node x = n) ->
  exists w' k' r, crunk (with_workload_locked id (fun x => dissociate_txn n x)) w k = (w', k', r) /\
  (r <> None -> w' = w) /\
  (r = None -> exists x, find_wl w id = Some x /\
     w' = oth w (del_wl id (wls w)) (upd_plug n (sub_use (w_res x)) (plugs w)) (conts w)).
Proof. exact dissociate_locked_atomic. Qed.
Print Assumptions C11_dissociate_atomic.

Theorem C11_add_node_atomic : forall n p cap w k,
  existsb (Nat.eqb p) (pods w) = true -> find_node w n = None ->
  exists w' k' r, crunk (add_node n p cap) w k = (w', k', r) /\
  (r <> None -> w' = w) /\
  (r = None -> w' = othn w (nodes w ++ (mkNode n p false true 0 :: nil)) (plugs w ++ (mkPlug n cap rzero :: nil))).
Proof. exact add_node_atomic. Qed.
Print Assumptions C11_add_node_atomic.

Theorem C11_set_node_atomic : forall n bypass mem label w k,
  NoDup (pnames (plugs w)) ->
  exists w' k' r, crunk (set_node n bypass mem label) w k = (w', k', r) /\
  (r <> None -> w' = w) /\
  (r = None -> exists x, find_node w n = Some x /\
     w' = othnp w (upd_node (mkNode (n_name x) (n_pod x) (match bypass with Some b => b | None => n_bypass x end) (n_avail x)
                                    (match label with Some l => l | None => n_label x end)) (nodes w))
                  (upd_plug n (new_cap mem) (plugs w))).
Proof. exact set_node_atomic. Qed.
Print Assumptions C11_set_node_atomic.

Theorem C11_set_node_scenarios : forall o, In o setnode_ops -> forall k,
  let '(w', r) := final (script_of o) (prep busy3 o) (Some k) in
  use_okb w' = true /\ (r <> None -> same_proj w' (prep busy3 o) = true).
Proof. exact setnode_scenarios_all_k. Qed.
Print Assumptions C11_set_node_scenarios.

(* RemoveNode: the strongest true statement *)
Theorem C11_remove_node_partial : forall n w k,
  (forall y, In y (nodes w) -> n_name y = n -> n_avail y = true) ->
  exists w' k' r, crunk (remove_node n) w k = (w', k', r) /\
  (r <> None -> w' = w \/ w' = othnp w (del_node n (nodes w)) (plugs w)) /\
  (r = None -> w' = othnp w (del_node n (nodes w)) (del_plug n (plugs w))).
Proof. exact remove_node_partial. Qed.
Print Assumptions C11_remove_node_partial.

Theorem C11_remove_node_refuted :
  r_err rmnode_bad = 1%Z /\ same_proj (r_world rmnode_bad) busy3 = false /\
  find_node (r_world rmnode_bad) 2 = None /\ find_plug (r_world rmnode_bad) 2 <> None.
Proof. exact remove_node_not_atomic. Qed.
Print Assumptions C11_remove_node_refuted.

(* replace, one workload under its lock: the three outcomes (replace_post), every world, every fault position *)
Theorem C11_replace_outcomes : forall opi index old w k c0,
  NoDup (ids (wls w)) -> find_wl w (w_id old) = Some old -> find_cont w (w_id old) = Some c0 ->
  find_wl w (w_id (new_of opi index old)) = None -> find_cont w (w_id (new_of opi index old)) = None ->
  exists w' k' r, crunk (do_replace opi index old) w k = (w', k', r) /\ replace_post opi index old w w' r.
Proof. exact do_replace_spec. Qed.
Print Assumptions C11_replace_outcomes.

(* a failed replace leaves the old workload recorded and its container untouched or running; nothing about
   usage or nodes changes; if the new workload was not deployed the records are what they were *)
Theorem C11_replace_failed : forall opi index old w k c0,
  NoDup (ids (wls w)) -> find_wl w (w_id old) = Some old -> find_cont w (w_id old) = Some c0 ->
  find_wl w (w_id (new_of opi index old)) = None -> find_cont w (w_id (new_of opi index old)) = None ->
  exists w' k' r, crunk (do_replace opi index old) w k = (w', k', r) /\
    (snd r <> None ->
       In old (wls w') /\ plugs w' = plugs w /\ nodes w' = nodes w /\
       (conts w' = conts w \/ find_cont w' (w_id old) = Some (mkCont (w_id old) CRunning))) /\
    (snd r <> None -> fst (fst r) = None -> wls w' = wls w).
Proof. exact replace_failed_keeps_old. Qed.
Print Assumptions C11_replace_failed.

Theorem C11_replace_refuted :
  r_err replace_bad = 0%Z /\
  In (MReplace (mkWid 7 0 0) (Some (mkWid 9 0 0)) false (Some EInjected)) (r_msgs replace_bad) /\
  use_okb busy3 = true /\ use_okb (r_world replace_bad) = false /\
  same_proj (r_world replace_bad) busy3 = false.
Proof. exact replace_breaks_usage. Qed.
Print Assumptions C11_replace_refuted.

Theorem C11_txn_is_C17 : forall cnd thn rb cp ca,
  cnd <> Absent ->
  let '(w, _, r) := runk tcall unit tworld texec (fun _ => tt) (fun _ => true) (txn_of cnd thn rb) nil None in
  w = map (fun e => (who e, flag e)) (fst (Txn.txn cnd thn rb cp ca)) /\
  tresult r cnd = snd (Txn.txn cnd thn rb cp ca).
Proof. exact txn_matches_C17. Qed.
Print Assumptions C11_txn_is_C17.
