(* C13 — deploy status counts are exact and in-progress markers are cleaned up.
   This file contains only the property theorems. *)
From Coq Require Import List String ZArith.
From Verif Require Import Calcium.DeployStatus Calcium.DeployStatusProofs Calcium.DecrLoop Calcium.DecrLoopProofs.
From Verif Require Import Calcium.DeployMulti Calcium.DeployMultiProofs.
Local Open Scope Z_scope.

(* For both backends, every deployment (any plan with distinct nodes and
   non-negative counts, any fresh ident), every accepted sequence of store
   calls = every interleaving of the instance goroutines with every placement
   of injected failures of CreateProcessing / AddWorkload / RemoveWorkload /
   DeleteProcessing, and every prefix of it (the state a reader may observe
   between two calls): for each node, recorded <= status <= prior + planned.
   [0 <= marker_sum (markers st0) n]: the markers other deployments contribute
   on that node do not sum to a negative number. *)
Theorem C13_bounds : forall b ident plan st0 cs1 cs2 a st,
  wf_plan plan -> has_marker_of st0 ident = false ->
  run b ident plan (deployed st0) (start_acc plan, st0) (cs1 ++ cs2) = Some (a, st) ->
  exists a1 st1, run b ident plan (deployed st0) (start_acc plan, st0) cs1 = Some (a1, st1) /\
  forall n, 0 <= marker_sum (markers st0) n ->
  recorded st1 n <= status st1 n <= status st0 n + planned plan n.
Proof. exact C13_every_prefix. Qed.
Print Assumptions C13_bounds.

(* the same for the state reached by a whole accepted sequence *)
Theorem C13_bounds_reached : forall b ident plan st0 cs a st,
  wf_plan plan -> has_marker_of st0 ident = false ->
  run b ident plan (deployed st0) (start_acc plan, st0) cs = Some (a, st) ->
  forall n, 0 <= marker_sum (markers st0) n ->
  recorded st n <= status st n <= status st0 n + planned plan n.
Proof. exact C13_bounds_thm. Qed.
Print Assumptions C13_bounds_reached.

(* Once the deployment has returned (every planned node's DeleteProcessing
   succeeded): no marker of the deployment remains and the status of every node
   is the number of recorded workloads plus what other deployments' markers
   contributed before (0 when there is none). *)
Theorem C13_final : forall b ident plan st0 cs a st,
  wf_plan plan -> has_marker_of st0 ident = false ->
  run b ident plan (deployed st0) (start_acc plan, st0) cs = Some (a, st) ->
  returned a = true ->
  has_marker_of st ident = false /\
  forall n, status st n = recorded st n + (status st0 n - recorded st0 n).
Proof. exact C13_final_thm. Qed.
Print Assumptions C13_final.

(* ANY NUMBER of concurrent deployments of one (application, entrypoint).  The
   plan maps slots = (node, ident) to planned counts and is the union of the
   plans of all the deployments (plan_wf: distinct slots, non-negative counts,
   no marker of a plan slot exists beforehand).  The acceptor mstep orders the
   calls of each slot as create.go does (CreateProcessing, then its
   AddWorkloads/RemoveWorkloads, DeleteProcessing last) and does not relate
   the calls of different slots at all: every interleaving of all deployments
   and of their instance goroutines, with every placement of injected
   failures, is an accepted sequence.  After every prefix cs1 of every accepted
   sequence, on every node: recorded <= status <= prior + the sum of what all
   deployments planned there. *)
Theorem C13_multi_bounds : forall b plan st0 cs1 cs2 r a st n,
  plan_wf plan st0 -> recorded st0 n <= status st0 n ->
  mrun b plan (deployed st0) (mstart plan, st0) (cs1 ++ cs2) = Some r ->
  mrun b plan (deployed st0) (mstart plan, st0) cs1 = Some (a, st) ->
  recorded st n <= status st n <= status st0 n + planned_on plan n.
Proof. exact multi_bounds_every_step. Qed.
Print Assumptions C13_multi_bounds.

(* every prefix of an accepted sequence is itself accepted (so the hypothesis
   on cs1 above is no restriction) *)
Theorem C13_multi_prefix_accepted : forall b plan d0 cs1 cs2 s r,
  mrun b plan d0 s (cs1 ++ cs2) = Some r ->
  exists m, mrun b plan d0 s cs1 = Some m /\ mrun b plan d0 m cs2 = Some r.
Proof. exact mrun_app. Qed.
Print Assumptions C13_multi_prefix_accepted.

(* once all of them returned (every slot's DeleteProcessing succeeded): no
   marker of any plan slot remains and status = recorded (+ what markers
   outside the plan contributed before; 0 when there is none) *)
Theorem C13_multi_final : forall b plan st0 cs a st n,
  plan_wf plan st0 ->
  mrun b plan (deployed st0) (mstart plan, st0) cs = Some (a, st) -> mreturned a = true ->
  marker_of_plan_left plan st = false /\ status st n = recorded st n + (status st0 n - recorded st0 n).
Proof. exact multi_final. Qed.
Print Assumptions C13_multi_final.

(* GetDeployStatus is not one read but two (store/*/deploy.go): the deployed
   keys first, the markers second.  A reader whose first read sees state st1
   and whose second read sees a LATER state st2 - any number of store calls of
   any number of deployments in between - obtains torn_status st1 st2.  It
   stays within the bounds relative to what was recorded when the reader
   started, and it never exceeds prior + planned; against the later state it
   undercounts by exactly the records added in between (so it can be below
   recorded st2: the transient undercount).  The opposite read order breaks
   the upper bound (DeployMultiProofs.swapped_reads_overcount). *)
Theorem C13_multi_torn_read : forall b plan st0 cs1 cs2 a1 st1 a2 st2 n,
  plan_wf plan st0 -> recorded st0 n <= status st0 n ->
  mrun b plan (deployed st0) (mstart plan, st0) cs1 = Some (a1, st1) ->
  mrun b plan (deployed st0) (a1, st1) cs2 = Some (a2, st2) ->
  recorded st1 n <= torn_status st1 st2 n <= status st0 n + planned_on plan n
  /\ torn_status st1 st2 n = status st2 n - (recorded st2 n - recorded st1 n).
Proof. exact multi_torn_read. Qed.
Print Assumptions C13_multi_torn_read.

(* The etcd backend's "record + decrement" is a compare-value retry loop of
   several etcd requests (meta/etcd.go:BatchCreateAndDecr).  For any number n of
   concurrent callers on one marker holding k, any interleaving of their
   requests: when all are done the marker holds k - n and exactly n records were
   written (no lost or duplicated decrement) - so the loop may be treated as one
   atomic step, as C13_bounds does. *)
Theorem C13_etcd_decrement_exact : forall k n sched,
  let s := drun (dstart k n) sched in
  forallb is_done (DecrLoop.threads s) = true ->
  DecrLoop.marker s = k - Z.of_nat n /\ added s = Z.of_nat n.
Proof. exact decr_exact. Qed.
Print Assumptions C13_etcd_decrement_exact.

(* ... and the loop terminates under every schedule: at most n*(n+2) requests in total *)
Theorem C13_etcd_decrement_terminates : forall k n sched, (executed (dstart k n) sched <= n * (n + 2))%nat.
Proof. exact requests_bounded. Qed.
Print Assumptions C13_etcd_decrement_terminates.
