(* C28 — a failed node's workloads are reported down.
   Only the property theorems; model in Selfmon/Selfmon.v (follows /repo after
   the fix 26913a3), proofs in Selfmon/SelfmonProofs.v.

   "Eventually" is: after the watcher's own steps (settle: open the watch, list,
   read statuses, deliver watch events, run handlers) with no other event in
   between; workloads created on the node afterwards are outside the statement. *)
From Coq Require Import List.
From Verif Require Import Selfmon.Selfmon Selfmon.SelfmonProofs Selfmon.OkProofs Selfmon.GenProofs.
Import ListNotations.

(* for every history: the status of n disappears while watcher k is active (in
   whatever stage of its start-up) => every workload recorded on n is then
   reported running=false, healthy=false *)
Theorem C28_down_lapse : forall evs k se n,
  let s := run init evs in
  phase s k = Active se -> memn n (alive s) = true ->
  let s1 := step s (ELapse n) in
  all_down s (settle (settle_bound s1 k) k s1) n.
Proof. exact down_on_lapse. Qed.
Print Assumptions C28_down_lapse.

(* for every history: watcher k takes the active lock while the status of n is absent => same *)
Theorem C28_down_activation : forall evs k n,
  let s := run init evs in
  phase s k = Waiting -> holder s = None ->
  memn n (nodes s) = true -> memn n (alive s) = false ->
  let s1 := step s (ERegister k) in
  all_down s (settle (settle_bound s1 k) k s1) n.
Proof. exact down_on_activation. Qed.
Print Assumptions C28_down_activation.

(* all interleavings: after the lapse ANY events may follow (environment, other
   watchers, k's own steps in any order) as long as k's session is not ended and
   none of its SetNode calls fails (ends k e: EStop k, EExpire k, EHandleFail k _;
   a failed handler is logged and not retried by the code -- injected store
   failures are outside the property's quantifier);
   once k has finished its own steps, a handler for n has run after the lapse
   and covered every workload that was recorded on n at the lapse *)
Theorem C28_down_interleaved : forall evs1 evs2 k se n,
  let s0 := run init evs1 in
  phase s0 k = Active se -> se_watch se = true -> memn n (alive s0) = true ->
  Forall (fun e => ~ ends k e) evs2 ->
  let s2 := run (step s0 (ELapse n)) evs2 in
  let s3 := settle (settle_bound s2 k) k s2 in
  exists new ws, trace s3 = new ++ trace s0 /\ In (THandled k n ws) new /\ incl (on_node n (wls s0)) ws.
Proof. exact down_interleaved. Qed.
Print Assumptions C28_down_interleaved.

(* all interleavings, second half: k takes the lock while n has no status;
   ANY events follow (k's session not ended); once k has finished its own
   steps, a handler for n has run and covered every workload recorded on n at
   that moment -- or n's status came back in between *)
Theorem C28_activation_interleaved : forall evs1 evs2 k n,
  let s0 := run init evs1 in
  phase s0 k = Waiting -> holder s0 = None -> memn n (nodes s0) = true ->
  Forall (fun e => ~ ends k e) evs2 ->
  let s1 := step s0 (ERegister k) in
  let s2 := run s1 evs2 in
  let s3 := settle (settle_bound s2 k) k s2 in
  handledP s0 s3 k n \/ revived evs2 s1 n.
Proof. exact activation_interleaved. Qed.
Print Assumptions C28_activation_interleaved.

(* in any state: whatever the active session owes for n (queued DELETE, pending
   handler, node its init pass has yet to examine and that has no status) is
   discharged by its own steps *)
Theorem C28_obligations : forall s k se n,
  phase s k = Active se -> owes s se n -> all_down s (settle (settle_bound s k) k s) n.
Proof. exact obligations_discharged. Qed.
Print Assumptions C28_obligations.

(* the handler step: SetNode{WorkloadsDown} marks every workload recorded on n at that step *)
Theorem C28_handler : forall s k se j n,
  phase s k = Active se -> nth_error (se_tasks se) j = Some n ->
  let s' := step s (EHandle k j) in
  all_down s s' n /\ trace s' = THandled k n (on_node n (wls s)) :: trace s.
Proof. exact handler_step. Qed.
Print Assumptions C28_handler.

(* withActiveLock.  In every history the key /selfmon/active, when it exists, is
   bound to the lease of a running session (so at most one session holds it) *)
Theorem C28_one_leased : forall evs k,
  let s := run init evs in holder s = Some k -> active s k.
Proof. exact one_leased. Qed.
Print Assumptions C28_one_leased.

(* two sessions run at the same time only while one of them has lost its lease
   and has not noticed yet (the window after a lease expiry/revoke; it exists:
   SelfmonProofs.double_active_window) *)
Theorem C28_one_active : forall evs k1 k2,
  let s := run init evs in
  active s k1 -> active s k2 -> k1 <> k2 -> stale s k1 \/ stale s k2.
Proof. exact one_active. Qed.
Print Assumptions C28_one_active.

(* hypothesis made explicit: in histories without lease losses at most one watcher is active *)
Theorem C28_one_active_no_loss : forall evs k1 k2 se1 se2,
  Forall (fun e => ~ lease_loss e) evs ->
  let s := run init evs in
  phase s k1 = Active se1 -> phase s k2 = Active se2 -> k1 = k2.
Proof. exact one_active_no_loss. Qed.
Print Assumptions C28_one_active_no_loss.

(* the defect repaired by 26913a3: with the init pass not waiting for the
   watch, a lapse between the two is missed for good (the session ends idle,
   node 0 has no status, its workload is still reported running and healthy) *)
Theorem C28_old_order_refuted :
  let s := old_run init old_witness in
  (exists se, phase s 0 = Active se /\ se_watch se = true /\ se_listed se = true /\
              se_init se = [] /\ se_queue se = [] /\ se_tasks se = []) /\
  memn 0 (alive s) = false /\ map w_st (wls s) = [Some (true, true)].
Proof. exact old_order_missed_lapse. Qed.
Print Assumptions C28_old_order_refuted.

(* ---- the boolean check evaluated by the harness ---- *)

(* ok c = true implies, slot by slot, the two clauses of the property as
   propositions over the observed statuses ... *)
Theorem C28_ok_reflects : forall c, ok c = true ->
  forall pre sl post, slots c = pre ++ sl :: post -> slot_clause (fold_left ok_step pre ok_init) sl.
Proof. exact ok_reflects. Qed.
Print Assumptions C28_ok_reflects.

(* ... and accepts every run all of whose slots satisfy them *)
Theorem C28_ok_complete : forall c,
  (forall pre sl post, slots c = pre ++ sl :: post -> slot_clause (fold_left ok_step pre ok_init) sl) ->
  ok c = true.
Proof. exact ok_complete. Qed.
Print Assumptions C28_ok_complete.

(* the model agrees with its own observations for every history *)
Theorem C28_agree_gen : forall acts, agree (gen_case acts) = true.
Proof. exact agree_gen. Qed.
Print Assumptions C28_agree_gen.

(* ok accepts the model's own observations for EVERY history (induction over the
   history with an invariant relating ok's bookkeeping to the model state) *)
Theorem C28_ok_gen : forall acts, ok (gen_case acts) = true.
Proof. exact ok_gen. Qed.
Print Assumptions C28_ok_gen.
