(* C16: the boolean reflection [ok] used on the implementation's observations accepts every
   trace of the model (so, by C16_replay / C16_removed_iff / C16_ids_fresh, it accepts exactly what
   the theorems describe).  Observations are derived from the model's results by [obs_of]. *)
From Coq Require Import List Bool Arith NArith String Ascii Lia Sorted.
From Verif Require Import Base.GoStr Base.GoStrLemmas Wal.Model Wal.Proofs.
Import ListNotations.
Open Scope list_scope.
Local Open Scope N_scope.

Opaque event_key parse_event_id event_prefix.

Definition id_of_key (k : bytes) : N := match parse_event_id k with Some id => id | None => 0 end.

Definition sobs (kv : bytes * option (N * N)) : string * option (N * N * N) :=
  (l2s (fst kv), match snd kv with Some ti => Some (id_of_key (fst kv), fst ti, snd ti) | None => None end).

Definition obs_of (r : result) : obs :=
  match r with
  | RLogged _ => ObsLog 0
  | RLogUnknownType => ObsLog 1
  | RLogEncodeErr => ObsLog 2
  | RCommitted _ => ObsCommit true
  | RCommitStale | RCommitNone => ObsCommit false
  | RReopened snap => ObsReopen (map sobs snap)
  | RRecovered calls => ObsRecover (map (fun c => (e_typ (fst c), e_item (fst c), stages (snd c))) calls)
  | RInjected => ObsInject
  end.

Definition obs_trace (tr : trace) : list obs := map (fun x => obs_of (snd x)) tr.
Definition spec0 (regs : list N) : spec := mkSpec [] [] regs [] [] true.
Definition ospec (regs : list N) (tr : trace) : spec := spec_run (spec0 regs) (map fst tr) (obs_trace tr).

Lemma spec_run_snoc : forall ops os sp o b, List.length ops = List.length os ->
  spec_run sp (ops ++ [o]) (os ++ [b]) = spec_step (spec_run sp ops os) o b.
Proof.
  induction ops as [|x ops IH]; intros [|y os] sp o b L; simpl in L; try discriminate; [reflexivity|].
  simpl. apply IH. lia.
Qed.

Lemma ospec_snoc : forall regs tr o r, ospec regs (tr ++ [(o, r)]) = spec_step (ospec regs tr) o (obs_of r).
Proof.
  intros. unfold ospec, obs_trace. rewrite !map_app. simpl.
  apply spec_run_snoc. rewrite !map_length. reflexivity.
Qed.

Lemma run_fst : forall ops st tr st', run st ops = (tr, st') -> map fst tr = ops.
Proof.
  induction ops as [|o ops IH]; intros st tr st' H; simpl in H.
  - inversion H. reflexivity.
  - destruct (step st o) as [s1 r]. destruct (run s1 ops) as [tr1 fin] eqn:R. inversion H; subst.
    simpl. f_equal. eapply IH. exact R.
Qed.

(* items of all Log operations of a history *)
Definition log_items (ops : list op) : list N :=
  flat_map (fun o => match o with Log _ i _ => [i] | _ => [] end) ops.

Definition pi (e : entry) : N * N := (e_item e, e_typ e).

(* item <-> id correspondence between the spec state and the trace *)
Definition corr (gone removed : list N) (L : list entry) : Prop :=
  forall e, In e L -> memN (e_item e) gone = memN (e_id e) removed.

Record rel (regs : list N) (tr : trace) (st : state) : Prop := mkRel {
  r_good : good (ospec regs tr) = true;
  r_lg : lg (ospec regs tr) = map pi (logged tr);
  r_rg : rg (ospec regs tr) = reg st;
  r_corr : corr (gone (ospec regs tr)) (removed_ids tr) (logged tr);
  r_gone : forall i, In i (gone (ospec regs tr)) -> In i (map e_item (logged tr));
  r_ids : forall it id, In (it, id) (ids (ospec regs tr)) -> exists e, In e (logged tr) /\ e_item e = it /\ e_id e = id;
  r_inj : forall k, In k (inj (ospec regs tr)) <-> In k (map l2s (injected tr));
  r_issued : map fst (issued st) = map e_id (logged tr);
  r_items : NoDup (map e_item (logged tr))
}.

Lemma memN_false_notin : forall x l, memN x l = false <-> ~ In x l.
Proof.
  intros. rewrite <- memN_In. destruct (memN x l); split; intro H; try reflexivity; try discriminate; try tauto;
    try (exfalso; apply H; reflexivity); try (intro C; discriminate).
Qed.

Lemma same_item : forall L a b, NoDup (map e_item L) -> In a L -> In b L -> e_item a = e_item b -> a = b.
Proof.
  induction L as [|x l IH]; intros a b ND Ha Hb E; [contradiction|].
  simpl in ND. inversion ND as [|? ? Nx NDl]; subst.
  destruct Ha as [<-|Ha]; destruct Hb as [<-|Hb]; auto.
  - elim Nx. rewrite E. apply in_map. exact Hb.
  - elim Nx. rewrite <- E. apply in_map. exact Ha.
Qed.

Lemma logged_items_sub : forall regs ops tr st, run (init regs) ops = (tr, st) ->
  forall e, In e (logged tr) -> In (e_item e) (log_items ops).
Proof.
  intros regs ops tr st H e He. rewrite <- (run_fst _ _ _ _ H).
  unfold logged in He. apply in_flat_map in He. destruct He as [[o r] [Hx Hin]].
  unfold log_items. apply in_flat_map. exists o. split; [apply (in_map fst _ _ Hx)|].
  destruct o; try contradiction. destruct r; try contradiction. destruct Hin as [<-|[]]. left. reflexivity.
Qed.

(* ---------- generic list facts ---------- *)
Lemma existsb_map : forall (A B : Type) (g : A -> B) (f : B -> bool) l, existsb f (map g l) = existsb (fun x => f (g x)) l.
Proof. induction l as [|a l IH]; simpl; [reflexivity|]. rewrite IH. reflexivity. Qed.
Lemma forallb_map : forall (A B : Type) (g : A -> B) (f : B -> bool) l, forallb f (map g l) = forallb (fun x => f (g x)) l.
Proof. induction l as [|a l IH]; simpl; [reflexivity|]. rewrite IH. reflexivity. Qed.
Lemma filter_map_comm : forall (A B : Type) (g : A -> B) (f : B -> bool) l,
  filter f (map g l) = map g (filter (fun x => f (g x)) l).
Proof. induction l as [|a l IH]; simpl; [reflexivity|]. destruct (f (g a)); simpl; rewrite IH; reflexivity. Qed.
Lemma forallb_negb_existsb : forall (A : Type) (f : A -> bool) l, forallb (fun x => negb (f x)) l = true -> existsb f l = false.
Proof.
  induction l as [|a l IH]; simpl; [reflexivity|]. intro H. apply andb_true_iff in H. destruct H as [H1 H2].
  apply negb_true_iff in H1. rewrite H1, (IH H2). reflexivity.
Qed.
Lemma forallb_negb_filter : forall (A : Type) (f : A -> bool) l, forallb (fun x => negb (f x)) l = true -> filter f l = [].
Proof.
  induction l as [|a l IH]; simpl; [reflexivity|]. intro H. apply andb_true_iff in H. destruct H as [H1 H2].
  apply negb_true_iff in H1. rewrite H1. apply IH. exact H2.
Qed.
Lemma nodupN_of_NoDup : forall l, NoDup l -> nodupN l = true.
Proof.
  induction l as [|x l IH]; intro H; [reflexivity|]. inversion H as [|? ? Nx Nl]; subst. simpl.
  apply andb_true_iff. split; [apply negb_true_iff, memN_false_notin; exact Nx | apply IH; exact Nl].
Qed.
Lemma subseq_in : forall (A : Type) (a l : list A) x, subseq a l -> In x a -> In x l.
Proof.
  intros A a l x S. induction S; intro H; simpl in *; [contradiction| |].
  - destruct H as [<-|H]; [left; reflexivity | right; apply IHS; exact H].
  - right. apply IHS. exact H.
Qed.
Lemma subseq_map : forall (A B : Type) (f : A -> B) a l, subseq a l -> subseq (map f a) (map f l).
Proof. intros A B f a l S. induction S; simpl; constructor; assumption. Qed.
Lemma subseq_nodup : forall (A : Type) (a l : list A), subseq a l -> NoDup l -> NoDup a.
Proof.
  intros A a l S. induction S; intro H.
  - constructor.
  - inversion H as [|? ? Nx Nl]; subst. constructor; [|apply IHS; exact Nl].
    intro C. apply Nx. eapply subseq_in; eassumption.
  - inversion H; subst. apply IHS. assumption.
Qed.
Lemma subseq_filter : forall (A : Type) (f : A -> bool) l, subseq (filter f l) l.
Proof. induction l as [|a l IH]; simpl; [constructor|]. destruct (f a); constructor; exact IH. Qed.

(* ---------- item/id correspondence ---------- *)
Lemma live_pi : forall gone removed L, corr gone removed L ->
  filter (fun it => negb (memN (fst it) gone)) (map pi L) = map pi (filter (not_in removed) L).
Proof.
  induction L as [|e L IH]; intro C; [reflexivity|]. simpl. unfold not_in at 1.
  rewrite (C e (or_introl eq_refl)).
  destruct (memN (e_id e) removed); simpl; rewrite IH; try reflexivity; intros x Hx; apply C; right; exact Hx.
Qed.
Lemma live_reg_pi : forall gone removed rgs L, corr gone removed L ->
  filter (fun it => negb (memN (fst it) gone) && memN (snd it) rgs) (map pi L)
  = map pi (filter (fun e => memN (e_typ e) rgs) (filter (not_in removed) L)).
Proof.
  induction L as [|e L IH]; intro C; [reflexivity|]. simpl. unfold not_in at 1.
  rewrite (C e (or_introl eq_refl)).
  assert (CL : corr gone removed L) by (intros x Hx; apply C; right; exact Hx).
  destruct (memN (e_id e) removed); simpl; [apply IH; exact CL|].
  destruct (memN (e_typ e) rgs); simpl; rewrite (IH CL); reflexivity.
Qed.

Lemma lookupN_pi : forall L e, NoDup (map e_item L) -> In e L -> lookupN (e_item e) (map pi L) = Some (e_typ e).
Proof.
  induction L as [|x L IH]; intros e ND H; [contradiction|]. simpl in ND. inversion ND as [|? ? Nx NL]; subst. simpl.
  destruct H as [<-|H]; [rewrite N.eqb_refl; reflexivity|].
  destruct (N.eqb (e_item e) (e_item x)) eqn:E.
  - apply N.eqb_eq in E. elim Nx. rewrite <- E. apply in_map. exact H.
  - apply IH; assumption.
Qed.

(* ---------- the walk of Recover, in the shape the check looks at ---------- *)
Section Walk.
Variable rgs : list N.
Variable oc : list (N * outcome).
Definition gcr (e : entry) : bool := crashes (lookup_oc (e_item e) oc).
Definition registered (e : entry) : bool := memN (e_typ e) rgs.

Lemma calls_prefix : forall E,
  is_prefix (map (fun c => e_item (fst c)) (expected_calls rgs oc E)) (map e_item (filter registered E)) = true.
Proof.
  induction E as [|e E IH]; [reflexivity|]. simpl. unfold registered at 1.
  destruct (memN (e_typ e) rgs); simpl; [|exact IH].
  destruct (crashes (lookup_oc (e_item e) oc)); simpl; rewrite N.eqb_refl; [reflexivity | exact IH].
Qed.

Lemma calls_shape : forall E,
  (forallb (fun c => negb (gcr (fst c))) (expected_calls rgs oc E) = true /\
   map fst (expected_calls rgs oc E) = filter registered E) \/
  (exists pre e, expected_calls rgs oc E = pre ++ [(e, lookup_oc (e_item e) oc)] /\ gcr e = true /\
                 forallb (fun c => negb (gcr (fst c))) pre = true).
Proof.
  induction E as [|e E IH]; [left; split; reflexivity|]. simpl. unfold registered at 1.
  destruct (memN (e_typ e) rgs); simpl; [|exact IH].
  destruct (crashes (lookup_oc (e_item e) oc)) eqn:Cr.
  - right. exists [], e. split; [reflexivity|]. split; [exact Cr | reflexivity].
  - destruct IH as [[A B]|[pre [x [A [B C]]]]].
    + left. split; [simpl; unfold gcr at 1; simpl; rewrite Cr; exact A | simpl; f_equal; exact B].
    + right. exists ((e, lookup_oc (e_item e) oc) :: pre), x. split; [rewrite A; reflexivity|].
      split; [exact B|]. simpl. unfold gcr at 1. simpl. rewrite Cr. exact C.
Qed.

Lemma calls_c2 : forall E,
  let calls := expected_calls rgs oc E in
  (if existsb (fun c => gcr (fst c)) calls
   then match rev calls with
        | c :: _ => gcr (fst c) && Nat.eqb (List.length (filter (fun c => gcr (fst c)) calls)) 1
        | [] => false
        end
   else Nat.eqb (List.length calls) (List.length (filter registered E))) = true.
Proof.
  intros E calls. destruct (calls_shape E) as [[A B]|[pre [e [A [B C]]]]]; fold calls in A.
  - rewrite (forallb_negb_existsb _ _ _ A). apply Nat.eqb_eq. fold calls in B. rewrite <- B, map_length. reflexivity.
  - rewrite A. rewrite existsb_app. simpl. rewrite B, orb_true_r.
    rewrite rev_app_distr. simpl. rewrite B. simpl.
    rewrite filter_app, (forallb_negb_filter _ _ _ C). simpl. rewrite B. reflexivity.
Qed.
End Walk.

(* ---------- more helpers ---------- *)
Lemma eq_item_id : forall L a b, NoDup (map e_item L) -> StronglySorted N.lt (map e_id L) -> In a L -> In b L ->
  N.eqb (e_item a) (e_item b) = N.eqb (e_id a) (e_id b).
Proof.
  intros L a b NI SI Ha Hb.
  destruct (N.eqb (e_item a) (e_item b)) eqn:E1; destruct (N.eqb (e_id a) (e_id b)) eqn:E2; try reflexivity.
  - apply N.eqb_eq in E1. apply N.eqb_neq in E2. elim E2. f_equal. eapply same_item; eassumption.
  - apply N.eqb_eq in E2. apply N.eqb_neq in E1. elim E1. f_equal. eapply sorted_same_id; eassumption.
Qed.

Lemma mem_corr : forall L (RC : list (entry * outcome)) e,
  NoDup (map e_item L) -> StronglySorted N.lt (map e_id L) -> In e L -> (forall c, In c RC -> In (fst c) L) ->
  memN (e_item e) (map (fun c => e_item (fst c)) RC) = memN (e_id e) (map (fun c => e_id (fst c)) RC).
Proof.
  intros L RC e NI SI He H. induction RC as [|c RC IH]; [reflexivity|]. simpl.
  rewrite (eq_item_id L e (fst c) NI SI He (H c (or_introl eq_refl))). f_equal.
  apply IH. intros x Hx. apply H. right. exact Hx.
Qed.

Lemma lookupN_In : forall k m v, lookupN k m = Some v -> In (k, v) m.
Proof.
  induction m as [|[k' v'] m IH]; intros v H; simpl in H; [discriminate|].
  destruct (N.eqb k k') eqn:E.
  - apply N.eqb_eq in E. inversion H; subst. left. reflexivity.
  - right. apply IH. exact H.
Qed.

Lemma strictly_incr_of_sorted : forall l, StronglySorted N.lt l -> strictly_incr l = true.
Proof.
  induction l as [|x l IH]; intro S; [reflexivity|]. inversion S as [|? ? Sl Hx]; subst. simpl.
  destruct l as [|y l']; [reflexivity|]. inversion Hx; subst.
  apply andb_true_iff. split; [apply N.ltb_lt; assumption | apply IH; exact Sl].
Qed.

Lemma nth_error_map_some : forall (A B : Type) (f : A -> B) l k b,
  nth_error (map f l) k = Some b -> exists a, nth_error l k = Some a /\ f a = b.
Proof.
  induction l as [|x l IH]; intros [|k] b H; simpl in *; try discriminate.
  - inversion H. exists x. auto.
  - apply IH. exact H.
Qed.

Lemma logged_sub_live : forall tr e, In e (live tr) -> In e (logged tr).
Proof. intros tr e H. apply in_live in H. tauto. Qed.

Lemma live_items_nodup : forall tr, NoDup (map e_item (logged tr)) -> NoDup (map e_item (live tr)).
Proof.
  intros tr H. unfold live. eapply subseq_nodup; [|exact H]. apply subseq_map. apply subseq_filter.
Qed.

(* no new logged / removed entries from results that are neither RLogged, RCommitted nor RRecovered *)
Lemma logged_snoc_other : forall tr o r, (forall id, r <> RLogged id) -> logged (tr ++ [(o, r)]) = logged tr.
Proof.
  intros tr o r H. rewrite logged_snoc. simpl. destruct o; simpl; try (rewrite app_nil_r; reflexivity).
  destruct r; simpl; try (rewrite app_nil_r; reflexivity). elim (H id). reflexivity.
Qed.

Lemma NoDup_app_snoc : forall (l : list N) x, NoDup l -> ~ In x l -> NoDup (l ++ [x]).
Proof.
  induction l as [|y l IH]; intros x H N; simpl; [constructor; [intros []|constructor]|].
  inversion H as [|? ? Ny Hl]; subst. constructor.
  - intro C. apply in_app_or in C. destruct C as [C|[C|[]]]; [contradiction|]. subst. apply N. left. reflexivity.
  - apply IH; [exact Hl|]. intro C. apply N. right. exact C.
Qed.

Definition tup (e : entry) : string * N * N * N := (l2s (event_key (e_id e)), e_id e, e_typ e, e_item e).

Lemma mem_string_In : forall x l, mem_string x l = true <-> In x l.
Proof.
  induction l as [|y t IH]; simpl; [split; [discriminate|tauto]|].
  rewrite orb_true_iff, IH, String.eqb_eq. split; intros [H|H]; auto.
Qed.
Lemma l2s_inj : forall a b, l2s a = l2s b -> a = b.
Proof. intros a b H. rewrite <- (s2l_l2s a), <- (s2l_l2s b), H. reflexivity. Qed.

Definition own_of (injl : list string) (snap0 : list (string * option (N * N * N))) :=
  filter (fun s : string * option (N * N * N) => negb (mem_string (fst s) injl)) snap0.

Lemma own_filter : forall injl L F kv, Merge (kv_of L) F kv ->
  (forall f, In f F -> mem_string (l2s (fst f)) injl = true) ->
  (forall e, In e L -> mem_string (l2s (event_key (e_id e))) injl = false) ->
  own_of injl (map sobs kv) = map sobs (kv_of L).
Proof.
  intros injl L F kv M. remember (kv_of L) as A. revert L HeqA.
  induction M as [|a A F kv M IH|f A F kv M IH]; intros L EA HF HL.
  - destruct L; [reflexivity | discriminate].
  - destruct L as [|e L']; [discriminate|]. simpl in EA. inversion EA; subst a A. clear EA.
    unfold own_of. cbn [map filter]. unfold sobs at 1. cbn [key_of fst snd].
    rewrite (HL e (or_introl eq_refl)). cbn [negb]. f_equal.
    apply (IH L' eq_refl HF). intros x Hx. apply HL. right. exact Hx.
  - unfold own_of. cbn [map filter]. unfold sobs at 1. cbn [fst].
    rewrite (HF f (or_introl eq_refl)). cbn [negb].
    apply (IH L EA); [intros x Hx; apply HF; right; exact Hx | exact HL].
Qed.

Lemma snap_of_own : forall L s, ids_ok L s -> s < two64N ->
  flat_map (fun s0 : string * option (N * N * N) =>
              match snd s0 with Some x => [(fst s0, fst (fst x), snd (fst x), snd x)] | None => [] end)
           (map sobs (kv_of L)) = map tup L.
Proof.
  intros L s [_ Rg] Hs. induction L as [|e L IH]; [reflexivity|]. inversion Rg as [|? ? [H1 H2] Rl]; subst.
  cbn [map kv_of flat_map]. unfold sobs at 1. cbn [key_of fst snd]. unfold id_of_key.
  rewrite key_roundtrip by (split; lia). cbn [List.app fst snd]. unfold tup at 1. f_equal. apply IH. exact Rl.
Qed.
Lemma own_all_some : forall L,
  forallb (fun s0 : string * option (N * N * N) => match snd s0 with Some _ => true | None => false end)
          (map sobs (kv_of L)) = true.
Proof. induction L as [|e L IH]; [reflexivity|]. cbn [map kv_of forallb]. unfold sobs at 1. cbn [key_of snd]. exact IH. Qed.

Lemma reopen_c1 : forall L,
  list_eqb2 (fun (a : N * N) (s : string * N * N * N) => N.eqb (fst a) (snd s) && N.eqb (snd a) (snd (fst s)))
            (map pi L) (map tup L) = true.
Proof. induction L as [|e L IH]; [reflexivity|]. simpl. rewrite !N.eqb_refl. exact IH. Qed.

Lemma known_sub : forall (idm : list (N * N)) Lg,
  (forall e x, In e Lg -> lookupN (e_item e) idm = Some x -> x = e_id e) ->
  flat_map (fun it : N * N => match lookupN (fst it) idm with Some id => [id] | None => [] end) (map pi Lg)
  = map e_id (filter (fun e => match lookupN (e_item e) idm with Some _ => true | None => false end) Lg).
Proof.
  induction Lg as [|e Lg IH]; intro H; [reflexivity|]. simpl.
  destruct (lookupN (e_item e) idm) as [x|] eqn:E; simpl.
  - rewrite (H e x (or_introl eq_refl) E). f_equal. apply IH. intros y z Hy. apply H. right. exact Hy.
  - apply IH. intros y z Hy. apply H. right. exact Hy.
Qed.

(* ---------- one step preserves the relation ---------- *)
Section Step.
Variable regs : list N.
Variable ops : list op.
Variable tr : trace.
Variable st : state.
Hypothesis Hrun : run (init regs) ops = (tr, st).
Hypothesis Hseq : seq st < two64N.
Hypothesis Hinert : Forall op_inert ops.
Hypothesis R : rel regs tr st.
Variable F : kvstore.
Hypothesis I : inv tr st F.

Lemma rel_unchanged : forall o r st', reg st' = reg st -> issued st' = issued st ->
  (forall id, r <> RLogged id) -> removed_ids [(o, r)] = [] -> injected [(o, r)] = [] ->
  spec_step (ospec regs tr) o (obs_of r) = ospec regs tr ->
  rel regs (tr ++ [(o, r)]) st'.
Proof.
  intros o r st' Hreg Hiss Hl Hr Hi Hs. destruct R as [Rg Rl Rr Rc Rgo Ri Rin Ris Rit].
  assert (EL : logged (tr ++ [(o, r)]) = logged tr) by (apply logged_snoc_other; exact Hl).
  assert (ER : removed_ids (tr ++ [(o, r)]) = removed_ids tr) by (rewrite removed_snoc, Hr, app_nil_r; reflexivity).
  assert (EI : injected (tr ++ [(o, r)]) = injected tr) by (rewrite injected_snoc, Hi, app_nil_r; reflexivity).
  constructor; rewrite ?ospec_snoc, ?Hs, ?EL, ?ER, ?EI, ?Hreg, ?Hiss; assumption.
Qed.

Lemma rel_log : forall t i e st' r, step st (Log t i e) = (st', r) -> seq st' < two64N ->
  ~ In i (log_items ops) -> rel regs (tr ++ [(Log t i e, r)]) st'.
Proof.
  intros t i e st' r Hs B Ni. simpl in Hs.
  destruct (negb (memN t (reg st))) eqn:Ereg.
  { inversion Hs; subst st' r. apply rel_unchanged; try reflexivity. intros id C; discriminate. }
  destruct (negb e) eqn:Eenc.
  { inversion Hs; subst st' r. apply rel_unchanged; try reflexivity. intros id C; discriminate. }
  inversion Hs; subst st' r. clear Hs. destruct R as [Rg Rl Rr Rc Rgo Ri Rin Ris Rit].
  set (id := seq st + 1) in *. set (en := mkEntry id t i).
  assert (EL : logged (tr ++ [(Log t i e, RLogged id)]) = logged tr ++ [en]) by (rewrite logged_snoc; reflexivity).
  assert (ER : removed_ids (tr ++ [(Log t i e, RLogged id)]) = removed_ids tr)
    by (rewrite removed_snoc; simpl; rewrite app_nil_r; reflexivity).
  assert (Nit : ~ In i (map e_item (logged tr))).
  { intro C. apply Ni. apply in_map_iff in C. destruct C as [x [<- Hx]].
    eapply logged_items_sub; eassumption. }
  assert (ES : spec_step (ospec regs tr) (Log t i e) (ObsLog 0)
               = mkSpec (lg (ospec regs tr) ++ [(i, t)]) (gone (ospec regs tr)) (rg (ospec regs tr)) (ids (ospec regs tr)) (inj (ospec regs tr)) (good (ospec regs tr))).
  { simpl. rewrite Rl, map_map. simpl.
    replace (memN i (map (fun x => e_item x) (logged tr))) with false; [reflexivity|].
    symmetry. apply memN_false_notin. exact Nit. }
  assert (EI : injected (tr ++ [(Log t i e, RLogged id)]) = injected tr)
    by (rewrite injected_snoc; simpl; rewrite app_nil_r; reflexivity).
  constructor; rewrite ?ospec_snoc; simpl obs_of; rewrite ?ES, ?EL, ?ER, ?EI; cbn [lg gone rg ids inj good reg issued].
  - exact Rg.
  - rewrite Rl, map_app. reflexivity.
  - exact Rr.
  - intros x Hx. apply in_app_or in Hx. destruct Hx as [Hx|[<-|[]]]; [apply Rc; exact Hx|].
    cbn [e_item e_id en].
    replace (memN i (gone (ospec regs tr))) with false.
    + symmetry. apply memN_false_notin. intro C.
      pose proof (i_removed _ _ _ I) as Irem. rewrite Forall_forall in Irem. specialize (Irem _ C). unfold id in Irem. lia.
    + symmetry. apply memN_false_notin. intro C. apply Nit. apply Rgo. exact C.
  - intros x Hx. rewrite map_app. apply in_or_app. left. apply Rgo. exact Hx.
  - intros it idx Hx. destruct (Ri it idx Hx) as [x [X1 X2]]. exists x. split; [apply in_or_app; left; exact X1 | exact X2].
  - exact Rin.
  - rewrite !map_app, Ris. reflexivity.
  - rewrite map_app. simpl. apply NoDup_app_snoc; assumption.
Qed.

Lemma rel_commit : forall k st' r, step st (Commit k) = (st', r) -> rel regs (tr ++ [(Commit k, r)]) st'.
Proof.
  intros k st' r Hs. simpl in Hs.
  destruct (nth_error (issued st) k) as [[id g]|] eqn:En.
  2:{ inversion Hs; subst st' r. apply rel_unchanged; try reflexivity. intros id C; discriminate. }
  destruct (N.eqb g (gen st)).
  2:{ inversion Hs; subst st' r. apply rel_unchanged; try reflexivity. intros id0 C; discriminate. }
  inversion Hs; subst st' r. clear Hs. destruct R as [Rg Rl Rr Rc Rgo Ri Rin Ris Rit].
  assert (En2 : nth_error (map e_id (logged tr)) k = Some id).
  { rewrite <- Ris. rewrite (map_nth_error fst k (issued st) En). reflexivity. }
  apply nth_error_map_some in En2. destruct En2 as [en [En2 Eid]].
  assert (Hen : In en (logged tr)) by (eapply nth_error_In; exact En2).
  assert (EL : logged (tr ++ [(Commit k, RCommitted id)]) = logged tr) by (apply logged_snoc_other; intros x C; discriminate).
  assert (ER : removed_ids (tr ++ [(Commit k, RCommitted id)]) = removed_ids tr ++ [id]) by (rewrite removed_snoc; reflexivity).
  assert (ES : spec_step (ospec regs tr) (Commit k) (ObsCommit true)
               = mkSpec (lg (ospec regs tr)) (e_item en :: gone (ospec regs tr)) (rg (ospec regs tr)) (ids (ospec regs tr)) (inj (ospec regs tr)) (good (ospec regs tr))).
  { simpl. rewrite Rl. rewrite (map_nth_error pi k (logged tr) En2). reflexivity. }
  assert (EI : injected (tr ++ [(Commit k, RCommitted id)]) = injected tr)
    by (rewrite injected_snoc; simpl; rewrite app_nil_r; reflexivity).
  constructor; rewrite ?ospec_snoc; simpl obs_of; rewrite ?ES, ?EL, ?ER, ?EI; cbn [lg gone rg ids inj good reg issued]; try assumption.
  - intros x Hx. simpl. rewrite memN_app. simpl. rewrite orb_false_r. rewrite (Rc x Hx).
    rewrite (eq_item_id (logged tr) x en Rit (i_sorted _ _ _ I) Hx Hen). rewrite Eid. apply orb_comm.
  - intros i [<-|Hi]; [apply in_map; exact Hen | apply Rgo; exact Hi].
Qed.

Hypothesis Hlen : forall k, In k (injected tr) -> List.length k <> 24%nat.

Lemma rel_reopen : forall b rs st' r, step st (Reopen b rs) = (st', r) -> rel regs (tr ++ [(Reopen b rs, r)]) st'.
Proof.
  intros b rs st' r Hs. simpl in Hs. inversion Hs; subst st' r. clear Hs.
  destruct R as [Rg Rl Rr Rc Rgo Ri Rin Ris Rit].
  pose proof (inv_live_ok _ _ _ I) as OK.
  destruct (i_kv _ _ _ I) as [Mg Sk Fi].
  assert (EL : logged (tr ++ [(Reopen b rs, RReopened (kv st))]) = logged tr) by (apply logged_snoc_other; intros x C; discriminate).
  assert (ER : removed_ids (tr ++ [(Reopen b rs, RReopened (kv st))]) = removed_ids tr)
    by (rewrite removed_snoc; simpl; rewrite app_nil_r; reflexivity).
  assert (EI : injected (tr ++ [(Reopen b rs, RReopened (kv st))]) = injected tr)
    by (rewrite injected_snoc; simpl; rewrite app_nil_r; reflexivity).
  set (sp := ospec regs tr) in *.
  set (idm := map (fun e => (e_item e, e_id e)) (live tr) ++ ids sp).
  assert (Hidm : forall it x, In (it, x) idm -> exists e, In e (logged tr) /\ e_item e = it /\ e_id e = x).
  { intros it x Hx. unfold idm in Hx. apply in_app_or in Hx. destruct Hx as [Hx|Hx]; [|apply Ri; exact Hx].
    apply in_map_iff in Hx. destruct Hx as [e [E He]]. inversion E; subst. exists e. split; [apply logged_sub_live; exact He | auto]. }
  assert (Hlook : forall (m : list (N * N)), (forall it x, In (it, x) m -> exists e, In e (logged tr) /\ e_item e = it /\ e_id e = x) ->
                  forall e x, In e (logged tr) -> lookupN (e_item e) m = Some x -> x = e_id e).
  { intros m Hm e x He Hl. apply lookupN_In in Hl. destruct (Hm _ _ Hl) as [e2 [H2 [E1 E2]]].
    assert (e2 = e) by (eapply same_item; eassumption). subst. reflexivity. }
  assert (Eown : own_of (inj sp) (map sobs (kv st)) = map sobs (kv_of (live tr))).
  { apply (own_filter (inj sp) (live tr) F (kv st) Mg).
    - intros f Hf. apply mem_string_In. apply Rin. apply in_map. apply (i_fkeys _ _ _ I). exact Hf.
    - intros e He. destruct (mem_string (l2s (event_key (e_id e))) (inj sp)) eqn:E; [|reflexivity].
      apply mem_string_In, Rin, in_map_iff in E. destruct E as [k [E Hk]]. apply l2s_inj in E. subst k.
      elim (Hlen _ Hk). apply event_key_length. }
  assert (ES : spec_step sp (Reopen b rs) (obs_of (RReopened (kv st)))
               = mkSpec (lg sp) (gone sp) rs idm (inj sp) true).
  { cbn [obs_of spec_step]. fold (own_of (inj sp) (map sobs (kv st))). rewrite Eown.
    rewrite (snap_of_own _ _ OK Hseq), own_all_some.
    assert (C0 : forallb (fun k : string => mem_string k (map fst (map sobs (kv st)))) (inj sp) = true).
    { apply forallb_forall. intros k Hk. apply mem_string_In. apply Rin, in_map_iff in Hk. destruct Hk as [k0 [<- Hk0]].
      destruct (i_fkept _ _ _ I k0 Hk0) as [ov Hov]. rewrite map_map.
      apply in_map_iff. exists (k0, ov). split; [reflexivity | eapply merge_in_r; eassumption]. }
    rewrite C0.
    assert (Elive : filter (fun it : N * N => negb (memN (fst it) (gone sp))) (lg sp) = map pi (live tr)).
    { rewrite Rl. apply live_pi. exact Rc. }
    rewrite Elive, reopen_c1.
    assert (Eids : map (fun s : string * N * N * N => let '(_, id, _, item) := s in (item, id)) (map tup (live tr)) ++ ids sp = idm).
    { unfold idm. rewrite map_map. reflexivity. }
    rewrite Eids. cbn [lg gone rg ids inj good]. rewrite Rg. cbn [andb].
    assert (C2 : forallb (fun s : string * N * N * N => let '(_, id, _, item) := s in
                            match lookupN item (ids sp) with Some id' => N.eqb id id' | None => true end) (map tup (live tr)) = true).
    { rewrite forallb_map. apply forallb_forall. intros e He. unfold tup.
      destruct (lookupN (e_item e) (ids sp)) as [x|] eqn:E; [|reflexivity].
      rewrite (Hlook (ids sp) Ri e x (logged_sub_live _ _ He) E). apply N.eqb_refl. }
    rewrite C2. cbn [andb].
    assert (C3 : strictly_incr (known_ids (mkSpec (lg sp) (gone sp) rs idm (inj sp) true)) = true).
    { unfold known_ids. cbn [lg ids]. rewrite Rl. rewrite known_sub.
      - apply strictly_incr_of_sorted. apply sorted_filter. exact (i_sorted _ _ _ I).
      - intros e x He Hl. eapply Hlook; eassumption. }
    rewrite C3. cbn [andb].
    assert (C4 : forallb (fun s : string * N * N * N => N.leb 1 (snd (fst (fst s)))) (map tup (live tr)) = true).
    { rewrite forallb_map. apply forallb_forall. intros e He. unfold tup. cbn [fst snd].
      destruct OK as [_ Rng]. rewrite Forall_forall in Rng. apply N.leb_le. apply (Rng e He). }
    rewrite C4. reflexivity. }
  unfold sp in ES.
  constructor; rewrite ?ospec_snoc, ?ES, ?EL, ?ER, ?EI; cbn [lg gone rg ids inj good reg issued]; try assumption; try reflexivity.
Qed.

Lemma rel_inject : forall k v st' r, step st (Inject k v) = (st', r) -> rel regs (tr ++ [(Inject k v, r)]) st'.
Proof.
  intros k v st' r Hs. simpl in Hs. inversion Hs; subst st' r. clear Hs.
  destruct R as [Rg Rl Rr Rc Rgo Ri Rin Ris Rit].
  assert (EL : logged (tr ++ [(Inject k v, RInjected)]) = logged tr) by (apply logged_snoc_other; intros x C; discriminate).
  assert (ER : removed_ids (tr ++ [(Inject k v, RInjected)]) = removed_ids tr)
    by (rewrite removed_snoc; simpl; rewrite app_nil_r; reflexivity).
  assert (EI : injected (tr ++ [(Inject k v, RInjected)]) = injected tr ++ [k]) by (rewrite injected_snoc; reflexivity).
  constructor; rewrite ?ospec_snoc; cbn [obs_of spec_step]; rewrite ?EL, ?ER, ?EI; cbn [lg gone rg ids inj good reg issued];
    try assumption.
  intro x. rewrite map_app, in_app_iff. cbn [map In]. rewrite <- Rin. tauto.
Qed.

Lemma rel_recover : forall oc st' r, step st (Recover oc) = (st', r) -> rel regs (tr ++ [(Recover oc, r)]) st'.
Proof.
  intros oc st' r Hs. destruct (recover_step regs ops tr st oc Hrun Hseq Hinert) as [st2 [E2 [_ [Er2 [_ [Ei2 _]]]]]].
  rewrite E2 in Hs. inversion Hs; subst st' r. clear Hs E2.
  destruct R as [Rg Rl Rr Rc Rgo Ri Rin Ris Rit].
  set (calls := expected_calls (reg st) oc (live tr)).
  set (f := fun c : entry * outcome => (e_typ (fst c), e_item (fst c), stages (snd c))).
  set (RC := filter (fun c : entry * outcome => removes (snd c)) calls).
  set (rm := map (fun c : entry * outcome => e_item (fst c)) RC).
  assert (Hc_live : forall c, In c calls -> In (fst c) (live tr)) by (intros c Hc; eapply expected_calls_sub; exact Hc).
  assert (Hc_out : forall c, In c calls -> snd c = lookup_oc (e_item (fst c)) oc)
    by (intros c Hc; apply (expected_calls_outcome _ _ _ _ Hc)).
  assert (EL : logged (tr ++ [(Recover oc, RRecovered calls)]) = logged tr) by (apply logged_snoc_other; intros x C; discriminate).
  assert (ER : removed_ids (tr ++ [(Recover oc, RRecovered calls)]) = removed_ids tr ++ removed_by calls)
    by (rewrite removed_snoc; simpl; rewrite app_nil_r; reflexivity).
  assert (EI : injected (tr ++ [(Recover oc, RRecovered calls)]) = injected tr)
    by (rewrite injected_snoc; simpl; rewrite app_nil_r; reflexivity).
  assert (ES : spec_step (ospec regs tr) (Recover oc) (obs_of (RRecovered calls))
               = mkSpec (lg (ospec regs tr)) (rm ++ gone (ospec regs tr)) (rg (ospec regs tr)) (ids (ospec regs tr)) (inj (ospec regs tr)) true).
  { cbn [obs_of spec_step]. fold f.
    set (sp := ospec regs tr) in *.
    assert (Eexp : filter (fun it : N * N => negb (memN (fst it) (gone sp)) && memN (snd it) (rg sp)) (lg sp)
                   = map pi (filter (registered (reg st)) (live tr))).
    { rewrite Rl, Rr. apply live_reg_pi. exact Rc. }
    rewrite Eexp.
    assert (Ecalled : map (fun c : N * N * N => snd (fst c)) (map f calls) = map (fun c => e_item (fst c)) calls)
      by (rewrite map_map; reflexivity).
    rewrite Ecalled.
    assert (C1 : is_prefix (map (fun c => e_item (fst c)) calls) (map fst (map pi (filter (registered (reg st)) (live tr))))
                 && nodupN (map (fun c => e_item (fst c)) calls) = true).
    { apply andb_true_iff. split.
      - rewrite map_map. apply (calls_prefix (reg st) oc (live tr)).
      - apply nodupN_of_NoDup. rewrite <- (map_map fst e_item).
        eapply subseq_nodup; [apply subseq_map; apply expected_calls_subseq | apply live_items_nodup; exact Rit]. }
    rewrite C1.
    assert (C2 : (if existsb (fun c : N * N * N => crashes (lookup_oc (snd (fst c)) oc)) (map f calls)
                  then match rev (map f calls) with
                       | c :: _ => crashes (lookup_oc (snd (fst c)) oc)
                                   && Nat.eqb (List.length (filter (fun c : N * N * N => crashes (lookup_oc (snd (fst c)) oc)) (map f calls))) 1
                       | [] => false
                       end
                  else Nat.eqb (List.length (map (fun c => e_item (fst c)) calls))
                               (List.length (map pi (filter (registered (reg st)) (live tr))))) = true).
    { rewrite existsb_map, <- map_rev, filter_map_comm, !map_length.
      pose proof (calls_c2 (reg st) oc (live tr)) as K. cbv zeta in K. fold calls in K.
      unfold gcr in K. cbn [f fst snd].
      destruct (existsb (fun c : entry * outcome => crashes (lookup_oc (e_item (fst c)) oc)) calls).
      - destruct (rev calls) as [|c rc]; [exact K|]. cbn [map f fst snd]. exact K.
      - exact K. }
    rewrite C2.
    assert (C3 : forallb (fun c : N * N * N => let '(t, i, st0) := c in
                   N.eqb st0 (stages (lookup_oc i oc)) && match lookupN i (lg sp) with Some t' => N.eqb t t' | None => false end)
                 (map f calls) = true).
    { rewrite forallb_map. apply forallb_forall. intros c Hc. cbn [f].
      rewrite <- (Hc_out c Hc), N.eqb_refl. cbn [andb].
      rewrite Rl, (lookupN_pi (logged tr) (fst c) Rit (logged_sub_live _ _ (Hc_live c Hc))). apply N.eqb_refl. }
    rewrite C3.
    assert (Erm : map (fun c : N * N * N => snd (fst c)) (filter (fun c : N * N * N => removes (lookup_oc (snd (fst c)) oc)) (map f calls)) = rm).
    { rewrite filter_map_comm, map_map. unfold rm, RC. cbn [f fst snd]. f_equal.
      apply filter_ext_in. intros c Hc. rewrite <- (Hc_out c Hc). reflexivity. }
    rewrite Erm, Rg. reflexivity. }
  constructor; rewrite ?ospec_snoc, ?ES, ?EL, ?ER, ?EI, ?Er2, ?Ei2; cbn [lg gone rg ids inj good reg issued]; try assumption; try reflexivity.
  - intros x Hx. rewrite !memN_app, (Rc x Hx). rewrite orb_comm. f_equal.
    unfold rm, removed_by. fold RC.
    apply (mem_corr (logged tr) RC x Rit (i_sorted _ _ _ I) Hx).
    intros c Hc. unfold RC in Hc. apply filter_In in Hc. apply logged_sub_live, Hc_live, Hc.
  - intros i Hi. apply in_app_or in Hi. destruct Hi as [Hi|Hi]; [|apply Rgo; exact Hi].
    unfold rm in Hi. apply in_map_iff in Hi. destruct Hi as [c [<- Hc]]. unfold RC in Hc. apply filter_In in Hc.
    apply in_map. apply logged_sub_live, Hc_live, Hc.
Qed.
End Step.

Lemma rel_init : forall regs, rel regs [] (init regs).
Proof.
  intro regs. constructor.
  - reflexivity.
  - reflexivity.
  - reflexivity.
  - intros e H. destruct H.
  - intros i H. destruct H.
  - intros it id H. destruct H.
  - intro k. simpl. tauto.
  - reflexivity.
  - constructor.
Qed.

Lemma NoDup_app_l : forall (a b : list N), NoDup (a ++ b) -> NoDup a.
Proof.
  induction a as [|x a IH]; intros b H; [constructor|]. simpl in H. inversion H as [|? ? Nx Hl]; subst.
  constructor; [intro C; apply Nx; apply in_or_app; left; exact C | eapply IH; exact Hl].
Qed.
Lemma NoDup_snoc_notin : forall (a : list N) x, NoDup (a ++ [x]) -> ~ In x a.
Proof.
  induction a as [|y a IH]; intros x H; [intros []|]. simpl in H. inversion H as [|? ? Ny Hl]; subst.
  intros [C|C]; [subst; apply Ny; apply in_or_app; right; left; reflexivity | eapply IH; eassumption].
Qed.

Lemma injected_len : forall regs ops tr st, run (init regs) ops = (tr, st) -> Forall op_inert ops ->
  forall k, In k (injected tr) -> List.length k <> 24%nat.
Proof.
  intros regs ops tr st H HI k Hk. unfold injected in Hk. apply in_flat_map in Hk. destruct Hk as [[o r] [Hx Hin]].
  cbn [fst] in Hin. destruct o; try contradiction. destruct Hin as [<-|[]].
  rewrite Forall_forall in HI. assert (Ho : In (Inject key val) ops).
  { rewrite <- (run_fst _ _ _ _ H). apply (in_map fst _ _ Hx). }
  specialize (HI _ Ho). simpl in HI. apply HI.
Qed.

Lemma run_rel : forall regs ops tr st,
  run (init regs) ops = (tr, st) -> seq st < two64N -> Forall op_inert ops -> NoDup (log_items ops) -> rel regs tr st.
Proof.
  intros regs ops. induction ops as [|o ops IH] using rev_ind; intros tr st H B HI ND.
  - simpl in H. inversion H; subst. apply rel_init.
  - rewrite run_app in H. destruct (run (init regs) ops) as [tr1 st1] eqn:R1.
    simpl in H. destruct (step st1 o) as [st2 r] eqn:E. inversion H; subst tr st. clear H.
    assert (B1 : seq st1 < two64N) by (pose proof (seq_mono _ _ _ _ E); lia).
    unfold log_items in ND. rewrite flat_map_app in ND. fold (log_items ops) in ND.
    assert (ND1 : NoDup (log_items ops)) by (eapply NoDup_app_l; exact ND).
    assert (HI1 : Forall op_inert ops) by (apply Forall_app in HI; tauto).
    specialize (IH tr1 st1 eq_refl B1 HI1 ND1).
    destruct (run_inv regs ops tr1 st1 R1 B1 HI1) as [F I].
    pose proof (injected_len regs ops tr1 st1 R1 HI1) as Hlen.
    destruct o as [t i e|k|b rs|oc|ik iv].
    + simpl in ND. apply NoDup_snoc_notin in ND. eapply rel_log; eassumption.
    + eapply rel_commit; eassumption.
    + eapply rel_reopen; eassumption.
    + eapply rel_recover; eassumption.
    + eapply rel_inject; eassumption.
Qed.

(* the boolean check accepts what the model does, for every history with distinct event items
   and inert foreign writes *)
Lemma ok_sound : forall regs ops tr st,
  run (init regs) ops = (tr, st) -> seq st < two64N -> Forall op_inert ops -> NoDup (log_items ops) ->
  ok (mkCase regs ops (obs_trace tr)) = true.
Proof.
  intros regs ops tr st H B HI ND. pose proof (run_rel regs ops tr st H B HI ND) as R.
  unfold ok. cbn [c_regs c_ops c_obs]. rewrite <- (run_fst _ _ _ _ H) at 1. exact (r_good _ _ _ R).
Qed.
