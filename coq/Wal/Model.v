(* C16 — model of the recovery log (wal/hydro.go, wal/event.go, wal/kv/lithium.go).

   State of a Hydro on a bbolt file:
     seq     the bucket sequence (bbolt persists it in the bucket header; NextSequence
             is its own committed update transaction)
     kv      the root bucket: key bytes -> (type, item), kept in key order (bbolt is a
             B+tree; Scan walks a cursor from Seek(prefix) in byte order)
     reg     event types with a registered handler (the haxmap of this Hydro instance)
     gen     which Hydro instance is open (a Commit closure captured the store of the
             instance that logged it; after Close that store answers "database not open")
     issued  (id, gen) of every successful Log, in call order (what the Commit closures hold)

   Event types and items are abstracted to numbers (the harness uses types "t<k>"
   and encodes the item as a unique token).  The JSON value codec is abstracted
   to the pair (type, item); the KEY codec is modelled byte for byte:
     Key()              = filepath.Join("/events/", fmt.Sprintf("%016x", ID))
     parseHydroEventID  = ParseUint(TrimLeft(TrimPrefix(key, "/events/"), "0"), 16, 64)
   and the order in which Recover sees events is the byte order of the keys.

   Operations:
     Log typ item enc_ok      Hydro.Log (enc_ok = false: the handler's Encode fails)
     Commit k                 calling the Commit returned by the k-th successful Log
     Reopen burn regs         Close; [burn] times: a Log that crashed between NextSequence
                              and Put (sequence consumed, nothing stored); NewHydro on the
                              same file; Register handlers for [regs]
     Recover oc               Hydro.Recover with handlers scripted per item by [oc]
                              (OCrash: Handle panics = the process dies there)
     Inject key val           a foreign writer puts key -> val into the bucket while the Hydro is closed
                              (Close; Lithium.Put; NewHydro with the same handlers).  val = None: a value that
                              does not decode as an event (json.Unmarshal fails).  Recover skips entries whose
                              value does not decode or whose key does not parse (decodeEvent error: logged,
                              `continue`) and never deletes them.
   No proofs in this file. *)
From Coq Require Import List Bool Arith NArith String Ascii.
From Verif Require Import Base.GoStr.
Import ListNotations.
Open Scope list_scope.

Inductive outcome := OOk | OHandleErr | ONotNeeded | OCheckErr | ODecodeErr | OCrash.

Definition outcome_eqb (a b : outcome) : bool :=
  match a, b with
  | OOk, OOk | OHandleErr, OHandleErr | ONotNeeded, ONotNeeded
  | OCheckErr, OCheckErr | ODecodeErr, ODecodeErr | OCrash, OCrash => true
  | _, _ => false
  end.

(* recover(): the key is deleted after Handle succeeded or Check said "not needed" *)
Definition removes (o : outcome) : bool :=
  match o with OOk | ONotNeeded => true | _ => false end.
Definition crashes (o : outcome) : bool := match o with OCrash => true | _ => false end.
(* handler methods reached: 1 = Decode, 2 = +Check, 3 = +Handle *)
Definition stages (o : outcome) : N :=
  match o with
  | ODecodeErr => 1
  | OCheckErr | ONotNeeded => 2
  | OOk | OHandleErr | OCrash => 3
  end%N.

Record entry := mkEntry { e_id : N; e_typ : N; e_item : N }.

(* ---- key codec ---- *)
Definition event_prefix : bytes := s2l "/events/".
Definition event_key (id : N) : bytes := join_path [event_prefix; hex16 id].
Definition parse_event_id (key : bytes) : option N :=
  parse_hex64 (trim_left (s2l "0") (trim_prefix event_prefix key)).

(* ---- the bucket ---- *)
(* value: Some (type, item) = a HydroEvent JSON; None = bytes that do not decode *)
Definition kvstore := list (bytes * option (N * N)).

Fixpoint kv_put (k : bytes) (v : option (N * N)) (s : kvstore) : kvstore :=
  match s with
  | [] => [(k, v)]
  | (k', v') :: t =>
      if bytes_ltb k k' then (k, v) :: s
      else if bytes_eqb k k' then (k, v) :: t
      else (k', v') :: kv_put k v t
  end.
Fixpoint kv_delete (k : bytes) (s : kvstore) : kvstore :=
  match s with
  | [] => []
  | (k', v') :: t => if bytes_eqb k k' then t else (k', v') :: kv_delete k t
  end.
(* Scan(prefix): Seek(prefix), then while HasPrefix *)
Fixpoint kv_seek (p : bytes) (s : kvstore) : kvstore :=
  match s with
  | [] => []
  | (k, v) :: t => if bytes_ltb k p then kv_seek p t else s
  end.
Fixpoint take_prefixed (p : bytes) (s : kvstore) : kvstore :=
  match s with
  | [] => []
  | (k, v) :: t => if has_prefix p k then (k, v) :: take_prefixed p t else []
  end.
Definition kv_scan (p : bytes) (s : kvstore) : kvstore := take_prefixed p (kv_seek p s).

Record state := mkState {
  seq : N; kv : kvstore; reg : list N; gen : N; issued : list (N * N) }.

Definition init (regs : list N) : state := mkState 0 [] regs 0 [].

Inductive op :=
| Log (typ item : N) (enc_ok : bool)
| Commit (k : nat)
| Reopen (burn : N) (regs : list N)
| Recover (oc : list (N * outcome))
| Inject (key : bytes) (val : option (N * N)).

Inductive result :=
| RLogged (id : N) | RLogUnknownType | RLogEncodeErr
| RCommitted (id : N) | RCommitStale | RCommitNone
| RReopened (snapshot : kvstore)
| RRecovered (calls : list (entry * outcome))
| RInjected.

Fixpoint memN (x : N) (l : list N) : bool :=
  match l with [] => false | y :: t => N.eqb x y || memN x t end.

Fixpoint lookup_oc (item : N) (oc : list (N * outcome)) : outcome :=
  match oc with
  | [] => OOk
  | (i, o) :: t => if N.eqb item i then o else lookup_oc item t
  end.

(* Recover, first loop (decodeEvent): json.Unmarshal(value) then parseHydroEventID(key);
   an entry failing either is logged and skipped *)
Definition decode_events (s : kvstore) : list entry :=
  flat_map (fun kv => match snd kv with
                      | None => []
                      | Some ti => match parse_event_id (fst kv) with
                                   | Some id => [mkEntry id (fst ti) (snd ti)]
                                   | None => []
                                   end
                      end) s.

(* Recover, second loop *)
Fixpoint replay (regs : list N) (oc : list (N * outcome)) (events : list entry) (s : kvstore)
  : kvstore * list (entry * outcome) :=
  match events with
  | [] => (s, [])
  | e :: rest =>
      if negb (memN (e_typ e) regs) then replay regs oc rest s        (* no such handler: skipped *)
      else
        let o := lookup_oc (e_item e) oc in
        let s' := if removes o then kv_delete (event_key (e_id e)) s else s in
        if crashes o then (s', [(e, o)])
        else let '(s'', calls) := replay regs oc rest s' in (s'', (e, o) :: calls)
  end.

Definition step (st : state) (o : op) : state * result :=
  match o with
  | Log typ item enc_ok =>
      if negb (memN typ (reg st)) then (st, RLogUnknownType)
      else if negb enc_ok then (st, RLogEncodeErr)
      else
        let id := (seq st + 1)%N in
        (mkState id (kv_put (event_key id) (Some (typ, item)) (kv st)) (reg st) (gen st)
                 (issued st ++ [(id, gen st)]),
         RLogged id)
  | Commit k =>
      match nth_error (issued st) k with
      | None => (st, RCommitNone)
      | Some (id, g) =>
          if N.eqb g (gen st)
          then (mkState (seq st) (kv_delete (event_key id) (kv st)) (reg st) (gen st) (issued st),
                RCommitted id)
          else (st, RCommitStale)
      end
  | Reopen burn regs =>
      (mkState (seq st + burn)%N (kv st) regs (gen st + 1)%N (issued st), RReopened (kv st))
  | Recover oc =>
      let events := decode_events (kv_scan event_prefix (kv st)) in
      let '(s', calls) := replay (reg st) oc events (kv st) in
      (mkState (seq st) s' (reg st) (gen st) (issued st), RRecovered calls)
  | Inject key val =>
      (mkState (seq st) (kv_put key val (kv st)) (reg st) (gen st + 1)%N (issued st), RInjected)
  end.

Fixpoint run (st : state) (ops : list op) : list (op * result) * state :=
  match ops with
  | [] => ([], st)
  | o :: rest =>
      let '(st', r) := step st o in
      let '(tr, fin) := run st' rest in
      ((o, r) :: tr, fin)
  end.

(* ================= correspondence cases ================= *)
(* what the harness observes per operation *)
Inductive obs :=
| ObsLog (kind : N)                                   (* 0 = ok, 1 = unknown type, 2 = encode error *)
| ObsCommit (ok : bool)                                (* Commit returned nil *)
| ObsReopen (snapshot : list (string * option (N * N * N)))  (* key, and (ID field of the JSON value, type, item) when
                                                                the value decodes; cursor order *)
| ObsRecover (calls : list (N * N * N))                (* type, item, handler methods reached; call order *)
| ObsInject.

Record case := mkCase { c_regs : list N; c_ops : list op; c_obs : list obs }.

Definition triple_eqb (a b : N * N * N) : bool :=
  let '(a1, a2, a3) := a in let '(b1, b2, b3) := b in N.eqb a1 b1 && N.eqb a2 b2 && N.eqb a3 b3.

Fixpoint list_eqb {A} (eqb : A -> A -> bool) (l1 l2 : list A) : bool :=
  match l1, l2 with
  | [], [] => true
  | x :: t1, y :: t2 => eqb x y && list_eqb eqb t1 t2
  | _, _ => false
  end.

Definition snap_eqb (m : bytes * option (N * N)) (o : string * option (N * N * N)) : bool :=
  bytes_eqb (fst m) (s2l (fst o)) &&
  match snd m, snd o with
  | None, None => true
  | Some (t, i), Some (oid, ot, oi) =>
      N.eqb t ot && N.eqb i oi
      (* the ID field of the value Log wrote is the id of its (canonical) key *)
      && match parse_event_id (fst m) with
         | Some id => if bytes_eqb (fst m) (event_key id) then N.eqb id oid else true
         | None => true
         end
  | _, _ => false
  end.

Fixpoint snaps_eqb (m : kvstore) (o : list (string * option (N * N * N))) : bool :=
  match m, o with
  | [], [] => true
  | a :: m', b :: o' => snap_eqb a b && snaps_eqb m' o'
  | _, _ => false
  end.

Definition res_agrees (r : result) (o : obs) : bool :=
  match r, o with
  | RLogged _, ObsLog k => N.eqb k 0
  | RLogUnknownType, ObsLog k => N.eqb k 1
  | RLogEncodeErr, ObsLog k => N.eqb k 2
  | RCommitted _, ObsCommit b => b
  | RCommitStale, ObsCommit b => negb b
  | RReopened snap, ObsReopen osnap => snaps_eqb snap osnap
  | RInjected, ObsInject => true
  | RRecovered calls, ObsRecover ocalls =>
      list_eqb triple_eqb (map (fun c => (e_typ (fst c), e_item (fst c), stages (snd c))) calls) ocalls
  | _, _ => false
  end.

Fixpoint all_agree (tr : list (op * result)) (os : list obs) : bool :=
  match tr, os with
  | [], [] => true
  | (_, r) :: tr', o :: os' => res_agrees r o && all_agree tr' os'
  | _, _ => false
  end.

Definition agree (c : case) : bool :=
  all_agree (fst (run (init (c_regs c)) (c_ops c))) (c_obs c).

(* ================= boolean reflection of the property =================
   Evaluated on the operations and on what the IMPLEMENTATION did only; it does not
   use seq / kv / keys.  Spec state:
     lg    (item, type) of every successful Log, in logging order
     gone  items whose Commit ran (returned nil) or that a recovery removed
     rg    registered types
     ids   (item, id) pairs seen in snapshots so far
     inj   keys written by the foreign writer *)
Record spec := mkSpec { lg : list (N * N); gone : list N; rg : list N; ids : list (N * N); inj : list string; good : bool }.

Fixpoint lookupN (k : N) (m : list (N * N)) : option N :=
  match m with [] => None | (k', v) :: t => if N.eqb k k' then Some v else lookupN k t end.

Fixpoint list_eqb2 {A B} (eqb : A -> B -> bool) (l1 : list A) (l2 : list B) : bool :=
  match l1, l2 with
  | [], [] => true
  | x :: t1, y :: t2 => eqb x y && list_eqb2 eqb t1 t2
  | _, _ => false
  end.

Fixpoint strictly_incr (l : list N) : bool :=
  match l with
  | [] => true
  | x :: t => match t with [] => true | y :: _ => N.ltb x y && strictly_incr t end
  end.

Fixpoint nodupN (l : list N) : bool :=
  match l with [] => true | x :: t => negb (memN x t) && nodupN t end.

Fixpoint is_prefix (a b : list N) : bool :=
  match a, b with
  | [], _ => true
  | x :: a', y :: b' => N.eqb x y && is_prefix a' b'
  | _ :: _, [] => false
  end.

Definition known_ids (sp : spec) : list N :=
  flat_map (fun it => match lookupN (fst it) (ids sp) with Some id => [id] | None => [] end) (lg sp).

Definition fail (sp : spec) : spec := mkSpec (lg sp) (gone sp) (rg sp) (ids sp) (inj sp) false.

Fixpoint mem_string (x : string) (l : list string) : bool :=
  match l with [] => false | y :: t => String.eqb x y || mem_string x t end.

Definition spec_step (sp : spec) (o : op) (b : obs) : spec :=
  match o, b with
  | Log typ item _, ObsLog k =>
      if N.eqb k 0
      then (* tokens are unique: the harness never logs the same item twice *)
           if memN item (map fst (lg sp)) then fail sp
           else mkSpec (lg sp ++ [(item, typ)]) (gone sp) (rg sp) (ids sp) (inj sp) (good sp)
      else sp
  | Commit k, ObsCommit okb =>
      if okb then
        match nth_error (lg sp) k with
        | Some (item, _) => mkSpec (lg sp) (item :: gone sp) (rg sp) (ids sp) (inj sp) (good sp)
        | None => fail sp
        end
      else sp
  | Reopen _ regs, ObsReopen snap0 =>
      (* foreign entries: every key the foreign writer put is still there (nothing ever deletes it) ... *)
      let c0 := forallb (fun k => mem_string k (map fst snap0)) (inj sp) in
      (* ... and apart from them the file holds events only *)
      let own := filter (fun s => negb (mem_string (fst s) (inj sp))) snap0 in
      let c0' := forallb (fun s => match snd s with Some _ => true | None => false end) own in
      let snap := flat_map (fun s => match snd s with Some x => [(fst s, fst (fst x), snd (fst x), snd x)] | None => [] end) own in
      let live := filter (fun it => negb (memN (fst it) (gone sp))) (lg sp) in
      (* surviving events = logged and neither committed nor removed by a recovery, in logging order *)
      let c1 := list_eqb2 (fun a s => N.eqb (fst a) (snd s) && N.eqb (snd a) (snd (fst s))) live snap in
      (* an item keeps its id *)
      let c2 := forallb (fun s => let '(_, id, _, item) := s in
                                  match lookupN item (ids sp) with Some id' => N.eqb id id' | None => true end) snap in
      let ids' := map (fun s => let '(_, id, _, item) := s in (item, id)) snap ++ ids sp in
      let sp' := mkSpec (lg sp) (gone sp) regs ids' (inj sp) (good sp && c0 && c0' && c1 && c2) in
      (* ids strictly increase in logging order over everything ever observed: never reused *)
      mkSpec (lg sp') (gone sp') regs ids' (inj sp) (good sp' && strictly_incr (known_ids sp') && forallb (fun s => N.leb 1 (snd (fst (fst s)))) snap)
  | Inject key _, ObsInject => mkSpec (lg sp) (gone sp) (rg sp) (ids sp) (l2s key :: inj sp) (good sp)
  | Recover oc, ObsRecover calls =>
      let expected := filter (fun it => negb (memN (fst it) (gone sp)) && memN (snd it) (rg sp)) (lg sp) in
      let called := map (fun c => snd (fst c)) calls in
      let crashed := existsb (fun c => crashes (lookup_oc (snd (fst c)) oc)) calls in
      (* only logged, uncommitted, not yet removed events, in logging order, each at most once *)
      let c1 := is_prefix called (map fst expected) && nodupN called in
      (* all of them, unless the process died in a handler; then the dying call is the last one *)
      let c2 := if crashed
                then match rev calls with
                     | c :: _ => crashes (lookup_oc (snd (fst c)) oc)
                                 && Nat.eqb (List.length (filter (fun c => crashes (lookup_oc (snd (fst c)) oc)) calls)) 1
                     | [] => false
                     end
                else Nat.eqb (List.length called) (List.length expected) in
      (* handler protocol: type matches, Check only after Decode succeeded, Handle only if needed *)
      let c3 := forallb (fun c => let '(t, i, st) := c in
                                  N.eqb st (stages (lookup_oc i oc))
                                  && match lookupN i (lg sp) with Some t' => N.eqb t t' | None => false end) calls in
      let removed := map (fun c => snd (fst c)) (filter (fun c => removes (lookup_oc (snd (fst c)) oc)) calls) in
      mkSpec (lg sp) (removed ++ gone sp) (rg sp) (ids sp) (inj sp) (good sp && c1 && c2 && c3)
  | _, _ => fail sp
  end.

Fixpoint spec_run (sp : spec) (ops : list op) (os : list obs) : spec :=
  match ops, os with
  | [], [] => sp
  | o :: ops', b :: os' => spec_run (spec_step sp o b) ops' os'
  | _, _ => fail sp
  end.

Definition ok (c : case) : bool :=
  good (spec_run (mkSpec [] [] (c_regs c) [] [] true) (c_ops c) (c_obs c)).

(* ================= key codec stream ================= *)
(* the real HydroEvent.Key / parseHydroEventID (through Log + snapshot) and arbitrary keys *)
Record kcase := mkK { k_id : N; k_key : string }.
Definition kagree (c : kcase) : bool := bytes_eqb (event_key (k_id c)) (s2l (k_key c)).
(* parseHydroEventID(Key(id)) = id; id 0 (never issued by bbolt) trims to "" and is rejected *)
Definition kok (c : kcase) : bool :=
  match parse_event_id (s2l (k_key c)) with
  | Some id => N.eqb id (k_id c) && negb (N.eqb id 0)
  | None => N.eqb (k_id c) 0
  end.
