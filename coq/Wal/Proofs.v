(* Proofs about Wal/Model.v (C16). *)
From Coq Require Import List Bool Arith NArith String Ascii Lia Sorted.
From Verif Require Import Base.GoStr Base.GoStrLemmas Wal.Model.
Import ListNotations.
Open Scope list_scope.
Local Open Scope N_scope.

(* ================================================================== *)
(* key codec                                                           *)

Lemma event_key_shape : forall id, event_key id = event_prefix ++ hex16 id.
Proof.
  intro id. unfold event_key. set (h := hex16 id).
  change (join_path [event_prefix; h]) with (clean (slash :: join [slash] [s2l "events"; []; h])).
  rewrite clean_rooted.
  - pose proof (hex16_safe id) as S. fold h in S. destruct S as [Hn _].
    destruct h as [|c h']; [congruence|]. reflexivity.
  - constructor; [right|constructor; [left; reflexivity|constructor; [right; apply hex16_safe|constructor]]].
    unfold safe_elem, no_byte. repeat split; try reflexivity. discriminate.
Qed.

Definition valid_id (id : N) : Prop := 1 <= id /\ id < two64N.

Lemma key_roundtrip : forall id, valid_id id -> parse_event_id (event_key id) = Some id.
Proof.
  intros id [H1 H2]. unfold parse_event_id. rewrite event_key_shape, trim_prefix_app.
  apply parse_hex16; assumption.
Qed.

Lemma key_order : forall a b, a < b -> b < two64N -> bytes_ltb (event_key a) (event_key b) = true.
Proof. intros a b H1 H2. rewrite !event_key_shape, bytes_ltb_app_common. apply hex16_lt; assumption. Qed.

Lemma key_order_iff : forall a b, a < two64N -> b < two64N ->
  (bytes_ltb (event_key a) (event_key b) = true <-> a < b).
Proof.
  intros a b Ha Hb. split; [|intro; apply key_order; assumption].
  intro H. destruct (N.lt_trichotomy a b) as [L|[E|G]]; [exact L| |].
  - subst. rewrite bytes_ltb_irrefl in H. discriminate.
  - apply key_order in G; [|exact Ha]. rewrite (bytes_ltb_asym _ _ G) in H. discriminate.
Qed.

Lemma key_inj : forall a b, a < two64N -> b < two64N -> event_key a = event_key b -> a = b.
Proof.
  intros a b Ha Hb E. destruct (N.lt_trichotomy a b) as [L|[?|G]]; [|assumption|].
  - apply key_order in L; [|exact Hb]. rewrite E, bytes_ltb_irrefl in L. discriminate.
  - apply key_order in G; [|exact Ha]. rewrite E, bytes_ltb_irrefl in G. discriminate.
Qed.

Lemma key_has_prefix : forall id, has_prefix event_prefix (event_key id) = true.
Proof. intro. rewrite event_key_shape. apply has_prefix_app. Qed.
Lemma key_not_below_prefix : forall id, bytes_ltb (event_key id) event_prefix = false.
Proof. intro. rewrite event_key_shape. apply bytes_ltb_prefix_nlt. Qed.

Lemma event_key_length : forall id, List.length (event_key id) = 24%nat.
Proof.
  intro id. rewrite event_key_shape, app_length. unfold hex16. rewrite hexw_length. reflexivity.
Qed.

(* from here on the codec is used through the lemmas above only *)
Opaque event_key parse_event_id event_prefix.

(* ================================================================== *)
(* the bucket: events interleaved with inert foreign entries           *)

Definition key_of (e : entry) : bytes * option (N * N) := (event_key (e_id e), Some (e_typ e, e_item e)).
Definition kv_of (L : list entry) : kvstore := map key_of L.

(* a foreign entry Recover cannot take for an event: its key is not a canonical event key, and
   it is outside the scanned prefix, or its key does not parse, or its value does not decode *)
Definition inert (x : bytes * option (N * N)) : Prop :=
  List.length (fst x) <> 24%nat /\
  (has_prefix event_prefix (fst x) = false \/ parse_event_id (fst x) = None \/ snd x = None).

(* ids strictly increasing and within 1 .. s *)
Definition ids_ok (L : list entry) (s : N) : Prop :=
  StronglySorted N.lt (map e_id L) /\ Forall (fun e => 1 <= e_id e /\ e_id e <= s) L.

Lemma ids_ok_filter : forall f L s, ids_ok L s -> ids_ok (filter f L) s.
Proof.
  intros f L s [S R]. split.
  - clear R. induction L as [|e t IH]; simpl; [constructor|].
    simpl in S. inversion S as [|? ? St He]; subst.
    destruct (f e); [|apply IH; exact St].
    simpl. constructor; [apply IH; exact St|].
    rewrite Forall_forall in He |- *. intros x Hx. apply He.
    apply in_map_iff in Hx. destruct Hx as [y [<- Hy]]. apply filter_In in Hy. apply in_map. tauto.
  - rewrite Forall_forall in R |- *. intros x Hx. apply filter_In in Hx. apply R. tauto.
Qed.
Lemma ids_ok_mono : forall L s s', ids_ok L s -> s <= s' -> ids_ok L s'.
Proof.
  intros L s s' [S R] H. split; [exact S|].
  rewrite Forall_forall in R |- *. intros x Hx. specialize (R x Hx). lia.
Qed.

Lemma filter_id : forall (A : Type) (f : A -> bool) l, (forall x, In x l -> f x = true) -> filter f l = l.
Proof.
  induction l as [|a l IH]; intro H; simpl; [reflexivity|].
  rewrite (H a (or_introl eq_refl)). f_equal. apply IH. intros x Hx. apply H. right. exact Hx.
Qed.

(* order-preserving interleaving of the events A and the foreign entries F *)
Inductive Merge : kvstore -> kvstore -> kvstore -> Prop :=
| M_nil : Merge [] [] []
| M_ev : forall a A F kv, Merge A F kv -> Merge (a :: A) F (a :: kv)
| M_fo : forall f A F kv, Merge A F kv -> Merge A (f :: F) (f :: kv).

Definition blt (a b : bytes) : Prop := bytes_ltb a b = true.
Definition ksorted (kv : kvstore) : Prop := StronglySorted blt (map fst kv).

Lemma merge_in_l : forall A F kv a, Merge A F kv -> In a A -> In a kv.
Proof.
  intros A F kv a M. induction M; intro H; simpl in *; [contradiction| |].
  - destruct H as [<-|H]; [left; reflexivity | right; apply IHM; exact H].
  - right. apply IHM. exact H.
Qed.
Lemma merge_in_r : forall A F kv f, Merge A F kv -> In f F -> In f kv.
Proof.
  intros A F kv f M. induction M; intro H; simpl in *; [contradiction| |].
  - right. apply IHM. exact H.
  - destruct H as [<-|H]; [left; reflexivity | right; apply IHM; exact H].
Qed.
Lemma merge_nil_l : forall F kv, Merge [] F kv -> kv = F.
Proof. intros F kv M. remember [] as A. induction M; try discriminate; [reflexivity|]. f_equal. apply IHM. exact HeqA. Qed.

Lemma blt_trans : forall a b c, blt a b -> blt b c -> blt a c.
Proof. unfold blt. intros. eapply bytes_ltb_trans; eassumption. Qed.

Lemma in_keys_put : forall k v s x, In x (map fst (kv_put k v s)) -> x = k \/ In x (map fst s).
Proof.
  induction s as [|[k' v'] s IH]; intros x H; simpl in H.
  - destruct H as [<-|[]]. left. reflexivity.
  - destruct (bytes_ltb k k').
    + simpl in H. destruct H as [<-|H]; [left; reflexivity | right; exact H].
    + destruct (bytes_eqb k k') eqn:E.
      * simpl in H. destruct H as [<-|H]; [left; reflexivity | right; right; exact H].
      * simpl in H. destruct H as [<-|H]; [right; left; reflexivity|].
        destruct (IH x H) as [->|H2]; [left; reflexivity | right; right; exact H2].
Qed.
Lemma put_sorted : forall k v s, ksorted s -> ksorted (kv_put k v s).
Proof.
  unfold ksorted. induction s as [|[k' v'] s IH]; intro S; simpl.
  - constructor; constructor.
  - simpl in S. inversion S as [|? ? Ss Hk]; subst.
    destruct (bytes_ltb k k') eqn:L.
    + simpl. constructor; [exact S|]. constructor; [exact L|].
      rewrite Forall_forall in Hk |- *. intros x Hx. eapply blt_trans; [exact L | apply Hk; exact Hx].
    + destruct (bytes_eqb k k') eqn:E.
      * apply bytes_eqb_eq in E. subst k'. simpl. constructor; assumption.
      * simpl. constructor; [apply IH; exact Ss|].
        rewrite Forall_forall in Hk |- *. intros x Hx. apply in_keys_put in Hx. destruct Hx as [->|Hx]; [|apply Hk; exact Hx].
        unfold blt. apply bytes_eqb_neq in E.
        destruct (bytes_ltb k' k) eqn:L2; [reflexivity|]. elim E. apply bytes_ltb_total; assumption.
Qed.
Lemma in_keys_delete : forall k s x, In x (map fst (kv_delete k s)) -> In x (map fst s).
Proof.
  induction s as [|[k' v'] s IH]; intros x H; simpl in H; [contradiction|].
  destruct (bytes_eqb k k'); simpl in *; [right; exact H|]. destruct H as [<-|H]; [left; reflexivity | right; apply IH; exact H].
Qed.
Lemma delete_sorted : forall k s, ksorted s -> ksorted (kv_delete k s).
Proof.
  unfold ksorted. induction s as [|[k' v'] s IH]; intro S; simpl; [constructor|].
  simpl in S. inversion S as [|? ? Ss Hk]; subst.
  destruct (bytes_eqb k k'); [exact Ss|]. simpl. constructor; [apply IH; exact Ss|].
  rewrite Forall_forall in Hk |- *. intros x Hx. apply Hk. eapply in_keys_delete. exact Hx.
Qed.

(* a new event whose key is above every event key goes to the end of the events *)
Lemma merge_put_event : forall k v A F kv, Merge A F kv -> ksorted kv ->
  (forall a, In a A -> blt (fst a) k) -> (forall f, In f F -> fst f <> k) ->
  Merge (A ++ [(k, v)]) F (kv_put k v kv).
Proof.
  intros k v A F kv M. induction M as [|a A F kv M IH|f A F kv M IH]; intros S HA HF.
  - simpl. apply M_ev. apply M_nil.
  - destruct a as [ka va]. cbn [kv_put List.app].
    pose proof (HA (ka, va) (or_introl eq_refl)) as La. unfold blt in La. cbn [fst] in La.
    rewrite (bytes_ltb_asym _ _ La).
    assert (E : bytes_eqb k ka = false).
    { apply bytes_eqb_neq. intro C. subst. rewrite bytes_ltb_irrefl in La. discriminate. }
    rewrite E. apply M_ev. apply IH.
    + unfold ksorted in *. simpl in S. inversion S; assumption.
    + intros x Hx. apply HA. right. exact Hx.
    + exact HF.
  - destruct f as [kf vf]. cbn [kv_put].
    destruct (bytes_ltb k kf) eqn:L.
    + (* then there is no event at all: it would sit after kf and below k *)
      destruct A as [|a A'].
      * simpl. apply M_ev. apply M_fo. exact M.
      * exfalso. pose proof (merge_in_l _ _ _ a M (or_introl eq_refl)) as Hin.
        unfold ksorted in S. simpl in S. inversion S as [|? ? _ Hk]; subst. rewrite Forall_forall in Hk.
        pose proof (Hk (fst a) (in_map fst _ _ Hin)) as L1. pose proof (HA a (or_introl eq_refl)) as L2.
        unfold blt in *. pose proof (bytes_ltb_trans _ _ _ L2 L) as L3. pose proof (bytes_ltb_trans _ _ _ L3 L1) as L4.
        rewrite bytes_ltb_irrefl in L4. discriminate.
    + assert (E : bytes_eqb k kf = false).
      { apply bytes_eqb_neq. intro C. apply (HF (kf, vf) (or_introl eq_refl)). symmetry. exact C. }
      rewrite E. apply M_fo. apply IH.
      * unfold ksorted in *. simpl in S. inversion S; assumption.
      * exact HA.
      * intros x Hx. apply HF. right. exact Hx.
Qed.

(* deleting the key of one event *)
Lemma merge_delete_event : forall id L s F kv, Merge (kv_of L) F kv -> ids_ok L s -> s < two64N -> id < two64N ->
  (forall f, In f F -> fst f <> event_key id) ->
  Merge (kv_of (filter (fun e => negb (N.eqb (e_id e) id)) L)) F (kv_delete (event_key id) kv).
Proof.
  intros id L s F kv M. remember (kv_of L) as A. revert L HeqA.
  induction M as [|a A F kv M IH|f A F kv M IH]; intros L EA OK Hs Hid HF.
  - destruct L; [|discriminate]. simpl. apply M_nil.
  - destruct L as [|e L']; [discriminate|]. simpl in EA. inversion EA; subst a A. clear EA.
    destruct OK as [S R]. simpl in S. inversion S as [|? ? St He]; subst. inversion R as [|? ? [He1 He2] Rt]; subst.
    cbn [kv_delete key_of filter]. 
    destruct (bytes_eqb (event_key id) (event_key (e_id e))) eqn:E.
    + apply bytes_eqb_eq in E. apply key_inj in E; [|exact Hid|lia]. subst id.
      rewrite N.eqb_refl. cbn [negb].
      rewrite filter_id; [exact M|].
      intros x Hx. apply negb_true_iff. apply N.eqb_neq.
      rewrite Forall_forall in He. specialize (He (e_id x) (in_map _ _ _ Hx)). lia.
    + assert (Ne : N.eqb (e_id e) id = false).
      { apply N.eqb_neq. intro C. subst id. rewrite bytes_eqb_refl in E. discriminate. }
      rewrite Ne. cbn [negb kv_of map]. fold (key_of e). apply M_ev.
      apply (IH L' eq_refl); try assumption. split; assumption.
  - destruct f as [kf vf]. cbn [kv_delete].
    assert (E : bytes_eqb (event_key id) kf = false).
    { apply bytes_eqb_neq. intro C. apply (HF (kf, vf) (or_introl eq_refl)). symmetry. exact C. }
    rewrite E. apply M_fo. apply (IH L EA); try assumption. intros x Hx. apply HF. right. exact Hx.
Qed.

(* a foreign write that does not hit an event key *)
Lemma merge_put_foreign : forall k ov A F kv, Merge A F kv -> (forall a, In a A -> fst a <> k) ->
  exists F', Merge A F' (kv_put k ov kv) /\
             (forall x, In x F' -> x = (k, ov) \/ In x F) /\ In (k, ov) F' /\
             (forall x, In x F -> fst x <> k -> In x F').
Proof.
  intros k ov A F kv M. induction M as [|a A F kv M IH|f A F kv M IH]; intro HA.
  - exists [(k, ov)]. simpl. split; [apply M_fo, M_nil|]. split; [intros x [<-|[]]; left; reflexivity|].
    split; [left; reflexivity | intros x []].
  - destruct a as [ka va]. cbn [kv_put].
    assert (E : bytes_eqb k ka = false).
    { apply bytes_eqb_neq. intro C. apply (HA (ka, va) (or_introl eq_refl)). symmetry. exact C. }
    destruct (bytes_ltb k ka).
    + exists ((k, ov) :: F). split; [apply M_fo, M_ev; exact M|].
      split; [intros x [<-|H]; [left; reflexivity | right; exact H]|].
      split; [left; reflexivity | intros x Hx _; right; exact Hx].
    + rewrite E. destruct IH as [F' [M' [H1 [H2 H3]]]]; [intros x Hx; apply HA; right; exact Hx|].
      exists F'. split; [apply M_ev; exact M' | auto].
  - destruct f as [kf vf]. cbn [kv_put].
    destruct (bytes_ltb k kf).
    + exists ((k, ov) :: (kf, vf) :: F). split; [apply M_fo, M_fo; exact M|].
      split; [intros x [<-|H]; [left; reflexivity | right; exact H]|].
      split; [left; reflexivity | intros x Hx _; right; exact Hx].
    + destruct (bytes_eqb k kf) eqn:E.
      * apply bytes_eqb_eq in E. subst kf.
        exists ((k, ov) :: F). split; [apply M_fo; exact M|].
        split; [intros x [<-|H]; [left; reflexivity | right; right; exact H]|].
        split; [left; reflexivity|]. intros x [<-|Hx] Hn; [elim Hn; reflexivity | right; exact Hx].
      * destruct (IH HA) as [F' [M' [H1 [H2 H3]]]].
        exists ((kf, vf) :: F'). split; [apply M_fo; exact M'|].
        split; [intros x [<-|H]; [right; left; reflexivity | destruct (H1 x H) as [->|H']; [left; reflexivity | right; right; exact H']]|].
        split; [right; exact H2|]. intros x [<-|Hx] Hn; [left; reflexivity | right; apply H3; assumption].
Qed.

(* ---- Scan: on a sorted bucket, Seek + while-HasPrefix is the filter of the prefixed keys ---- *)
Lemma nonprefix_up : forall p k k', bytes_ltb k p = false -> has_prefix p k = false ->
  bytes_ltb k k' = true -> has_prefix p k' = false.
Proof.
  induction p as [|c p IH]; intros k k' H1 H2 H3; [simpl in H2; discriminate|].
  destruct k as [|x k]; [simpl in H1; discriminate|].
  destruct k' as [|y k']; [simpl in H3; destruct (x :: k); discriminate|].
  simpl in *.
  destruct (byte_ltb x c) eqn:Lxc; [discriminate|].
  destruct (byte_ltb c x) eqn:Lcx.
  - (* x above c: y >= x is above c too *)
    destruct (Ascii.eqb c y) eqn:Ecy; [|reflexivity]. apply Ascii.eqb_eq in Ecy. subst y.
    destruct (byte_ltb x c) eqn:L1; [discriminate|]. rewrite Lcx in H3. discriminate.
  - pose proof (byte_ltb_total _ _ Lxc Lcx) as ->.
    rewrite Ascii.eqb_refl in H2. simpl in H2.
    destruct (byte_ltb c y) eqn:Lcy.
    + destruct (Ascii.eqb c y) eqn:Ecy; [|reflexivity]. apply Ascii.eqb_eq in Ecy. subst y.
      rewrite byte_ltb_irrefl in Lcy. discriminate.
    + destruct (byte_ltb y c) eqn:Lyc; [discriminate|].
      pose proof (byte_ltb_total _ _ Lcy Lyc) as <-. rewrite Ascii.eqb_refl. simpl.
      eapply IH; eassumption.
Qed.

Definition prefixed (p : bytes) (x : bytes * option (N * N)) : bool := has_prefix p (fst x).

Lemma filter_none_kv : forall (f : bytes * option (N * N) -> bool) l, (forall x, In x l -> f x = false) -> filter f l = [].
Proof.
  induction l as [|a l IH]; intro H; [reflexivity|]. simpl. rewrite (H a (or_introl eq_refl)).
  apply IH. intros x Hx. apply H. right. exact Hx.
Qed.

Lemma prefix_not_below : forall p k, has_prefix p k = true -> bytes_ltb k p = false.
Proof. intros p k H. apply has_prefix_iff in H. destruct H as [r ->]. apply bytes_ltb_prefix_nlt. Qed.

Lemma take_filter : forall p s, ksorted s ->
  (match s with [] => True | x :: _ => bytes_ltb (fst x) p = false end) ->
  take_prefixed p s = filter (prefixed p) s.
Proof.
  induction s as [|[k v] s IH]; intros S H; [reflexivity|].
  unfold ksorted in S. simpl in S. inversion S as [|? ? Ss Hk]; subst. rewrite Forall_forall in Hk.
  cbn [take_prefixed filter]. change (prefixed p (k, v)) with (has_prefix p k). destruct (has_prefix p k) eqn:E.
  - f_equal. apply IH; [exact Ss|]. destruct s as [|[k2 v2] s2]; [exact I|]. cbn [fst].
    specialize (Hk k2 (or_introl eq_refl)). unfold blt in Hk.
    destruct (bytes_ltb k2 p) eqn:C; [|reflexivity].
    pose proof (bytes_ltb_trans _ _ _ Hk C) as T. cbn [fst] in H. congruence.
  - symmetry. apply filter_none_kv. intros [k2 v2] Hx. unfold prefixed. cbn [fst].
    eapply nonprefix_up; [exact H | exact E | apply Hk; apply (in_map fst _ _ Hx)].
Qed.
Lemma scan_filter : forall p s, ksorted s -> kv_scan p s = filter (prefixed p) s.
Proof.
  intros p s S. unfold kv_scan. induction s as [|[k v] s IH]; [reflexivity|].
  cbn [kv_seek]. destruct (bytes_ltb k p) eqn:L.
  - cbn [filter]. change (prefixed p (k, v)) with (has_prefix p k). destruct (has_prefix p k) eqn:E.
    + apply prefix_not_below in E. congruence.
    + apply IH. unfold ksorted in *. simpl in S. inversion S; assumption.
  - apply take_filter; [exact S | exact L].
Qed.

Lemma inert_not_event_key : forall f id, inert f -> fst f <> event_key id.
Proof. intros f id [H _] C. apply H. rewrite C. apply event_key_length. Qed.

(* what Recover decodes from the bucket: the events, nothing of the foreign entries *)
Lemma decode_merge : forall L s F kv, Merge (kv_of L) F kv -> Forall inert F -> ids_ok L s -> s < two64N ->
  decode_events (filter (prefixed event_prefix) kv) = L.
Proof.
  intros L s F kv M. remember (kv_of L) as A. revert L HeqA.
  induction M as [|a A F kv M IH|f A F kv M IH]; intros L EA FI OK Hs.
  - destruct L; [reflexivity | discriminate].
  - destruct L as [|e L']; [discriminate|]. simpl in EA. inversion EA; subst a A. clear EA.
    destruct OK as [S R]. simpl in S. inversion S as [|? ? St He]; subst. inversion R as [|? ? [He1 He2] Rt]; subst.
    cbn [filter]. change (prefixed event_prefix (key_of e)) with (has_prefix event_prefix (event_key (e_id e))).
    rewrite key_has_prefix.
    unfold decode_events. cbn [flat_map]. unfold key_of at 1 2. cbn [fst snd]. rewrite key_roundtrip by (split; lia).
    cbn [List.app]. destruct e as [i t it]. cbn [e_id e_typ e_item fst snd]. f_equal.
    apply (IH L' eq_refl FI); [split; assumption | exact Hs].
  - inversion FI as [|? ? If FI']; subst. cbn [filter]. destruct (prefixed event_prefix f) eqn:P.
    + unfold decode_events. cbn [flat_map].
      assert (D : match snd f with
                  | None => []
                  | Some ti => match parse_event_id (fst f) with Some id => [mkEntry id (fst ti) (snd ti)] | None => [] end
                  end = []).
      { destruct If as [_ [H|[H|H]]].
        - unfold prefixed in P. congruence.
        - rewrite H. destruct (snd f); reflexivity.
        - rewrite H. reflexivity. }
      rewrite D. cbn [List.app]. apply (IH L eq_refl FI' OK Hs).
    + apply (IH L eq_refl FI' OK Hs).
Qed.

Record wfkv (kv : kvstore) (L : list entry) (F : kvstore) : Prop := mkWf {
  w_merge : Merge (kv_of L) F kv; w_sorted : ksorted kv; w_inert : Forall inert F }.

Lemma wf_decode : forall kv L F s, wfkv kv L F -> ids_ok L s -> s < two64N ->
  decode_events (kv_scan event_prefix kv) = L.
Proof.
  intros kv L F s [M S I] OK Hs. rewrite (scan_filter _ _ S). eapply decode_merge; eassumption.
Qed.

Lemma wf_put_event : forall kv L F s id t i, wfkv kv L F -> ids_ok L s -> s < id -> id < two64N ->
  wfkv (kv_put (event_key id) (Some (t, i)) kv) (L ++ [mkEntry id t i]) F.
Proof.
  intros kv L F s id t i [M S I] [_ R] Hs Hid. constructor; [|apply put_sorted; exact S | exact I].
  unfold kv_of. rewrite map_app. cbn [map key_of e_id e_typ e_item].
  apply merge_put_event; [exact M | exact S | |].
  - intros a Ha. apply in_map_iff in Ha. destruct Ha as [e [<- He]]. cbn [key_of fst].
    rewrite Forall_forall in R. specialize (R e He). unfold blt. apply key_order; lia.
  - intros f Hf. apply inert_not_event_key. rewrite Forall_forall in I. apply I. exact Hf.
Qed.

Lemma wf_delete_event : forall kv L F s id, wfkv kv L F -> ids_ok L s -> s < two64N -> id < two64N ->
  wfkv (kv_delete (event_key id) kv) (filter (fun e => negb (N.eqb (e_id e) id)) L) F.
Proof.
  intros kv L F s id [M S I] OK Hs Hid. constructor; [|apply delete_sorted; exact S | exact I].
  eapply merge_delete_event; try eassumption.
  intros f Hf. apply inert_not_event_key. rewrite Forall_forall in I. apply I. exact Hf.
Qed.

Lemma wf_put_foreign : forall kv L F k ov, wfkv kv L F -> inert (k, ov) ->
  exists F', wfkv (kv_put k ov kv) L F' /\
             (forall x, In x F' -> x = (k, ov) \/ In x F) /\ In (k, ov) F' /\
             (forall x, In x F -> fst x <> k -> In x F').
Proof.
  intros kv L F k ov [M S I] Hi.
  destruct (merge_put_foreign k ov _ _ _ M) as [F' [M' [H1 [H2 H3]]]].
  - intros a Ha. apply in_map_iff in Ha. destruct Ha as [e [<- He]]. cbn [key_of fst].
    intro C. apply (inert_not_event_key (k, ov) (e_id e) Hi). symmetry. exact C.
  - exists F'. split; [|auto]. constructor; [exact M' | apply put_sorted; exact S|].
    rewrite Forall_forall in I |- *. intros x Hx. destruct (H1 x Hx) as [->|Hx']; [exact Hi | apply I; exact Hx'].
Qed.

(* ================================================================== *)
(* Recover on entries                                                  *)

(* walk the live events in order; skip types without handler; stop after a crash *)
Fixpoint expected_calls (regs : list N) (oc : list (N * outcome)) (events : list entry)
  : list (entry * outcome) :=
  match events with
  | [] => []
  | e :: rest =>
      if negb (memN (e_typ e) regs) then expected_calls regs oc rest
      else let o := lookup_oc (e_item e) oc in
           if crashes o then [(e, o)] else (e, o) :: expected_calls regs oc rest
  end.

Definition removed_by (calls : list (entry * outcome)) : list N :=
  map (fun c => e_id (fst c)) (filter (fun c => removes (snd c)) calls).

Definition not_in (R : list N) (e : entry) : bool := negb (memN (e_id e) R).

Lemma filter_filter_ids : forall id R (L : list entry),
  filter (not_in R) (filter (fun e => negb (N.eqb (e_id e) id)) L) = filter (not_in (id :: R)) L.
Proof.
  intros id R L. induction L as [|e L IH]; [reflexivity|]. simpl.
  unfold not_in at 2. simpl. destruct (N.eqb (e_id e) id) eqn:E; simpl.
  - exact IH.
  - unfold not_in at 1. destruct (memN (e_id e) R); simpl; [exact IH | f_equal; exact IH].
Qed.

Lemma filter_not_in_nil : forall L : list entry, filter (not_in []) L = L.
Proof. induction L as [|e L IH]; [reflexivity|]. simpl. f_equal. exact IH. Qed.

Lemma replay_wf : forall regs oc E kv L F s,
  wfkv kv L F -> ids_ok L s -> s < two64N -> Forall (fun e => e_id e < two64N) E ->
  exists kv', replay regs oc E kv = (kv', expected_calls regs oc E) /\
              wfkv kv' (filter (not_in (removed_by (expected_calls regs oc E))) L) F.
Proof.
  intros regs oc E. induction E as [|e E IH]; intros kv L F s W OK Hs FE.
  - simpl. exists kv. split; [reflexivity|]. rewrite filter_not_in_nil. exact W.
  - inversion FE as [|? ? He FE']; subst. simpl.
    destruct (negb (memN (e_typ e) regs)); [apply (IH kv L F s); assumption|].
    set (o := lookup_oc (e_item e) oc).
    destruct (removes o) eqn:Rm.
    + pose proof (wf_delete_event kv L F s (e_id e) W OK Hs He) as W'.
      destruct (crashes o) eqn:Cr.
      * eexists. split; [reflexivity|]. unfold removed_by. simpl. rewrite Rm. simpl.
        rewrite <- filter_filter_ids, filter_not_in_nil. exact W'.
      * destruct (IH _ _ F s W' (ids_ok_filter _ _ _ OK) Hs FE') as [kv' [E1 W2]].
        rewrite E1. eexists. split; [reflexivity|].
        unfold removed_by at 1. simpl. rewrite Rm. simpl. fold (removed_by (expected_calls regs oc E)).
        rewrite <- filter_filter_ids. exact W2.
    + destruct (crashes o) eqn:Cr.
      * eexists. split; [reflexivity|]. unfold removed_by. simpl. rewrite Rm. simpl. rewrite filter_not_in_nil. exact W.
      * destruct (IH kv L F s W OK Hs FE') as [kv' [E1 W2]]. rewrite E1. eexists. split; [reflexivity|].
        unfold removed_by at 1. simpl. rewrite Rm. fold (removed_by (expected_calls regs oc E)). exact W2.
Qed.

(* ================================================================== *)
(* traces                                                              *)

Definition trace := list (op * result).

Definition logged (tr : trace) : list entry :=
  flat_map (fun x => match x with
                     | (Log t i _, RLogged id) => [mkEntry id t i]
                     | _ => []
                     end) tr.
Definition logged_ids (tr : trace) : list N := map e_id (logged tr).

(* ids whose key a Commit deleted or a recovery removed *)
Definition removed_ids (tr : trace) : list N :=
  flat_map (fun x => match snd x with
                     | RCommitted id => [id]
                     | RRecovered calls => removed_by calls
                     | _ => []
                     end) tr.

(* logged and not removed, in logging order *)
Definition live (tr : trace) : list entry := filter (not_in (removed_ids tr)) (logged tr).

Lemma run_app : forall ops1 ops2 st,
  run st (ops1 ++ ops2) =
  let '(tr1, st1) := run st ops1 in let '(tr2, st2) := run st1 ops2 in (tr1 ++ tr2, st2).
Proof.
  induction ops1 as [|o ops1 IH]; intros ops2 st; simpl.
  - destruct (run st ops2). reflexivity.
  - destruct (step st o) as [st' r]. rewrite IH.
    destruct (run st' ops1) as [tr1 st1]. destruct (run st1 ops2) as [tr2 st2]. reflexivity.
Qed.

Lemma run_snoc : forall ops o st tr st1 st2 r,
  run st ops = (tr, st1) -> step st1 o = (st2, r) -> run st (ops ++ [o]) = (tr ++ [(o, r)], st2).
Proof. intros. rewrite run_app, H. simpl. rewrite H0. reflexivity. Qed.

Lemma logged_snoc : forall tr x, logged (tr ++ [x]) = logged tr ++ logged [x].
Proof. intros. unfold logged. rewrite flat_map_app. reflexivity. Qed.
Lemma removed_snoc : forall tr x, removed_ids (tr ++ [x]) = removed_ids tr ++ removed_ids [x].
Proof. intros. unfold removed_ids. rewrite flat_map_app. reflexivity. Qed.

Lemma memN_In : forall x l, memN x l = true <-> In x l.
Proof.
  induction l as [|y t IH]; simpl; [split; [discriminate|tauto]|].
  rewrite orb_true_iff, IH, N.eqb_eq. split; intros [H|H]; auto.
Qed.
Lemma memN_app : forall x a b, memN x (a ++ b) = memN x a || memN x b.
Proof. induction a as [|y a IH]; intro b; simpl; [reflexivity|]. rewrite IH. apply orb_assoc. Qed.

Lemma filter_not_in_app : forall R1 R2 (L : list entry),
  filter (not_in (R1 ++ R2)) L = filter (not_in R2) (filter (not_in R1) L).
Proof.
  intros R1 R2 L. induction L as [|e L IH]; [reflexivity|]. cbn [filter].
  assert (E : not_in (R1 ++ R2) e = not_in R1 e && not_in R2 e).
  { unfold not_in. rewrite memN_app, negb_orb. reflexivity. }
  rewrite E. destruct (not_in R1 e); cbn [andb filter].
  - destruct (not_in R2 e); [f_equal|]; exact IH.
  - exact IH.
Qed.

Lemma live_snoc_recover : forall tr oc calls,
  live (tr ++ [(Recover oc, RRecovered calls)]) = filter (not_in (removed_by calls)) (live tr).
Proof.
  intros. unfold live at 1. rewrite logged_snoc, removed_snoc. simpl. rewrite !app_nil_r.
  apply filter_not_in_app.
Qed.

(* keys written by the foreign writer *)
Definition injected (tr : trace) : list bytes :=
  flat_map (fun x => match fst x with Inject k _ => [k] | _ => [] end) tr.
Lemma injected_snoc : forall tr x, injected (tr ++ [x]) = injected tr ++ injected [x].
Proof. intros. unfold injected. rewrite flat_map_app. reflexivity. Qed.

(* every foreign write of the history is inert *)
Definition op_inert (o : op) : Prop := match o with Inject k v => inert (k, v) | _ => True end.

(* the invariant tying the state to the trace; F = the foreign entries in the bucket *)
Record inv (tr : trace) (st : state) (F : kvstore) : Prop := mkInv {
  i_kv : wfkv (kv st) (live tr) F;
  i_fkeys : forall x, In x F -> In (fst x) (injected tr);
  i_fkept : forall k, In k (injected tr) -> exists ov, In (k, ov) F;
  i_sorted : StronglySorted N.lt (logged_ids tr);
  i_range : Forall (fun id => 1 <= id /\ id <= seq st) (logged_ids tr);
  i_removed : Forall (fun id => id <= seq st) (removed_ids tr);
  i_issued : Forall (fun p => fst p <= seq st) (issued st)
}.

Lemma sorted_filter : forall (f : entry -> bool) L,
  StronglySorted N.lt (map e_id L) -> StronglySorted N.lt (map e_id (filter f L)).
Proof.
  intros f L S. induction L as [|e t IH]; simpl; [constructor|].
  simpl in S. inversion S as [|? ? St He]; subst.
  destruct (f e); [|apply IH; exact St]. simpl. constructor; [apply IH; exact St|].
  rewrite Forall_forall in He |- *. intros x Hx. apply He.
  apply in_map_iff in Hx. destruct Hx as [y [<- Hy]]. apply filter_In in Hy. apply in_map. tauto.
Qed.

Lemma inv_live_ok : forall tr st F, inv tr st F -> ids_ok (live tr) (seq st).
Proof.
  intros tr st F I. split.
  - unfold live. apply sorted_filter. exact (i_sorted _ _ _ I).
  - pose proof (i_range _ _ _ I) as R. rewrite Forall_forall in R |- *.
    intros e He. unfold live in He. apply filter_In in He. apply R. unfold logged_ids. apply in_map. tauto.
Qed.

Lemma ss_snoc : forall l x, StronglySorted N.lt l -> Forall (fun y => y < x) l -> StronglySorted N.lt (l ++ [x]).
Proof.
  induction l as [|y l IH]; intros x S F; simpl; [constructor; constructor|].
  inversion S as [|? ? Sl Hy]; subst. inversion F as [|? ? Fy Fl]; subst.
  constructor; [apply IH; assumption|]. apply Forall_app. split; [exact Hy | constructor; [exact Fy|constructor]].
Qed.

Lemma seq_mono : forall st o st' r, step st o = (st', r) -> seq st <= seq st'.
Proof.
  intros st o st' r H. destruct o as [t i e|k|b rs|oc|ik iv]; simpl in H.
  - destruct (negb (memN t (reg st))); [inversion H; lia|].
    destruct (negb e); inversion H; simpl; lia.
  - destruct (nth_error (issued st) k) as [[id g]|]; [|inversion H; lia].
    destruct (N.eqb g (gen st)); inversion H; simpl; lia.
  - inversion H; simpl; lia.
  - destruct (replay (reg st) oc (decode_events (kv_scan event_prefix (kv st))) (kv st)).
    inversion H; simpl; lia.
  - inversion H; simpl; lia.
Qed.

Lemma Forall_le_mono : forall (l : list N) a b, a <= b -> Forall (fun id => id <= a) l -> Forall (fun id => id <= b) l.
Proof. intros l a b H F. rewrite Forall_forall in F |- *. intros x Hx. specialize (F x Hx). lia. Qed.

Lemma expected_calls_sub : forall regs oc E c, In c (expected_calls regs oc E) -> In (fst c) E.
Proof.
  induction E as [|e E IH]; intros c H; simpl in H; [contradiction|].
  destruct (negb (memN (e_typ e) regs)); [right; apply IH; exact H|].
  destruct (crashes (lookup_oc (e_item e) oc)).
  - destruct H as [<-|[]]. left. reflexivity.
  - destruct H as [<-|H]; [left; reflexivity | right; apply IH; exact H].
Qed.

Lemma removed_by_sub : forall calls id, In id (removed_by calls) -> exists c, In c calls /\ e_id (fst c) = id /\ removes (snd c) = true.
Proof.
  intros calls id H. unfold removed_by in H. apply in_map_iff in H. destruct H as [c [E Hc]].
  apply filter_In in Hc. exists c. tauto.
Qed.

(* one step preserves the invariant (as long as the sequence stays below 2^64 and foreign writes are inert) *)
Lemma step_inv : forall tr st F o st' r,
  inv tr st F -> step st o = (st', r) -> seq st' < two64N -> op_inert o ->
  exists F', inv (tr ++ [(o, r)]) st' F'.
Proof.
  intros tr st F o st' r I H B Hin.
  pose proof (seq_mono _ _ _ _ H) as Mono.
  pose proof (inv_live_ok _ _ _ I) as OK.
  destruct I as [Ikv Ifk Ifp Isort Irange Irem Iiss].
  assert (Same : forall o' r', o' = o -> r' = r ->
                 logged [(o', r')] = [] -> removed_ids [(o', r')] = [] -> injected [(o', r')] = [] ->
                 kv st' = kv st -> seq st <= seq st' -> Forall (fun p => fst p <= seq st') (issued st') ->
                 exists F', inv (tr ++ [(o, r)]) st' F').
  { intros o' r' -> -> E1 E2 E3 Ek Es Ei. exists F.
    constructor; unfold live, logged_ids; rewrite ?logged_snoc, ?removed_snoc, ?injected_snoc, ?E1, ?E2, ?E3, ?app_nil_r, ?Ek;
      try assumption.
    - rewrite Forall_forall in Irange |- *. intros y Hy. specialize (Irange y Hy). lia.
    - eapply Forall_le_mono; [|exact Irem]. lia. }
  destruct o as [t i e|k|b rs|oc|ik iv]; simpl in H.
  - (* Log *)
    destruct (negb (memN t (reg st))) eqn:Ereg.
    { inversion H; subst st' r. eapply Same; [reflexivity | reflexivity | ..]; try reflexivity; try assumption; try lia. }
    destruct (negb e) eqn:Eenc.
    { inversion H; subst st' r. eapply Same; [reflexivity | reflexivity | ..]; try reflexivity; try assumption; try lia. }
    inversion H; subst st' r. clear H Same. simpl in *.
    set (id := seq st + 1) in *.
    assert (Fresh : memN id (removed_ids tr) = false).
    { destruct (memN id (removed_ids tr)) eqn:E; [|reflexivity]. apply memN_In in E.
      rewrite Forall_forall in Irem. specialize (Irem _ E). lia. }
    exists F. constructor; simpl.
    + unfold live. rewrite logged_snoc, removed_snoc. simpl. rewrite app_nil_r.
      rewrite filter_app. simpl. unfold not_in at 2. simpl. rewrite Fresh. simpl.
      eapply wf_put_event; [exact Ikv | exact OK | lia | exact B].
    + rewrite injected_snoc. simpl. rewrite app_nil_r. exact Ifk.
    + rewrite injected_snoc. simpl. rewrite app_nil_r. exact Ifp.
    + unfold logged_ids. rewrite logged_snoc, map_app. simpl. apply ss_snoc; [exact Isort|].
      rewrite Forall_forall in Irange |- *. intros y Hy. specialize (Irange y Hy). lia.
    + unfold logged_ids. rewrite logged_snoc, map_app. simpl. apply Forall_app. split.
      * rewrite Forall_forall in Irange |- *. intros y Hy. specialize (Irange y Hy). lia.
      * constructor; [lia|constructor].
    + rewrite removed_snoc. simpl. rewrite app_nil_r. eapply Forall_le_mono; [|exact Irem]. lia.
    + apply Forall_app. split; [|constructor; [simpl; lia|constructor]].
      rewrite Forall_forall in Iiss |- *. intros p Hp. specialize (Iiss p Hp). lia.
  - (* Commit *)
    destruct (nth_error (issued st) k) as [[id g]|] eqn:En.
    2:{ inversion H; subst st' r. eapply Same; [reflexivity | reflexivity | ..]; try reflexivity; try assumption; try lia. }
    destruct (N.eqb g (gen st)).
    2:{ inversion H; subst st' r. eapply Same; [reflexivity | reflexivity | ..]; try reflexivity; try assumption; try lia. }
    inversion H; subst st' r. clear H Same. simpl in *.
    assert (Hid : id <= seq st).
    { apply nth_error_In in En. rewrite Forall_forall in Iiss. apply (Iiss _ En). }
    exists F. constructor; simpl.
    + unfold live. rewrite logged_snoc, removed_snoc. simpl. rewrite app_nil_r.
      rewrite filter_not_in_app. fold (live tr).
      assert (E : filter (not_in [id]) (live tr) = filter (fun e => negb (N.eqb (e_id e) id)) (live tr)).
      { apply filter_ext. intro x. unfold not_in. simpl. rewrite orb_false_r. reflexivity. }
      rewrite E. eapply wf_delete_event; [exact Ikv | exact OK | exact B | lia].
    + rewrite injected_snoc. simpl. rewrite app_nil_r. exact Ifk.
    + rewrite injected_snoc. simpl. rewrite app_nil_r. exact Ifp.
    + unfold logged_ids. rewrite logged_snoc. simpl. rewrite app_nil_r. exact Isort.
    + unfold logged_ids. rewrite logged_snoc. simpl. rewrite app_nil_r. exact Irange.
    + rewrite removed_snoc. simpl. apply Forall_app. split; [exact Irem | constructor; [exact Hid|constructor]].
    + exact Iiss.
  - (* Reopen *)
    inversion H; subst st' r. simpl in *. eapply Same; [reflexivity | reflexivity | ..]; try reflexivity; simpl; try lia.
    all: try (rewrite Forall_forall in Iiss |- *; intros p Hp; specialize (Iiss p Hp); lia).
  - (* Recover *)
    assert (Bs : seq st < two64N) by lia.
    rewrite (wf_decode _ _ _ _ Ikv OK Bs) in H.
    destruct (replay_wf (reg st) oc (live tr) (kv st) (live tr) F (seq st) Ikv OK Bs) as [kv' [E1 W']].
    { destruct OK as [_ R]. rewrite Forall_forall in R |- *. intros x Hx. specialize (R x Hx). lia. }
    rewrite E1 in H. inversion H; subst st' r. clear H Same. simpl in *.
    exists F. constructor; simpl.
    + rewrite live_snoc_recover. exact W'.
    + rewrite injected_snoc. simpl. rewrite app_nil_r. exact Ifk.
    + rewrite injected_snoc. simpl. rewrite app_nil_r. exact Ifp.
    + unfold logged_ids. rewrite logged_snoc. simpl. rewrite app_nil_r. exact Isort.
    + unfold logged_ids. rewrite logged_snoc. simpl. rewrite app_nil_r. exact Irange.
    + rewrite removed_snoc. simpl. rewrite app_nil_r. apply Forall_app. split; [exact Irem|].
      rewrite Forall_forall. intros id Hid. apply removed_by_sub in Hid. destruct Hid as [c [Hc [E _]]].
      apply expected_calls_sub in Hc. destruct OK as [_ R]. rewrite Forall_forall in R.
      specialize (R _ Hc). lia.
    + exact Iiss.
  - (* Inject: an inert foreign write *)
    inversion H; subst st' r. clear H Same. simpl in *.
    destruct (wf_put_foreign _ _ _ ik iv Ikv Hin) as [F' [W' [H1 [H2 H3]]]].
    exists F'. constructor; simpl;
      unfold live, logged_ids; rewrite ?logged_snoc, ?removed_snoc, ?injected_snoc; simpl; rewrite ?app_nil_r; try assumption.
    + intros x Hx. apply in_or_app. destruct (H1 x Hx) as [->|Hx']; [right; left; reflexivity | left; apply Ifk; exact Hx'].
    + intros k Hk. apply in_app_or in Hk. destruct Hk as [Hk|[<-|[]]]; [|exists iv; exact H2].
      destruct (Ifp k Hk) as [ov Hov].
      destruct (bytes_eqb k ik) eqn:E.
      * apply bytes_eqb_eq in E. subst k. exists iv. exact H2.
      * exists ov. apply H3; [exact Hov|]. cbn [fst]. apply bytes_eqb_neq. exact E.
Qed.

Lemma inv_init : forall regs, inv [] (init regs) [].
Proof.
  intro regs. constructor; simpl.
  - constructor; [apply M_nil | constructor | constructor].
  - intros x H. destruct H.
  - intros k H. destruct H.
  - constructor.
  - constructor.
  - constructor.
  - constructor.
Qed.

Lemma run_seq_mono : forall ops st tr st', run st ops = (tr, st') -> seq st <= seq st'.
Proof.
  induction ops as [|o ops IH]; intros st tr st' H; simpl in H.
  - inversion H. lia.
  - destruct (step st o) as [s1 r] eqn:E. destruct (run s1 ops) as [tr1 fin] eqn:R. inversion H; subst.
    apply seq_mono in E. apply IH in R. lia.
Qed.

Lemma Forall_app_l : forall (A : Type) (P : A -> Prop) a b, Forall P (a ++ b) -> Forall P a.
Proof. intros A P a b H. apply Forall_app in H. tauto. Qed.

Lemma run_inv : forall regs ops tr st,
  run (init regs) ops = (tr, st) -> seq st < two64N -> Forall op_inert ops -> exists F, inv tr st F.
Proof.
  intros regs ops. induction ops as [|o ops IH] using rev_ind; intros tr st H B HI.
  - simpl in H. inversion H; subst. exists []. apply inv_init.
  - rewrite run_app in H. destruct (run (init regs) ops) as [tr1 st1] eqn:R1.
    simpl in H. destruct (step st1 o) as [st2 r] eqn:E. inversion H; subst tr st. clear H.
    apply Forall_app in HI. destruct HI as [HI1 HI2]. inversion HI2; subst.
    destruct (IH tr1 st1 eq_refl) as [F I]; [apply seq_mono in E; lia | exact HI1|].
    eapply step_inv; eassumption.
Qed.

(* ================================================================== *)
(* the theorems                                                        *)

(* ids returned by Log strictly increase over the whole history (across Reopen and crashed
   Logs), so none is ever reused; bbolt starts at 1 *)
Lemma ids_fresh : forall regs ops tr st,
  run (init regs) ops = (tr, st) -> seq st < two64N -> Forall op_inert ops ->
  StronglySorted N.lt (logged_ids tr) /\ Forall (fun id => 1 <= id /\ id <= seq st) (logged_ids tr).
Proof. intros regs ops tr st H B HI. destruct (run_inv _ _ _ _ H B HI) as [F I]. split; [apply I | apply I]. Qed.

(* the file holds exactly the events logged and not removed, in id order, interleaved with the
   foreign entries F, which are exactly the (last) foreign writes of the history: none was deleted *)
Lemma state_is_live : forall regs ops tr st,
  run (init regs) ops = (tr, st) -> seq st < two64N -> Forall op_inert ops ->
  exists F, wfkv (kv st) (live tr) F /\ ids_ok (live tr) (seq st) /\
            (forall x, In x F -> In (fst x) (injected tr)) /\
            (forall k, In k (injected tr) -> exists ov, In (k, ov) F).
Proof.
  intros regs ops tr st H B HI. destruct (run_inv _ _ _ _ H B HI) as [F I]. exists F.
  split; [apply I|]. split; [eapply inv_live_ok; exact I|]. split; [apply I | apply I].
Qed.

Lemma recover_step : forall regs ops tr st oc,
  run (init regs) ops = (tr, st) -> seq st < two64N -> Forall op_inert ops ->
  exists st', step st (Recover oc) = (st', RRecovered (expected_calls (reg st) oc (live tr))) /\
    seq st' = seq st /\ reg st' = reg st /\ gen st' = gen st /\ issued st' = issued st /\
    exists F, wfkv (kv st') (filter (not_in (removed_by (expected_calls (reg st) oc (live tr)))) (live tr)) F.
Proof.
  intros regs ops tr st oc H B HI. destruct (state_is_live _ _ _ _ H B HI) as [F [W [OK _]]].
  simpl. rewrite (wf_decode _ _ _ _ W OK B).
  destruct (replay_wf (reg st) oc (live tr) (kv st) (live tr) F (seq st) W OK B) as [kv' [E1 W']].
  { destruct OK as [_ R]. rewrite Forall_forall in R |- *. intros x Hx. specialize (R x Hx). lia. }
  rewrite E1. eexists. split; [reflexivity|]. cbn [seq reg gen issued kv]. repeat split; try reflexivity.
  exists F. exact W'.
Qed.

(* sub-sequence: order and multiplicity are inherited from the live list *)
Inductive subseq {A} : list A -> list A -> Prop :=
| sub_nil : forall l, subseq [] l
| sub_take : forall x a l, subseq a l -> subseq (x :: a) (x :: l)
| sub_skip : forall x a l, subseq a l -> subseq a (x :: l).

Lemma expected_calls_subseq : forall regs oc E, subseq (map fst (expected_calls regs oc E)) E.
Proof.
  induction E as [|e E IH]; simpl; [constructor|].
  destruct (negb (memN (e_typ e) regs)); [apply sub_skip; exact IH|].
  destruct (crashes (lookup_oc (e_item e) oc)); simpl.
  - apply sub_take. constructor.
  - apply sub_take. exact IH.
Qed.

Lemma subseq_sorted : forall (a l : list entry), subseq a l ->
  StronglySorted N.lt (map e_id l) -> StronglySorted N.lt (map e_id a).
Proof.
  intros a l S. induction S as [l|x a l S IH|x a l S IH]; intro H; simpl in *.
  - constructor.
  - inversion H as [|? ? Hl Hx]; subst. constructor; [apply IH; exact Hl|].
    rewrite Forall_forall in Hx |- *. intros y Hy. apply Hx.
    clear - S Hy. induction S; simpl in *; [contradiction| |].
    + destruct Hy as [<-|Hy]; [left; reflexivity | right; apply IHS; exact Hy].
    + right. apply IHS. exact Hy.
  - inversion H; subst. apply IH. assumption.
Qed.

Lemma expected_calls_no_crash : forall regs oc E,
  (forall e, In e E -> memN (e_typ e) regs = true -> crashes (lookup_oc (e_item e) oc) = false) ->
  map fst (expected_calls regs oc E) = filter (fun e => memN (e_typ e) regs) E.
Proof.
  induction E as [|e E IH]; intro H; simpl; [reflexivity|].
  destruct (memN (e_typ e) regs) eqn:M; simpl.
  - rewrite (H e (or_introl eq_refl) M). simpl. f_equal. apply IH. intros x Hx. apply H. right. exact Hx.
  - apply IH. intros x Hx. apply H. right. exact Hx.
Qed.

Lemma expected_calls_outcome : forall regs oc E c, In c (expected_calls regs oc E) ->
  snd c = lookup_oc (e_item (fst c)) oc /\ memN (e_typ (fst c)) regs = true.
Proof.
  induction E as [|e E IH]; intros c H; simpl in H; [contradiction|].
  destruct (memN (e_typ e) regs) eqn:M; simpl in H; [|apply IH; exact H].
  destruct (crashes (lookup_oc (e_item e) oc)).
  - destruct H as [<-|[]]. simpl. auto.
  - destruct H as [<-|H]; [simpl; auto | apply IH; exact H].
Qed.

(* a crash, if any, is the last call *)
Lemma expected_calls_crash_last : forall regs oc E pre c post,
  expected_calls regs oc E = pre ++ c :: post -> crashes (snd c) = true -> post = [].
Proof.
  induction E as [|e E IH]; intros pre c post H Cr; simpl in H.
  - destruct pre; discriminate.
  - destruct (negb (memN (e_typ e) regs)); [eapply IH; eassumption|].
    destruct (crashes (lookup_oc (e_item e) oc)) eqn:C.
    + destruct pre as [|p pre]; inversion H; subst; [reflexivity|]. destruct pre; discriminate.
    + destruct pre as [|p pre]; inversion H; subst.
      * simpl in Cr. congruence.
      * eapply IH; eassumption.
Qed.

Lemma in_live : forall tr e, In e (live tr) <-> In e (logged tr) /\ ~ In (e_id e) (removed_ids tr).
Proof.
  intros. unfold live. rewrite filter_In. unfold not_in. rewrite negb_true_iff.
  rewrite <- (memN_In (e_id e) (removed_ids tr)). destruct (memN (e_id e) (removed_ids tr)); intuition congruence.
Qed.

(* C16_replay, assembled *)
Definition replay_spec (tr : trace) (regs : list N) (oc : list (N * outcome)) (calls : list (entry * outcome)) : Prop :=
  (* exactly the walk over the live events *)
  calls = expected_calls regs oc (live tr) /\
  (* only events that were logged and neither committed nor removed by an earlier recovery *)
  (forall c, In c calls -> In (fst c) (logged tr) /\ ~ In (e_id (fst c)) (removed_ids tr)
                           /\ snd c = lookup_oc (e_item (fst c)) oc) /\
  (* in increasing id (= logging) order, each at most once *)
  StronglySorted N.lt (map (fun c => e_id (fst c)) calls) /\
  subseq (map fst calls) (live tr) /\
  (* all of them (that have a handler), unless the process died in a handler, which then is the last call *)
  ((forall e, In e (live tr) -> memN (e_typ e) regs = true -> crashes (lookup_oc (e_item e) oc) = false) ->
     map fst calls = filter (fun e => memN (e_typ e) regs) (live tr)) /\
  (forall pre c post, calls = pre ++ c :: post -> crashes (snd c) = true -> post = []).

Lemma replay_theorem : forall regs ops tr st oc,
  run (init regs) ops = (tr, st) -> seq st < two64N -> Forall op_inert ops ->
  exists st' calls, step st (Recover oc) = (st', RRecovered calls) /\ replay_spec tr (reg st) oc calls.
Proof.
  intros regs ops tr st oc H B HI. destruct (recover_step _ _ _ _ oc H B HI) as [st' [E _]].
  exists st'. eexists. split; [exact E|].
  destruct (state_is_live _ _ _ _ H B HI) as [F0 [_ [[Srt _] _]]].
  unfold replay_spec. split; [reflexivity|]. split; [|split; [|split; [|split]]].
  - intros c Hc. pose proof (expected_calls_sub _ _ _ _ Hc) as Hin. apply in_live in Hin.
    destruct (expected_calls_outcome _ _ _ _ Hc) as [Ho _]. tauto.
  - rewrite <- map_map. eapply subseq_sorted; [apply expected_calls_subseq | exact Srt].
  - apply expected_calls_subseq.
  - apply expected_calls_no_crash.
  - apply expected_calls_crash_last.
Qed.

Lemma sorted_same_id : forall L a b,
  StronglySorted N.lt (map e_id L) -> In a L -> In b L -> e_id a = e_id b -> a = b.
Proof.
  induction L as [|x l IH]; intros a b Srt Ha Hb E; [contradiction|].
  simpl in Srt. inversion Srt as [|? ? Sl Hx]; subst. rewrite Forall_forall in Hx.
  destruct Ha as [<-|Ha]; destruct Hb as [<-|Hb]; auto.
  - specialize (Hx _ (in_map e_id _ _ Hb)). lia.
  - specialize (Hx _ (in_map e_id _ _ Ha)). lia.
Qed.

(* C16_removed_iff: after a recovery an event is gone iff its handler succeeded or declared it unnecessary *)
Lemma removed_iff : forall regs ops tr st oc st' calls,
  run (init regs) ops = (tr, st) -> seq st < two64N -> Forall op_inert ops ->
  step st (Recover oc) = (st', RRecovered calls) ->
  (exists F, wfkv (kv st') (live (tr ++ [(Recover oc, RRecovered calls)])) F) /\
  forall e, In e (live tr) ->
    (~ In e (live (tr ++ [(Recover oc, RRecovered calls)])) <->
     exists o, In (e, o) calls /\ (o = OOk \/ o = ONotNeeded)).
Proof.
  intros regs ops tr st oc st' calls H B HI E.
  destruct (recover_step _ _ _ _ oc H B HI) as [st2 [E2 [_ [_ [_ [_ [F W]]]]]]].
  rewrite E2 in E. inversion E; subst st2 calls. clear E.
  split; [exists F; rewrite live_snoc_recover; exact W|].
  destruct (state_is_live _ _ _ _ H B HI) as [F0 [_ [[Srt Rng] _]]].
  intros e He.
  rewrite live_snoc_recover, filter_In. unfold not_in. rewrite negb_true_iff.
  split.
  - intro N. destruct (memN (e_id e) (removed_by (expected_calls (reg st) oc (live tr)))) eqn:M; [|tauto].
    apply memN_In, removed_by_sub in M. destruct M as [c [Hc [Eid Rm]]].
    pose proof (expected_calls_sub _ _ _ _ Hc) as Hin.
    assert (fst c = e) by (eapply sorted_same_id; eassumption).
    exists (snd c). split; [rewrite <- H0; destruct c; exact Hc|].
    destruct (snd c); simpl in Rm; try discriminate; auto.
  - intros [o [Hc Ho]] [_ M].
    assert (In (e_id e) (removed_by (expected_calls (reg st) oc (live tr)))).
    { unfold removed_by. apply in_map_iff. exists (e, o). split; [reflexivity|]. apply filter_In.
      split; [exact Hc|]. destruct Ho as [-> | ->]; reflexivity. }
    apply memN_In in H0. congruence.
Qed.

(* a foreign entry Recover CAN take for an event (parsable key under /events/, decodable value) is
   handed to its handler although nothing logged it -- the WAL trusts its file *)
Lemma wellformed_foreign_event_is_replayed :
  exists ops oc calls, ~ op_inert (nth 0 ops (Commit 0)) /\
    snd (step (snd (run (init [0]) ops)) (Recover oc)) = RRecovered calls /\
    logged (fst (run (init [0]) ops)) = [] /\ calls <> [].
Proof.
  exists [Inject (s2l "/events/a") (Some (0, 77))], [], [(mkEntry 10 0 77, OOk)].
  split; [|vm_compute; repeat split; try reflexivity; discriminate].
  simpl. intros [_ [H|[H|H]]]; vm_compute in H; discriminate.
Qed.

(* hypotheses are satisfiable and the statements are not vacuous *)
Example wal_example :
  let ops := [Log 0 1 true; Log 1 2 true; Log 0 3 true; Commit 1; Reopen 2 [0; 1];
              Log 1 4 true; Recover [(1, OHandleErr); (4, ONotNeeded)]; Recover []] in
  let '(tr, st) := run (init [0; 1]) ops in
  seq st < two64N /\ logged_ids tr = [1; 2; 3; 6] /\
  map e_item (live tr) = [] /\
  exists c1 c2, nth_error tr 6 = Some (Recover [(1, OHandleErr); (4, ONotNeeded)], RRecovered c1)
                /\ map (fun c => (e_item (fst c), snd c)) c1 = [(1, OHandleErr); (3, OOk); (4, ONotNeeded)]
                /\ nth_error tr 7 = Some (Recover [], RRecovered c2)
                /\ map (fun c => (e_item (fst c), snd c)) c2 = [(1, OOk)].
Proof. vm_compute. repeat split; try reflexivity. eexists. eexists. repeat split. Qed.

Lemma key_roundtrip_range : forall id, 1 <= id -> id < two64N -> parse_event_id (event_key id) = Some id.
Proof. intros id H1 H2. apply key_roundtrip. split; assumption. Qed.
