(* Proofs about Wal/Model.v (C16). *)
From Coq Require Import List Bool Arith NArith String Ascii Lia Sorted.
From Verif Require Import Base.GoStr Base.GoStrLemmas Wal.Model.
Import ListNotations.
Open Scope list_scope.
Local Open Scope N_scope.

(* ================================================================== *)
(* key codec                                                           *)

Lemma event_key_shape : forall id, event_key id = event_prefix ++ hex16 id.
Proof.
  intro id. unfold event_key. set (h := hex16 id).
  change (join_path [event_prefix; h]) with (clean (slash :: join [slash] [s2l "events"; []; h])).
  rewrite clean_rooted.
  - pose proof (hex16_safe id) as S. fold h in S. destruct S as [Hn _].
    destruct h as [|c h']; [congruence|]. reflexivity.
  - constructor; [right|constructor; [left; reflexivity|constructor; [right; apply hex16_safe|constructor]]].
    unfold safe_elem, no_byte. repeat split; try reflexivity. discriminate.
Qed.

Definition valid_id (id : N) : Prop := 1 <= id /\ id < two64N.

Lemma key_roundtrip : forall id, valid_id id -> parse_event_id (event_key id) = Some id.
Proof.
  intros id [H1 H2]. unfold parse_event_id. rewrite event_key_shape, trim_prefix_app.
  apply parse_hex16; assumption.
Qed.

Lemma key_order : forall a b, a < b -> b < two64N -> bytes_ltb (event_key a) (event_key b) = true.
Proof. intros a b H1 H2. rewrite !event_key_shape, bytes_ltb_app_common. apply hex16_lt; assumption. Qed.

Lemma key_order_iff : forall a b, a < two64N -> b < two64N ->
  (bytes_ltb (event_key a) (event_key b) = true <-> a < b).
Proof.
  intros a b Ha Hb. split; [|intro; apply key_order; assumption].
  intro H. destruct (N.lt_trichotomy a b) as [L|[E|G]]; [exact L| |].
  - subst. rewrite bytes_ltb_irrefl in H. discriminate.
  - apply key_order in G; [|exact Ha]. rewrite (bytes_ltb_asym _ _ G) in H. discriminate.
Qed.

Lemma key_inj : forall a b, a < two64N -> b < two64N -> event_key a = event_key b -> a = b.
Proof.
  intros a b Ha Hb E. destruct (N.lt_trichotomy a b) as [L|[?|G]]; [|assumption|].
  - apply key_order in L; [|exact Hb]. rewrite E, bytes_ltb_irrefl in L. discriminate.
  - apply key_order in G; [|exact Ha]. rewrite E, bytes_ltb_irrefl in G. discriminate.
Qed.

Lemma key_has_prefix : forall id, has_prefix event_prefix (event_key id) = true.
Proof. intro. rewrite event_key_shape. apply has_prefix_app. Qed.
Lemma key_not_below_prefix : forall id, bytes_ltb (event_key id) event_prefix = false.
Proof. intro. rewrite event_key_shape. apply bytes_ltb_prefix_nlt. Qed.

(* from here on the codec is used through the lemmas above only *)
Opaque event_key parse_event_id event_prefix.

(* ================================================================== *)
(* the bucket as a list of entries                                     *)

Definition key_of (e : entry) : bytes * (N * N) := (event_key (e_id e), (e_typ e, e_item e)).
Definition kv_of (L : list entry) : kvstore := map key_of L.

(* ids strictly increasing and within 1 .. s *)
Definition ids_ok (L : list entry) (s : N) : Prop :=
  StronglySorted N.lt (map e_id L) /\ Forall (fun e => 1 <= e_id e /\ e_id e <= s) L.

Lemma ids_ok_filter : forall f L s, ids_ok L s -> ids_ok (filter f L) s.
Proof.
  intros f L s [S R]. split.
  - clear R. induction L as [|e t IH]; simpl; [constructor|].
    simpl in S. inversion S as [|? ? St He]; subst.
    destruct (f e); [|apply IH; exact St].
    simpl. constructor; [apply IH; exact St|].
    rewrite Forall_forall in He |- *. intros x Hx. apply He.
    apply in_map_iff in Hx. destruct Hx as [y [<- Hy]]. apply filter_In in Hy. apply in_map. tauto.
  - rewrite Forall_forall in R |- *. intros x Hx. apply filter_In in Hx. apply R. tauto.
Qed.
Lemma ids_ok_mono : forall L s s', ids_ok L s -> s <= s' -> ids_ok L s'.
Proof.
  intros L s s' [S R] H. split; [exact S|].
  rewrite Forall_forall in R |- *. intros x Hx. specialize (R x Hx). lia.
Qed.

Lemma kv_put_append : forall L s id t i, ids_ok L s -> s < id -> id < two64N ->
  kv_put (event_key id) (t, i) (kv_of L) = kv_of (L ++ [mkEntry id t i]).
Proof.
  intros L s id t i [_ R] Hs Hid. induction L as [|e L IH]; [reflexivity|].
  inversion R as [|? ? [He1 He2] Rt]; subst.
  cbn [kv_put kv_of map key_of app fst snd].
  assert (Lt : bytes_ltb (event_key (e_id e)) (event_key id) = true) by (apply key_order; lia).
  rewrite (bytes_ltb_asym _ _ Lt).
  assert (Ne : bytes_eqb (event_key id) (event_key (e_id e)) = false).
  { apply bytes_eqb_neq. intro E. rewrite E, bytes_ltb_irrefl in Lt. discriminate. }
  rewrite Ne. f_equal. apply IH. exact Rt.
Qed.

Lemma filter_id : forall (A : Type) (f : A -> bool) l, (forall x, In x l -> f x = true) -> filter f l = l.
Proof.
  induction l as [|a l IH]; intro H; simpl; [reflexivity|].
  rewrite (H a (or_introl eq_refl)). f_equal. apply IH. intros x Hx. apply H. right. exact Hx.
Qed.

Lemma kv_delete_filter : forall L s id, ids_ok L s -> s < two64N -> id < two64N ->
  kv_delete (event_key id) (kv_of L) = kv_of (filter (fun e => negb (N.eqb (e_id e) id)) L).
Proof.
  intros L s id [S R] Hs Hid. induction L as [|e L IH]; [reflexivity|].
  simpl in S. inversion S as [|? ? St He]; subst. inversion R as [|? ? [He1 He2] Rt]; subst.
  simpl. destruct (bytes_eqb (event_key id) (event_key (e_id e))) eqn:E.
  - apply bytes_eqb_eq in E. apply key_inj in E; [|exact Hid|lia]. subst id.
    rewrite N.eqb_refl. simpl.
    (* every later id is larger: nothing else is filtered *)
    f_equal. symmetry. apply filter_id.
    intros x Hx. apply negb_true_iff. apply N.eqb_neq.
    rewrite Forall_forall in He. specialize (He (e_id x) (in_map _ _ _ Hx)). lia.
  - assert (Ne : N.eqb (e_id e) id = false).
    { apply N.eqb_neq. intro C. subst id. rewrite bytes_eqb_refl in E. discriminate. }
    rewrite Ne. simpl. fold (key_of e). f_equal. apply IH; assumption.
Qed.

Lemma kv_scan_all : forall L, kv_scan event_prefix (kv_of L) = kv_of L.
Proof.
  intro L. unfold kv_scan.
  assert (A : kv_seek event_prefix (kv_of L) = kv_of L).
  { destruct L as [|e L]; [reflexivity|]. simpl. rewrite key_not_below_prefix. reflexivity. }
  rewrite A. clear A. induction L as [|e L IH]; [reflexivity|]. simpl. rewrite key_has_prefix. f_equal. exact IH.
Qed.

Lemma decode_kv_of : forall L s, ids_ok L s -> s < two64N -> decode_events (kv_of L) = L.
Proof.
  intros L s [_ R] Hs. induction L as [|e L IH]; [reflexivity|].
  inversion R as [|? ? [He1 He2] Rt]; subst. unfold decode_events in *. simpl.
  rewrite key_roundtrip by (split; lia). simpl. destruct e; simpl. f_equal. apply IH. exact Rt.
Qed.

(* ================================================================== *)
(* Recover on entries                                                  *)

(* walk the live events in order; skip types without handler; stop after a crash *)
Fixpoint expected_calls (regs : list N) (oc : list (N * outcome)) (events : list entry)
  : list (entry * outcome) :=
  match events with
  | [] => []
  | e :: rest =>
      if negb (memN (e_typ e) regs) then expected_calls regs oc rest
      else let o := lookup_oc (e_item e) oc in
           if crashes o then [(e, o)] else (e, o) :: expected_calls regs oc rest
  end.

Definition removed_by (calls : list (entry * outcome)) : list N :=
  map (fun c => e_id (fst c)) (filter (fun c => removes (snd c)) calls).

Definition not_in (R : list N) (e : entry) : bool := negb (memN (e_id e) R).

Lemma filter_filter_ids : forall id R (L : list entry),
  filter (not_in R) (filter (fun e => negb (N.eqb (e_id e) id)) L) = filter (not_in (id :: R)) L.
Proof.
  intros id R L. induction L as [|e L IH]; [reflexivity|]. simpl.
  unfold not_in at 2. simpl. destruct (N.eqb (e_id e) id) eqn:E; simpl.
  - exact IH.
  - unfold not_in at 1. destruct (memN (e_id e) R); simpl; [exact IH | f_equal; exact IH].
Qed.

Lemma filter_not_in_nil : forall L : list entry, filter (not_in []) L = L.
Proof. induction L as [|e L IH]; [reflexivity|]. simpl. f_equal. exact IH. Qed.

Lemma replay_entries : forall regs oc E L s,
  ids_ok L s -> s < two64N -> Forall (fun e => e_id e < two64N) E ->
  replay regs oc E (kv_of L) =
  (kv_of (filter (not_in (removed_by (expected_calls regs oc E))) L), expected_calls regs oc E).
Proof.
  intros regs oc E. induction E as [|e E IH]; intros L s OK Hs FE.
  - simpl. rewrite filter_not_in_nil. reflexivity.
  - inversion FE as [|? ? He FE']; subst. simpl.
    destruct (negb (memN (e_typ e) regs)); [apply (IH L s); assumption|].
    set (o := lookup_oc (e_item e) oc).
    destruct (removes o) eqn:Rm.
    + rewrite (kv_delete_filter L s (e_id e) OK Hs He).
      destruct (crashes o) eqn:Cr.
      * unfold removed_by. simpl. rewrite Rm. simpl.
        rewrite <- filter_filter_ids, filter_not_in_nil. reflexivity.
      * rewrite (IH _ s (ids_ok_filter _ _ _ OK) Hs FE').
        unfold removed_by at 2. simpl. rewrite Rm. simpl. fold (removed_by (expected_calls regs oc E)).
        rewrite filter_filter_ids. reflexivity.
    + destruct (crashes o) eqn:Cr.
      * unfold removed_by. simpl. rewrite Rm. simpl. rewrite filter_not_in_nil. reflexivity.
      * rewrite (IH L s OK Hs FE').
        unfold removed_by at 2. simpl. rewrite Rm. fold (removed_by (expected_calls regs oc E)). reflexivity.
Qed.

(* ================================================================== *)
(* traces                                                              *)

Definition trace := list (op * result).

Definition logged (tr : trace) : list entry :=
  flat_map (fun x => match x with
                     | (Log t i _, RLogged id) => [mkEntry id t i]
                     | _ => []
                     end) tr.
Definition logged_ids (tr : trace) : list N := map e_id (logged tr).

(* ids whose key a Commit deleted or a recovery removed *)
Definition removed_ids (tr : trace) : list N :=
  flat_map (fun x => match snd x with
                     | RCommitted id => [id]
                     | RRecovered calls => removed_by calls
                     | _ => []
                     end) tr.

(* logged and not removed, in logging order *)
Definition live (tr : trace) : list entry := filter (not_in (removed_ids tr)) (logged tr).

Lemma run_app : forall ops1 ops2 st,
  run st (ops1 ++ ops2) =
  let '(tr1, st1) := run st ops1 in let '(tr2, st2) := run st1 ops2 in (tr1 ++ tr2, st2).
Proof.
  induction ops1 as [|o ops1 IH]; intros ops2 st; simpl.
  - destruct (run st ops2). reflexivity.
  - destruct (step st o) as [st' r]. rewrite IH.
    destruct (run st' ops1) as [tr1 st1]. destruct (run st1 ops2) as [tr2 st2]. reflexivity.
Qed.

Lemma run_snoc : forall ops o st tr st1 st2 r,
  run st ops = (tr, st1) -> step st1 o = (st2, r) -> run st (ops ++ [o]) = (tr ++ [(o, r)], st2).
Proof. intros. rewrite run_app, H. simpl. rewrite H0. reflexivity. Qed.

Lemma logged_snoc : forall tr x, logged (tr ++ [x]) = logged tr ++ logged [x].
Proof. intros. unfold logged. rewrite flat_map_app. reflexivity. Qed.
Lemma removed_snoc : forall tr x, removed_ids (tr ++ [x]) = removed_ids tr ++ removed_ids [x].
Proof. intros. unfold removed_ids. rewrite flat_map_app. reflexivity. Qed.

Lemma memN_In : forall x l, memN x l = true <-> In x l.
Proof.
  induction l as [|y t IH]; simpl; [split; [discriminate|tauto]|].
  rewrite orb_true_iff, IH, N.eqb_eq. split; intros [H|H]; auto.
Qed.
Lemma memN_app : forall x a b, memN x (a ++ b) = memN x a || memN x b.
Proof. induction a as [|y a IH]; intro b; simpl; [reflexivity|]. rewrite IH. apply orb_assoc. Qed.

Lemma filter_not_in_app : forall R1 R2 (L : list entry),
  filter (not_in (R1 ++ R2)) L = filter (not_in R2) (filter (not_in R1) L).
Proof.
  intros R1 R2 L. induction L as [|e L IH]; [reflexivity|]. cbn [filter].
  assert (E : not_in (R1 ++ R2) e = not_in R1 e && not_in R2 e).
  { unfold not_in. rewrite memN_app, negb_orb. reflexivity. }
  rewrite E. destruct (not_in R1 e); cbn [andb filter].
  - destruct (not_in R2 e); [f_equal|]; exact IH.
  - exact IH.
Qed.

Lemma live_snoc_recover : forall tr oc calls,
  live (tr ++ [(Recover oc, RRecovered calls)]) = filter (not_in (removed_by calls)) (live tr).
Proof.
  intros. unfold live at 1. rewrite logged_snoc, removed_snoc. simpl. rewrite !app_nil_r.
  apply filter_not_in_app.
Qed.

(* the invariant tying the state to the trace *)
Record inv (tr : trace) (st : state) : Prop := mkInv {
  i_kv : kv st = kv_of (live tr);
  i_sorted : StronglySorted N.lt (logged_ids tr);
  i_range : Forall (fun id => 1 <= id /\ id <= seq st) (logged_ids tr);
  i_removed : Forall (fun id => id <= seq st) (removed_ids tr);
  i_issued : Forall (fun p => fst p <= seq st) (issued st)
}.

Lemma sorted_filter : forall (f : entry -> bool) L,
  StronglySorted N.lt (map e_id L) -> StronglySorted N.lt (map e_id (filter f L)).
Proof.
  intros f L S. induction L as [|e t IH]; simpl; [constructor|].
  simpl in S. inversion S as [|? ? St He]; subst.
  destruct (f e); [|apply IH; exact St]. simpl. constructor; [apply IH; exact St|].
  rewrite Forall_forall in He |- *. intros x Hx. apply He.
  apply in_map_iff in Hx. destruct Hx as [y [<- Hy]]. apply filter_In in Hy. apply in_map. tauto.
Qed.

Lemma inv_live_ok : forall tr st, inv tr st -> ids_ok (live tr) (seq st).
Proof.
  intros tr st I. split.
  - unfold live. apply sorted_filter. exact (i_sorted _ _ I).
  - pose proof (i_range _ _ I) as R. rewrite Forall_forall in R |- *.
    intros e He. unfold live in He. apply filter_In in He. apply R. unfold logged_ids. apply in_map. tauto.
Qed.

Lemma ss_snoc : forall l x, StronglySorted N.lt l -> Forall (fun y => y < x) l -> StronglySorted N.lt (l ++ [x]).
Proof.
  induction l as [|y l IH]; intros x S F; simpl; [constructor; constructor|].
  inversion S as [|? ? Sl Hy]; subst. inversion F as [|? ? Fy Fl]; subst.
  constructor; [apply IH; assumption|]. apply Forall_app. split; [exact Hy | constructor; [exact Fy|constructor]].
Qed.

Lemma seq_mono : forall st o st' r, step st o = (st', r) -> seq st <= seq st'.
Proof.
  intros st o st' r H. destruct o as [t i e|k|b rs|oc]; simpl in H.
  - destruct (negb (memN t (reg st))); [inversion H; lia|].
    destruct (negb e); inversion H; simpl; lia.
  - destruct (nth_error (issued st) k) as [[id g]|]; [|inversion H; lia].
    destruct (N.eqb g (gen st)); inversion H; simpl; lia.
  - inversion H; simpl; lia.
  - destruct (replay (reg st) oc (decode_events (kv_scan event_prefix (kv st))) (kv st)).
    inversion H; simpl; lia.
Qed.

Lemma Forall_le_mono : forall (l : list N) a b, a <= b -> Forall (fun id => id <= a) l -> Forall (fun id => id <= b) l.
Proof. intros l a b H F. rewrite Forall_forall in F |- *. intros x Hx. specialize (F x Hx). lia. Qed.

Lemma expected_calls_sub : forall regs oc E c, In c (expected_calls regs oc E) -> In (fst c) E.
Proof.
  induction E as [|e E IH]; intros c H; simpl in H; [contradiction|].
  destruct (negb (memN (e_typ e) regs)); [right; apply IH; exact H|].
  destruct (crashes (lookup_oc (e_item e) oc)).
  - destruct H as [<-|[]]. left. reflexivity.
  - destruct H as [<-|H]; [left; reflexivity | right; apply IH; exact H].
Qed.

Lemma removed_by_sub : forall calls id, In id (removed_by calls) -> exists c, In c calls /\ e_id (fst c) = id /\ removes (snd c) = true.
Proof.
  intros calls id H. unfold removed_by in H. apply in_map_iff in H. destruct H as [c [E Hc]].
  apply filter_In in Hc. exists c. tauto.
Qed.

(* one step preserves the invariant (as long as the sequence stays below 2^64) *)
Lemma step_inv : forall tr st o st' r,
  inv tr st -> step st o = (st', r) -> seq st' < two64N -> inv (tr ++ [(o, r)]) st'.
Proof.
  intros tr st o st' r I H B.
  pose proof (seq_mono _ _ _ _ H) as Mono.
  pose proof (inv_live_ok _ _ I) as OK.
  destruct I as [Ikv Isort Irange Irem Iiss].
  destruct o as [t i e|k|b rs|oc]; simpl in H.
  - (* Log *)
    destruct (negb (memN t (reg st))) eqn:Ereg.
    { inversion H; subst st' r. constructor; simpl;
        unfold live, logged_ids; rewrite ?logged_snoc, ?removed_snoc; simpl; rewrite ?app_nil_r; assumption. }
    destruct (negb e) eqn:Eenc.
    { inversion H; subst st' r. constructor; simpl;
        unfold live, logged_ids; rewrite ?logged_snoc, ?removed_snoc; simpl; rewrite ?app_nil_r; assumption. }
    inversion H; subst st' r. clear H. simpl in *.
    set (id := seq st + 1) in *.
    assert (Fresh : memN id (removed_ids tr) = false).
    { destruct (memN id (removed_ids tr)) eqn:E; [|reflexivity]. apply memN_In in E.
      rewrite Forall_forall in Irem. specialize (Irem _ E). lia. }
    constructor; simpl.
    + unfold live. rewrite logged_snoc, removed_snoc. simpl. rewrite app_nil_r.
      rewrite filter_app. simpl. unfold not_in at 2. simpl. rewrite Fresh. simpl.
      rewrite Ikv. eapply kv_put_append; [exact OK | lia | exact B].
    + unfold logged_ids. rewrite logged_snoc, map_app. simpl. apply ss_snoc; [exact Isort|].
      rewrite Forall_forall in Irange |- *. intros y Hy. specialize (Irange y Hy). lia.
    + unfold logged_ids. rewrite logged_snoc, map_app. simpl. apply Forall_app. split.
      * rewrite Forall_forall in Irange |- *. intros y Hy. specialize (Irange y Hy). lia.
      * constructor; [lia|constructor].
    + rewrite removed_snoc. simpl. rewrite app_nil_r. eapply Forall_le_mono; [|exact Irem]. lia.
    + apply Forall_app. split; [|constructor; [simpl; lia|constructor]].
      rewrite Forall_forall in Iiss |- *. intros p Hp. specialize (Iiss p Hp). lia.
  - (* Commit *)
    destruct (nth_error (issued st) k) as [[id g]|] eqn:En.
    2:{ inversion H; subst st' r. constructor; simpl;
        unfold live, logged_ids; rewrite ?logged_snoc, ?removed_snoc; simpl; rewrite ?app_nil_r; assumption. }
    destruct (N.eqb g (gen st)).
    2:{ inversion H; subst st' r. constructor; simpl;
        unfold live, logged_ids; rewrite ?logged_snoc, ?removed_snoc; simpl; rewrite ?app_nil_r; assumption. }
    inversion H; subst st' r. clear H. simpl in *.
    assert (Hid : id <= seq st).
    { apply nth_error_In in En. rewrite Forall_forall in Iiss. apply (Iiss _ En). }
    constructor; simpl.
    + unfold live. rewrite logged_snoc, removed_snoc. simpl. rewrite app_nil_r.
      rewrite filter_not_in_app. fold (live tr). rewrite Ikv.
      rewrite (kv_delete_filter _ _ id OK B) by lia.
      f_equal. apply filter_ext. intro x. unfold not_in. simpl. rewrite orb_false_r. reflexivity.
    + unfold logged_ids. rewrite logged_snoc. simpl. rewrite app_nil_r. exact Isort.
    + unfold logged_ids. rewrite logged_snoc. simpl. rewrite app_nil_r. exact Irange.
    + rewrite removed_snoc. simpl. apply Forall_app. split; [exact Irem | constructor; [exact Hid|constructor]].
    + exact Iiss.
  - (* Reopen *)
    inversion H; subst st' r. clear H. simpl in *.
    constructor; simpl; unfold live, logged_ids; rewrite ?logged_snoc, ?removed_snoc; simpl; rewrite ?app_nil_r.
    + exact Ikv.
    + exact Isort.
    + rewrite Forall_forall in Irange |- *. intros y Hy. specialize (Irange y Hy). lia.
    + eapply Forall_le_mono; [|exact Irem]. lia.
    + rewrite Forall_forall in Iiss |- *. intros p Hp. specialize (Iiss p Hp). lia.
  - (* Recover *)
    assert (Bs : seq st < two64N) by lia.
    rewrite Ikv, kv_scan_all, (decode_kv_of _ _ OK Bs) in H.
    rewrite (replay_entries (reg st) oc (live tr) (live tr) (seq st) OK Bs) in H.
    2:{ destruct OK as [_ R]. rewrite Forall_forall in R |- *. intros x Hx. specialize (R x Hx). lia. }
    inversion H; subst st' r. clear H. simpl in *.
    constructor; simpl.
    + rewrite live_snoc_recover. reflexivity.
    + unfold logged_ids. rewrite logged_snoc. simpl. rewrite app_nil_r. exact Isort.
    + unfold logged_ids. rewrite logged_snoc. simpl. rewrite app_nil_r. exact Irange.
    + rewrite removed_snoc. simpl. rewrite app_nil_r. apply Forall_app. split; [exact Irem|].
      rewrite Forall_forall. intros id Hid. apply removed_by_sub in Hid. destruct Hid as [c [Hc [E _]]].
      apply expected_calls_sub in Hc. destruct OK as [_ R]. rewrite Forall_forall in R.
      specialize (R _ Hc). lia.
    + exact Iiss.
Qed.

Lemma inv_init : forall regs, inv [] (init regs).
Proof. intro. constructor; simpl; try constructor. Qed.

Lemma run_seq_mono : forall ops st tr st', run st ops = (tr, st') -> seq st <= seq st'.
Proof.
  induction ops as [|o ops IH]; intros st tr st' H; simpl in H.
  - inversion H. lia.
  - destruct (step st o) as [s1 r] eqn:E. destruct (run s1 ops) as [tr1 fin] eqn:R. inversion H; subst.
    apply seq_mono in E. apply IH in R. lia.
Qed.

Lemma run_inv : forall regs ops tr st,
  run (init regs) ops = (tr, st) -> seq st < two64N -> inv tr st.
Proof.
  intros regs ops. induction ops as [|o ops IH] using rev_ind; intros tr st H B.
  - simpl in H. inversion H; subst. apply inv_init.
  - rewrite run_app in H. destruct (run (init regs) ops) as [tr1 st1] eqn:R1.
    simpl in H. destruct (step st1 o) as [st2 r] eqn:E. inversion H; subst tr st. clear H.
    eapply step_inv; [apply (IH tr1 st1 eq_refl)| exact E | exact B].
    apply seq_mono in E. lia.
Qed.

(* ================================================================== *)
(* the theorems                                                        *)

(* ids returned by Log strictly increase over the whole history (across Reopen and crashed
   Logs), so none is ever reused; bbolt starts at 1 *)
Lemma ids_fresh : forall regs ops tr st,
  run (init regs) ops = (tr, st) -> seq st < two64N ->
  StronglySorted N.lt (logged_ids tr) /\ Forall (fun id => 1 <= id /\ id <= seq st) (logged_ids tr).
Proof. intros regs ops tr st H B. pose proof (run_inv _ _ _ _ H B) as I. split; [apply I | apply I]. Qed.

(* the file holds exactly the events logged and not removed, in id order *)
Lemma state_is_live : forall regs ops tr st,
  run (init regs) ops = (tr, st) -> seq st < two64N ->
  kv st = kv_of (live tr) /\ ids_ok (live tr) (seq st).
Proof. intros regs ops tr st H B. pose proof (run_inv _ _ _ _ H B) as I. split; [apply I | apply inv_live_ok; exact I]. Qed.

Lemma reopen_snapshot : forall regs ops tr st b rs,
  run (init regs) ops = (tr, st) -> seq st < two64N ->
  snd (step st (Reopen b rs)) = RReopened (kv_of (live tr)).
Proof. intros. simpl. destruct (state_is_live _ _ _ _ H H0) as [-> _]. reflexivity. Qed.

Lemma recover_step : forall regs ops tr st oc,
  run (init regs) ops = (tr, st) -> seq st < two64N ->
  step st (Recover oc) =
  (mkState (seq st) (kv_of (filter (not_in (removed_by (expected_calls (reg st) oc (live tr)))) (live tr)))
           (reg st) (gen st) (issued st),
   RRecovered (expected_calls (reg st) oc (live tr))).
Proof.
  intros regs ops tr st oc H B. destruct (state_is_live _ _ _ _ H B) as [Ikv OK].
  simpl. rewrite Ikv, kv_scan_all, (decode_kv_of _ _ OK B).
  rewrite (replay_entries (reg st) oc (live tr) (live tr) (seq st) OK B); [reflexivity|].
  destruct OK as [_ R]. rewrite Forall_forall in R |- *. intros x Hx. specialize (R x Hx). lia.
Qed.

(* sub-sequence: order and multiplicity are inherited from the live list *)
Inductive subseq {A} : list A -> list A -> Prop :=
| sub_nil : forall l, subseq [] l
| sub_take : forall x a l, subseq a l -> subseq (x :: a) (x :: l)
| sub_skip : forall x a l, subseq a l -> subseq a (x :: l).

Lemma expected_calls_subseq : forall regs oc E, subseq (map fst (expected_calls regs oc E)) E.
Proof.
  induction E as [|e E IH]; simpl; [constructor|].
  destruct (negb (memN (e_typ e) regs)); [apply sub_skip; exact IH|].
  destruct (crashes (lookup_oc (e_item e) oc)); simpl.
  - apply sub_take. constructor.
  - apply sub_take. exact IH.
Qed.

Lemma subseq_sorted : forall (a l : list entry), subseq a l ->
  StronglySorted N.lt (map e_id l) -> StronglySorted N.lt (map e_id a).
Proof.
  intros a l S. induction S as [l|x a l S IH|x a l S IH]; intro H; simpl in *.
  - constructor.
  - inversion H as [|? ? Hl Hx]; subst. constructor; [apply IH; exact Hl|].
    rewrite Forall_forall in Hx |- *. intros y Hy. apply Hx.
    clear - S Hy. induction S; simpl in *; [contradiction| |].
    + destruct Hy as [<-|Hy]; [left; reflexivity | right; apply IHS; exact Hy].
    + right. apply IHS. exact Hy.
  - inversion H; subst. apply IH. assumption.
Qed.

Lemma expected_calls_no_crash : forall regs oc E,
  (forall e, In e E -> memN (e_typ e) regs = true -> crashes (lookup_oc (e_item e) oc) = false) ->
  map fst (expected_calls regs oc E) = filter (fun e => memN (e_typ e) regs) E.
Proof.
  induction E as [|e E IH]; intro H; simpl; [reflexivity|].
  destruct (memN (e_typ e) regs) eqn:M; simpl.
  - rewrite (H e (or_introl eq_refl) M). simpl. f_equal. apply IH. intros x Hx. apply H. right. exact Hx.
  - apply IH. intros x Hx. apply H. right. exact Hx.
Qed.

Lemma expected_calls_outcome : forall regs oc E c, In c (expected_calls regs oc E) ->
  snd c = lookup_oc (e_item (fst c)) oc /\ memN (e_typ (fst c)) regs = true.
Proof.
  induction E as [|e E IH]; intros c H; simpl in H; [contradiction|].
  destruct (memN (e_typ e) regs) eqn:M; simpl in H; [|apply IH; exact H].
  destruct (crashes (lookup_oc (e_item e) oc)).
  - destruct H as [<-|[]]. simpl. auto.
  - destruct H as [<-|H]; [simpl; auto | apply IH; exact H].
Qed.

(* a crash, if any, is the last call *)
Lemma expected_calls_crash_last : forall regs oc E pre c post,
  expected_calls regs oc E = pre ++ c :: post -> crashes (snd c) = true -> post = [].
Proof.
  induction E as [|e E IH]; intros pre c post H Cr; simpl in H.
  - destruct pre; discriminate.
  - destruct (negb (memN (e_typ e) regs)); [eapply IH; eassumption|].
    destruct (crashes (lookup_oc (e_item e) oc)) eqn:C.
    + destruct pre as [|p pre]; inversion H; subst; [reflexivity|]. destruct pre; discriminate.
    + destruct pre as [|p pre]; inversion H; subst.
      * simpl in Cr. congruence.
      * eapply IH; eassumption.
Qed.

Lemma in_live : forall tr e, In e (live tr) <-> In e (logged tr) /\ ~ In (e_id e) (removed_ids tr).
Proof.
  intros. unfold live. rewrite filter_In. unfold not_in. rewrite negb_true_iff.
  rewrite <- (memN_In (e_id e) (removed_ids tr)). destruct (memN (e_id e) (removed_ids tr)); intuition congruence.
Qed.

(* C16_replay, assembled *)
Definition replay_spec (tr : trace) (regs : list N) (oc : list (N * outcome)) (calls : list (entry * outcome)) : Prop :=
  (* exactly the walk over the live events *)
  calls = expected_calls regs oc (live tr) /\
  (* only events that were logged and neither committed nor removed by an earlier recovery *)
  (forall c, In c calls -> In (fst c) (logged tr) /\ ~ In (e_id (fst c)) (removed_ids tr)
                           /\ snd c = lookup_oc (e_item (fst c)) oc) /\
  (* in increasing id (= logging) order, each at most once *)
  StronglySorted N.lt (map (fun c => e_id (fst c)) calls) /\
  subseq (map fst calls) (live tr) /\
  (* all of them (that have a handler), unless the process died in a handler, which then is the last call *)
  ((forall e, In e (live tr) -> memN (e_typ e) regs = true -> crashes (lookup_oc (e_item e) oc) = false) ->
     map fst calls = filter (fun e => memN (e_typ e) regs) (live tr)) /\
  (forall pre c post, calls = pre ++ c :: post -> crashes (snd c) = true -> post = []).

Lemma replay_theorem : forall regs ops tr st oc,
  run (init regs) ops = (tr, st) -> seq st < two64N ->
  exists st' calls, step st (Recover oc) = (st', RRecovered calls) /\ replay_spec tr (reg st) oc calls.
Proof.
  intros regs ops tr st oc H B. eexists. eexists. split; [apply (recover_step _ _ _ _ _ H B)|].
  destruct (state_is_live _ _ _ _ H B) as [_ [Srt _]].
  unfold replay_spec. split; [reflexivity|]. split; [|split; [|split; [|split]]].
  - intros c Hc. pose proof (expected_calls_sub _ _ _ _ Hc) as Hin. apply in_live in Hin.
    destruct (expected_calls_outcome _ _ _ _ Hc) as [Ho _]. tauto.
  - rewrite <- map_map. eapply subseq_sorted; [apply expected_calls_subseq | exact Srt].
  - apply expected_calls_subseq.
  - apply expected_calls_no_crash.
  - apply expected_calls_crash_last.
Qed.

Lemma sorted_same_id : forall L a b,
  StronglySorted N.lt (map e_id L) -> In a L -> In b L -> e_id a = e_id b -> a = b.
Proof.
  induction L as [|x l IH]; intros a b Srt Ha Hb E; [contradiction|].
  simpl in Srt. inversion Srt as [|? ? Sl Hx]; subst. rewrite Forall_forall in Hx.
  destruct Ha as [<-|Ha]; destruct Hb as [<-|Hb]; auto.
  - specialize (Hx _ (in_map e_id _ _ Hb)). lia.
  - specialize (Hx _ (in_map e_id _ _ Ha)). lia.
Qed.

(* C16_removed_iff: after a recovery an event is gone iff its handler succeeded or declared it unnecessary *)
Lemma removed_iff : forall regs ops tr st oc st' calls,
  run (init regs) ops = (tr, st) -> seq st < two64N ->
  step st (Recover oc) = (st', RRecovered calls) ->
  kv st' = kv_of (live (tr ++ [(Recover oc, RRecovered calls)])) /\
  forall e, In e (live tr) ->
    (~ In e (live (tr ++ [(Recover oc, RRecovered calls)])) <->
     exists o, In (e, o) calls /\ (o = OOk \/ o = ONotNeeded)).
Proof.
  intros regs ops tr st oc st' calls H B E.
  pose proof (run_snoc _ _ _ _ _ _ _ H E) as H2.
  assert (B2 : seq st' < two64N).
  { rewrite (recover_step _ _ _ _ _ H B) in E. inversion E; subst. simpl. exact B. }
  destruct (state_is_live _ _ _ _ H2 B2) as [K2 _]. split; [exact K2|].
  destruct (state_is_live _ _ _ _ H B) as [_ [Srt Rng]].
  intros e He.
  rewrite live_snoc_recover, filter_In. unfold not_in. rewrite negb_true_iff.
  rewrite (recover_step _ _ _ _ _ H B) in E. inversion E; subst calls. clear E.
  split.
  - intro N. destruct (memN (e_id e) (removed_by (expected_calls (reg st) oc (live tr)))) eqn:M; [|tauto].
    apply memN_In, removed_by_sub in M. destruct M as [c [Hc [Eid Rm]]].
    pose proof (expected_calls_sub _ _ _ _ Hc) as Hin.
    (* same id in a strictly sorted list: same entry *)
    assert (fst c = e) by (eapply sorted_same_id; eassumption).
    exists (snd c). split; [rewrite <- H0; destruct c; exact Hc|].
    destruct (snd c); simpl in Rm; try discriminate; auto.
  - intros [o [Hc Ho]] [_ M].
    assert (In (e_id e) (removed_by (expected_calls (reg st) oc (live tr)))).
    { unfold removed_by. apply in_map_iff. exists (e, o). split; [reflexivity|]. apply filter_In.
      split; [exact Hc|]. destruct Ho as [-> | ->]; reflexivity. }
    apply memN_In in H0. congruence.
Qed.

(* hypotheses are satisfiable and the statements are not vacuous *)
Example wal_example :
  let ops := [Log 0 1 true; Log 1 2 true; Log 0 3 true; Commit 1; Reopen 2 [0; 1];
              Log 1 4 true; Recover [(1, OHandleErr); (4, ONotNeeded)]; Recover []] in
  let '(tr, st) := run (init [0; 1]) ops in
  seq st < two64N /\ logged_ids tr = [1; 2; 3; 6] /\
  map e_item (live tr) = [] /\
  exists c1 c2, nth_error tr 6 = Some (Recover [(1, OHandleErr); (4, ONotNeeded)], RRecovered c1)
                /\ map (fun c => (e_item (fst c), snd c)) c1 = [(1, OHandleErr); (3, OOk); (4, ONotNeeded)]
                /\ nth_error tr 7 = Some (Recover [], RRecovered c2)
                /\ map (fun c => (e_item (fst c), snd c)) c2 = [(1, OOk)].
Proof. vm_compute. repeat split; try reflexivity. eexists. eexists. repeat split. Qed.

Lemma key_roundtrip_range : forall id, 1 <= id -> id < two64N -> parse_event_id (event_key id) = Some id.
Proof. intros id H1 H2. apply key_roundtrip. split; assumption. Qed.
