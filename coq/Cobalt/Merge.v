(* Model of resource/cobalt/node.go: Manager.mergeCapacity and
   Manager.GetNodesDeployCapacity (after the two `fix:` commits: the first
   plugin's usage/rate are weighted like every other one, and the total
   saturates).

   A plugin answer is the NodeDeployCapacityMap of its response: a Go map
   node name -> {Capacity, Usage, Rate, Weight}, represented as an association
   list (the harness emits it sorted by key; keys are unique because it is a Go
   map).  The plugin answers arrive in the iteration order of a Go map keyed by
   plugin (cobalt/call.go collects them into map[plugins.Plugin]T): that order
   is the list order of [answers] here, and the theorems quantify over all of
   its permutations.  The iteration order over the merged map in the totalling
   loop is the list order of the merged list; the total is proved independent
   of it.

   The model is generic in the number type of usage/rate/weight so that the
   same text can be read over binary64 (what the code computes; used by the
   correspondence check) and over any commutative semiring with division
   (used to state the order-independence of the value of the exact
   expression).  No proofs in this file. *)
From Coq Require Import List ZArith String Bool QArith Qabs.
From Flocq Require Import IEEE754.Binary IEEE754.Bits.
From Verif Require Import Base.GoInt Base.GoFloat Base.RunLib.
Import ListNotations.
Local Open Scope Z_scope.

Section Gen.
  Variable T : Type.
  Variables add mul div : T -> T -> T.

  Record ndc := mkNdc { n_cap : Z; n_usage : T; n_rate : T; n_weight : T }.
  Definition amap := list (string * ndc).

  Fixpoint lookup (k : string) (m : amap) : option ndc :=
    match m with
    | [] => None
    | (k', v) :: t => if String.eqb k k' then Some v else lookup k t
    end.

  (* first answer (m1 == nil): a fresh map with usage and rate weighted *)
  Definition weigh (i : ndc) : ndc :=
    mkNdc (n_cap i) (mul (n_usage i) (n_weight i)) (mul (n_rate i) (n_weight i)) (n_weight i).

  (* Capacity: utils.Min; Rate: info1.Rate + info2.Rate*info2.Weight; same for
     Usage; Weight: info1.Weight + info2.Weight *)
  Definition merge2 (i1 i2 : ndc) : ndc :=
    mkNdc (Z.min (n_cap i1) (n_cap i2))
          (add (n_usage i1) (mul (n_usage i2) (n_weight i2)))
          (add (n_rate i1) (mul (n_rate i2) (n_weight i2)))
          (add (n_weight i1) (n_weight i2)).

  Definition merge_capacity (m1 : option amap) (m2 : amap) : amap :=
    match m1 with
    | None => map (fun kv => (fst kv, weigh (snd kv))) m2
    | Some m1 =>
        flat_map (fun kv => match lookup (fst kv) m2 with
                            | Some i2 => [(fst kv, merge2 (snd kv) i2)]
                            | None => []
                            end) m1
    end.

  Definition merge_all (answers : list amap) : option amap :=
    fold_left (fun acc a => Some (merge_capacity acc a)) answers None.

  (* info.Rate /= info.Weight; info.Usage /= info.Weight *)
  Definition finish (i : ndc) : ndc :=
    mkNdc (n_cap i) (div (n_usage i) (n_weight i)) (div (n_rate i) (n_weight i)) (n_weight i).

  (* if total == MaxInt64 || info.Capacity >= MaxInt64-total { total = MaxInt64 }
     else { total += info.Capacity }   (int64 arithmetic wraps) *)
  Definition total_step (total cap : Z) : Z :=
    if (total =? max_int) || (wrap64 (max_int - total) <=? cap) then max_int
    else wrap64 (total + cap).

  Definition total_of (caps : list Z) : Z := fold_left total_step caps 0.

  (* the merged map after the division, and the total computed in the list
     order of the merged map; nil map (no plugin) = empty *)
  Definition gndc (answers : list amap) : amap * Z :=
    match merge_all answers with
    | None => ([], 0)
    | Some m => (map (fun kv => (fst kv, finish (snd kv))) m,
                 total_of (map (fun kv => n_cap (snd kv)) m))
    end.
  (* the infos of node [n] in every answer, None if some plugin does not offer it *)
  Fixpoint infos_of (n : string) (answers : list amap) : option (list ndc) :=
    match answers with
    | [] => Some []
    | a :: t => match lookup n a, infos_of n t with
                | Some i, Some l => Some (i :: l)
                | _, _ => None
                end
    end.
End Gen.

Arguments mkNdc {T}.
Arguments n_cap {T}. Arguments n_usage {T}. Arguments n_rate {T}. Arguments n_weight {T}.
Arguments lookup {T}. Arguments weigh {T}. Arguments merge2 {T}.
Arguments merge_capacity {T}. Arguments merge_all {T}. Arguments finish {T}.
Arguments gndc {T}. Arguments infos_of {T}. Arguments total_step : clear implicits. Arguments total_of : clear implicits.

(* ------------------------------------------------------------------ *)
(* binary64 instance: what the Go code computes                        *)

Definition fndc := ndc f64.
Definition famap := list (string * fndc).
Definition gndc_f (answers : list famap) : famap * Z := gndc fadd fmul fdiv answers.

(* all permutations of a list (the possible answer orders) *)
Fixpoint insert_all {A} (x : A) (l : list A) : list (list A) :=
  match l with
  | [] => [[x]]
  | y :: t => (x :: l) :: map (cons y) (insert_all x t)
  end.
Fixpoint perms {A} (l : list A) : list (list A) :=
  match l with
  | [] => [[]]
  | x :: t => flat_map (insert_all x) (perms t)
  end.

(* observable equality of floats: same bits, all NaNs identified *)
Definition f_is_nan (a : f64) : bool := Binary.is_nan 53 1024 a.
Definition f_obs_eqb (a b : f64) : bool :=
  if f_is_nan a then f_is_nan b else if f_is_nan b then false else fbits_eqb a b.

Definition ndc_eqb (a b : fndc) : bool :=
  Z.eqb (n_cap a) (n_cap b) && f_obs_eqb (n_usage a) (n_usage b)
  && f_obs_eqb (n_rate a) (n_rate b) && f_obs_eqb (n_weight a) (n_weight b).
Definition entry_eqb (a b : string * fndc) : bool :=
  String.eqb (fst a) (fst b) && ndc_eqb (snd a) (snd b).

(* sort an association list by key (insertion sort; keys are unique) *)
Definition str_leb (a b : string) : bool :=
  match String.compare a b with Gt => false | _ => true end.
Fixpoint ins_sorted {V} (kv : string * V) (l : list (string * V)) : list (string * V) :=
  match l with
  | [] => [kv]
  | h :: t => if str_leb (fst kv) (fst h) then kv :: l else h :: ins_sorted kv t
  end.
Definition sort_keys {V} (l : list (string * V)) : list (string * V) :=
  fold_right ins_sorted [] l.

Definition result_eqb (r1 r2 : famap * Z) : bool :=
  list_eqb entry_eqb (sort_keys (fst r1)) (sort_keys (fst r2)) && Z.eqb (snd r1) (snd r2).

(* ---- cases of the correspondence check ---- *)
(* c_answers: the plugins' answers in AddPlugins order; c_obs: what
   Manager.GetNodesDeployCapacity returned in each of the repeated runs (Go
   chooses the map order afresh in every run). *)
Record case := mkCase { c_answers : list famap; c_obs : list (famap * Z) }.

Definition model_results (c : case) : list (famap * Z) := map gndc_f (perms (c_answers c)).

Definition agree (c : case) : bool :=
  let ms := model_results c in
  forallb (fun o => existsb (fun m => result_eqb m o) ms) (c_obs c).

(* ---- boolean reflection of the property on the implementation's output ---- *)
(* exact rational value of a finite binary64 *)
Definition f2q (a : f64) : Q :=
  match a with
  | B754_finite _ _ s m e _ =>
      let z := if s then Zneg m else Zpos m in
      match e with
      | Z0 => inject_Z z
      | Zpos p => inject_Z (z * Z.pow 2 (Zpos p))
      | Zneg p => Qmake z (Pos.pow 2 p)
      end
  | _ => 0%Q
  end.

Definition all_finite (answers : list famap) : bool :=
  forallb (fun a => forallb (fun kv => f_finite (n_usage (snd kv)) && f_finite (n_rate (snd kv))
                                      && f_finite (n_weight (snd kv))) a) answers.
Definition weights_positive (answers : list famap) : bool :=
  forallb (fun a => forallb (fun kv => flt (fb 0) (n_weight (snd kv))) a) answers.
Definition values_nonneg (answers : list famap) : bool :=
  forallb (fun a => forallb (fun kv => fle (fb 0) (n_usage (snd kv)) && fle (fb 0) (n_rate (snd kv))) a) answers.
Definition caps_nonneg (answers : list famap) : bool :=
  forallb (fun a => forallb (fun kv => 0 <=? n_cap (snd kv)) a) answers.

Definition qsum (l : list Q) : Q := fold_right Qplus 0%Q l.
Definition qabs_le (x bound : Q) : bool := Qle_bool x bound && Qle_bool (Qopp bound) x.

(* |obs - (sum w_i v_i)/(sum w_i)| <= 2^-40 * (sum w_i v_i)/(sum w_i), for
   positive weights and non-negative values, checked without division:
   |obs * W - S| <= 2^-40 * S + tiny *)
Definition tol : Q := Qmake 1 (Pos.pow 2 40).
Definition tiny : Q := Qmake 1 (Pos.pow 2 1000).
Definition mean_ok (obs : f64) (ws vs : list f64) : bool :=
  let W := qsum (map f2q ws) in
  let S := qsum (map (fun p => Qmult (f2q (fst p)) (f2q (snd p))) (combine ws vs)) in
  f_finite obs && qabs_le (Qminus (Qmult (f2q obs) W) S) (Qplus (Qmult tol S) (Qmult tiny W)).
Definition wsum_ok (obs : f64) (ws : list f64) : bool :=
  let W := qsum (map f2q ws) in
  f_finite obs && qabs_le (Qminus (f2q obs) W) (Qmult tol W).

Definition satsum (caps : list Z) : Z := Z.min max_int (fold_right Z.add 0 caps).

Definition one_ok (answers : list famap) (o : famap * Z) : bool :=
  match answers with
  | [] => match fst o with [] => Z.eqb (snd o) 0 | _ => false end
  | a1 :: _ =>
      let offered := filter (fun n => match infos_of n answers with Some _ => true | None => false end)
                            (map fst a1) in
      (* offered exactly by the nodes every plugin offers *)
      list_eqb String.eqb (map fst (sort_keys (fst o))) (map fst (sort_keys (map (fun n => (n, tt)) offered)))
      && forallb (fun kv =>
           match infos_of (fst kv) answers with
           | None => false
           | Some is =>
               let i := snd kv in
               (* capacity is the smallest of the plugins' capacities *)
               Z.eqb (n_cap i) (fold_right Z.min max_int (map n_cap is))
               (* usage and rate are the weight-averaged plugin values *)
               && (if all_finite answers && weights_positive answers && values_nonneg answers then
                     mean_ok (n_usage i) (map n_weight is) (map n_usage is)
                     && mean_ok (n_rate i) (map n_weight is) (map n_rate is)
                     && wsum_ok (n_weight i) (map n_weight is)
                   else true)
           end) (fst o)
      (* saturating total of the offered capacities *)
      && (if caps_nonneg answers then Z.eqb (snd o) (satsum (map (fun kv => n_cap (snd kv)) (fst o))) else true)
  end.

(* order independence on the observed runs: same nodes, capacities and total
   in every run; usage/rate/weight equal up to the float tolerance, and
   bit-identical when at most two plugins answer (float addition commutes) *)
Definition close (a b : f64) : bool :=
  if f_finite a && f_finite b then
    let x := f2q a in let y := f2q b in
    qabs_le (Qminus x y) (Qplus (Qmult tol (Qplus (Qabs x) (Qabs y))) tiny)
  else f_obs_eqb a b.
Definition ndc_close (exact : bool) (a b : fndc) : bool :=
  Z.eqb (n_cap a) (n_cap b)
  && if exact then ndc_eqb a b
     else close (n_usage a) (n_usage b) && close (n_rate a) (n_rate b) && close (n_weight a) (n_weight b).
Definition result_close (exact : bool) (r1 r2 : famap * Z) : bool :=
  list_eqb (fun a b => String.eqb (fst a) (fst b) && ndc_close exact (snd a) (snd b))
           (sort_keys (fst r1)) (sort_keys (fst r2))
  && Z.eqb (snd r1) (snd r2).

Definition ok (c : case) : bool :=
  forallb (one_ok (c_answers c)) (c_obs c)
  && match c_obs c with
     | [] => true
     | o1 :: rest => forallb (result_close (Nat.leb (List.length (c_answers c)) 2 && all_finite (c_answers c)
                                              && weights_positive (c_answers c) && values_nonneg (c_answers c)) o1) rest
     end.

(* ---------- the fan-out helper (resource/cobalt/call.go) ---------- *)
(* call: one goroutine per plugin, wg.Wait() for ALL of them, then the results
   are collected: an error of any plugin makes the combined error non-nil (and
   GetNodesDeployCapacity returns it without merging); there is no way out of
   the wait other than every plugin having answered.  [None] = the plugin
   answered with an error. *)
Fixpoint call_all {A} (rs : list (option A)) : option (list A) :=
  match rs with
  | [] => Some []
  | None :: _ => None
  | Some a :: t => match call_all t with Some l => Some (a :: l) | None => None end
  end.

Definition gndc_call (answers : list (option famap)) : option (famap * Z) :=
  match call_all answers with
  | None => None
  | Some l => Some (gndc_f l)
  end.

(* cases with a slow plugin: the harness blocks one plugin, cancels the context
   of the manager call while it is blocked, watches whether the call returns
   before the plugin is released (cc_early), releases it, and records the result
   (None = the manager returned an error) *)
Record ccase := mkCCase { cc_answers : list (option famap); cc_early : bool; cc_obs : option (famap * Z) }.

Definition agree_call (c : ccase) : bool :=
  negb (cc_early c)
  && match call_all (cc_answers c), cc_obs c with
     | None, None => true
     | Some l, Some o => existsb (fun m => result_eqb m o) (map gndc_f (perms l))
     | _, _ => false
     end.

(* the property: a result is either an error or the aggregate over ALL plugins,
   never a silent merge of the plugins that happened to have answered *)
Definition ok_call (c : ccase) : bool :=
  match cc_obs c with
  | None => true
  | Some o => match call_all (cc_answers c) with
              | Some l => one_ok l o
              | None => false
              end
  end.
