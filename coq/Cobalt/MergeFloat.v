(* Float-specific and real-number facts about cobalt's capacity aggregation.
   - binary64 addition commutes on non-NaN values, hence with at most two
     plugins the aggregated result is bit-identical for both answer orders;
   - over the reals (the value of the exact expression) the result is the
     weighted mean and is independent of the answer order for any number of
     plugins. *)
From Coq Require Import List ZArith String Bool Lia Permutation Reals.
From Flocq Require Import Core IEEE754.BinarySingleNaN IEEE754.Binary IEEE754.Bits.
From Verif Require Import Base.GoInt Base.GoFloat Cobalt.Merge Cobalt.MergeProofs.
Import ListNotations.
Local Open Scope Z_scope.

Section Comm.
  Variables prec emax : Z.
  Context (prec_gt_0_ : Prec_gt_0 prec) (prec_lt_emax_ : Prec_lt_emax prec emax).
  Lemma bsn_plus_comm m (x y : BinarySingleNaN.binary_float prec emax) :
    BinarySingleNaN.Bplus m x y = BinarySingleNaN.Bplus m y x.
  Proof.
    unfold BinarySingleNaN.Bplus.
    destruct x as [sx|sx| |sx mx ex Hx], y as [sy|sy| |sy my ey Hy]; try reflexivity.
    - destruct sx, sy; reflexivity.
    - destruct sx, sy; reflexivity.
    - cbv zeta. rewrite (Z.min_comm ey ex). unfold Fplus_naive. rewrite Z.add_comm. reflexivity.
  Qed.
End Comm.

Definition not_nan (x : f64) : Prop := Binary.is_nan 53 1024 x = false.

Lemma fadd_comm x y : not_nan x -> not_nan y -> fadd x y = fadd y x.
Proof.
  unfold not_nan, fadd, b64_plus, Binary.Bplus. intros Hx Hy.
  rewrite bsn_plus_comm.
  destruct x, y; try discriminate; reflexivity.
Qed.

Lemma finite_not_nan (x : f64) : f_finite x = true -> not_nan x.
Proof. unfold f_finite, not_nan. destruct x; simpl; congruence. Qed.

Lemma fmul_not_nan x y : f_finite x = true -> f_finite y = true -> not_nan (fmul x y).
Proof.
  unfold f_finite, fmul, b64_mult. intros Hx Hy.
  match goal with |- context [Bmult _ _ ?h1 ?h2 _ _ _ _] =>
    pose proof (Bmult_correct 53 1024 h1 h2 binop_nan_pl64 mode_NE x y) as H end.
  destruct (Rlt_bool _ _).
  - destruct H as (_ & F & _). rewrite Hx, Hy in F. simpl in F.
    unfold not_nan. destruct (Bmult _ _ _ _ _ _ x y); simpl in *; congruence.
  - unfold not_nan. destruct (Bmult _ _ _ _ _ _ x y); try reflexivity.
    unfold Binary.binary_overflow, BinarySingleNaN.binary_overflow in H. simpl in H.
    discriminate H.
Qed.

Lemma fadd_not_nan_of_finite x y : f_finite x = true -> f_finite y = true -> not_nan (fadd x y).
Proof.
  unfold f_finite, fadd, b64_plus. intros Hx Hy.
  match goal with |- context [Bplus _ _ ?h1 ?h2 _ _ _ _] =>
    pose proof (Bplus_correct 53 1024 h1 h2 binop_nan_pl64 mode_NE x y Hx Hy) as H end.
  destruct (Rlt_bool _ _).
  - destruct H as (_ & F & _).
    unfold not_nan. destruct (Bplus _ _ _ _ _ _ x y); simpl in *; congruence.
  - destruct H as (H & _). unfold not_nan. destruct (Bplus _ _ _ _ _ _ x y); try reflexivity.
    unfold Binary.binary_overflow, BinarySingleNaN.binary_overflow in H. simpl in H.
    discriminate H.
Qed.

(* ---- two plugins: bit-identical for both orders ---- *)
Definition fin_ndc (i : fndc) : Prop :=
  f_finite (n_usage i) = true /\ f_finite (n_rate i) = true /\ f_finite (n_weight i) = true.

Lemma all_finite_lookup (answers : list famap) a n i :
  all_finite answers = true -> In a answers -> lookup n a = Some i -> fin_ndc i.
Proof.
  unfold all_finite. intros H Ha L. rewrite forallb_forall in H. specialize (H a Ha).
  clear Ha. induction a as [|[k v] t IH]; simpl in *; [discriminate|].
  apply andb_true_iff in H. destruct H as [H1 H2].
  destruct (String.eqb n k).
  - injection L as <-. simpl in H1. apply andb_true_iff in H1. destruct H1 as [H1 Hw].
    apply andb_true_iff in H1. destruct H1 as [Hu Hr]. repeat split; assumption.
  - auto.
Qed.

Lemma merged_two_comm (i1 i2 : fndc) : fin_ndc i1 -> fin_ndc i2 ->
  merged fadd fmul i1 [i2] = merged fadd fmul i2 [i1].
Proof.
  intros (U1 & R1 & W1) (U2 & R2 & W2). unfold merged, mincap, wsum, sumw. simpl. f_equal.
  - apply Z.min_comm.
  - apply fadd_comm; apply fmul_not_nan; assumption.
  - apply fadd_comm; apply fmul_not_nan; assumption.
  - apply fadd_comm; apply finite_not_nan; assumption.
Qed.

Theorem two_plugins_exact (a b : famap) n : all_finite [a; b] = true ->
  lookup n (fst (gndc_f [a; b])) = lookup n (fst (gndc_f [b; a])).
Proof.
  intro F. unfold gndc_f. rewrite !gndc_lookup by discriminate. simpl.
  destruct (lookup n a) as [i1|] eqn:La, (lookup n b) as [i2|] eqn:Lb; try reflexivity.
  rewrite merged_two_comm; [reflexivity| |].
  - eapply all_finite_lookup; [exact F| |exact La]. simpl; auto.
  - eapply all_finite_lookup; [exact F| |exact Lb]. simpl; auto.
Qed.

(* ---- the real-number reading ---- *)
Local Open Scope R_scope.

Definition rndc := ndc R.
Definition ramap := list (string * rndc).
Definition gndc_R (answers : list ramap) : ramap * Z := gndc Rplus Rmult Rdiv answers.

Definition Rsum (l : list R) : R := fold_right Rplus 0 l.

Lemma fold_left_Rplus l x : fold_left Rplus l x = x + Rsum l.
Proof. revert x; induction l as [|y t IH]; intro x; simpl; [ring|]. rewrite IH. ring. Qed.

Lemma wsum_R (f : rndc -> R) i1 rest :
  wsum Rplus Rmult f i1 rest = Rsum (map (fun i => f i * n_weight i) (i1 :: rest)).
Proof.
  unfold wsum. rewrite (fold_left_map_acc Rplus (fun i => f i * n_weight i)), fold_left_Rplus.
  reflexivity.
Qed.

Lemma sumw_R i1 rest : sumw Rplus i1 rest = Rsum (map n_weight (i1 :: rest)).
Proof.
  unfold sumw. rewrite (fold_left_map_acc Rplus n_weight), fold_left_Rplus. reflexivity.
Qed.

(* per node: offered iff every plugin offers it; capacity = min; usage and rate
   are the weighted means sum(w_i v_i)/sum(w_i) *)
Theorem gndc_R_spec (answers : list ramap) n : answers <> [] ->
  lookup n (fst (gndc_R answers)) =
  match infos_of n answers with
  | Some (i1 :: rest) =>
      let is := i1 :: rest in
      Some (mkNdc (mincap i1 rest)
                  (Rsum (map (fun i => n_usage i * n_weight i) is) / Rsum (map n_weight is))
                  (Rsum (map (fun i => n_rate i * n_weight i) is) / Rsum (map n_weight is))
                  (Rsum (map n_weight is)))
  | _ => None
  end.
Proof.
  intro NE. unfold gndc_R. rewrite gndc_lookup by exact NE.
  destruct (infos_of n answers) as [[|i1 rest]|]; try reflexivity.
  unfold finish, merged. cbn [n_cap n_usage n_rate n_weight].
  rewrite !wsum_R, sumw_R. reflexivity.
Qed.

Theorem gndc_R_order_indep (answers answers' : list ramap) n :
  Permutation answers answers' ->
  lookup n (fst (gndc_R answers)) = lookup n (fst (gndc_R answers')).
Proof.
  apply gndc_order_indep; intros; ring.
Qed.

(* the real-number reading of a binary64 answer set *)
Definition ndc_to_R (i : fndc) : rndc :=
  mkNdc (n_cap i) (B2R 53 1024 (n_usage i)) (B2R 53 1024 (n_rate i)) (B2R 53 1024 (n_weight i)).
Definition amap_to_R (a : famap) : ramap := map (fun kv => (fst kv, ndc_to_R (snd kv))) a.

(* ---- statements used by Properties/C09.v ---- *)
Local Open Scope Z_scope.

(* what GetNodesDeployCapacity computes per node, in binary64 with the code's
   operation order: ((u1*w1 + u2*w2) + u3*w3 ...) / ((w1 + w2) + w3 ...) *)
Theorem aggregate_f64 (answers : list famap) n : answers <> [] ->
  lookup n (fst (gndc_f answers)) =
  match infos_of n answers with
  | Some (i1 :: rest) =>
      Some (mkNdc (mincap i1 rest)
                  (fdiv (wsum fadd fmul n_usage i1 rest) (sumw fadd i1 rest))
                  (fdiv (wsum fadd fmul n_rate i1 rest) (sumw fadd i1 rest))
                  (sumw fadd i1 rest))
  | _ => None
  end.
Proof. intro NE. unfold gndc_f. rewrite gndc_lookup by exact NE. reflexivity. Qed.

Lemma lookup_none_keys {T} (m : list (string * ndc T)) n : lookup n m <> None <-> In n (map fst m).
Proof.
  induction m as [|[k v] t IH]; simpl; [tauto|].
  destruct (String.eqb n k) eqn:E.
  - apply String.eqb_eq in E. subst. split; [auto|discriminate].
  - apply String.eqb_neq in E. rewrite IH. split; [auto|]. intros [H|H]; [congruence|exact H].
Qed.

Lemma infos_some_iff {T} (answers : list (list (string * ndc T))) n :
  (exists l, infos_of n answers = Some l) <-> (forall a, In a answers -> lookup n a <> None).
Proof.
  induction answers as [|a t IH]; simpl.
  - split; [tauto|]. intros _. eexists; reflexivity.
  - destruct (lookup n a) as [i|] eqn:L.
    + destruct (infos_of n t) as [l|].
      * split; [|intros _; eexists; reflexivity].
        intros _ a' [<-|H]; [congruence|]. apply (proj1 IH); [eexists; reflexivity|exact H].
      * split; [intros [l H]; discriminate|].
        intro H. exfalso. destruct (proj2 IH) as [l Hl]; [|discriminate]. intros a' Ha. apply H. auto.
    + split; [intros [l H]; discriminate|]. intro H. exfalso. apply (H a); auto.
Qed.

(* a node is offered iff every plugin offers it *)
Theorem offered_iff_all (answers : list famap) n : answers <> [] ->
  (In n (map fst (fst (gndc_f answers))) <-> forall a, In a answers -> In n (map fst a)).
Proof.
  intro NE. pose proof (lookup_none_keys (T:=f64) (fst (gndc_f answers)) n) as K.
  unfold famap, fndc in *. rewrite <- K. clear K. rewrite aggregate_f64 by exact NE.
  assert (E : (forall a, In a answers -> In n (map fst a)) <-> (forall a, In a answers -> lookup n a <> None)).
  { split; intros H a Ha; [apply lookup_none_keys|apply (lookup_none_keys a)]; auto. }
  rewrite E, <- infos_some_iff.
  destruct answers as [|a1 rest]; [congruence|].
  destruct (infos_of n (a1 :: rest)) as [[|i1 l]|] eqn:I.
  - simpl in I. destruct (lookup n a1), (infos_of n rest); discriminate.
  - split; [intros _; eexists; reflexivity|discriminate].
  - split; [congruence|intros [l H]; discriminate].
Qed.

(* the merged capacity is the smallest of the plugins' capacities *)
Lemma mincap_le {T} (rest : list (ndc T)) c i : In i rest -> fold_left (fun acc i => Z.min acc (n_cap i)) rest c <= n_cap i.
Proof.
  revert c; induction rest as [|j t IH]; intros c H; simpl in *; [tauto|].
  destruct H as [<-|H]; [|apply IH; exact H].
  clear IH. generalize (Z.min c (n_cap j)) (Z.le_min_r c (n_cap j)).
  induction t as [|k t IH]; intros z Hz; simpl; [exact Hz|]. apply IH. lia.
Qed.
Lemma mincap_le0 {T} (rest : list (ndc T)) c : fold_left (fun acc i => Z.min acc (n_cap i)) rest c <= c.
Proof.
  revert c; induction rest as [|k t IH]; intro c; simpl; [lia|]. specialize (IH (Z.min c (n_cap k))). lia.
Qed.
Lemma mincap_attained {T} (rest : list (ndc T)) c :
  fold_left (fun acc i => Z.min acc (n_cap i)) rest c = c \/
  exists i, In i rest /\ fold_left (fun acc i => Z.min acc (n_cap i)) rest c = n_cap i.
Proof.
  revert c; induction rest as [|k t IH]; intro c; simpl; [auto|].
  destruct (IH (Z.min c (n_cap k))) as [E|[i [Hi E]]].
  - rewrite E. destruct (Z.min_spec c (n_cap k)) as [[_ M]|[_ M]]; rewrite M; [auto|].
    right. exists k. auto.
  - right. exists i. auto.
Qed.

Theorem mincap_is_min {T} (i1 : ndc T) rest :
  (forall i, In i (i1 :: rest) -> mincap i1 rest <= n_cap i) /\
  (exists i, In i (i1 :: rest) /\ mincap i1 rest = n_cap i).
Proof.
  unfold mincap. split.
  - intros i [<-|H]; [apply mincap_le0|apply mincap_le; exact H].
  - destruct (mincap_attained rest (n_cap i1)) as [E|[i [Hi E]]].
    + exists i1. simpl; auto.
    + exists i. simpl; auto.
Qed.

(* presence and capacity are independent of the answer order, in binary64 *)
Theorem cap_order_indep_f64 (answers answers' : list famap) n : Permutation answers answers' ->
  option_map n_cap (lookup n (fst (gndc_f answers))) = option_map n_cap (lookup n (fst (gndc_f answers'))).
Proof. intro P. apply (gndc_cap_order_indep f64 fadd fmul fdiv _ _ n P). Qed.

(* the total: saturating sum for every iteration order *)
Theorem total_any_order caps order : Forall cap_ok caps -> Permutation caps order ->
  total_of order = satsum caps.
Proof. intros H P. rewrite (total_of_perm caps order H P). apply total_of_sat. exact H. Qed.

(* ---------- the fan-out: a result means every plugin took part ---------- *)
Lemma call_all_some {A} (rs : list (option A)) l : call_all rs = Some l -> rs = map Some l.
Proof.
  revert l; induction rs as [|[a|] t IH]; intros l H; simpl in H; try discriminate.
  - injection H as <-. reflexivity.
  - destruct (call_all t) as [l'|] eqn:E; [|discriminate]. injection H as <-. simpl. f_equal. apply IH. reflexivity.
Qed.

Theorem no_partial_merge (answers : list (option famap)) r :
  gndc_call answers = Some r -> exists l, answers = map Some l /\ r = gndc_f l.
Proof.
  unfold gndc_call. destruct (call_all answers) as [l|] eqn:E; [|discriminate].
  intro H. injection H as <-. exists l. split; [apply call_all_some; exact E|reflexivity].
Qed.

Theorem any_error_is_error (answers : list (option famap)) : In None answers -> gndc_call answers = None.
Proof.
  unfold gndc_call. intro H. replace (call_all answers) with (@None (list famap)); [reflexivity|].
  induction answers as [|[a|] t IH]; simpl in *; [tauto| |reflexivity].
  destruct H as [H|H]; [discriminate|]. rewrite <- (IH H). reflexivity.
Qed.
