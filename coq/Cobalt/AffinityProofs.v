(* Cobalt/AffinityProofs.v — C33, the positive part: on a node without NUMA
   whose origin cores are whole free cores after the put-back, a request for the
   same whole number of cores gets the origin's cores as its FIRST plan.

   Path through builder B's scheduler model (Cpumem/Schedule.v):
     get_cpu_plans_g (no NUMA) -> do_get_cpu_plans_g -> new_host (both maps)
     -> reorder_by_affinity -> host_cpu_plans_g -> get_full_plans_g (affinity)
     -> aff_loop: first plan = first [full] cores of the reordered list. *)
From Coq Require Import String Ascii List ZArith Bool Lia Permutation Sorted.
From Verif Require Import Base.GoInt Base.GoFloat Cpumem.Types Cpumem.Schedule Cpumem.BookProofs.
Import ListNotations.
Local Open Scope Z_scope.

(* ---------- insertion sort ---------- *)
Lemma insert_by_perm {A} (less : A -> A -> bool) x l : Permutation (insert_by less x l) (x :: l).
Proof.
  induction l as [|z t IH]; simpl; [constructor; constructor|].
  destruct (less z x); [|apply Permutation_refl].
  eapply perm_trans; [apply perm_skip; exact IH|apply perm_swap].
Qed.
Lemma isort_perm {A} (less : A -> A -> bool) l : Permutation (isort less l) l.
Proof.
  induction l as [|x t IH]; simpl; auto.
  eapply perm_trans; [apply insert_by_perm | apply perm_skip, IH].
Qed.

(* ---------- insertion sort by a key ---------- *)
Lemma isort_ext {A} (l1 l2 : A -> A -> bool) l : (forall a b, l1 a b = l2 a b) -> isort l1 l = isort l2 l.
Proof.
  intro E. induction l as [|x t IH]; simpl; [reflexivity|]. rewrite IH.
  generalize (isort l2 t). intro s. induction s as [|y s IHs]; simpl; [reflexivity|].
  rewrite E, IHs. reflexivity.
Qed.

Section ByKey.
  Variable A : Type.
  Variable f : A -> Z.
  Let less (a b : A) : bool := f a <? f b.
  Let R (a b : A) : Prop := f a <= f b.

  Lemma insert_sorted x l : StronglySorted R l -> StronglySorted R (insert_by less x l).
  Proof.
    induction 1 as [|y t St IH Hy]; simpl; [constructor; constructor|].
    unfold less at 1. destruct (Z.ltb_spec (f y) (f x)).
    - constructor; [exact IH|].
      assert (P : Permutation (insert_by less x t) (x :: t)).
      { clear. induction t as [|z t IH]; simpl; [constructor; constructor|].
        destruct (less z x); [|apply Permutation_refl].
        eapply perm_trans; [apply perm_skip; exact IH|apply perm_swap]. }
      eapply Permutation_Forall; [apply Permutation_sym; exact P|].
      constructor; [unfold R; lia|exact Hy].
    - constructor; [constructor; assumption|].
      constructor; [unfold R; lia|].
      eapply Forall_impl; [|exact Hy]. intros z Hz. unfold R in *. lia.
  Qed.

  Lemma isort_sorted l : StronglySorted R (isort less l).
  Proof. induction l as [|x t IH]; simpl; [constructor|apply insert_sorted; exact IH]. Qed.

  (* a key-sorted list has the small-key elements first *)
  Lemma sorted_partition (bound : Z) l : StronglySorted R l ->
    l = filter (fun a => f a <=? bound) l ++ filter (fun a => negb (f a <=? bound)) l.
  Proof.
    induction 1 as [|a t St IH Ha]; simpl; [reflexivity|].
    destruct (Z.leb_spec (f a) bound); simpl.
    - f_equal. exact IH.
    - assert (E : filter (fun a0 => f a0 <=? bound) t = []).
      { clear IH St. induction t as [|b t IHt]; simpl; [reflexivity|].
        inversion Ha; subst. unfold R in *.
        destruct (Z.leb_spec (f b) bound); [lia|]. apply IHt. assumption. }
      rewrite E. simpl. f_equal.
      clear IH St E. induction t as [|b t IHt]; simpl; [reflexivity|].
      inversion Ha; subst. unfold R in *.
      destruct (Z.leb_spec (f b) bound); [lia|]. simpl. f_equal. apply IHt. assumption.
  Qed.
End ByKey.

(* ---------- index1 / aff_less as a key ---------- *)
Lemma index1_range old id : forall i, 0 < i ->
  index1 old id i = 0 \/ (i <= index1 old id i < i + Z.of_nat (length old)).
Proof.
  induction old as [|c t IH]; intros i Hi; simpl; [auto|].
  destruct (String.eqb (cid c) id); [right; lia|].
  destruct (IH (i + 1)) as [H|H]; [lia|auto|right; lia].
Qed.

Lemma index1_zero_iff old id : forall i, 0 < i -> (index1 old id i = 0 <-> ~ In id (map cid old)).
Proof.
  induction old as [|c t IH]; intros i Hi; simpl; [tauto|].
  destruct (String.eqb (cid c) id) eqn:E.
  - apply String.eqb_eq in E. split; [lia|intro H; exfalso; apply H; auto].
  - apply String.eqb_neq in E. rewrite (IH (i + 1)) by lia. tauto.
Qed.

Definition rk (old : list core) (c : core) : Z :=
  let i := index1 old (cid c) 1 in if i =? 0 then Z.of_nat (length old) + 1 else i.

Lemma aff_less_rk old a b : aff_less old a b = (rk old a <? rk old b).
Proof.
  unfold aff_less, rk.
  destruct (index1_range old (cid a) 1) as [Ea|Ea]; [lia| |];
  destruct (index1_range old (cid b) 1) as [Eb|Eb]; try lia;
  destruct (Z.eqb_spec (index1 old (cid a) 1) 0); destruct (Z.eqb_spec (index1 old (cid b) 1) 0); try lia; cbn [andb orb];
  match goal with |- ?x = ?y => destruct x eqn:X; destruct y eqn:Y; try reflexivity end;
  try (apply Z.ltb_lt in X); try (apply Z.ltb_ge in X); try (apply Z.ltb_lt in Y); try (apply Z.ltb_ge in Y); try lia; try discriminate.
Qed.

Lemma rk_member old c : (rk old c <=? Z.of_nat (length old)) = true <-> In (cid c) (map cid old).
Proof.
  unfold rk. destruct (index1_range old (cid c) 1) as [E|E]; [lia| |].
  - rewrite E. simpl. split.
    + intro H. apply Z.leb_le in H. lia.
    + intro H. exfalso. apply (proj1 (index1_zero_iff old (cid c) 1 ltac:(lia)) E). exact H.
  - replace (index1 old (cid c) 1 =? 0) with false by (symmetry; apply Z.eqb_neq; lia). split.
    + intros _. destruct (in_dec string_dec (cid c) (map cid old)) as [I|NI]; [exact I|].
      apply (index1_zero_iff old (cid c) 1 ltac:(lia)) in NI. lia.
    + intros _. apply Z.leb_le. lia.
Qed.

(* the reordered list: the cores of [old] first *)
Lemma reorder_members_first old l :
  let L := isort (aff_less old) l in
  L = filter (fun c => rk old c <=? Z.of_nat (length old)) L
      ++ filter (fun c => negb (rk old c <=? Z.of_nat (length old))) L.
Proof.
  intro L. apply (sorted_partition core (rk old)). unfold L.
  rewrite (isort_ext (aff_less old) (fun a b => rk old a <? rk old b)) by apply aff_less_rk.
  apply isort_sorted.
Qed.

(* ---------- plans built from a list of cores ---------- *)
Definition memb (k : string) (l : list string) : bool := existsb (String.eqb k) l.

Lemma fold_upd_lookup (cs : list core) (base : Z) : forall (acc : smap Z) k,
  lookup_opt (fold_left (fun p c => upd p (cid c) base) cs acc) k =
  if memb k (map cid cs) then Some base else lookup_opt acc k.
Proof.
  unfold memb. induction cs as [|c t IH]; intros acc k; [reflexivity|].
  cbn [fold_left map existsb]. rewrite IH, lookup_opt_upd.
  destruct (existsb (String.eqb k) (map cid t)); destruct (String.eqb k (cid c)); reflexivity.
Qed.

Lemma lookup_opt_all_base (m : smap Z) base k :
  (forall c v, In (c, v) m -> v = base) ->
  lookup_opt m k = if memb k (keys m) then Some base else None.
Proof.
  intro H. unfold memb, keys. induction m as [|[k0 v0] t IH]; [reflexivity|].
  cbn [lookup_opt map existsb fst]. destruct (String.eqb k k0) eqn:E.
  - rewrite (H k0 v0) by (simpl; auto). reflexivity.
  - cbn [orb]. apply IH. intros c v I. apply (H c v). simpl. auto.
Qed.

Lemma memb_perm k l l' : Permutation l l' -> memb k l = memb k l'.
Proof.
  unfold memb. induction 1; simpl; try congruence.
  - destruct (String.eqb k y), (String.eqb k x); reflexivity.
Qed.

(* ---------- aff_loop: the accumulated plans are kept in front ---------- *)
Lemma aff_loop_prefix fuel : forall base full cores acc r,
  aff_loop fuel base full cores acc = Ok r -> exists r', r = acc ++ r'.
Proof.
  induction fuel as [|f IH]; intros base full cores acc r H; simpl in H; [discriminate|].
  destruct (Z.of_nat (length cores) <? full).
  - injection H as <-. exists []. now rewrite app_nil_r.
  - destruct (full =? 0); [discriminate|].
    apply IH in H. destruct H as [r' ->]. rewrite <- app_assoc. eexists; reflexivity.
Qed.

Lemma chunks_head n k (l : list core) : (0 < n)%nat -> exists rest, chunks n k l = firstn k l :: rest.
Proof. destruct n; [lia|]. intros _. simpl. eexists; reflexivity. Qed.

(* the first plan of the affinity planner: the first [full] cores *)
Lemma aff_loop_first fuel base full cores r : 0 < full ->
  aff_loop fuel base full cores [] = Ok r ->
  r = [] \/ exists rest, r = fold_left (fun p c => upd p (cid c) base) (firstn (Z.to_nat full) cores) [] :: rest.
Proof.
  intros Hf H. destruct fuel as [|f]; simpl in H; [discriminate|].
  destruct (Z.ltb_spec (Z.of_nat (length cores)) full).
  - injection H as <-. auto.
  - replace (full =? 0) with false in H by (symmetry; apply Z.eqb_neq; lia).
    right. apply aff_loop_prefix in H. destruct H as [r' ->]. simpl.
    assert (C : (0 < Z.to_nat (Z.quot (Z.of_nat (length cores)) full))%nat).
    { assert (1 <= Z.quot (Z.of_nat (length cores)) full).
      { apply Z.quot_le_lower_bound; lia. }
      lia. }
    destruct (chunks_head _ (Z.to_nat full) cores C) as [rest E]. rewrite E. simpl. eexists; reflexivity.
Qed.

(* ---------- small list facts ---------- *)
Lemma NoDup_map_filter {A B} (f : A -> B) (p : A -> bool) l : NoDup (map f l) -> NoDup (map f (filter p l)).
Proof.
  induction l as [|x t IH]; simpl; intro H; [constructor|].
  inversion H as [|? ? NI ND]; subst. destruct (p x); simpl; [constructor|]; auto.
  intro I. apply NI. apply in_map_iff in I. destruct I as [y [E Iy]]. apply filter_In in Iy.
  apply in_map_iff. exists y. tauto.
Qed.

Lemma lookup_opt_some_in {V} (m : smap V) k v : lookup_opt m k = Some v -> In (k, v) m.
Proof.
  induction m as [|[k0 v0] t IH]; simpl; [discriminate|].
  destruct (String.eqb k k0) eqn:E.
  - apply String.eqb_eq in E. intro H. injection H as <-. subst. auto.
  - auto.
Qed.

Definition cores_of (m : smap Z) : list core := map (fun kv => mkCore (fst kv) (snd kv)) m.
Lemma cores_of_ids m : map cid (cores_of m) = keys m.
Proof. unfold cores_of, keys. rewrite map_map. reflexivity. Qed.

Lemma match_nonnil {V A} (m : list V) (a b : A) : m <> [] -> match m with [] => a | _ :: _ => b end = b.
Proof. destruct m; [congruence|reflexivity]. Qed.

(* ---------- the theorem ---------- *)
Section Main.
Variable sortf : list keyed -> outcome (list keyed).
Variables (base maxfrag : Z) (avail : smap Z) (availmem : Z) (om : smap Z) (cpu : f64) (mem : Z) (fuel : nat).
Hypothesis Hbase : 0 < base.
Hypothesis Hom_ne : om <> [].
Hypothesis Hom_nd : NoDup (keys om).
Hypothesis Hom_base : forall c v, In (c, v) om -> v = base.
Hypothesis Hav_nd : NoDup (keys avail).
(* after the put-back the origin's cores are whole free cores of this map *)
Hypothesis Hfree : forall c, In c (keys om) -> lookup_opt avail c = Some base.
(* the request asks for as many whole cores as the origin holds *)
Hypothesis Hreq : pieces_request base cpu = base * Z.of_nat (length om).

Let n : nat := length om.
Let fulls : list core := filter (is_full_core base) (cores_of avail).
Let old : list core := isort core_less (filter (is_full_core base) (cores_of om)).
Let L : list core := isort (aff_less old) (isort core_less fulls).

Lemma om_all_full : filter (is_full_core base) (cores_of om) = cores_of om.
Proof.
  unfold cores_of. clear Hfree Hreq Hom_nd Hom_ne. induction om as [|[k v] t IH]; simpl; [reflexivity|].
  assert (v = base) by (apply (Hom_base k); simpl; auto). subst v.
  unfold is_full_core at 1. simpl. rewrite Z.leb_refl, Z.rem_same by lia. simpl.
  f_equal. apply IH. intros c v I. apply (Hom_base c). simpl. auto.
Qed.

Lemma old_ids : Permutation (map cid old) (keys om).
Proof.
  unfold old. rewrite om_all_full, <- cores_of_ids. apply Permutation_map. apply isort_perm.
Qed.

Lemma L_perm : Permutation L fulls.
Proof. unfold L. eapply perm_trans; apply isort_perm. Qed.

Lemma L_nodup : NoDup (map cid L).
Proof.
  eapply Permutation_NoDup; [apply Permutation_sym, Permutation_map, L_perm|].
  unfold fulls. apply NoDup_map_filter. rewrite cores_of_ids. exact Hav_nd.
Qed.

Definition member (c : core) : bool := rk old c <=? Z.of_nat (length old).

Lemma member_iff c : member c = true <-> In (cid c) (keys om).
Proof.
  unfold member. rewrite rk_member. split; intro H.
  - eapply Permutation_in; [apply old_ids|exact H].
  - eapply Permutation_in; [apply Permutation_sym, old_ids|exact H].
Qed.

Lemma members_ids : Permutation (map cid (filter member L)) (keys om).
Proof.
  apply NoDup_Permutation; [apply NoDup_map_filter, L_nodup|exact Hom_nd|].
  intro k. split.
  - intro H. apply in_map_iff in H. destruct H as [c [E I]]. apply filter_In in I. destruct I as [_ M].
    subst k. apply member_iff. exact M.
  - intro H. pose proof (Hfree k H) as F. apply lookup_opt_some_in in F.
    assert (I : In (mkCore k base) L).
    { eapply Permutation_in; [apply Permutation_sym, L_perm|]. unfold fulls. apply filter_In. split.
      - unfold cores_of. apply in_map_iff. exists (k, base). auto.
      - unfold is_full_core. simpl. rewrite Z.leb_refl, Z.rem_same by lia. reflexivity. }
    apply in_map_iff. exists (mkCore k base). split; [reflexivity|]. apply filter_In. split; [exact I|].
    apply member_iff. exact H.
Qed.

Lemma first_n_are_origin : firstn n L = filter member L.
Proof.
  pose proof (reorder_members_first old (isort core_less fulls)) as P. fold L in P. cbv zeta in P.
  fold member in P.
  assert (LEN : length (filter member L) = n).
  { unfold n. rewrite <- (map_length cid), (Permutation_length members_ids). unfold keys. apply map_length. }
  rewrite P at 1. rewrite firstn_app, LEN, Nat.sub_diag. simpl. rewrite app_nil_r.
  rewrite <- LEN. apply firstn_all.
Qed.

Lemma first_plan_lookup k :
  lookup_opt (fold_left (fun p c => upd p (cid c) base) (firstn n L) []) k = lookup_opt om k.
Proof.
  rewrite fold_upd_lookup, first_n_are_origin, (memb_perm k _ _ members_ids).
  rewrite (lookup_opt_all_base om base k Hom_base). reflexivity.
Qed.

(* doGetCPUPlans on this map: no plan, or the origin's cores first *)
Theorem do_plans_first cross :
  do_get_cpu_plans_g sortf om avail availmem base maxfrag cpu mem fuel = Ok cross ->
  cross = [] \/ exists p rest, cross = p :: rest /\ forall k, lookup_opt p k = lookup_opt om k.
Proof.
  unfold do_get_cpu_plans_g, new_host.
  replace (base =? 0) with false by (symmetry; apply Z.eqb_neq; lia). cbn [andb bind].
  rewrite (match_nonnil om _ _ Hom_ne).
  cbn [bind]. unfold reorder_by_affinity. cbn [h_full h_base h_maxfrag].
  unfold host_cpu_plans_g. cbn [h_base]. rewrite Hreq.
  assert (Hn : (0 < n)%nat).
  { unfold n. assert (length om <> 0)%nat; [|lia]. intro E. apply Hom_ne. apply length_zero_iff_nil. exact E. }
  replace (base * Z.of_nat (length om) <=? 0) with false by (symmetry; apply Z.leb_gt; fold n; nia).
  replace (base =? 0) with false by (symmetry; apply Z.eqb_neq; lia).
  unfold host_plans_pieces_g. cbn [h_base h_full h_frag h_aff h_maxfrag].
  rewrite (Z.mul_comm base), Z.quot_mul, Z.rem_mul by lia. cbn [Z.eqb].
  unfold get_full_plans_g. fold (cores_of avail). fold fulls. fold (cores_of om). fold old. fold L.
  destruct (aff_loop fuel base (Z.of_nat (length om)) L []) as [r| | |] eqn:AL; cbn [bind]; try discriminate.
  assert (Hn' : 0 < Z.of_nat (length om)) by (fold n; lia).
  destruct (aff_loop_first fuel base (Z.of_nat (length om)) L r Hn' AL) as [->|[rest ->]].
  - intro H. left.
    destruct (0 <? mem);
      [match type of H with context [if ?c <? ?d then _ else _] => destruct (c <? d) end|];
      try rewrite firstn_nil in H; injection H as <-; reflexivity.
  - rewrite Nat2Z.id. fold n.
    set (p0 := fold_left (fun p c => upd p (cid c) base) (firstn n L) []).
    intro H.
    assert (G : forall cr, (cr = [] \/ exists rest', cr = p0 :: rest') -> Ok cr = Ok cross ->
                cross = [] \/ exists p rest0, cross = p :: rest0 /\ forall k, lookup_opt p k = lookup_opt om k).
    { intros cr [->|[rest' ->]] E; injection E as <-; [left; reflexivity|].
      right. exists p0. eexists. split; [reflexivity|]. intro k. apply first_plan_lookup. }
    destruct (0 <? mem).
    + match type of H with context [if ?c <? ?d then _ else _] => destruct (c <? d) end.
      * eapply G; [|exact H]. match goal with |- firstn ?k _ = [] \/ _ => destruct k end; simpl; [auto|right; eexists; reflexivity].
      * eapply G; [|exact H]. right. eexists; reflexivity.
    + eapply G; [|exact H]. right. eexists; reflexivity.
Qed.
End Main.

(* ---------- GetCPUPlans: without NUMA, and with the origin's NUMA node visited first ---------- *)
Lemma numa_loop_prefix sortf order : forall numa avail0 origin base maxfrag cpu mem fuel avail acc a r,
  numa_loop sortf order numa avail0 origin base maxfrag cpu mem fuel avail acc = Ok (a, r) -> exists r', r = acc ++ r'.
Proof.
  induction order as [|nid rest IH]; intros numa avail0 origin base maxfrag cpu mem fuel avail acc a r H; simpl in H.
  - injection H as _ <-. exists []. now rewrite app_nil_r.
  - destruct (do_get_cpu_plans_g _ _ _ _ _ _ _ _ _) as [plans| | |]; cbn [bind] in H; try discriminate.
    apply IH in H. destruct H as [r' ->]. rewrite <- app_assoc. eexists; reflexivity.
Qed.

Section Top.
Variable sortf : list keyed -> outcome (list keyed).
Variables (base maxfrag : Z) (info : node_info) (om : smap Z) (req : wreq) (fuel : nat).
Hypothesis Hbase : 0 < base.
Hypothesis Hom_ne : om <> [].
Hypothesis Hom_nd : NoDup (keys om).
Hypothesis Hom_base : forall c v, In (c, v) om -> v = base.
Hypothesis Hreq : pieces_request base (rq_cpu_req req) = base * Z.of_nat (length om).

(* no NUMA topology *)
Theorem first_plan_is_origin plans :
  nr_numa (ni_cap info) = [] ->
  NoDup (keys (nr_cpumap (get_available_nofloat info))) ->
  (forall c, In c (keys om) -> lookup_opt (nr_cpumap (get_available_nofloat info)) c = Some base) ->
  get_cpu_plans_g sortf info om base maxfrag req [] fuel = Ok plans ->
  plans = [] \/ exists p rest, plans = (EmptyString, p) :: rest /\ forall k, lookup_opt p k = lookup_opt om k.
Proof.
  intros Hnuma Hav Hfree. unfold get_cpu_plans_g. cbn [numa_loop bind].
  destruct (do_get_cpu_plans_g sortf om _ _ base maxfrag _ _ fuel) as [cross| | |] eqn:D; cbn [bind]; try discriminate.
  intro H. injection H as <-. simpl.
  destruct (do_plans_first sortf base maxfrag _ _ om _ _ fuel Hbase Hom_ne Hom_nd Hom_base Hav Hfree Hreq cross D) as [->|[p [rest [-> Lk]]]].
  - left. reflexivity.
  - right. exists p. eexists. split; [reflexivity|exact Lk].
Qed.

(* NUMA topology, the origin's NUMA node [nu] visited first (what GetCPUPlans does
   since /repo 3d8e6c0): unless node [nu] yields no plan at all (its memory cannot
   hold the request), the first plan is the origin's cores on node [nu] *)
Theorem first_plan_is_origin_numa nu order plans :
  let avail := get_available_nofloat info in
  let numamap := numa_cpu_map (nr_numa (ni_cap info)) (nr_cpumap avail) nu in
  let numamem := Z.min (lookup 0 (nr_numamem avail) nu) (nr_mem avail) in
  NoDup (keys numamap) ->
  (forall c, In c (keys om) -> lookup_opt numamap c = Some base) ->
  get_cpu_plans_g sortf info om base maxfrag req (nu :: order) fuel = Ok plans ->
  (exists p rest, plans = (nu, p) :: rest /\ forall k, lookup_opt p k = lookup_opt om k) \/
  do_get_cpu_plans_g sortf om numamap numamem base maxfrag (rq_cpu_req req) (rq_mem_req req) fuel = Ok [].
Proof.
  intros avail numamap numamem Hav Hfree. unfold get_cpu_plans_g. fold avail. cbn [numa_loop]. fold numamap. fold numamem.
  destruct (do_get_cpu_plans_g sortf om numamap numamem base maxfrag (rq_cpu_req req) (rq_mem_req req) fuel) as [pl| | |] eqn:D;
    cbn [bind]; try discriminate.
  destruct (do_plans_first sortf base maxfrag _ _ om _ _ fuel Hbase Hom_ne Hom_nd Hom_base Hav Hfree Hreq pl D) as [->|[p [rest [-> Lk]]]].
  - intros _. right. reflexivity.
  - destruct (numa_loop sortf order _ _ om base maxfrag _ _ fuel _ _) as [[a r]| | |] eqn:NL; cbn [bind]; try discriminate.
    apply numa_loop_prefix in NL. destruct NL as [r' ->]. simpl.
    destruct (do_get_cpu_plans_g sortf om (nr_cpumap a) (nr_mem a) base maxfrag _ _ fuel) as [cross| | |]; cbn [bind]; try discriminate.
    intro H. injection H as <-. left. exists p. eexists. split; [reflexivity|exact Lk].
Qed.
End Top.

(* ---------- the visit order of GetCPUPlans starts with the origin's NUMA node ---------- *)
Lemma isort_in {A} (less : A -> A -> bool) l x : In x (isort less l) -> In x l.
Proof. intro H. eapply Permutation_in; [apply isort_perm|exact H]. Qed.

Lemma isort_head_min {A} (less : A -> A -> bool) (m : A) : forall l, NoDup l -> In m l ->
  (forall y, In y l -> y <> m -> less m y = true /\ less y m = false) ->
  exists rest, isort less l = m :: rest.
Proof.
  induction l as [|x t IH]; intros ND I H; simpl in *; [tauto|].
  inversion ND as [|? ? NI ND']; subst.
  destruct I as [->|I].
  - destruct (isort less t) as [|y s] eqn:E; simpl; [eexists; reflexivity|].
    assert (Iy : In y t) by (apply (isort_in less); rewrite E; simpl; auto).
    assert (y <> m) by (intro; subst; tauto).
    destruct (H y (or_intror Iy) H0) as [_ L]. rewrite L. eexists; reflexivity.
  - assert (x <> m) by (intro; subst; tauto).
    destruct (IH ND' I) as [rest E].
    + intros y Iy Ny. apply H; auto.
    + rewrite E. simpl. destruct (H x (or_introl eq_refl) H0) as [L _]. rewrite L. eexists; reflexivity.
Qed.

Lemma dedup_nodup l : NoDup (dedup l).
Proof.
  induction l as [|x t IH]; simpl; constructor.
  - intro H. apply filter_In in H. destruct H as [_ H]. rewrite String.eqb_refl in H. discriminate.
  - apply NoDup_filter. exact IH.
Qed.

Theorem visit_order_head (info : node_info) (origin : smap Z) (nu : string) :
  In nu (numa_nodes info) ->
  origin_on (nr_numa (ni_cap info)) origin nu = true ->
  (forall y, y <> nu -> origin_on (nr_numa (ni_cap info)) origin y = false) ->
  exists rest, numa_visit_order info origin = nu :: rest.
Proof.
  intros I On Off. unfold numa_visit_order. apply isort_head_min; [apply dedup_nodup|exact I|].
  intros y _ Ny. unfold numa_less. rewrite On, (Off y Ny). simpl. auto.
Qed.
