(* Cobalt/RepairLockProofs.v — for every schedule, a repair that takes the pod
   lock leaves usage = record next to a concurrent re-allocation; with another
   lock there is a schedule that breaks it. *)
From Coq Require Import List ZArith Bool Lia.
From Verif Require Import Cobalt.RepairLock.
Import ListNotations.
Local Open Scope Z_scope.

(* the invariant of the interleaving system when both take the pod lock *)
Definition cinv (d : Z) (s : cst) : Prop :=
  c_node s = None /\
  match c_pcA s, c_pcB s with
  | 0%nat, 0%nat => c_pod s = None /\ c_usage s = c_record s
  | 1%nat, 0%nat => c_pod s = Some TA /\ c_usage s = c_record s
  | 2%nat, 0%nat => c_pod s = Some TA /\ c_usage s = c_record s + d
  | 3%nat, 0%nat => c_pod s = Some TA /\ c_usage s = c_record s
  | 4%nat, 0%nat => c_pod s = None /\ c_usage s = c_record s
  | 0%nat, 1%nat => c_pod s = Some TB /\ c_usage s = c_record s
  | 0%nat, 2%nat => c_pod s = Some TB /\ c_usage s = c_record s
  | 0%nat, 3%nat => c_pod s = None /\ c_usage s = c_record s
  | 4%nat, 1%nat => c_pod s = Some TB /\ c_usage s = c_record s
  | 4%nat, 2%nat => c_pod s = Some TB /\ c_usage s = c_record s
  | 4%nat, 3%nat => c_pod s = None /\ c_usage s = c_record s
  | 1%nat, 3%nat => c_pod s = Some TA /\ c_usage s = c_record s
  | 2%nat, 3%nat => c_pod s = Some TA /\ c_usage s = c_record s + d
  | 3%nat, 3%nat => c_pod s = Some TA /\ c_usage s = c_record s
  | _, _ => False
  end.

Lemma cstep_inv d s t : cinv d s -> cinv d (cstep d LPod s t).
Proof.
  destruct s as [u r p n a b]. unfold cinv. simpl. intros [Hn H].
  destruct t; simpl.
  - destruct a as [|[|[|[|[|a]]]]]; destruct b as [|[|[|[|b]]]]; simpl in *; try tauto;
      destruct H as [Hp He]; subst; simpl; try (split; [reflexivity|split; [reflexivity|lia]]); try tauto;
      split; try reflexivity; try (split; [reflexivity|lia]); auto.
  - destruct a as [|[|[|[|[|a]]]]]; destruct b as [|[|[|[|b]]]]; simpl in *; try tauto;
      destruct H as [Hp He]; subst; simpl; try (split; [reflexivity|split; [reflexivity|lia]]); try tauto;
      split; try reflexivity; try (split; [reflexivity|lia]); auto.
Qed.

Lemma crun_inv d sched : forall s, cinv d s -> cinv d (crun d LPod s sched).
Proof.
  unfold crun. induction sched as [|t l IH]; intros s H; simpl; [exact H|]. apply IH. apply cstep_inv. exact H.
Qed.

(* C15 next to a concurrent realloc: whatever the schedule, once both have
   finished the usage equals the sum of the recorded workloads; and at every
   moment the usage differs from the record only while the realloc itself holds
   the pod lock between its two writes *)
Theorem repair_serialised d x sched :
  let s := crun d LPod (cinit x) sched in
  cinv d s /\ (finished s = true -> c_usage s = c_record s).
Proof.
  intro s. assert (I : cinv d s).
  { apply crun_inv. unfold cinv, cinit. simpl. auto. }
  split; [exact I|]. intro F. unfold finished in F. apply andb_true_iff in F. destruct F as [FA FB].
  apply Nat.eqb_eq in FA. apply Nat.eqb_eq in FB. destruct I as [_ I]. rewrite FA, FB in I. tauto.
Qed.

(* the pod lock is needed: if the repair takes the node-operation lock instead,
   the schedule "realloc up to its usage change; whole repair; rest of the
   realloc" ends with usage <> record *)
Theorem repair_needs_pod_lock :
  let s := crun 5 LNode (cinit 10) [TA; TA; TB; TB; TB; TA; TA] in
  finished s = true /\ c_usage s <> c_record s.
Proof. vm_compute. split; [reflexivity|discriminate]. Qed.
