(* Proofs about the model of cobalt's capacity aggregation (Cobalt/Merge.v).
   Part 1: generic in the number type (any add/mul/div): closed form of the
           pairwise merge, offered-iff-offered-by-all, capacity = min.
   Part 2: order independence for commutative-associative addition, and the
           saturating total for every iteration order. *)
From Coq Require Import List ZArith String Bool Lia Permutation.
From Verif Require Import Base.GoInt Base.GoFloat Cobalt.Merge.
Import ListNotations.
Local Open Scope Z_scope.

(* ---------- small generic list facts ---------- *)
Section NSum.
  Variable A : Type.
  Variable op : A -> A -> A.
  Hypothesis op_comm : forall a b, op a b = op b a.
  Hypothesis op_assoc : forall a b c, op a (op b c) = op (op a b) c.

  Lemma fold_left_op_acc : forall l x y, fold_left op l (op x y) = op x (fold_left op l y).
  Proof.
    induction l as [|z t IH]; intros x y; simpl; [reflexivity|].
    rewrite <- op_assoc. apply IH.
  Qed.

  Definition sum_ne (l : list A) : option A :=
    match l with [] => None | x :: t => Some (fold_left op t x) end.

  Lemma sum_ne_perm : forall l l', Permutation l l' -> sum_ne l = sum_ne l'.
  Proof.
    induction 1 as [|x l l' HP IH|x y l|l l' l'' _ IH1 _ IH2]; simpl.
    - reflexivity.
    - destruct l as [|y t]; destruct l' as [|y' t'].
      + reflexivity.
      + apply Permutation_nil in HP. discriminate.
      + apply Permutation_sym, Permutation_nil in HP. discriminate.
      + simpl in *. injection IH as IH. rewrite !fold_left_op_acc. now rewrite IH.
    - now rewrite (op_comm y x).
    - congruence.
  Qed.

  Lemma nsum_perm : forall x l y l',
    Permutation (x :: l) (y :: l') -> fold_left op l x = fold_left op l' y.
  Proof. intros x l y l' HP. apply sum_ne_perm in HP. simpl in HP. now injection HP. Qed.
End NSum.

Lemma fold_left_map_acc {A B C} (f : C -> B -> C) (g : A -> B) (l : list A) (x : C) :
  fold_left (fun acc i => f acc (g i)) l x = fold_left f (map g l) x.
Proof. revert x; induction l as [|a t IH]; intro x; simpl; [reflexivity|apply IH]. Qed.

(* ---------- Part 1: generic closed form ---------- *)
Section GenProofs.
  Variable T : Type.
  Variables add mul div : T -> T -> T.

  Notation Ndc := (ndc T).
  Notation Amap := (list (string * ndc T)).

  Lemma lookup_map_snd (g : Ndc -> Ndc) (n : string) (m : Amap) :
    lookup n (map (fun kv => (fst kv, g (snd kv))) m) = option_map g (lookup n m).
  Proof.
    induction m as [|[k v] t IH]; simpl; [reflexivity|].
    destruct (String.eqb n k); [reflexivity|exact IH].
  Qed.

  Lemma lookup_merge_none n (m2 : Amap) :
    lookup n (merge_capacity add mul None m2) = option_map (weigh mul) (lookup n m2).
  Proof. unfold merge_capacity. apply lookup_map_snd. Qed.

  Lemma lookup_merge_some n (m1 m2 : Amap) :
    lookup n (merge_capacity add mul (Some m1) m2) =
    match lookup n m1, lookup n m2 with
    | Some i1, Some i2 => Some (merge2 add mul i1 i2)
    | _, _ => None
    end.
  Proof.
    unfold merge_capacity.
    induction m1 as [|[k v] t IH]; simpl; [reflexivity|].
    destruct (String.eqb n k) eqn:E.
    - apply String.eqb_eq in E; subst k. destruct (lookup n m2) eqn:L; simpl.
      + rewrite String.eqb_refl. reflexivity.
      + rewrite IH. destruct (lookup n t); reflexivity.
    - destruct (lookup k m2); simpl; [rewrite E|]; exact IH.
  Qed.

  Definition step_agg (n : string) (acc : option Ndc) (a : Amap) : option Ndc :=
    match acc, lookup n a with
    | Some i1, Some i2 => Some (merge2 add mul i1 i2)
    | _, _ => None
    end.

  Definition agg (n : string) (answers : list Amap) : option Ndc :=
    match answers with
    | [] => None
    | a1 :: rest => fold_left (step_agg n) rest (option_map (weigh mul) (lookup n a1))
    end.

  Lemma merge_fold_lookup : forall (rest : list Amap) (m0 : Amap),
    exists m, fold_left (fun acc a => Some (merge_capacity add mul acc a)) rest (Some m0) = Some m /\
              forall n, lookup n m = fold_left (step_agg n) rest (lookup n m0).
  Proof.
    induction rest as [|a t IH]; intro m0; simpl.
    - exists m0. split; reflexivity.
    - destruct (IH (merge_capacity add mul (Some m0) a)) as [m [E L]].
      exists m. split; [exact E|]. intro n. rewrite L, lookup_merge_some. reflexivity.
  Qed.

  Lemma merge_all_lookup (a1 : Amap) (rest : list Amap) :
    exists m, merge_all add mul (a1 :: rest) = Some m /\ forall n, lookup n m = agg n (a1 :: rest).
  Proof.
    unfold merge_all. simpl.
    destruct (merge_fold_lookup rest (merge_capacity add mul None a1)) as [m [E L]].
    exists m. split; [exact E|]. intro n. rewrite L, lookup_merge_none. reflexivity.
  Qed.

  (* closed form of the pairwise merge *)
  Definition wsum (f : Ndc -> T) (i1 : Ndc) (rest : list Ndc) : T :=
    fold_left (fun acc i => add acc (mul (f i) (n_weight i))) rest (mul (f i1) (n_weight i1)).
  Definition sumw (i1 : Ndc) (rest : list Ndc) : T :=
    fold_left (fun acc i => add acc (n_weight i)) rest (n_weight i1).
  Definition mincap (i1 : Ndc) (rest : list Ndc) : Z :=
    fold_left (fun acc i => Z.min acc (n_cap i)) rest (n_cap i1).
  Definition merged (i1 : Ndc) (rest : list Ndc) : Ndc :=
    mkNdc (mincap i1 rest) (wsum n_usage i1 rest) (wsum n_rate i1 rest) (sumw i1 rest).

  Lemma fold_merge2_closed : forall (rest : list Ndc) (c : Z) (u r w : T),
    fold_left (merge2 add mul) rest (mkNdc c u r w) =
    mkNdc (fold_left (fun acc i => Z.min acc (n_cap i)) rest c)
          (fold_left (fun acc i => add acc (mul (n_usage i) (n_weight i))) rest u)
          (fold_left (fun acc i => add acc (mul (n_rate i) (n_weight i))) rest r)
          (fold_left (fun acc i => add acc (n_weight i)) rest w).
  Proof.
    induction rest as [|i t IH]; intros; simpl; [reflexivity|].
    unfold merge2 at 2; simpl. apply IH.
  Qed.

  Lemma fold_step_agg : forall (rest : list Amap) n (acc : option Ndc),
    fold_left (step_agg n) rest acc =
    match acc, infos_of n rest with
    | Some i, Some l => Some (fold_left (merge2 add mul) l i)
    | _, _ => None
    end.
  Proof.
    induction rest as [|a t IH]; intros n acc; simpl.
    - destruct acc; reflexivity.
    - rewrite IH. unfold step_agg. destruct acc as [i|]; simpl.
      + destruct (lookup n a) as [i2|]; simpl.
        * destruct (infos_of n t); reflexivity.
        * reflexivity.
      + reflexivity.
  Qed.

  Lemma agg_closed n (answers : list Amap) :
    agg n answers = match infos_of n answers with
                    | Some (i1 :: rest) => Some (merged i1 rest)
                    | _ => None
                    end.
  Proof.
    destruct answers as [|a1 rest]; simpl; [reflexivity|].
    rewrite fold_step_agg. destruct (lookup n a1) as [i1|]; simpl; [|reflexivity].
    destruct (infos_of n rest) as [l|]; [|reflexivity].
    unfold weigh. rewrite fold_merge2_closed. reflexivity.
  Qed.

  (* the result of GetNodesDeployCapacity, per node *)
  Theorem gndc_lookup (answers : list Amap) n : answers <> [] ->
    lookup n (fst (gndc add mul div answers)) =
    match infos_of n answers with
    | Some (i1 :: rest) => Some (finish div (merged i1 rest))
    | _ => None
    end.
  Proof.
    intro NE. destruct answers as [|a1 rest]; [congruence|].
    destruct (merge_all_lookup a1 rest) as [m [E L]].
    unfold gndc. rewrite E. simpl fst. rewrite lookup_map_snd, L, agg_closed.
    destruct (infos_of n (a1 :: rest)) as [[|i1 l]|]; reflexivity.
  Qed.

  Theorem gndc_no_plugin : gndc add mul div (@nil Amap) = ([], 0).
  Proof. reflexivity. Qed.

  (* ---------- keys of the merged map ---------- *)
  Definition keys (m : Amap) : list string := map fst m.

  Lemma keys_merge_none (m2 : Amap) : keys (merge_capacity add mul None m2) = keys m2.
  Proof. unfold keys, merge_capacity. rewrite map_map. reflexivity. Qed.

  Lemma keys_merge_some (m1 m2 : Amap) :
    keys (merge_capacity add mul (Some m1) m2) =
    filter (fun k => match lookup k m2 with Some _ => true | None => false end) (keys m1).
  Proof.
    unfold keys, merge_capacity. induction m1 as [|[k v] t IH]; simpl; [reflexivity|].
    rewrite map_app, IH. destruct (lookup k m2); reflexivity.
  Qed.

  Lemma merge_all_nodup (a1 : Amap) (rest : list Amap) m :
    NoDup (keys a1) -> merge_all add mul (a1 :: rest) = Some m -> NoDup (keys m).
  Proof.
    unfold merge_all; simpl. intro ND.
    assert (G : forall rest m0, NoDup (keys m0) ->
              forall m, fold_left (fun acc a => Some (merge_capacity add mul acc a)) rest (Some m0) = Some m ->
              NoDup (keys m)).
    { induction rest0 as [|a t IH]; intros m0 ND0 m' E; simpl in E.
      - injection E as <-. exact ND0.
      - apply (IH (merge_capacity add mul (Some m0) a)); [|exact E]. rewrite keys_merge_some. apply NoDup_filter. exact ND0. }
    intro E. apply (G rest (merge_capacity add mul None a1)); [rewrite keys_merge_none; exact ND|exact E].
  Qed.

  Lemma lookup_in (m : Amap) k v : NoDup (keys m) -> (In (k, v) m <-> lookup k m = Some v).
  Proof.
    induction m as [|[k' v'] t IH]; simpl; intro ND.
    - split; [tauto|discriminate].
    - inversion ND as [|? ? NI ND']; subst. destruct (String.eqb k k') eqn:E.
      + apply String.eqb_eq in E; subst k'. split.
        * intros [H|H]; [congruence|]. exfalso. apply NI. change k with (fst (k, v)). now apply in_map.
        * intro H; left; congruence.
      + apply String.eqb_neq in E. rewrite <- (IH ND'). split.
        * intros [H|H]; [congruence|exact H].
        * intro H; right; exact H.
  Qed.

  Lemma nodup_keys_nodup (m : Amap) : NoDup (keys m) -> NoDup m.
  Proof.
    induction m as [|[k v] t IH]; intro ND; [constructor|].
    inversion ND as [|? ? NI ND']; subst. constructor; [|auto].
    intro H. apply NI. change k with (fst (k, v)). now apply in_map.
  Qed.

  Lemma same_lookup_perm (m m' : Amap) :
    NoDup (keys m) -> NoDup (keys m') -> (forall n, lookup n m = lookup n m') -> Permutation m m'.
  Proof.
    intros ND ND' L. apply NoDup_Permutation; try (apply nodup_keys_nodup; assumption).
    intros [k v]. rewrite (lookup_in m k v ND), (lookup_in m' k v ND'), L. tauto.
  Qed.
End GenProofs.
Arguments merged {T}. Arguments mincap {T}. Arguments wsum {T}. Arguments sumw {T}. Arguments agg {T}.

(* ---------- the saturating total ---------- *)
Lemma wrap64_id z : min_int <= z <= max_int -> wrap64 z = z.
Proof.
  unfold wrap64, min_int, max_int, two64. intro H.
  rewrite Z.mod_small; lia.
Qed.

Lemma total_step_sat t c : 0 <= t <= max_int -> 0 <= c <= max_int ->
  total_step t c = Z.min max_int (t + c).
Proof.
  unfold total_step. intros Ht Hc.
  destruct (Z.eqb_spec t max_int) as [E|E]; cbn [orb].
  - unfold max_int in *; lia.
  - rewrite (wrap64_id (max_int - t)) by (unfold min_int, max_int in *; lia).
    destruct (Z.leb_spec (max_int - t) c).
    + unfold max_int in *; lia.
    + rewrite wrap64_id by (unfold min_int, max_int in *; lia). unfold max_int in *; lia.
Qed.

Definition cap_ok (c : Z) : Prop := 0 <= c <= max_int.

Lemma total_fold_sat : forall caps t, 0 <= t <= max_int -> Forall cap_ok caps ->
  fold_left total_step caps t = Z.min max_int (t + fold_right Z.add 0 caps).
Proof.
  induction caps as [|c l IH]; intros t Ht Hc; simpl.
  - unfold max_int in *. lia.
  - inversion Hc as [|? ? Hc1 Hc2]; subst. unfold cap_ok in Hc1.
    rewrite IH; [|rewrite total_step_sat by assumption; unfold max_int in *; lia|assumption].
    rewrite total_step_sat by assumption.
    assert (0 <= fold_right Z.add 0 l).
    { clear -Hc2. induction Hc2 as [|x l Hx _ IH]; simpl; [lia|]. unfold cap_ok in Hx. lia. }
    unfold max_int in *. lia.
Qed.

Lemma total_of_sat caps : Forall cap_ok caps -> total_of caps = satsum caps.
Proof.
  intro H. unfold total_of, satsum. rewrite total_fold_sat; [reflexivity|unfold max_int; lia|exact H].
Qed.

Lemma sum_perm l l' : Permutation l l' -> fold_right Z.add 0 l = fold_right Z.add 0 l'.
Proof. induction 1; simpl; lia. Qed.

(* the total does not depend on the order in which the merged map is iterated *)
Lemma total_of_perm caps caps' : Forall cap_ok caps -> Permutation caps caps' ->
  total_of caps' = total_of caps.
Proof.
  intros H P. rewrite !total_of_sat; [| exact H | eapply Permutation_Forall; eassumption].
  unfold satsum. now rewrite (sum_perm _ _ P).
Qed.

(* ---------- Part 2: order independence ---------- *)
Section OrderIndep.
  Variable T : Type.
  Variables add mul div : T -> T -> T.
  Hypothesis add_comm : forall a b, add a b = add b a.
  Hypothesis add_assoc : forall a b c, add a (add b c) = add (add a b) c.

  Notation Ndc := (ndc T).
  Notation Amap := (list (string * ndc T)).

  Lemma infos_perm n (answers answers' : list Amap) : Permutation answers answers' ->
    match infos_of n answers, infos_of n answers' with
    | Some l, Some l' => Permutation l l'
    | None, None => True
    | _, _ => False
    end.
  Proof.
    induction 1 as [|a l l' _ IH|a b l|l l' l'' _ IH1 _ IH2]; simpl.
    - constructor.
    - destruct (lookup n a); [|exact I].
      destruct (infos_of n l), (infos_of n l'); try exact IH; try exact I. now constructor.
    - destruct (lookup n a), (lookup n b), (infos_of n l); try exact I. apply perm_swap.
    - destruct (infos_of n l), (infos_of n l'), (infos_of n l''); try tauto.
      eapply Permutation_trans; eassumption.
  Qed.

  Lemma merged_perm (i1 : Ndc) rest (j1 : Ndc) rest' :
    Permutation (i1 :: rest) (j1 :: rest') -> merged add mul i1 rest = merged add mul j1 rest'.
  Proof.
    intro P. unfold merged, mincap, wsum, sumw. f_equal.
    - rewrite !(fold_left_map_acc Z.min n_cap).
      apply (nsum_perm Z Z.min Z.min_comm Z.min_assoc).
      change (Permutation (map n_cap (i1 :: rest)) (map n_cap (j1 :: rest'))). now apply Permutation_map.
    - rewrite !(fold_left_map_acc add (fun i => mul (n_usage i) (n_weight i))).
      apply (nsum_perm T add add_comm add_assoc).
      change (Permutation (map (fun i => mul (n_usage i) (n_weight i)) (i1 :: rest))
                          (map (fun i => mul (n_usage i) (n_weight i)) (j1 :: rest'))).
      now apply Permutation_map.
    - rewrite !(fold_left_map_acc add (fun i => mul (n_rate i) (n_weight i))).
      apply (nsum_perm T add add_comm add_assoc).
      change (Permutation (map (fun i => mul (n_rate i) (n_weight i)) (i1 :: rest))
                          (map (fun i => mul (n_rate i) (n_weight i)) (j1 :: rest'))).
      now apply Permutation_map.
    - rewrite !(fold_left_map_acc add n_weight).
      apply (nsum_perm T add add_comm add_assoc).
      change (Permutation (map n_weight (i1 :: rest)) (map n_weight (j1 :: rest'))). now apply Permutation_map.
  Qed.

  Theorem gndc_order_indep (answers answers' : list Amap) n :
    Permutation answers answers' ->
    lookup n (fst (gndc add mul div answers)) = lookup n (fst (gndc add mul div answers')).
  Proof.
    intro P. destruct answers as [|a1 rest].
    - apply Permutation_nil in P. subst. reflexivity.
    - assert (NE' : answers' <> []).
      { intro E; subst. apply Permutation_sym, Permutation_nil in P. discriminate. }
      rewrite !gndc_lookup by (assumption || discriminate).
      pose proof (infos_perm n _ _ P) as IP.
      destruct (infos_of n (a1 :: rest)) as [l|], (infos_of n answers') as [l'|]; try tauto.
      destruct l as [|i1 r1], l' as [|j1 r1'].
      + reflexivity.
      + apply Permutation_nil in IP. discriminate.
      + apply Permutation_sym, Permutation_nil in IP. discriminate.
      + now rewrite (merged_perm _ _ _ _ IP).
  Qed.
End OrderIndep.

(* In the order-independence proof above only the capacity component needs no
   hypothesis on [add]: min is commutative and associative on Z. *)
Section CapIndep.
  Variable T : Type.
  Variables add mul div : T -> T -> T.
  Notation Amap := (list (string * ndc T)).

  Definition cap_of (o : option (ndc T)) : option Z := option_map n_cap o.

  Theorem gndc_cap_order_indep (answers answers' : list Amap) n :
    Permutation answers answers' ->
    cap_of (lookup n (fst (gndc add mul div answers))) = cap_of (lookup n (fst (gndc add mul div answers'))).
  Proof.
    intro P. destruct answers as [|a1 rest].
    - apply Permutation_nil in P. subst. reflexivity.
    - assert (NE' : answers' <> []).
      { intro E; subst. apply Permutation_sym, Permutation_nil in P. discriminate. }
      rewrite !gndc_lookup by (assumption || discriminate).
      pose proof (infos_perm T n _ _ P) as IP.
      destruct (infos_of n (a1 :: rest)) as [l|], (infos_of n answers') as [l'|]; try tauto.
      destruct l as [|i1 r1], l' as [|j1 r1'].
      + reflexivity.
      + apply Permutation_nil in IP. discriminate.
      + apply Permutation_sym, Permutation_nil in IP. discriminate.
      + simpl. f_equal. unfold mincap.
        rewrite !(fold_left_map_acc Z.min n_cap).
        apply (nsum_perm Z Z.min Z.min_comm Z.min_assoc).
        change (Permutation (map n_cap (i1 :: r1)) (map n_cap (j1 :: r1'))). now apply Permutation_map.
  Qed.
End CapIndep.
