(* Cobalt/RepairLock.v — why the repair of C15 is safe next to a concurrent
   re-allocation: both cluster/calcium/resource.go:doGetNodeResource and
   cluster/calcium/realloc.go:ReallocResource work under the POD lock of the
   node (withNodePodLocked).  Interleaving model at the granularity of the calls
   to the resource manager and the store.

     realloc  (thread A): Lock(pod); usage += d   (rmgr.Realloc)
                                    ; record += d  (store.UpdateWorkload); Unlock
     repair   (thread B): Lock(l)  ; usage := record (ListNodeWorkloads +
                                      GetNodeResourceInfo(fix=true)); Unlock
   with l = pod in the code.  One integer stands for the usage and for the sum of
   the recorded workloads (every component behaves the same way).
   Executable, no proofs. *)
From Coq Require Import List ZArith Bool.
From Verif Require Import Base.RunLib Cpumem.Types Cpumem.Node.
Import ListNotations.
Local Open Scope Z_scope.

Inductive tid := TA | TB.
Inductive lockid := LPod | LNode.

Record cst := mkCst {
  c_usage : Z; c_record : Z;
  c_pod : option tid;      (* holder of the pod lock *)
  c_node : option tid;     (* holder of the node-operation lock *)
  c_pcA : nat; c_pcB : nat }.

Definition free (l : option tid) : bool := match l with None => true | Some _ => false end.

(* one step of thread [t]; a blocked or finished thread does not move.
   [bl] is the lock the repair takes (LPod in the code). *)
Definition cstep (d : Z) (bl : lockid) (s : cst) (t : tid) : cst :=
  match t with
  | TA =>
      match c_pcA s with
      | O => if free (c_pod s) then mkCst (c_usage s) (c_record s) (Some TA) (c_node s) 1 (c_pcB s) else s
      | S O => mkCst (c_usage s + d) (c_record s) (c_pod s) (c_node s) 2 (c_pcB s)
      | S (S O) => mkCst (c_usage s) (c_record s + d) (c_pod s) (c_node s) 3 (c_pcB s)
      | S (S (S O)) => mkCst (c_usage s) (c_record s) None (c_node s) 4 (c_pcB s)
      | _ => s
      end
  | TB =>
      match c_pcB s with
      | O => match bl with
             | LPod => if free (c_pod s) then mkCst (c_usage s) (c_record s) (Some TB) (c_node s) (c_pcA s) 1 else s
             | LNode => if free (c_node s) then mkCst (c_usage s) (c_record s) (c_pod s) (Some TB) (c_pcA s) 1 else s
             end
      | S O => mkCst (c_record s) (c_record s) (c_pod s) (c_node s) (c_pcA s) 2
      | S (S O) => match bl with
                   | LPod => mkCst (c_usage s) (c_record s) None (c_node s) (c_pcA s) 3
                   | LNode => mkCst (c_usage s) (c_record s) (c_pod s) None (c_pcA s) 3
                   end
      | _ => s
      end
  end.

Definition crun (d : Z) (bl : lockid) (s : cst) (sched : list tid) : cst := fold_left (cstep d bl) sched s.
Definition cinit (x : Z) : cst := mkCst x x None None 0 0.
Definition finished (s : cst) : bool := Nat.eqb (c_pcA s) 4 && Nat.eqb (c_pcB s) 3.

(* ---------- cases of the correspondence check (calcium level) ---------- *)
(* the realloc is stopped between rmgr.Realloc and store.UpdateWorkload, the
   repair is started and given time; lk_inside: the repair returned while the
   realloc was still stopped.  Then everything runs to completion and the node is
   checked once more: usage, recorded workloads, diffs. *)
Record lockcase := mkLockCase {
  lk_inside : bool; lk_usage : node_resource; lk_ws : list wres; lk_diffs : diffs }.

(* with the pod lock in both operations the repair cannot run inside *)
Definition agree_lock (c : lockcase) : bool := negb (lk_inside c).
Definition ok_lock (c : lockcase) : bool :=
  no_diffs (lk_diffs c) && usage_is_sum (lk_usage c) (lk_ws c) (map (fun w => nano (wr_cpu_req w)) (lk_ws c)).
