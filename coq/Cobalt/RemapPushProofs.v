(* Cobalt/RemapPushProofs.v — the push loop of doRemapResource reaches every
   workload of the remap result whose engine update succeeds, whatever the
   iteration order and whichever updates fail. *)
From Coq Require Import String List ZArith Bool Lia Permutation.
From Verif Require Import Base.GoInt Base.GoFloat Cpumem.Types Cpumem.Node Cobalt.RemapPush.
Import ListNotations.

Lemma eng_get_set e i m j : eng_get (eng_set e i m) j = if Nat.eqb j i then Some m else eng_get e j.
Proof.
  induction e as [|[k m'] t IH]; simpl.
  - destruct (Nat.eqb j i); reflexivity.
  - destruct (Nat.eqb i k) eqn:E; simpl.
    + apply Nat.eqb_eq in E. subst k. destruct (Nat.eqb j i); reflexivity.
    + destruct (Nat.eqb j k) eqn:E2.
      * apply Nat.eqb_eq in E2. subst k. rewrite Nat.eqb_sym, E. reflexivity.
      * exact IH.
Qed.

(* entries for other workloads do not touch workload i *)
Lemma push_all_other fails remap : forall e i,
  (forall m, In (i, m) remap -> fails i = true) -> eng_get (push_all fails e remap) i = eng_get e i.
Proof.
  unfold push_all. induction remap as [|[j m] t IH]; intros e i H; simpl; [reflexivity|].
  rewrite IH by (intros m' I; apply (H m'); simpl; auto).
  unfold push_one. simpl. destruct (fails j) eqn:F; [reflexivity|].
  rewrite eng_get_set. destruct (Nat.eqb i j) eqn:E; [|reflexivity].
  apply Nat.eqb_eq in E. subst j. rewrite (H m) in F by (simpl; auto). discriminate.
Qed.

(* C32 at the engine: a workload of the remap result whose update does not fail
   ends up with exactly the cpu map computed for it *)
Theorem push_all_reaches fails remap : NoDup (map fst remap) ->
  forall e i m, In (i, m) remap -> fails i = false -> eng_get (push_all fails e remap) i = Some m.
Proof.
  unfold push_all. induction remap as [|[j m'] t IH]; intros ND e i m I F; simpl in *; [tauto|].
  inversion ND as [|? ? NI ND']; subst. destruct I as [I|I].
  - injection I as -> ->. fold (push_all fails (push_one fails e (i, m)) t).
    rewrite push_all_other.
    + unfold push_one. simpl. rewrite F, eng_get_set, Nat.eqb_refl. reflexivity.
    + intros m0 I0. exfalso. apply NI. change i with (fst (i, m0)). now apply in_map.
  - apply IH; assumption.
Qed.

(* a workload that is not in the remap result (bound workloads), or whose update
   fails, keeps what it had *)
Theorem push_all_untouched fails remap e i :
  ~ In i (map fst remap) \/ fails i = true -> eng_get (push_all fails e remap) i = eng_get e i.
Proof.
  intros [H|H]; apply push_all_other; intros m I.
  - exfalso. apply H. change i with (fst (i, m)). now apply in_map.
  - exact H.
Qed.

(* hence the result does not depend on the iteration order of the Go map *)
Theorem push_all_order_indep fails remap remap' e i :
  NoDup (map fst remap) -> Permutation remap remap' ->
  eng_get (push_all fails e remap) i = eng_get (push_all fails e remap') i.
Proof.
  intros ND P.
  assert (ND' : NoDup (map fst remap')) by (eapply Permutation_NoDup; [apply Permutation_map; exact P|exact ND]).
  destruct (fails i) eqn:F.
  - rewrite !push_all_untouched by auto. reflexivity.
  - destruct (in_dec Nat.eq_dec i (map fst remap)) as [I|NI].
    + apply in_map_iff in I. destruct I as [[j m] [E I]]. simpl in E. subst j.
      rewrite (push_all_reaches fails remap ND e i m I F).
      rewrite (push_all_reaches fails remap' ND' e i m (Permutation_in _ P I) F). reflexivity.
    + rewrite !push_all_untouched; [reflexivity| |left; exact NI].
      left. intro H. apply NI. eapply Permutation_in; [apply Permutation_sym, Permutation_map; exact P|exact H].
Qed.
