(* Cobalt/RemapPush.v — the engine half of a remap (C32): model of
   cluster/calcium/remap.go:doRemapResource.

     engineParamsMap, err := c.rmgr.Remap(ctx, node.Name, workloads)
     for workloadID, engineParams := range engineParamsMap {
         ch <- &remapMsg{ID: workloadID,
                         err: node.Engine.VirtualizationUpdateResource(ctx, workloadID, engineParams)}
     }

   Every entry of the remap result is pushed to the engine; a failing update is
   reported for that workload and does not stop the loop.  The engine is the
   association workload -> cpu map last set on its container; workloads are
   identified by their position in the (sorted) list of recorded workloads.
   Executable, no proofs. *)
From Coq Require Import String List ZArith Bool.
From Verif Require Import Base.GoInt Base.GoFloat Base.RunLib Cpumem.Types Cpumem.Node.
Import ListNotations.
Local Open Scope Z_scope.

Definition engine := list (nat * smap Z).

Fixpoint eng_get (e : engine) (i : nat) : option (smap Z) :=
  match e with
  | [] => None
  | (j, m) :: t => if Nat.eqb i j then Some m else eng_get t i
  end.
Fixpoint eng_set (e : engine) (i : nat) (m : smap Z) : engine :=
  match e with
  | [] => [(i, m)]
  | (j, m') :: t => if Nat.eqb i j then (j, m) :: t else (j, m') :: eng_set t i m
  end.

(* one iteration of the loop: VirtualizationUpdateResource, which fails for the
   workloads in [fails] (container gone, engine error) and changes nothing then *)
Definition push_one (fails : nat -> bool) (e : engine) (r : nat * smap Z) : engine :=
  if fails (fst r) then e else eng_set e (fst r) (snd r).

(* the whole loop, in the iteration order of the Go map (= list order) *)
Definition push_all (fails : nat -> bool) (e : engine) (remap : list (nat * smap Z)) : engine :=
  fold_left (push_one fails) remap e.

(* Manager.Remap with the single cpumem plugin, then the push *)
Definition do_remap (info : node_info) (base : Z) (ws : list (nat * wres)) (fails : nat -> bool) (e : engine) : engine :=
  push_all fails e (map (fun ke => (fst ke, ep_cpumap (snd ke))) (calculate_remap info base ws)).

(* ---------- cases of the correspondence check (calcium level) ---------- *)
(* the plugin's record and the recorded workloads when the remap ran, the cpu
   maps on the containers before it, the workloads whose engine update was made
   to fail, and the cpu maps on the containers afterwards *)
Record pushcase := mkPushCase {
  p_base : Z; p_info : node_info; p_ws : list (nat * wres);
  p_before : engine; p_failed : list nat; p_after : engine }.

Definition failed_in (l : list nat) (i : nat) : bool := existsb (Nat.eqb i) l.

Definition eng_eqb (ws : list (nat * wres)) (a b : engine) : bool :=
  forallb (fun kw => option_eqb (smap_eqb Z.eqb) (eng_get a (fst kw)) (eng_get b (fst kw))) ws.

Definition agree_push (c : pushcase) : bool :=
  eng_eqb (p_ws c) (do_remap (p_info c) (p_base c) (p_ws c) (failed_in (p_failed c)) (p_before c)) (p_after c).

(* boolean reflection of C32 at the engine: every workload without cpu binding
   whose engine update did not fail runs on exactly the cores with a full core's
   worth of free pieces; bound workloads keep what they had *)
Definition ok_push (c : pushcase) : bool :=
  let exp := sort_strs (expected_share (ni_cap (p_info c)) (ni_usage (p_info c)) (p_base c)) in
  forallb (fun kw =>
    match wr_cpumap (snd kw) with
    | [] => if failed_in (p_failed c) (fst kw) then true
            else match eng_get (p_after c) (fst kw) with
                 | Some m => list_eqb String.eqb (sort_strs (keys m)) exp && forallb (fun kv => snd kv =? p_base c) m
                 | None => false
                 end
    | _ => option_eqb (smap_eqb Z.eqb) (eng_get (p_after c) (fst kw)) (eng_get (p_before c) (fst kw))
    end) (p_ws c).
