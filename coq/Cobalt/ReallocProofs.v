(* Cobalt/ReallocProofs.v — C33: refutation witnesses (NUMA, fractional) of the
   full statement on the faithful model of CalculateRealloc. *)
From Coq Require Import String Ascii List ZArith Bool Lia Permutation.
From Verif Require Import Base.GoInt Base.GoFloat Cpumem.Types Cpumem.Schedule Cpumem.Calc Cpumem.Node Cobalt.Merge Cobalt.Realloc.
Import ListNotations.
Local Open Scope Z_scope.
Local Open Scope string_scope.

Definition f1 : f64 := f_of_Z 1.
Definition keep_req : wreq := mkReq false true f_zero f_zero 0 0.

(* (i) NUMA.  4 whole cores, cores 0,2 on NUMA node "0" and 1,3 on node "1"; one
   workload bound to core 1 (node "1", 100 memory).  When the NUMA iteration
   visits node "0" first, plans[0] comes from node "0": the workload moves to
   core 0 / node "0".  (Witness replayed on the real code: harness c33 corpus.) *)
Definition numa_cap : node_resource :=
  mkNR (f_of_Z 4) [("0", 100); ("1", 100); ("2", 100); ("3", 100)] 4000 [("0", 2000); ("1", 2000)]
       [("0", "0"); ("1", "1"); ("2", "0"); ("3", "1")].
Definition numa_usage : node_resource :=
  mkNR f1 [("0", 0); ("1", 100); ("2", 0); ("3", 0)] 100 [("0", 0); ("1", 100)]
       [("0", "0"); ("1", "1"); ("2", "0"); ("3", "1")].
Definition numa_origin : wres := mkWR f1 f1 100 100 [("1", 100)] [("1", 100)] "1".

Definition numa_info : node_info := mkNI numa_cap numa_usage.
Definition numa_run (order : list string) :=
  calculate_realloc numa_info 100 (-1) numa_origin keep_req order (default_fuel (put_back numa_info numa_origin)).

Lemma numa_witness :
  match numa_run ["0"; "1"] with
  | Ok (inr (new, _)) => keeps_cores numa_origin new = false
  | _ => False
  end /\ In ["0"; "1"] (perms (numa_nodes numa_info)).
Proof. split; vm_compute; auto. Qed.

(* with the other order the cores are kept: the answer depends on Go's map order *)
Lemma numa_witness_other_order :
  match numa_run ["1"; "0"] with
  | Ok (inr (new, _)) => keeps_cores numa_origin new = true
  | _ => False
  end.
Proof. vm_compute. reflexivity. Qed.

(* (ii) fractional bound workload, no NUMA.  4 whole cores; one workload of 1.5
   cpu holding 50 pieces of core 0 and all of core 1.  After the origin is put
   back the planner hands out core 0 whole and 50 pieces of core 1. *)
Definition f15 : f64 := fdiv (f_of_Z 3) (f_of_Z 2).
Definition frac_cap : node_resource := mkNR (f_of_Z 4) [("0", 100); ("1", 100); ("2", 100); ("3", 100)] 4000 [] [].
Definition frac_usage : node_resource := mkNR f15 [("0", 50); ("1", 100); ("2", 0); ("3", 0)] 0 [] [].
Definition frac_origin : wres := mkWR f15 f15 0 0 [("0", 50); ("1", 100)] [] "".

Definition frac_info : node_info := mkNI frac_cap frac_usage.
Definition frac_run :=
  calculate_realloc frac_info 100 (-1) frac_origin keep_req [] (default_fuel (put_back frac_info frac_origin)).

Lemma frac_witness :
  match frac_run with
  | Ok (inr (new, _)) => keeps_cores frac_origin new = false
  | _ => False
  end /\ numa_nodes frac_info = [].
Proof. split; vm_compute; reflexivity. Qed.
