(* Cobalt/ReallocProofs.v — C33: refutation witnesses (NUMA, fractional) of the
   full statement on the faithful model of CalculateRealloc. *)
From Coq Require Import String Ascii List ZArith Bool Lia Permutation.
From Verif Require Import Base.GoInt Base.GoFloat Cpumem.Types Cpumem.Schedule Cpumem.Calc Cpumem.Node Cobalt.Merge Cobalt.Realloc.
Import ListNotations.
Local Open Scope Z_scope.
Local Open Scope string_scope.

Definition f1 : f64 := f_of_Z 1.
Definition keep_req : wreq := mkReq false true f_zero f_zero 0 0.

(* (i) NUMA.  4 whole cores, cores 0,2 on NUMA node "0" and 1,3 on node "1"; one
   workload bound to core 1 (node "1", 100 memory).  When the NUMA iteration
   visits node "0" first, plans[0] comes from node "0": the workload moves to
   core 0 / node "0".  (Witness replayed on the real code: harness c33 corpus.) *)
Definition numa_cap : node_resource :=
  mkNR (f_of_Z 4) [("0", 100); ("1", 100); ("2", 100); ("3", 100)] 4000 [("0", 2000); ("1", 2000)]
       [("0", "0"); ("1", "1"); ("2", "0"); ("3", "1")].
Definition numa_usage : node_resource :=
  mkNR f1 [("0", 0); ("1", 100); ("2", 0); ("3", 0)] 100 [("0", 0); ("1", 100)]
       [("0", "0"); ("1", "1"); ("2", "0"); ("3", "1")].
Definition numa_origin : wres := mkWR f1 f1 100 100 [("1", 100)] [("1", 100)] "1".

Definition numa_info : node_info := mkNI numa_cap numa_usage.
Definition numa_run (order : list string) :=
  calculate_realloc numa_info 100 (-1) numa_origin keep_req order (default_fuel (put_back numa_info numa_origin)).

Lemma numa_witness :
  match numa_run ["0"; "1"] with
  | Ok (inr (new, _)) => keeps_cores numa_origin new = false
  | _ => False
  end /\ In ["0"; "1"] (perms (numa_nodes numa_info)).
Proof. split; vm_compute; auto. Qed.

(* with the other order the cores are kept: the answer depends on Go's map order *)
Lemma numa_witness_other_order :
  match numa_run ["1"; "0"] with
  | Ok (inr (new, _)) => keeps_cores numa_origin new = true
  | _ => False
  end.
Proof. vm_compute. reflexivity. Qed.

(* since /repo 3d8e6c0 GetCPUPlans visits the origin's NUMA node first: with the
   order the code uses now the witness keeps its cores and its NUMA node *)
Lemma numa_witness_now :
  numa_visit_order (put_back numa_info numa_origin) (wr_cpumap numa_origin) = ["1"; "0"] /\
  match numa_run (numa_visit_order (put_back numa_info numa_origin) (wr_cpumap numa_origin)) with
  | Ok (inr (new, _)) => keeps_cores numa_origin new = true
  | _ => False
  end.
Proof. split; vm_compute; reflexivity. Qed.

(* (i') NUMA memory.  Same node; the workload on core 1 (node "1", 100 memory)
   asks for 1950 more memory: node "1" has only 2000, so no plan comes from it and
   the request is granted across NUMA nodes: same core, NUMA node cleared (on the
   current code, with the order it uses). *)
Definition grow_req : wreq := mkReq false true f_zero f_zero 1950 1950.
Lemma numa_memory_witness :
  match calculate_realloc numa_info 100 (-1) numa_origin grow_req
          (numa_visit_order (put_back numa_info numa_origin) (wr_cpumap numa_origin))
          (default_fuel (put_back numa_info numa_origin)) with
  | Ok (inr (new, _)) => keeps_cores numa_origin new = false /\ wr_numanode new = ""
  | _ => False
  end.
Proof. vm_compute. split; reflexivity. Qed.

(* (ii) fractional bound workload, no NUMA.  4 whole cores; one workload of 1.5
   cpu holding 50 pieces of core 0 and all of core 1.  After the origin is put
   back the planner hands out core 0 whole and 50 pieces of core 1. *)
Definition f15 : f64 := fdiv (f_of_Z 3) (f_of_Z 2).
Definition frac_cap : node_resource := mkNR (f_of_Z 4) [("0", 100); ("1", 100); ("2", 100); ("3", 100)] 4000 [] [].
Definition frac_usage : node_resource := mkNR f15 [("0", 50); ("1", 100); ("2", 0); ("3", 0)] 0 [] [].
Definition frac_origin : wres := mkWR f15 f15 0 0 [("0", 50); ("1", 100)] [] "".

Definition frac_info : node_info := mkNI frac_cap frac_usage.
Definition frac_run :=
  calculate_realloc frac_info 100 (-1) frac_origin keep_req [] (default_fuel (put_back frac_info frac_origin)).

Lemma frac_witness :
  match frac_run with
  | Ok (inr (new, _)) => keeps_cores frac_origin new = false
  | _ => False
  end /\ numa_nodes frac_info = [].
Proof. split; vm_compute; reflexivity. Qed.

(* ---------- the positive part: no NUMA, whole cores, same whole number of cores ---------- *)
From Verif Require Import Cobalt.AffinityProofs.

Theorem realloc_keeps_cores sortf (info : node_info) (base maxshare : Z) (origin : wres) (raw nr : wreq)
    (fuel : nat) (new d : wres) :
  0 < base ->
  nr_numa (ni_cap info) = [] ->
  rq_keep raw = true ->
  wr_cpumap origin <> [] -> NoDup (keys (wr_cpumap origin)) ->
  (forall c v, In (c, v) (wr_cpumap origin) -> v = base) ->
  (* after the origin is put back its cores are whole free cores *)
  NoDup (keys (nr_cpumap (get_available_nofloat (put_back info origin)))) ->
  (forall c, In c (keys (wr_cpumap origin)) ->
             lookup_opt (nr_cpumap (get_available_nofloat (put_back info origin))) c = Some base) ->
  (* no cpu change: the validated new request asks for as many whole cores as the origin holds *)
  wreq_validate (realloc_newreq origin raw) = inr nr ->
  pieces_request base (rq_cpu_req nr) = base * Z.of_nat (List.length (wr_cpumap origin)) ->
  calculate_realloc_g sortf info base maxshare origin raw [] fuel = Ok (inr (new, d)) ->
  wr_numanode new = EmptyString /\ forall k, lookup_opt (wr_cpumap new) k = lookup_opt (wr_cpumap origin) k.
Proof.
  intros Hb Hn Hk Hne Hnd Hbase Hav Hfree V Hreq.
  unfold calculate_realloc_g. rewrite V.
  assert (B : realloc_bind origin raw = true).
  { unfold realloc_bind. rewrite Hk. destruct (wr_cpumap origin); [congruence|reflexivity]. }
  rewrite B.
  destruct (get_cpu_plans_g sortf (put_back info origin) (wr_cpumap origin) base maxshare nr [] fuel) as [plans| | |] eqn:P;
    cbn [bind]; try discriminate.
  assert (F := first_plan_is_origin sortf base maxshare (put_back info origin) (wr_cpumap origin) nr fuel).
  repeat match type of F with
         | ?A -> _ => let H := fresh in assert (H : A) by assumption; specialize (F H); clear H
         end.
  destruct (F plans Hn Hav Hfree P) as [->|[p [rest [-> L]]]].
  - discriminate.
  - intro E. injection E as <- _. simpl. split; [reflexivity|exact L].
Qed.

(* the same with a NUMA topology, the origin's NUMA node [nu] visited first (as
   GetCPUPlans does since /repo 3d8e6c0): a granted realloc stays on the origin's
   cores and on node [nu], unless node [nu] itself yields no plan (its memory
   cannot hold the new request): then the answer comes from elsewhere *)
Theorem realloc_keeps_cores_numa sortf (info : node_info) (base maxshare : Z) (origin : wres) (raw nr : wreq)
    (nu : string) (order : list string) (fuel : nat) (new d : wres) :
  0 < base ->
  rq_keep raw = true ->
  nu <> EmptyString ->
  wr_cpumap origin <> [] -> NoDup (keys (wr_cpumap origin)) ->
  (forall c v, In (c, v) (wr_cpumap origin) -> v = base) ->
  let info' := put_back info origin in
  let avail := get_available_nofloat info' in
  let numamap := numa_cpu_map (nr_numa (ni_cap info)) (nr_cpumap avail) nu in
  let numamem := Z.min (Types.lookup 0 (nr_numamem avail) nu) (nr_mem avail) in
  NoDup (keys numamap) ->
  (forall c, In c (keys (wr_cpumap origin)) -> lookup_opt numamap c = Some base) ->
  wreq_validate (realloc_newreq origin raw) = inr nr ->
  pieces_request base (rq_cpu_req nr) = base * Z.of_nat (List.length (wr_cpumap origin)) ->
  calculate_realloc_g sortf info base maxshare origin raw (nu :: order) fuel = Ok (inr (new, d)) ->
  (wr_numanode new = nu /\ wr_numamem new = [(nu, rq_mem_req nr)] /\
   forall k, lookup_opt (wr_cpumap new) k = lookup_opt (wr_cpumap origin) k)
  \/ do_get_cpu_plans_g sortf (wr_cpumap origin) numamap numamem base maxshare (rq_cpu_req nr) (rq_mem_req nr) fuel = Ok [].
Proof.
  intros Hb Hk Hnu Hne Hnd Hbase info' avail numamap numamem Hav Hfree V Hreq.
  unfold calculate_realloc_g. rewrite V.
  assert (B : realloc_bind origin raw = true).
  { unfold realloc_bind. rewrite Hk. destruct (wr_cpumap origin); [congruence|reflexivity]. }
  rewrite B. fold info'.
  destruct (get_cpu_plans_g sortf info' (wr_cpumap origin) base maxshare nr (nu :: order) fuel) as [plans| | |] eqn:P;
    cbn [bind]; try discriminate.
  destruct (first_plan_is_origin_numa sortf base maxshare info' (wr_cpumap origin) nr fuel Hb Hne Hnd Hbase Hreq nu order plans Hav Hfree P)
    as [[p [rest [-> L]]]|E].
  - intro H. injection H as <- _. left. cbn [wr_numanode wr_numamem wr_cpumap].
    split; [reflexivity|]. split; [|exact L]. destruct nu; [congruence|reflexivity].
  - intros _. right. exact E.
Qed.

(* the hypotheses are satisfiable: 4 whole cores, a workload on cores 2 and 3, +50 memory *)
Example realloc_keeps_cores_example :
  let cap := mkNR (f_of_Z 4) [("0", 100); ("1", 100); ("2", 100); ("3", 100)] 4000 [] [] in
  let usage := mkNR (f_of_Z 2) [("0", 0); ("1", 0); ("2", 100); ("3", 100)] 100 [] [] in
  let origin := mkWR (f_of_Z 2) (f_of_Z 2) 100 100 [("2", 100); ("3", 100)] [] "" in
  let raw := mkReq false true f_zero f_zero 50 50 in
  match calculate_realloc (mkNI cap usage) 100 (-1) origin raw [] (default_fuel (put_back (mkNI cap usage) origin)) with
  | Ok (inr (new, _)) => keeps_cores origin new = true /\ wr_mem_req new = 150
  | _ => False
  end.
Proof. vm_compute. split; reflexivity. Qed.

(* ---------- the two hypotheses on the available map, from the node record ---------- *)
From Verif Require Import Cpumem.BookProofs Cpumem.BookRemapProofs.

(* a node whose cores have whole-core shares, with the origin recorded on whole
   cores that it alone occupies: after the put-back those cores are whole free cores *)
Lemma avail_after_put_back (info : node_info) (origin : wres) (base : Z) :
  NoDup (keys (nr_cpumap (ni_cap info))) ->
  NoDup (keys (nr_cpumap (ni_usage info))) ->
  NoDup (keys (wr_cpumap origin)) ->
  (forall c, In c (keys (nr_cpumap (ni_usage info))) -> In c (keys (nr_cpumap (ni_cap info)))) ->
  (forall c, In c (keys (wr_cpumap origin)) -> In c (keys (nr_cpumap (ni_usage info)))) ->
  (forall c, In c (keys (wr_cpumap origin)) ->
     Types.lookup 0 (nr_cpumap (ni_cap info)) c = base /\ Types.lookup 0 (nr_cpumap (ni_usage info)) c = base
     /\ Types.lookup 0 (wr_cpumap origin) c = base) ->
  let av := nr_cpumap (get_available_nofloat (put_back info origin)) in
  NoDup (keys av) /\ forall c, In c (keys (wr_cpumap origin)) -> lookup_opt av c = Some base.
Proof.
  intros NC NU NO SUB OSUB VAL av.
  unfold av, get_available_nofloat, nr_sub_nofloat, put_back, nr_sub, nr_of_wres. cbn [ni_cap ni_usage nr_cpumap].
  set (u' := cpumap_sub (nr_cpumap (ni_usage info)) (wr_cpumap origin)).
  assert (KU : keys u' = keys (nr_cpumap (ni_usage info))) by (apply keys_cpumap_sub; exact OSUB).
  assert (NU' : NoDup (keys u')) by (rewrite KU; exact NU).
  assert (KA : keys (cpumap_sub (nr_cpumap (ni_cap info)) u') = keys (nr_cpumap (ni_cap info))).
  { apply keys_cpumap_sub. intros k Hk. rewrite KU in Hk. apply SUB. exact Hk. }
  split; [rewrite KA; exact NC|].
  intros c Hc. destruct (VAL c Hc) as (V1 & V2 & V3).
  assert (I : In c (keys (cpumap_sub (nr_cpumap (ni_cap info)) u'))) by (rewrite KA; apply SUB, OSUB, Hc).
  destruct (in_keys_lookup_opt _ _ I) as [v L]. rewrite L. f_equal.
  rewrite <- (lookup_of_opt _ _ _ L).
  rewrite cpumap_sub_lookup, (msum_lookup u') by exact NU'. unfold u'.
  rewrite cpumap_sub_lookup, (msum_lookup (wr_cpumap origin)) by exact NO. lia.
Qed.
