(* Cobalt/Capacity.v — deploy capacity as the manager reports it, against what
   allocation accepts (C07).  Glue between builder B's models of the plugin
   (Cpumem/Calc.v: node_capacity = doGetNodeDeployCapacity, calculate_deploy =
   CalculateDeploy) and the cobalt aggregation (Cobalt/Merge.v).
   Executable, no proofs.

   cpumem.GetNodesDeployCapacity: for every node the capacity info; nodes with
   Capacity > 0 enter the map; total: if total == MaxInt || cap == MaxInt then
   MaxInt else total += cap.  cobalt.GetNodesDeployCapacity with the single
   cpumem plugin: usage and rate are multiplied and divided by the weight, the
   total is recomputed (saturating). *)
From Coq Require Import String List ZArith Bool.
From Verif Require Import Base.GoInt Base.GoFloat Base.RunLib Cpumem.Types Cpumem.Schedule Cpumem.Calc Cobalt.Merge.
Import ListNotations.
Local Open Scope Z_scope.

(* ---------- the plugin's GetNodesDeployCapacity ---------- *)
Definition plugin_total_step (total cap : Z) : Z :=
  if (total =? max_int) || (cap =? max_int) then max_int else wrap64 (total + cap).

Definition plugin_offered (caps : list (string * capinfo)) : list (string * capinfo) :=
  filter (fun nc => 0 <? cap_capacity (snd nc)) caps.

Definition plugin_total (caps : list (string * capinfo)) : Z :=
  fold_left plugin_total_step (map (fun nc => cap_capacity (snd nc)) (plugin_offered caps)) 0.

Definition ndc_of_cap (c : capinfo) : fndc :=
  mkNdc (cap_capacity c) (cap_usage c) (cap_rate c) (cap_weight c).

(* the manager's result with cpumem as the only plugin *)
Definition manager_capacity (caps : list (string * capinfo)) : famap * Z :=
  gndc_f [map (fun nc => (fst nc, ndc_of_cap (snd nc))) (plugin_offered caps)].

(* ---------- cases of the correspondence check ---------- *)
(* one node of a case: its record, what the manager reported for it (None =
   not offered), the allocation probes (count, accepted) each rolled back, and
   for memory-only requests the capacity re-read after committing k instances *)
Record capnode := mkCapNode {
  kn_name : string; kn_info : node_info;
  kn_obs : option fndc;
  kn_probes : list (Z * bool);
  kn_after : list (Z * Z) }.

Record capcase := mkCapCase {
  k_base : Z; k_maxshare : Z; k_req : wreq;       (* the raw request *)
  k_nodes : list capnode;
  k_total : Z }.

Definition outcome_cap (o : outcome capinfo) : option capinfo :=
  match o with Ok c => Some c | _ => None end.

(* candidates for a node: one per NUMA iteration order *)
Definition cap_candidates (base maxshare : Z) (req : wreq) (info : node_info) : list (option capinfo) :=
  map (fun order => outcome_cap (node_capacity info base maxshare req order (default_fuel info)))
      (perms (numa_nodes info)).

Definition finish1 (c : capinfo) : fndc := finish fdiv (weigh fmul (ndc_of_cap c)).

Definition node_agree (base maxshare : Z) (raw : wreq) (n : capnode) : bool :=
  match wreq_validate raw with
  | inl _ => false
  | inr req =>
      existsb (fun cand =>
        match cand with
        | None => false
        | Some c =>
            (* what the manager reports for the node *)
            (if 0 <? cap_capacity c
             then match kn_obs n with Some o => ndc_eqb (finish1 c) o | None => false end
             else match kn_obs n with None => true | Some _ => false end)
        end) (cap_candidates base maxshare req (kn_info n))
      (* what CalculateDeploy answers to the probes *)
      && forallb (fun p =>
           existsb (fun order =>
             match calculate_deploy (kn_info n) base maxshare (fst p) raw order (default_fuel (kn_info n)) with
             | Ok (inr _) => snd p
             | Ok (inl _) => negb (snd p)
             | _ => false
             end) (perms (numa_nodes (kn_info n)))) (kn_probes n)
  end.

Definition obs_caps (c : capcase) : list Z :=
  flat_map (fun n => match kn_obs n with Some o => [n_cap o] | None => [] end) (k_nodes c).

Definition agree (c : capcase) : bool :=
  forallb (node_agree (k_base c) (k_maxshare c) (k_req c)) (k_nodes c)
  && (k_total c =? total_of (obs_caps c)).

(* ---------- boolean reflection of C07 on the implementation's observations ---------- *)
Definition node_ok (raw : wreq) (n : capnode) : bool :=
  let c := match kn_obs n with Some o => n_cap o | None => 0 end in
  (* zero capacity is not offered *)
  (match kn_obs n with Some o => 0 <? n_cap o | None => true end)
  (* the capacity is the largest accepted count *)
  && forallb (fun p => if 1 <=? fst p then Bool.eqb (snd p) (fst p <=? c) else true) (kn_probes n)
  (* memory-only: committing k instances lowers the capacity by exactly k *)
  && forallb (fun ka => if (c =? max_int) then snd ka =? max_int else snd ka =? c - fst ka) (kn_after n).

Definition ok (c : capcase) : bool :=
  forallb (node_ok (k_req c)) (k_nodes c)
  && (k_total c =? satsum (obs_caps c)).

(* ---------- two plugins: cpumem + a second plugin answering from a table ---------- *)
(* The second plugin of the manager reports [k2_other] (a Go map node ->
   capacity info; possibly empty, possibly without some nodes) and its
   CalculateDeploy accepts a count iff it is at most the capacity it holds for
   the node (0 when it has none).  The manager merges the two answers in the
   iteration order of a Go map: the model accepts either order. *)
Record capcase2 := mkCapCase2 {
  k2_base : Z; k2_maxshare : Z; k2_req : wreq;
  k2_other : famap;                (* what the second plugin answers *)
  k2_other_caps : list (string * Z); (* what its CalculateDeploy admits per node (absent = 0) *)
  k2_nodes : list capnode;
  k2_total : Z }.

Fixpoint zlookup (k : string) (m : list (string * Z)) : Z :=
  match m with [] => 0 | (k', v) :: t => if String.eqb k k' then v else zlookup k t end.

Definition merged_two (a b : fndc) : list fndc :=
  [finish fdiv (merge2 fadd fmul (weigh fmul a) b); finish fdiv (merge2 fadd fmul (weigh fmul b) a)].

Definition node_agree2 (c : capcase2) (n : capnode) : bool :=
  match wreq_validate (k2_req c) with
  | inl _ => false
  | inr req =>
      existsb (fun cand =>
        match cand with
        | None => false
        | Some ci =>
            match (if 0 <? cap_capacity ci then Some (ndc_of_cap ci) else None), Merge.lookup (kn_name n) (k2_other c) with
            | Some a, Some b => match kn_obs n with
                                | Some o => existsb (fun m => ndc_eqb m o) (merged_two a b)
                                | None => false
                                end
            | _, _ => match kn_obs n with None => true | Some _ => false end
            end
        end) (cap_candidates (k2_base c) (k2_maxshare c) req (kn_info n))
      && forallb (fun p =>
           existsb (fun order =>
             match calculate_deploy (kn_info n) (k2_base c) (k2_maxshare c) (fst p) (k2_req c) order (default_fuel (kn_info n)) with
             | Ok (inr _) => Bool.eqb (snd p) (fst p <=? zlookup (kn_name n) (k2_other_caps c))
             | Ok (inl _) => negb (snd p)
             | _ => false
             end) (perms (numa_nodes (kn_info n)))) (kn_probes n)
  end.

Definition obs_caps2 (c : capcase2) : list Z :=
  flat_map (fun n => match kn_obs n with Some o => [n_cap o] | None => [] end) (k2_nodes c).

Definition agree2 (c : capcase2) : bool :=
  forallb (node_agree2 c) (k2_nodes c) && (k2_total c =? total_of (obs_caps2 c)).

(* the same reflection of C07 as with one plugin: the capacity the MANAGER
   reports is the largest count Manager.Alloc accepts, zero capacity is not
   offered, the total is the saturating sum *)
Definition ok2 (c : capcase2) : bool :=
  forallb (node_ok (k2_req c)) (k2_nodes c) && (k2_total c =? satsum (obs_caps2 c)).

(* ---------- the plugin's own total, node names possibly repeated ---------- *)
(* cpumem.GetNodesDeployCapacity fetches one record per DISTINCT name and walks
   the fetched records: a name listed twice is offered once and counted once.
   pt_caps: the capacities in the map the plugin returned; pt_total: its Total. *)
Record ptcase := mkPtCase { pt_caps : list Z; pt_total : Z }.

Definition agree_pt (c : ptcase) : bool :=
  pt_total c =? fold_left plugin_total_step (pt_caps c) 0.
(* the total is the (saturating) sum of the offered capacities *)
Definition ok_pt (c : ptcase) : bool := pt_total c =? satsum (pt_caps c).
