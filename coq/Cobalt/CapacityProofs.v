(* Cobalt/CapacityProofs.v — C07: the reported capacity is the largest count the
   allocation path accepts, zero-capacity nodes are not offered, the total is
   the saturating sum for every iteration order, and committing k memory-only
   instances lowers the capacity by exactly k. *)
From Coq Require Import String List ZArith Bool Lia Permutation.
From Verif Require Import Base.GoInt Base.GoFloat Cpumem.Types Cpumem.Schedule Cpumem.Calc
  Cpumem.Node Cpumem.BookProofs Cobalt.Merge Cobalt.MergeProofs Cobalt.MergeFloat Cobalt.Capacity.
Import ListNotations.
Local Open Scope Z_scope.
Ltac Zify.zify_post_hook ::= Z.div_mod_to_equations.

(* Validate leaves a non-negative memory request *)
Lemma validate_mem_nonneg raw req : wreq_validate raw = inr req -> 0 <= rq_mem_req req.
Proof.
  unfold wreq_validate. intro H.
  destruct ((rq_mem_lim raw <? 0) || (rq_mem_req raw <? 0)) eqn:E; [discriminate|].
  apply orb_false_iff in E. destruct E as [E1 E2]. apply Z.ltb_ge in E1. apply Z.ltb_ge in E2.
  destruct (flt _ _ || flt _ _); [discriminate|].
  destruct (feq _ _ && rq_bind raw); [discriminate|].
  injection H as <-. simpl.
  destruct ((rq_mem_req raw =? 0) && (0 <? rq_mem_lim raw)); lia.
Qed.

Section Generic.
Variable sortf : list keyed -> outcome (list keyed).

(* memory-only requests *)
Theorem mem_capacity_is_max info base maxshare req order fuel count c :
  rq_bind req = false -> 0 <= rq_mem_req req -> 1 <= count <= max_int ->
  node_capacity_g sortf info base maxshare req order fuel = Ok c ->
  ((exists r, do_alloc_by_memory info count req = inr r) <-> count <= cap_capacity c).
Proof.
  intros NB Hm Hc. unfold node_capacity_g, do_alloc_by_memory. rewrite NB. cbn [negb].
  destruct (fgt (rq_cpu_req req) _).
  - intro E. injection E as <-. cbn [cap_capacity]. split; [intros [r H]; discriminate|lia].
  - destruct (rq_mem_req req =? 0) eqn:Z0.
    + apply Z.eqb_eq in Z0. intro E. injection E as <-. cbn [cap_capacity]. rewrite Z0. cbn [Z.ltb Z.compare andb].
      split; [intros _; unfold max_int in *; lia|intros _; eexists; reflexivity].
    + apply Z.eqb_neq in Z0. intro E. injection E as <-. cbn [cap_capacity].
      replace (0 <? rq_mem_req req) with true by (symmetry; apply Z.ltb_lt; lia). cbn [andb].
      unfold get_available_nofloat, nr_sub_nofloat. cbn [nr_mem].
      destruct (Z.ltb_spec (Z.quot (nr_mem (ni_cap info) - nr_mem (ni_usage info)) (rq_mem_req req)) count).
      * split; [intros [r H0]; discriminate|intro; lia].
      * split; [intros _; lia|intros _; eexists; reflexivity].
Qed.

(* bound requests: both paths call the same planner *)
Theorem cpu_capacity_is_max info base maxshare req order fuel count c :
  rq_bind req = true -> 0 <= count ->
  node_capacity_g sortf info base maxshare req order fuel = Ok c ->
  ((exists r, do_alloc_by_cpu_g sortf info base maxshare count req order fuel = Ok (inr r)) <-> count <= cap_capacity c).
Proof.
  intros B Hc. unfold node_capacity_g, do_alloc_by_cpu_g. rewrite B. cbn [negb].
  destruct (get_cpu_plans_g sortf info [] base maxshare req order fuel) as [plans| | |]; cbn [bind]; try discriminate.
  intro E. injection E as <-. cbn [cap_capacity].
  destruct (Z.ltb_spec (Z.of_nat (length plans)) count).
  - split; [intros [r H0]; discriminate|lia].
  - replace (count <? 0) with false by (symmetry; apply Z.ltb_ge; lia).
    split; [intros _; lia|intros _; eexists; reflexivity].
Qed.

(* through the public entry points: GetNodesDeployCapacity and CalculateDeploy
   validate the same raw request *)
Theorem capacity_is_max info base maxshare raw req order fuel count c :
  wreq_validate raw = inr req -> 1 <= count <= max_int ->
  node_capacity_g sortf info base maxshare req order fuel = Ok c ->
  ((exists r, calculate_deploy_g sortf info base maxshare count raw order fuel = Ok (inr r)) <-> count <= cap_capacity c).
Proof.
  intros V Hc NC. unfold calculate_deploy_g. rewrite V.
  destruct (rq_bind req) eqn:B; cbn [negb].
  - apply cpu_capacity_is_max; [exact B|lia|exact NC].
  - rewrite <- (mem_capacity_is_max info base maxshare req order fuel count c B (validate_mem_nonneg _ _ V) Hc NC).
    split; intros [r H]; exists r; congruence.
Qed.

(* committing k memory-only instances lowers the capacity by exactly k *)
Lemma repeat_n_mem n (wr : wres) : zs wr_mem_req (repeat_n n wr) = Z.of_nat n * wr_mem_req wr.
Proof. unfold zs. induction n as [|n IH]; simpl repeat_n; simpl map; simpl fold_right; [lia|]. rewrite IH. lia. Qed.

Lemma commit_usage_mem info ws : nr_mem (ni_usage (commit_usage info ws)) = nr_mem (ni_usage info) + zs wr_mem_req ws.
Proof. unfold commit_usage. simpl. apply (add_all_mem ws (ni_usage info)). Qed.

Lemma commit_usage_cap info ws : ni_cap (commit_usage info ws) = ni_cap info.
Proof. reflexivity. Qed.

Theorem mem_commit_lowers info base maxshare req order fuel c k r :
  rq_bind req = false -> 0 < rq_mem_req req -> 1 <= k <= cap_capacity c ->
  node_capacity_g sortf info base maxshare req order fuel = Ok c ->
  do_alloc_by_memory info k req = inr r ->
  exists c', node_capacity_g sortf (commit_usage info (snd r)) base maxshare req order fuel = Ok c' /\
             cap_capacity c' = cap_capacity c - k.
Proof.
  intros NB Hm Hk. unfold node_capacity_g, do_alloc_by_memory. rewrite NB. cbn [negb].
  rewrite !commit_usage_cap.
  destruct (fgt (rq_cpu_req req) _).
  - intro E. injection E as <-. cbn [cap_capacity] in Hk. lia.
  - replace (rq_mem_req req =? 0) with false by (symmetry; apply Z.eqb_neq; lia).
    intro E. injection E as <-. cbn [cap_capacity] in *.
    replace (0 <? rq_mem_req req) with true by (symmetry; apply Z.ltb_lt; lia). cbn [andb].
    unfold get_available_nofloat, nr_sub_nofloat in *. cbn [nr_mem] in *.
    destruct (Z.ltb_spec (Z.quot (nr_mem (ni_cap info) - nr_mem (ni_usage info)) (rq_mem_req req)) k) as [H|H]; [discriminate|].
    intro E. injection E as <-. cbn [snd].
    eexists. split; [reflexivity|]. cbn [cap_capacity].
    rewrite ?commit_usage_cap, commit_usage_mem, repeat_n_mem.
    cbn [wr_mem_req]. rewrite Z2Nat.id by lia.
    set (a := nr_mem (ni_cap info) - nr_mem (ni_usage info)) in *. set (m := rq_mem_req req) in *.
    replace (nr_mem (ni_cap info) - (nr_mem (ni_usage info) + k * m)) with (a - k * m) by (unfold a; lia).
    assert (Q : Z.quot a m = a / m /\ 0 <= a).
    { destruct (Z.le_gt_cases 0 a) as [P|N]; [split; [apply Z.quot_div_nonneg; lia|exact P]|].
      exfalso. assert (Z.quot a m <= 0) by (apply Z.quot_le_upper_bound; nia || (rewrite <- (Z.quot_0_l m) by lia; apply Z.quot_le_mono; lia)). lia. }
    destruct Q as [Q A0]. rewrite Q in *.
    assert (KM : k * m <= a) by nia.
    rewrite Z.quot_div_nonneg by lia.
    replace (a - k * m) with (a + (- k) * m) by lia. rewrite Z.div_add by lia. lia.
Qed.
End Generic.

(* ---------- zero capacity is not offered; reported capacity is the plugin's ---------- *)
Theorem offered_iff_positive (caps : list (string * capinfo)) n :
  In n (map fst (fst (manager_capacity caps))) <-> exists c, In (n, c) caps /\ 0 < cap_capacity c.
Proof.
  unfold manager_capacity. rewrite offered_iff_all by discriminate. split.
  - intro H. specialize (H _ (or_introl eq_refl)). rewrite map_map in H. simpl in H.
    apply in_map_iff in H. destruct H as [[n' c] [E I]]. simpl in E. subst n'.
    unfold plugin_offered in I. apply filter_In in I. destruct I as [I P]. simpl in P. apply Z.ltb_lt in P.
    exists c. auto.
  - intros [c [I P]] a [<-|[]]. rewrite map_map. simpl. apply in_map_iff. exists (n, c). split; [reflexivity|].
    unfold plugin_offered. apply filter_In. split; [exact I|]. simpl. apply Z.ltb_lt. exact P.
Qed.

(* ---------- the totals ---------- *)
(* the manager's total: saturating sum of the offered capacities, whatever the
   order in which the merged map is iterated *)
Theorem manager_total_saturating (caps order : list Z) :
  Forall (fun c => 0 <= c <= max_int) caps -> Permutation caps order -> total_of order = satsum caps.
Proof. exact (total_any_order caps order). Qed.

(* the plugin's own total (ignored by the manager): saturating as long as the
   finite capacities alone do not exceed MaxInt *)
Lemma plugin_fold_sat caps : forall t,
  Forall (fun c => 0 <= c <= max_int) caps -> 0 <= t <= max_int ->
  (t < max_int -> t + fold_right Z.add 0 (filter (fun c => negb (c =? max_int)) caps) <= max_int) ->
  fold_left plugin_total_step caps t = Z.min max_int (t + fold_right Z.add 0 caps).
Proof.
  induction caps as [|c l IH]; intros t Hc Ht Hs; simpl.
  - lia.
  - inversion Hc as [|? ? Hc1 Hc2]; subst.
    assert (NN : 0 <= fold_right Z.add 0 l).
    { clear -Hc2. induction Hc2 as [|x l Hx _ IH]; simpl; lia. }
    assert (NF : 0 <= fold_right Z.add 0 (filter (fun c => negb (c =? max_int)) l)).
    { clear -Hc2. induction Hc2 as [|x l Hx _ IH]; simpl; [lia|]. destruct (negb _); simpl; lia. }
    unfold plugin_total_step at 2.
    destruct (Z.eqb_spec t max_int) as [Et|Et]; cbn [orb].
    + rewrite IH; [lia|exact Hc2|unfold max_int in *; lia|intro; lia].
    + destruct (Z.eqb_spec c max_int) as [Ec|Ec]; cbn [orb].
      * rewrite IH; [lia|exact Hc2|unfold max_int in *; lia|intro; lia].
      * simpl in Hs. replace (c =? max_int) with false in Hs by (symmetry; apply Z.eqb_neq; exact Ec).
        simpl in Hs. specialize (Hs ltac:(lia)).
        rewrite wrap64_id by (unfold min_int, max_int in *; lia).
        rewrite IH; [lia|exact Hc2|lia|intro; lia].
Qed.

Theorem plugin_total_saturating caps :
  Forall (fun c => 0 <= c <= max_int) caps ->
  fold_right Z.add 0 (filter (fun c => negb (c =? max_int)) caps) <= max_int ->
  fold_left plugin_total_step caps 0 = satsum caps.
Proof.
  intros H S. unfold satsum. rewrite plugin_fold_sat; [reflexivity|exact H|unfold max_int; lia|intro; lia].
Qed.

(* the capacity the manager reports for a node is the plugin's capacity for it *)
Lemma lookup_map_in (caps : list (string * capinfo)) n (i : fndc) :
  Merge.lookup n (map (fun nc => (fst nc, ndc_of_cap (snd nc))) caps) = Some i ->
  exists c, In (n, c) caps /\ i = ndc_of_cap c.
Proof.
  induction caps as [|[k c] t IH]; simpl; [discriminate|].
  destruct (String.eqb n k) eqn:E.
  - apply String.eqb_eq in E. subst. intro H. injection H as <-. exists c. auto.
  - intro H. destruct (IH H) as [c' [I E']]. exists c'. auto.
Qed.

Theorem manager_reports_plugin_capacity (caps : list (string * capinfo)) n (i : fndc) :
  Merge.lookup n (fst (manager_capacity caps)) = Some i ->
  exists c, In (n, c) caps /\ 0 < cap_capacity c /\ n_cap i = cap_capacity c.
Proof.
  unfold manager_capacity. rewrite aggregate_f64 by discriminate. simpl.
  destruct (Merge.lookup n (map (fun nc => (fst nc, ndc_of_cap (snd nc))) (plugin_offered caps))) as [i1|] eqn:L; [|discriminate].
  intro H. injection H as <-. destruct (lookup_map_in _ _ _ L) as [c [I E]]. subst i1.
  unfold plugin_offered in I. apply filter_In in I. destruct I as [I P]. simpl in P. apply Z.ltb_lt in P.
  exists c. split; [exact I|]. split; [exact P|]. reflexivity.
Qed.

(* ---------- several plugins at the manager level ---------- *)
(* Manager.Alloc asks every plugin (cobalt/alloc.go: any refusal refuses the
   allocation); if each plugin's capacity is the largest count it admits, the
   merged capacity (the minimum) is the largest count the manager admits *)
Theorem min_capacity_is_max (c1 c2 k : Z) (acc1 acc2 : Z -> Prop) :
  (forall j, acc1 j <-> j <= c1) -> (forall j, acc2 j <-> j <= c2) ->
  (acc1 k /\ acc2 k <-> k <= Z.min c1 c2).
Proof. intros H1 H2. rewrite H1, H2. lia. Qed.

(* every answer holds positive capacities only (what cpumem does: it filters
   Capacity > 0) => so does the merged result *)
Theorem positive_in_positive_out (answers : list famap) n (i : fndc) :
  answers <> [] ->
  (forall a k j, In a answers -> Merge.lookup k a = Some j -> 0 < n_cap j) ->
  Merge.lookup n (fst (gndc_f answers)) = Some i -> 0 < n_cap i.
Proof.
  intros NE POS. rewrite aggregate_f64 by exact NE.
  destruct (infos_of n answers) as [[|i1 rest]|] eqn:I; try discriminate.
  intro H. injection H as <-. cbn [n_cap].
  assert (P : forall j, In j (i1 :: rest) -> 0 < n_cap j).
  { clear -I POS. revert i1 rest I. induction answers as [|a t IH]; intros i1 rest I; simpl in I; [discriminate|].
    destruct (Merge.lookup n a) as [j0|] eqn:L; [|discriminate].
    destruct (infos_of n t) as [l|] eqn:E; [|discriminate]. injection I as <- <-.
    intros j [<-|Hj]; [apply (POS a n); simpl; auto|].
    destruct l as [|j1 l']; [destruct Hj|].
    apply (IH (fun a' k' j' Ha => POS a' k' j' (or_intror Ha)) j1 l' eq_refl j Hj). }
  destruct (mincap_is_min i1 rest) as [_ [j [Hj ->]]]. apply P. exact Hj.
Qed.

(* but the manager itself does not filter: a plugin entry with capacity 0 makes
   the node offered with capacity 0 *)
Lemma zero_entry_is_offered :
  let a := [("n"%string, mkNdc 5 (fb 0) (fb 0) (f_of_Z 1))] in
  let b := [("n"%string, mkNdc 0 (fb 0) (fb 0) (f_of_Z 1))] in
  option_map n_cap (Merge.lookup "n"%string (fst (gndc_f [a; b]))) = Some 0.
Proof. vm_compute. reflexivity. Qed.
