(* Cobalt/Realloc.v — model of Plugin.CalculateRealloc (cpumem/calculate.go), the
   glue between the scheduler (builder B's Cpumem/Schedule.v: GetCPUPlans with an
   origin cpu map for affinity) and the bookkeeping (Cpumem/Node.v: the delta).
   Used by C33 (keep-bind realloc keeps its cores).  Executable, no proofs.

   statement by statement:
     if req.KeepCPUBind { req.CPUBind = len(origin.CPUMap) > 0 }
     usage.Sub(origin)                                  -- put the resources back
     newReq = {CPUBind, CPURequest+origin, CPULimit+origin, MemRequest+origin, MemLimit+origin}
     newReq.Validate()
     if req.CPUBind { plans = GetCPUPlans(info, origin.CPUMap, ..., newReq)
                      none -> ErrInsufficientResource;  plan = plans[0]
                      numaMemory = {plan.NUMANode: newReq.MemRequest} when NUMANode != "" }
     else doAllocByMemory(info, 1, newReq)
     newResource = {...};  delta = newResource.DeepCopy().Sub(origin) *)
From Coq Require Import String Ascii List ZArith Bool.
From Verif Require Import Base.GoInt Base.GoFloat Base.RunLib Cpumem.Types Cpumem.Schedule Cpumem.Calc Cpumem.Node Cobalt.Merge.
Import ListNotations.
Local Open Scope Z_scope.

Inductive rerr2 := RInvalid | RInsufficient.

Definition realloc_bind (origin : wres) (raw : wreq) : bool :=
  if rq_keep raw then match wr_cpumap origin with [] => false | _ => true end else rq_bind raw.

Definition realloc_newreq (origin : wres) (raw : wreq) : wreq :=
  mkReq (realloc_bind origin raw) (rq_keep raw)
        (fadd (rq_cpu_req raw) (wr_cpu_req origin)) (fadd (rq_cpu_lim raw) (wr_cpu_lim origin))
        (rq_mem_req raw + wr_mem_req origin) (rq_mem_lim raw + wr_mem_lim origin).

(* the node with the origin's resources put back *)
Definition put_back (info : node_info) (origin : wres) : node_info :=
  mkNI (ni_cap info) (nr_sub (ni_usage info) (nr_of_wres origin)).

Section WithSort.
Variable sortf : list keyed -> outcome (list keyed).

(* returns (new resource, delta) *)
Definition calculate_realloc_g (info : node_info) (base maxshare : Z) (origin : wres) (raw : wreq)
    (numa_order : list string) (fuel : nat) : outcome (rerr2 + (wres * wres)) :=
  let info' := put_back info origin in
  match wreq_validate (realloc_newreq origin raw) with
  | inl _ => Ok (inl RInvalid)
  | inr nr =>
      if realloc_bind origin raw then
        do plans <- get_cpu_plans_g sortf info' (wr_cpumap origin) base maxshare nr numa_order fuel;
        match plans with
        | [] => Ok (inl RInsufficient)
        | (nid, cpumap) :: _ =>
            let numamem := match nid with EmptyString => [] | _ => [(nid, rq_mem_req nr)] end in
            let new := mkWR (rq_cpu_req nr) (rq_cpu_lim nr) (rq_mem_req nr) (rq_mem_lim nr) cpumap numamem nid in
            Ok (inr (new, realloc_delta new origin))
        end
      else
        match do_alloc_by_memory info' 1 nr with
        | inl _ => Ok (inl RInsufficient)
        | inr _ =>
            let new := mkWR (rq_cpu_req nr) (rq_cpu_lim nr) (rq_mem_req nr) (rq_mem_lim nr) [] [] EmptyString in
            Ok (inr (new, realloc_delta new origin))
        end
  end.
End WithSort.

Definition calculate_realloc := calculate_realloc_g sort_exact.
Definition calculate_realloc_chk := calculate_realloc_g sort_checked.

(* ---------- cases of the correspondence check (C33) ---------- *)
(* the node record, the workload being re-allocated, the raw request, and the
   distinct answers of repeated CalculateRealloc calls (before /repo 3d8e6c0 Go
   picked the NUMA iteration order afresh each time): None = refused *)
Record rcase := mkRCase {
  r_base : Z; r_maxshare : Z; r_whole : bool; (* every core's capacity is exactly the share base *)
  r_info : node_info; r_origin : wres; r_req : wreq;
  r_obs : list (option (wres * wres)) }.

Definition fuel_of (c : rcase) : nat := default_fuel (put_back (r_info c) (r_origin c)).

Definition answer_eqb (m : outcome (rerr2 + (wres * wres))) (o : option (wres * wres)) : bool :=
  match m, o with
  | Ambiguous, _ => true                     (* unstable sort tie above 12 plans: not decidable by the model *)
  | Ok (inl _), None => true
  | Ok (inr (n, d)), Some (n', d') => wres_eqb n n' && wres_eqb d d'
  | _, _ => false
  end.

(* the order GetCPUPlans visits the NUMA nodes in (/repo 3d8e6c0: the nodes
   holding the origin's cores first, then by id): no oracle is left, so every
   observed answer must be the model's answer *)
Definition visit_order (c : rcase) : list string :=
  numa_visit_order (put_back (r_info c) (r_origin c)) (wr_cpumap (r_origin c)).

Definition agree (c : rcase) : bool :=
  forallb (fun o =>
      answer_eqb (calculate_realloc_chk (r_info c) (r_base c) (r_maxshare c) (r_origin c) (r_req c) (visit_order c) (fuel_of c)) o)
    (r_obs c).

(* boolean reflection of C33: a keep-bind realloc of a bound workload with no
   cpu change, when granted, stays on exactly the cores and the NUMA node *)
Definition keeps_cores (origin new : wres) : bool :=
  smap_eqb Z.eqb (wr_cpumap origin) (wr_cpumap new) && String.eqb (wr_numanode origin) (wr_numanode new).

Definition in_scope (c : rcase) : bool :=
  r_whole c && rq_keep (r_req c) && match wr_cpumap (r_origin c) with [] => false | _ => true end
  && feq (rq_cpu_req (r_req c)) f_zero && feq (rq_cpu_lim (r_req c)) f_zero.

Definition ok (c : rcase) : bool :=
  if in_scope c then
    forallb (fun o => match o with Some (new, _) => keeps_cores (r_origin c) new | None => true end) (r_obs c)
  else true.
