(* Cobalt/MergeErrorProofs.v — C09 for three or more plugins: binary64 addition
   is not associative, so the aggregated usage / rate / weight may differ between
   answer orders; this file bounds the difference.

   For non-negative values and weights and n answers, the weighted sum computed
   in binary64 (products rounded, then summed left to right in ANY order) is
   within  A(n-1) * T + B(n-1)  of the exact sum T, where A(k) ~ (2k+1) * 2^-53
   and B(k) is a multiple of the underflow unit.  Hence the results for two
   orders differ by at most twice that, i.e. a few units in the last place. *)
From Coq Require Import ZArith Reals Lia Lra Psatz Permutation Bool List.
From Flocq Require Import Core IEEE754.BinarySingleNaN IEEE754.Binary IEEE754.Bits.
From Verif Require Import Base.GoInt Base.GoFloat Cpumem.Types Cpumem.BookCpuProofs Cpumem.BookGridProofs
  Cobalt.Merge Cobalt.MergeProofs.
Import ListNotations.
Local Open Scope R_scope.

(* ---------- pure real part: a rounded left-to-right sum ---------- *)
Fixpoint EA (k : nat) : R := match k with O => eps | S j => EA j * (1 + eps) + (2 * eps + eps * eps) end.
Fixpoint EB (k : nat) : R := match k with O => eta | S j => EB j * (1 + eps) + eta * (2 + eps) end.

Lemma eps_pos : 0 < eps. Proof. unfold eps. lra. Qed.
Lemma eta_pos : 0 < eta. Proof. unfold eta. lra. Qed.
Lemma EA_pos k : 0 < EA k.
Proof. pose proof eps_pos. induction k; simpl; nra. Qed.
Lemma EB_pos k : 0 < EB k.
Proof. pose proof eps_pos. pose proof eta_pos. induction k; simpl; nra. Qed.

Definition rsum (acc : R) (ps : list R) : R := fold_left (fun a p => rnd (a + p)) ps acc.
Definition Rsum' (l : list R) : R := fold_right Rplus 0 l.

(* p is the rounded version of the exact non-negative term t *)
Definition good (p t : R) : Prop := 0 <= t /\ Rabs (p - t) <= eps * t + eta.

Lemma Rsum'_nonneg ps ts : Forall2 good ps ts -> 0 <= Rsum' ts.
Proof. induction 1 as [|p t ps ts [H0 _] _ IH]; simpl; lra. Qed.

Lemma rsum_err : forall ps ts acc Tacc k, Forall2 good ps ts -> 0 <= Tacc ->
  Rabs (acc - Tacc) <= EA k * Tacc + EB k ->
  Rabs (rsum acc ps - (Tacc + Rsum' ts)) <= EA (k + length ps) * (Tacc + Rsum' ts) + EB (k + length ps).
Proof.
  induction ps as [|p ps IH]; intros ts acc Tacc k F HT HE; inversion F as [|? t ? ts' [Ht Hp] F']; subst; simpl.
  - rewrite Nat.add_0_r, Rplus_0_r. exact HE.
  - rewrite Nat.add_succ_r. change (S (k + length ps)) with (S k + length ps)%nat.
    replace (Tacc + (t + Rsum' ts')) with ((Tacc + t) + Rsum' ts') by ring.
    apply IH; [exact F'|lra|].
    pose proof (rnd_err (acc + p)) as R1.
    pose proof (EA_pos k) as PA. pose proof (EB_pos k) as PB. pose proof eps_pos as PE. pose proof eta_pos as PH.
    assert (X : Rabs (acc + p) <= (Tacc + t) + Rabs (acc - Tacc) + Rabs (p - t)).
    { replace (acc + p) with ((Tacc + t) + ((acc - Tacc) + (p - t))) by ring.
      eapply Rle_trans; [apply Rabs_triang|]. rewrite (Rabs_pos_eq (Tacc + t)) by lra.
      pose proof (Rabs_triang (acc - Tacc) (p - t)). lra. }
    assert (Y : Rabs (rnd (acc + p) - (Tacc + t)) <= Rabs (rnd (acc + p) - (acc + p)) + Rabs (acc - Tacc) + Rabs (p - t)).
    { replace (rnd (acc + p) - (Tacc + t)) with ((rnd (acc + p) - (acc + p)) + ((acc - Tacc) + (p - t))) by ring.
      eapply Rle_trans; [apply Rabs_triang|]. pose proof (Rabs_triang (acc - Tacc) (p - t)). lra. }
    simpl EA. simpl EB.
    pose proof (Rabs_pos (acc - Tacc)). pose proof (Rabs_pos (p - t)).
    generalize dependent (Rabs (rnd (acc + p) - (Tacc + t))). generalize dependent (Rabs (rnd (acc + p) - (acc + p))).
    generalize dependent (Rabs (acc + p)). generalize dependent (Rabs (acc - Tacc)). generalize dependent (Rabs (p - t)).
    generalize dependent (EA k). generalize dependent (EB k). intros b PB a PA e1 Hp H0 e2 HE H e3 X e4 R2 e5 Y.
    unfold eps, eta in *.
    assert (M1 : 0 <= a * t) by nra.
    assert (M2 : 0 <= a * Tacc) by nra.
    assert (B4 : e4 <= / 9007199254740992 * (Tacc + t + (a * Tacc + b) + (/ 9007199254740992 * t + / 1267650600228229401496703205376)) + / 1267650600228229401496703205376) by nra.
    nra.
Qed.

(* a non-empty list of terms, summed from its first element *)
Theorem rsum_bound p1 t1 ps ts : good p1 t1 -> Forall2 good ps ts ->
  Rabs (rsum p1 ps - (t1 + Rsum' ts)) <= EA (length ps) * (t1 + Rsum' ts) + EB (length ps).
Proof.
  intros [H0 H1] F. apply (rsum_err ps ts p1 t1 0%nat F H0). simpl. exact H1.
Qed.

(* two orders: the same exact total, hence close results *)
Theorem rsum_two_orders p1 t1 ps ts q1 s1 qs ss :
  good p1 t1 -> Forall2 good ps ts -> good q1 s1 -> Forall2 good qs ss ->
  length qs = length ps -> s1 + Rsum' ss = t1 + Rsum' ts ->
  Rabs (rsum p1 ps - rsum q1 qs) <= 2 * (EA (length ps) * (t1 + Rsum' ts) + EB (length ps)).
Proof.
  intros G1 F1 G2 F2 L E.
  pose proof (rsum_bound p1 t1 ps ts G1 F1) as B1. pose proof (rsum_bound q1 s1 qs ss G2 F2) as B2.
  rewrite L, E in B2.
  replace (rsum p1 ps - rsum q1 qs) with ((rsum p1 ps - (t1 + Rsum' ts)) - (rsum q1 qs - (t1 + Rsum' ts))) by ring.
  eapply Rle_trans; [apply Rabs_triang|]. rewrite Rabs_Ropp. lra.
Qed.

(* the size of the bound for up to four plugins: below 2^-50 relative *)
Lemma EA3_small : EA 3 <= / 1125899906842624.
Proof. unfold EA, eps. lra. Qed.

(* ---------- binary64 part: the model's sums are such rounded sums ---------- *)
Lemma fadd_finite_correct x y : f_finite x = true -> f_finite y = true -> f_finite (fadd x y) = true ->
  b2r (fadd x y) = rnd (b2r x + b2r y).
Proof.
  unfold f_finite, fadd, b64_plus. intros Fx Fy Fr.
  match goal with |- context [Bplus _ _ ?h1 ?h2 _ _ _ _] =>
    pose proof (Bplus_correct 53 1024 h1 h2 binop_nan_pl64 mode_NE x y Fx Fy) as H end.
  simpl round_mode in H; change (SpecFloat.fexp 53 1024) with (FLT_exp (-1074) 53) in H.
  destruct (Rlt_bool _ _).
  - destruct H as (H1 & _). exact H1.
  - destruct H as (H & _). exfalso.
    destruct (Bplus _ _ _ _ _ _ x y); simpl in *; try discriminate.
Qed.

Lemma fmul_finite_correct x y : f_finite (fmul x y) = true ->
  b2r (fmul x y) = rnd (b2r x * b2r y).
Proof.
  unfold f_finite, fmul, b64_mult. intros Fr.
  match goal with |- context [Bmult _ _ ?h1 ?h2 _ _ _ _] =>
    pose proof (Bmult_correct 53 1024 h1 h2 binop_nan_pl64 mode_NE x y) as H end.
  simpl round_mode in H; change (SpecFloat.fexp 53 1024) with (FLT_exp (-1074) 53) in H.
  destruct (Rlt_bool _ _).
  - destruct H as (H1 & _). exact H1.
  - exfalso. destruct (Bmult _ _ _ _ _ _ x y); simpl in *; try discriminate.
Qed.

(* every intermediate value of the weighted sum is finite (no overflow) *)
Fixpoint fin_run (f : fndc -> f64) (acc : f64) (rest : list fndc) : Prop :=
  match rest with
  | [] => True
  | i :: t => f_finite (fmul (f i) (n_weight i)) = true /\
              f_finite (fadd acc (fmul (f i) (n_weight i))) = true /\
              fin_run f (fadd acc (fmul (f i) (n_weight i))) t
  end.

Definition term (f : fndc -> f64) (i : fndc) : R := b2r (f i) * b2r (n_weight i).

Lemma wsum_as_rsum f : forall rest acc, f_finite acc = true -> fin_run f acc rest ->
  b2r (fold_left (fun a i => fadd a (fmul (f i) (n_weight i))) rest acc) =
  rsum (b2r acc) (map (fun i => rnd (term f i)) rest).
Proof.
  induction rest as [|i t IH]; intros acc Fa FR; simpl; [reflexivity|].
  destruct FR as (Fm & Fs & FR). rewrite (IH _ Fs FR). unfold rsum at 2. simpl.
  rewrite (fadd_finite_correct _ _ Fa Fm Fs), (fmul_finite_correct _ _ Fm). reflexivity.
Qed.

Lemma wsum_b2r f i1 rest : f_finite (fmul (f i1) (n_weight i1)) = true -> fin_run f (fmul (f i1) (n_weight i1)) rest ->
  b2r (wsum fadd fmul f i1 rest) = rsum (rnd (term f i1)) (map (fun i => rnd (term f i)) rest).
Proof.
  intros F R. unfold wsum, term. rewrite <- (fmul_finite_correct _ _ F). apply (wsum_as_rsum f rest _ F R).
Qed.

Definition nonneg_info (f : fndc -> f64) (i : fndc) : Prop := 0 <= b2r (f i) /\ 0 <= b2r (n_weight i).

Lemma good_terms f l : Forall (nonneg_info f) l ->
  Forall2 good (map (fun i => rnd (term f i)) l) (map (term f) l).
Proof.
  induction 1 as [|i t [Hu Hw] _ IH]; simpl; constructor; [|exact IH].
  assert (0 <= term f i) by (unfold term; nra).
  split; [assumption|]. pose proof (rnd_err (term f i)) as E. rewrite (Rabs_pos_eq (term f i)) in E by assumption. exact E.
Qed.

Lemma Rsum'_perm l l' : Permutation l l' -> Rsum' l = Rsum' l'.
Proof. induction 1; simpl; lra. Qed.

(* C09, three or more plugins: for two answer orders (permutations of the infos
   of a node) whose intermediate values stay finite, the binary64 weighted sums
   differ by at most 2 * (EA(n-1) * T + EB(n-1)) where T is the exact sum of
   value * weight.  (The same holds for the weight sums with f := fun _ => 1.) *)
Theorem wsum_order_close (f : fndc -> f64) (i1 : fndc) rest (j1 : fndc) rest' :
  Permutation (i1 :: rest) (j1 :: rest') ->
  Forall (nonneg_info f) (i1 :: rest) ->
  f_finite (fmul (f i1) (n_weight i1)) = true -> fin_run f (fmul (f i1) (n_weight i1)) rest ->
  f_finite (fmul (f j1) (n_weight j1)) = true -> fin_run f (fmul (f j1) (n_weight j1)) rest' ->
  let T := Rsum' (map (term f) (i1 :: rest)) in
  Rabs (b2r (wsum fadd fmul f i1 rest) - b2r (wsum fadd fmul f j1 rest')) <=
  2 * (EA (length rest) * T + EB (length rest)).
Proof.
  intros P NN F1 R1 F2 R2 T.
  rewrite (wsum_b2r f i1 rest F1 R1), (wsum_b2r f j1 rest' F2 R2).
  assert (NN' : Forall (nonneg_info f) (j1 :: rest')) by (eapply Permutation_Forall; eassumption).
  inversion NN as [|? ? N1 Nr]; subst. inversion NN' as [|? ? N2 Nr']; subst.
  pose proof (good_terms f [i1] (Forall_cons _ N1 (Forall_nil _))) as G1. inversion G1 as [|? ? ? ? G1' _]; subst.
  pose proof (good_terms f [j1] (Forall_cons _ N2 (Forall_nil _))) as G2. inversion G2 as [|? ? ? ? G2' _]; subst.
  assert (L : length (map (fun i => rnd (term f i)) rest') = length (map (fun i => rnd (term f i)) rest)).
  { rewrite !map_length. apply Permutation_length in P. simpl in P. lia. }
  pose proof (rsum_two_orders _ _ _ _ _ _ _ _ G1' (good_terms f rest Nr) G2' (good_terms f rest' Nr') L) as B.
  rewrite map_length in B. apply B.
  pose proof (Rsum'_perm _ _ (Permutation_map (term f) P)) as E. simpl in E. lra.
Qed.

(* ---------- the same for the sum of the weights ---------- *)
Fixpoint fin_run_w (acc : f64) (rest : list fndc) : Prop :=
  match rest with
  | [] => True
  | i :: t => f_finite (n_weight i) = true /\ f_finite (fadd acc (n_weight i)) = true /\ fin_run_w (fadd acc (n_weight i)) t
  end.

Lemma sumw_as_rsum : forall rest acc, f_finite acc = true -> fin_run_w acc rest ->
  b2r (fold_left (fun a i => fadd a (n_weight i)) rest acc) = rsum (b2r acc) (map (fun i => b2r (n_weight i)) rest).
Proof.
  induction rest as [|i t IH]; intros acc Fa FR; simpl; [reflexivity|].
  destruct FR as (Fm & Fs & FR). rewrite (IH _ Fs FR). unfold rsum at 2. simpl.
  rewrite (fadd_finite_correct _ _ Fa Fm Fs). reflexivity.
Qed.

Lemma good_weights l : Forall (fun i : fndc => 0 <= b2r (n_weight i)) l ->
  Forall2 good (map (fun i => b2r (n_weight i)) l) (map (fun i => b2r (n_weight i)) l).
Proof.
  induction 1 as [|i t Hw _ IH]; simpl; constructor; [|exact IH].
  split; [exact Hw|]. rewrite Rminus_eq_0, Rabs_R0. pose proof eps_pos as PE. pose proof eta_pos as PH.
  Show.
Abort.
