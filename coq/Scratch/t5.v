From Coq Require Import List ZArith.
Import ListNotations.
From Verif Require Import Base.KV Locks.Interleave Locks.Ephemeral.
Open Scope Z.
Definition sh (c : case) := map (fun o => (o_res o, o_key o, o_owner o, o_ttl o, o_closed o)) (model_obs c).
Definition ops1 := [MReg 0; MReg 1; MTickAll; MLapse; MTickAll; MTickAll; MStop 1; MTickAll; MStop 0]%nat.
Eval vm_compute in sh (mkCase BEtcdR [1;1] ops1 []).
Eval vm_compute in sh (mkCase BEtcdS [1;1] ops1 []).
Eval vm_compute in sh (mkCase BRedisS [1000;1000] ops1 []).
Eval vm_compute in (let c := mkCase BEtcdR [1;1] ops1 [] in ok (mkCase BEtcdR [1;1] ops1 (model_obs c)),
                    let c := mkCase BEtcdS [1;1] ops1 [] in ok (mkCase BEtcdS [1;1] ops1 (model_obs c)),
                    let c := mkCase BRedisS [1000;1000] ops1 [] in ok (mkCase BRedisS [1000;1000] ops1 (model_obs c)),
                    let c := mkCase BRedisR [1000;1000] ops1 [] in ok (mkCase BRedisR [1000;1000] ops1 (model_obs c))).
