(* Locks/EphemeralOkProofs.v — the boolean reflection of C26 accepts every behaviour
   of the etcd registrant model, for schedules of ANY length over ANY number of
   registrants (plain StartEphemeral mode): [ok] raises no alarm on the verified
   model, so an alarm on the implementation's observations is a disagreement with
   the model or a genuine violation. *)
From Coq Require Import List Bool ZArith Lia Arith.
From Verif Require Import Base.KV Base.KVProofs Locks.Interleave Locks.InterleaveProofs
  Locks.Ephemeral Locks.EphemeralProofs.
Import ListNotations.
Local Open Scope Z_scope.

Local Notation live kv l := (e_lease_live kv l = true).

(* ---- every lease value a registrant carries (current or stale) is distinct ---- *)
Definition lease_ok (s : esys) : Prop :=
  0 < e_next_lease (es_kv s) /\
  (forall g, In g (es_rs s) -> 0 <= g_lease g < e_next_lease (es_kv s)) /\
  (forall i j a b, nth_error (es_rs s) i = Some a -> nth_error (es_rs s) j = Some b ->
     g_lease a = g_lease b -> g_lease a <> 0 -> i = j).

Lemma next_revoke : forall (kv : estore) id, e_next_lease (snd (e_revoke kv id)) = e_next_lease kv.
Proof. intros. unfold e_revoke. destruct (e_lease_live kv id); reflexivity. Qed.

Lemma next_detaches : forall ids (kv : estore), e_next_lease (fold_left e_detach ids kv) = e_next_lease kv.
Proof. induction ids as [|a t IH]; intros; simpl; auto. rewrite IH. reflexivity. Qed.

Lemma lease_ok_kv : forall s kv', lease_ok s -> e_next_lease kv' = e_next_lease (es_kv s) ->
  lease_ok (mkES kv' (es_rs s)).
Proof. intros s kv' (A & B & C) E. unfold lease_ok; simpl. rewrite E. auto. Qed.

Lemma lease_ok_upd : forall s kv' i g g',
  lease_ok s -> e_next_lease kv' = e_next_lease (es_kv s) ->
  nth_error (es_rs s) i = Some g -> g_lease g' = g_lease g ->
  lease_ok (mkES kv' (upd i g' (es_rs s))).
Proof.
  intros s kv' i g g' (A & B & C) E Hi El. unfold lease_ok; simpl. rewrite E.
  split; auto. split.
  - intros y Hy. apply In_upd in Hy. destruct Hy as [->|Hy]; auto. rewrite El. apply B. eapply nth_error_In; eauto.
  - intros a b x y Ha Hb Exy Hnz.
    apply nth_error_upd in Ha. apply nth_error_upd in Hb.
    destruct Ha as [[<- ->]|[Na Ha]]; destruct Hb as [[<- ->]|[Nb Hb]]; auto.
    + rewrite El in *. eapply C; eauto.
    + rewrite El in *. eapply C; eauto.
    + eapply C; eauto.
Qed.

Ltac einv H g Hg :=
  match type of H with
  | context [nth_error ?l ?i] => destruct (nth_error l i) as [g|] eqn:Hg; [|discriminate]
  end.

Lemma estep_lease_ok : forall s l s', lease_ok s -> estep s l = Some s' -> lease_ok s'.
Proof.
  intros s l s' Hok H. pose proof Hok as (A & B & C).
  destruct l; unfold estep in H; cbv zeta in H.
  - inversion H; subst s'. unfold lease_ok; simpl. split; auto. split.
    + intros g Hg. apply in_app_or in Hg. destruct Hg as [Hg|[<-|[]]]; auto. simpl; lia.
    + intros i j a b Ha Hb E Hnz.
      apply nth_error_app_new in Ha. apply nth_error_app_new in Hb.
      destruct Ha as [Ha|[-> ->]]; destruct Hb as [Hb|[-> ->]]; auto.
      * eapply C; eauto.
      * simpl in E. congruence.
      * simpl in Hnz. congruence.
  - einv H g Hg. destruct (can_register (g_pc g)); [|discriminate].
    destruct (e_grant (es_kv s) (g_ttl g)) as [id kv'] eqn:Hgr.
    unfold ewith in H; inversion H; subst s'.
    apply grant_shape in Hgr. destruct Hgr as (Hid & _ & _ & _ & Hn).
    unfold lease_ok; simpl. rewrite Hn. split; [lia|]. split.
    + intros y Hy. apply In_upd in Hy. destruct Hy as [->|Hy]; simpl; [lia|]. apply B in Hy. lia.
    + intros a b x y Ha Hb Exy Hnz.
      apply nth_error_upd in Ha. apply nth_error_upd in Hb.
      destruct Ha as [[<- ->]|[Na Ha]]; destruct Hb as [[<- ->]|[Nb Hb]]; auto; simpl in *.
      * apply nth_error_In in Hb. apply B in Hb. lia.
      * apply nth_error_In in Ha. apply B in Ha. lia.
      * eapply C; eauto.
  - einv H g Hg. destruct (g_pc g); try discriminate.
    unfold e_put_if_absent in H. destruct (e_get ueq (es_kv s) tt) eqn:Hget.
    + unfold ewith in H; inversion H; subst s'. eapply lease_ok_upd; eauto.
    + destruct (e_put ueq (es_kv s) tt tt (g_lease g)) as [kv'|] eqn:Hp;
        unfold ewith in H; inversion H; subst s'.
      * apply put_shape in Hp; auto. destruct Hp as (_ & _ & _ & Hn & _). eapply lease_ok_upd; eauto.
      * eapply lease_ok_upd; eauto.
  - einv H g Hg. destruct (g_pc g); try discriminate.
    destruct (e_keepalive (es_kv s) (g_lease g)) as [alive kv'] eqn:Hka.
    apply keepalive_shape in Hka. destruct Hka as (_ & _ & Hn & _).
    destruct alive; unfold ewith in H; inversion H; subst s'; eapply lease_ok_upd; eauto.
  - einv H g Hg. destruct (g_pc g); try discriminate.
    unfold ewith in H; inversion H; subst s'. eapply lease_ok_upd; eauto.
  - einv H g Hg. destruct (g_pc g); try discriminate.
    unfold ewith in H; inversion H; subst s'. eapply lease_ok_upd; eauto. apply next_revoke.
  - inversion H; subst s'. apply lease_ok_kv; auto. apply next_revoke.
  - destruct (Z.ltb d 0); [discriminate|]. inversion H; subst s'. apply lease_ok_kv; auto.
    unfold e_tick. rewrite next_detaches. reflexivity.
Qed.

Lemma reachable_lease_ok : forall s, reachable estep esys_init s -> lease_ok s.
Proof.
  apply invariant_reachable.
  - unfold lease_ok, esys_init; simpl. split; [lia|]. split; [intros g []|].
    intros i j a b H. destruct i; discriminate.
  - intros; eapply estep_lease_ok; eauto.
Qed.

(* ---- the owner index ---- *)
Definition find_idx (l : Z) :=
  fix go (rs : list ereg) (k : nat) : option nat :=
    match rs with
    | [] => None
    | g :: t => if Z.eqb (g_lease g) l then Some k else go t (S k)
    end.

Lemma owner_idx_unfold : forall s,
  e_owner_idx s = match e_owner_lease s with None => None | Some l => find_idx l (es_rs s) O end.
Proof. reflexivity. Qed.

Lemma find_idx_spec : forall l rs k i g,
  nth_error rs i = Some g -> g_lease g = l ->
  (forall j b, nth_error rs j = Some b -> g_lease b = l -> j = i) ->
  find_idx l rs k = Some (k + i)%nat.
Proof.
  intros l rs. induction rs as [|a t IH]; intros k i g Hi El Hu; [destruct i; discriminate|].
  simpl. destruct (Z.eqb (g_lease a) l) eqn:E.
  - apply Z.eqb_eq in E. specialize (Hu O a eq_refl E). subst i. f_equal. lia.
  - destruct i as [|i]; [simpl in Hi; inversion Hi; subst a; rewrite El, Z.eqb_refl in E; discriminate|].
    simpl in Hi. rewrite (IH (S k) i g Hi El).
    + f_equal. lia.
    + intros j b Hj Eb. specialize (Hu (S j) b Hj Eb). lia.
Qed.

Lemma find_idx_none : forall l rs k, (forall g, In g rs -> g_lease g <> l) -> find_idx l rs k = None.
Proof.
  intros l rs. induction rs as [|a t IH]; intros k H; simpl; auto.
  destruct (Z.eqb (g_lease a) l) eqn:E.
  - apply Z.eqb_eq in E. exfalso. eapply H; eauto. left; auto.
  - apply IH. intros g Hg. apply H. right; auto.
Qed.

(* ---- states between two macro operations ---- *)
Definition stable_pc (p : epc) : Prop :=
  p = EInit \/ p = EActive \/ p = EClosed \/ exists e, p = ERejected e.
Definition active_at (s : esys) (i : nat) : Prop :=
  exists g, nth_error (es_rs s) i = Some g /\ g_pc g = EActive.
Definition key_present (s : esys) : bool := match e_key s with Some _ => true | None => false end.

Record ms (s : esys) : Prop := mkMs {
  ms_reach : reachable estep esys_init s;
  ms_stable : forall g, In g (es_rs s) -> stable_pc (g_pc g);
  ms_owner : forall x, e_kvs (es_kv s) = [x] ->
             exists c g, nth_error (es_rs s) c = Some g /\ g_pc g = EActive /\ g_lease g = ek_lease x }.

Record vr (v : view) (s : esys) : Prop := mkVr {
  vr_key : v_key v = key_present s;
  vr_owner : v_owner v = e_owner_idx s;
  vr_active : forall i, In i (v_active v) <-> active_at s i }.

Lemma kvs_cases : forall s, reachable estep esys_init s ->
  e_kvs (es_kv s) = [] \/ exists x, e_kvs (es_kv s) = [x] /\ live (es_kv s) (ek_lease x).
Proof. intros s H. apply ereachable_ok in H. destruct H as (S & _). exact S. Qed.

Lemma key_empty : forall s, e_kvs (es_kv s) = [] -> e_key s = None /\ key_present s = false /\ e_owner_idx s = None.
Proof.
  intros s E. unfold key_present, e_owner_idx, e_owner_lease, e_key, e_get. rewrite E. simpl. auto.
Qed.

Lemma key_one : forall s x, e_kvs (es_kv s) = [x] ->
  e_key s = Some x /\ key_present s = true /\ e_owner_lease s = Some (ek_lease x).
Proof.
  intros s x E. unfold key_present, e_owner_lease, e_key, e_get. rewrite E. simpl. auto.
Qed.

Lemma owner_idx_of : forall s x c g,
  lease_ok s -> e_kvs (es_kv s) = [x] -> nth_error (es_rs s) c = Some g -> g_lease g = ek_lease x ->
  ek_lease x <> 0 -> e_owner_idx s = Some c.
Proof.
  intros s x c g (_ & _ & C) E Hc El Hnz. rewrite owner_idx_unfold.
  destruct (key_one s x E) as (_ & _ & ->).
  rewrite (find_idx_spec (ek_lease x) (es_rs s) O c g Hc El); auto.
  intros j b Hj Eb. eapply C; eauto; congruence.
Qed.

Lemma active_lease_pos : forall s i g, reachable estep esys_init s ->
  nth_error (es_rs s) i = Some g -> g_pc g = EActive -> 0 < g_lease g.
Proof.
  intros s i g H Hi Hp. apply ereachable_ok in H. destruct H as (_ & _ & _ & R & _).
  apply R; [eapply nth_error_In; eauto|]. right; left; auto.
Qed.

(* with a key present, the owner index is the active registrant carrying its lease *)
Lemma ms_owner_idx : forall s x, ms s -> e_kvs (es_kv s) = [x] ->
  exists c g, nth_error (es_rs s) c = Some g /\ g_pc g = EActive /\ g_lease g = ek_lease x /\ e_owner_idx s = Some c.
Proof.
  intros s x M E. destruct (ms_owner s M x E) as (c & g & Hc & Hp & El).
  exists c, g. repeat split; auto.
  eapply owner_idx_of; eauto.
  - apply reachable_lease_ok. apply M.
  - rewrite <- El. pose proof (active_lease_pos s c g (ms_reach s M) Hc Hp). lia.
Qed.

Lemma upd_same_id {A} : forall (l : list A) i x, nth_error l i = Some x -> upd i x l = l.
Proof.
  induction l as [|a t IH]; intros [|i] x H; simpl in *; try discriminate; auto.
  - inversion H; auto.
  - f_equal. auto.
Qed.

Definition step_ok_for (v : view) (s : esys) (m : mop) : Prop :=
  let '(s', o) := e_mop s m in
  let '(r, v') := ok_step BEtcd v m o in
  r = true /\ ms s' /\ vr v' s'.

Lemma ms_reach_mop : forall s m, ms s -> reachable estep esys_init (fst (e_mop s m)).
Proof. intros s m M. apply e_mop_reach. apply M. Qed.

(* ---- MLapse ---- *)
Lemma lapse_ok : forall v s, ms s -> vr v s -> step_ok_for v s MLapse.
Proof.
  intros v s M V. unfold step_ok_for.
  pose proof (ms_reach_mop s MLapse M) as R'.
  destruct (kvs_cases s (ms_reach s M)) as [E|[x [E Lx]]].
  - (* no key: nothing happens *)
    destruct (key_empty s E) as (K1 & K2 & K3).
    assert (Hm : e_mop s MLapse = (s, e_obs s ResNone false)).
    { unfold e_mop, e_owner_lease. rewrite K1. reflexivity. }
    rewrite Hm. cbn [ok_step e_obs o_key o_closed]. fold (key_present s). rewrite K2.
    split; auto. split; auto. destruct V as [Vk Vo Va]. split; cbn [v_key v_owner v_active]; auto.
  - destruct (key_one s x E) as (K1 & K2 & K3).
    set (s1 := mkES (snd (e_revoke (es_kv s) (ek_lease x))) (es_rs s)).
    assert (Hm : e_mop s MLapse = (s1, e_obs s1 ResNone false)).
    { unfold e_mop. rewrite K3. reflexivity. }
    rewrite Hm in *. cbn [fst] in R'.
    assert (E1 : e_kvs (es_kv s1) = []).
    { unfold s1; cbn [es_kv]. unfold e_revoke. rewrite Lx. cbn [snd].
      destruct (detach_shape (es_kv s) (ek_lease x)) as (Hk & _). rewrite Hk, E. simpl.
      rewrite Z.eqb_refl. reflexivity. }
    destruct (key_empty s1 E1) as (K1' & K2' & K3').
    cbn [ok_step e_obs o_key o_closed]. fold (key_present s1). rewrite K2'.
    split; auto. split.
    + split; auto.
      * intros g Hg. apply (ms_stable s M). exact Hg.
      * intros y Ey. rewrite E1 in Ey. discriminate.
    + destruct V as [Vk Vo Va]. split; cbn [v_key v_owner v_active]; auto.
Qed.

(* ---- helpers ---- *)
Lemma upd_upd {A} : forall (l : list A) i a b, upd i a (upd i b l) = upd i a l.
Proof. induction l as [|x t IH]; intros [|i] a b; simpl; auto. f_equal. auto. Qed.

Lemma find_idx_ext : forall l rs rs' k, map g_lease rs = map g_lease rs' -> find_idx l rs k = find_idx l rs' k.
Proof.
  intros l rs. induction rs as [|a t IH]; intros [|b u] k H; simpl in *; try discriminate; auto.
  inversion H. rewrite H1. destruct (Z.eqb (g_lease b) l); auto.
Qed.

Lemma owner_idx_ext : forall s s', e_kvs (es_kv s') = e_kvs (es_kv s) ->
  map g_lease (es_rs s') = map g_lease (es_rs s) -> e_owner_idx s' = e_owner_idx s.
Proof.
  intros s s' Hk Hl. rewrite !owner_idx_unfold. unfold e_owner_lease, e_key, e_get. rewrite Hk.
  destruct (find _ (e_kvs (es_kv s))); auto. apply find_idx_ext; auto.
Qed.

Lemma key_present_ext : forall s s', e_kvs (es_kv s') = e_kvs (es_kv s) -> key_present s' = key_present s.
Proof. intros s s' Hk. unfold key_present, e_key, e_get. rewrite Hk. reflexivity. Qed.

Definition is_closed (g : ereg) : bool := match g_pc g with EClosed => true | _ => false end.

Lemma closed_at_obs : forall s r j,
  closed_at (e_obs s r true) j = match nth_error (es_rs s) j with Some g => is_closed g | None => false end.
Proof.
  intros s r j. unfold closed_at, e_obs, e_closed_flags; cbn [o_closed].
  destruct (nth_error (es_rs s) j) as [g|] eqn:E.
  - erewrite nth_indep with (d' := is_closed g).
    + rewrite map_nth. erewrite nth_error_nth; eauto.
    + rewrite map_length. apply nth_error_Some. congruence.
  - apply nth_overflow. rewrite map_length. apply nth_error_None. auto.
Qed.

Lemma filter_ext_in_iff {A} (f : A -> bool) (l : list A) (P : A -> Prop) :
  (forall x, In x l -> (f x = true <-> P x)) -> forall x, In x (filter f l) <-> In x l /\ P x.
Proof.
  intros H x. rewrite filter_In. split; intros [A1 A2]; split; auto; apply (H x A1); auto.
Qed.

Lemma in_remove_nat : forall i j l, In j (remove_nat i l) <-> In j l /\ j <> i.
Proof.
  intros i j l. unfold remove_nat. rewrite filter_In. split; intros [A B]; split; auto.
  - apply negb_true_iff in B. apply Nat.eqb_neq in B. auto.
  - apply negb_true_iff. apply Nat.eqb_neq. auto.
Qed.

Lemma stable_not_transient : forall p, stable_pc p -> p <> ERevoking /\ p <> EGranted.
Proof. intros p [H|[H|[H|[e H]]]]; subst; split; discriminate. Qed.

(* ---- MStop ---- *)
Lemma not_active_not_in : forall v s i, vr v s ->
  (forall g, nth_error (es_rs s) i = Some g -> g_pc g <> EActive) -> ~ In i (v_active v).
Proof.
  intros v s i V Hn Hi. apply (vr_active v s V) in Hi. destruct Hi as (g & Hg & Hp). eapply Hn; eauto.
Qed.

Lemma act_filter_same : forall v s i,
  vr v s -> ms s -> ~ In i (v_active v) ->
  forall j, In j (filter (fun j => negb (closed_at (e_obs s ResNone true) j)) (remove_nat i (v_active v)))
            <-> active_at s j.
Proof.
  intros v s i V M Hni j. rewrite filter_In, in_remove_nat, closed_at_obs. split.
  - intros [[Hj _] _]. apply (vr_active v s V). auto.
  - intros Ha. pose proof Ha as (g & Hg & Hp). split; [split|].
    + Show.
