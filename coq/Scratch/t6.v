From Coq Require Import List ZArith.
Import ListNotations.
From Verif Require Import Base.KV Locks.Interleave Locks.LockLog Locks.EtcdLock.
Open Scope Z.
(* the log observed under an etcd stall: both replies lost *)
Definition c1 := mkCase [60;60] [442;900] [MPut 0%nat; MPut 1%nat; MDel 0%nat; MDel 1%nat]
  [(0, ECall 0 OpLock); (108, ECall 1 OpLock); (1000, EFail 0 FTimeout); (1107, EFail 1 FTimeout)] 0.
Eval vm_compute in (agree c1).
(* normal cases still fine *)
Definition c2 := mkCase [60;60] [300;300] [MPut 0%nat; MPut 1%nat; MDel 1%nat; MDel 0%nat]
  [(0, ECall 0 OpLock); (1, EEnter 0); (2, ECall 1 OpLock); (303, EFail 1 FTimeout); (304, EExit 0); (305, EURet 0)] 1000.
Eval vm_compute in (agree c2).
(* lost reply of the first, second acquires only after the cleanup of the first *)
Definition c3 := mkCase [60;60] [300;900] [MPut 0%nat; MPut 1%nat; MDel 0%nat; MDel 1%nat]
  [(0, ECall 0 OpLock); (10, ECall 1 OpLock); (320, EFail 0 FTimeout); (330, EEnter 1); (340, EExit 1); (350, EURet 1)] 0.
Eval vm_compute in (agree c3).
