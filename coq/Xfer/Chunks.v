(* Model of rpc/transform.go toSendLargeFileChunks (C29), after the repair
   "an empty file is sent as one empty chunk":

     for idx := 0; idx < len(file.Content) || idx == 0; idx += maxChunkSize {
        opts := {IDs, Dst, Size: len(Content), Mode, UID, GID}
        opts.Chunk = Content[idx:]  or  Content[idx : idx+maxChunkSize]
        ret = append(ret, opts) }

   Polymorphic in the element type; the loop is structural recursion with fuel
   (= length of the content, enough for any positive chunk size).
   [to_chunks_orig] is the loop before the repair (no chunk for an empty file).
   No proofs in this file. *)
From Coq Require Import List Bool Arith ZArith.
Import ListNotations.

Fixpoint chunks_fuel {A} (fuel size : nat) (c : list A) : list (list A) :=
  match fuel with
  | 0 => []
  | S f =>
      match c with
      | [] => []                                             (* idx >= len *)
      | _ => firstn size c :: chunks_fuel f size (skipn size c)
      end
  end.

Definition to_chunks_orig {A} (size : nat) (c : list A) : list (list A) :=
  chunks_fuel (length c) size c.

Definition to_chunks {A} (size : nat) (c : list A) : list (list A) :=
  match c with
  | [] => [[]]                                               (* idx == 0: one empty chunk *)
  | _ => chunks_fuel (length c) size c
  end.

(* the options record: metadata repeated on every chunk *)
Record options (M A : Type) := mkOpt { o_meta : M; o_size : nat; o_chunk : list A }.
Arguments mkOpt {M A}. Arguments o_meta {M A}. Arguments o_size {M A}. Arguments o_chunk {M A}.

Definition to_options {M A} (size : nat) (meta : M) (c : list A) : list (options M A) :=
  map (fun ch => mkOpt meta (length c) ch) (to_chunks size c).

Definition chunk_size : nat := 2048.                         (* types.SendLargeFileChunkSize = 2 << 10 *)

(* ---- correspondence cases: contents and chunks are run-length encoded ---- *)

Definition runs := list (nat * nat).                         (* (byte, count) *)
Definition expand (r : runs) : list nat := flat_map (fun bn => repeat (fst bn) (snd bn)) r.

Record ochunk := mkChunk { c_runs : runs; c_size : Z; c_meta_ok : bool }.
Record case := mkCase { content : runs; obs : list ochunk }.

Fixpoint nat_list_eqb (a b : list nat) : bool :=
  match a, b with
  | [], [] => true
  | x :: a', y :: b' => Nat.eqb x y && nat_list_eqb a' b'
  | _, _ => false
  end.

Fixpoint all2 {A B} (f : A -> B -> bool) (a : list A) (b : list B) : bool :=
  match a, b with
  | [], [] => true
  | x :: a', y :: b' => f x y && all2 f a' b'
  | _, _ => false
  end.

Definition agree (c : case) : bool :=
  let cont := expand (content c) in
  all2 (fun (o : options unit nat) (x : ochunk) =>
          nat_list_eqb (o_chunk o) (expand (c_runs x))
          && Z.eqb (Z.of_nat (o_size o)) (c_size x) && c_meta_ok x)
       (to_options chunk_size tt cont) (obs c).

(* all but the last chunk are full, the last one is not longer than a chunk *)
Fixpoint shape_ok (size : nat) (l : list (list nat)) : bool :=
  match l with
  | [] => false                                              (* at least one chunk *)
  | [x] => length x <=? size
  | x :: t => Nat.eqb (length x) size && shape_ok size t
  end.

Definition ok (c : case) : bool :=
  let cont := expand (content c) in
  let chs := map (fun x => expand (c_runs x)) (obs c) in
  nat_list_eqb (concat chs) cont
  && shape_ok chunk_size chs
  && forallb (fun x => Z.eqb (c_size x) (Z.of_nat (length cont)) && c_meta_ok x) (obs c).
