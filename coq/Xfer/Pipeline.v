(* Model of cluster/calcium/sendlarge.go SendLargeFile + newWorkloadSender (C29),
   fed like rpc.Vibranium.Send feeds it (the chunks of one file), after the repairs
     fix: SendLargeFile closes the pipe reader when the copy is over and keeps
          draining the sender buffer
     fix: SendLargeFile sends each chunk once to a target listed twice.

   The goroutine network (dispatcher -> per-target buffered channel (10) ->
   sender -> io.Pipe -> engine under the workload lock -> result channel) is
   modelled by its dataflow (Kahn) semantics: every channel has one writer and
   one reader except the result channel, whose order is scheduling dependent and
   is therefore compared sorted.  An engine is described by how it consumes the
   content: read to EOF, read to EOF and fail, fail after k bytes, or return
   success without reading.  [quiescent_taken]/[finishes_with false] describe
   the network before the first repair, where an engine that stopped reading
   left the sender blocked in Write and, once the buffer of 10 was full, the
   dispatcher blocked for ever; with the repair nothing can block
   ([finishes_with true] is constantly true).  No proofs in this file. *)
From Coq Require Import List Bool Arith.
From Verif Require Import Xfer.Chunks.
Import ListNotations.

Inductive beh := Drain | DrainErr | GiveUp (k : nat) | Ignore.
Inductive err := ENone | EEngine | EOther.
Record msg := mkMsg { m_target : option nat; m_err : err; m_path_ok : bool }.
Inductive recv := RNone | RPrefix (n : nat) (meta_ok : bool) (calls : nat) | RGarbled (n calls : nat).

(* a target: Some o = the o-th existing workload, None = an id that does not exist *)
Definition target := option nat.
Definition target_eqb (a b : target) : bool :=
  match a, b with
  | None, None => true
  | Some x, Some y => Nat.eqb x y
  | _, _ => false
  end.

(* `dispatched`: every distinct id once, in order of first occurrence *)
Fixpoint dedupe (ids : list target) : list target :=
  match ids with
  | [] => []
  | x :: t => x :: filter (fun y => negb (target_eqb x y)) (dedupe t)
  end.

(* what the engine reads out of the pipe *)
Definition engine_reads {A} (b : beh) (stream : list (list A)) : list A :=
  match b with
  | Drain | DrainErr => concat stream
  | GiveUp k => firstn k (concat stream)
  | Ignore => []
  end.
Definition engine_err (b : beh) : err :=
  match b with Drain | Ignore => ENone | DrainErr | GiveUp _ => EEngine end.

Definition beh_of (behs : list beh) (o : nat) : beh := nth o behs Drain.

(* one result per distinct target: the engine's verdict under the workload lock,
   or the lock/lookup error for an id that does not exist *)
Definition message (behs : list beh) (t : target) : msg :=
  match t with
  | Some o => mkMsg (Some o) (engine_err (beh_of behs o)) true
  | None => mkMsg None EOther false
  end.

Definition key (t : target) : nat := match t with None => 0 | Some o => S o end.
Fixpoint insert (m : msg) (l : list msg) : list msg :=
  match l with
  | [] => [m]
  | x :: t => if key (m_target m) <=? key (m_target x) then m :: l else x :: insert m t
  end.
Definition sort_msgs (l : list msg) : list msg := fold_right insert [] l.

(* ---- blocking analysis (the network before the first repair) ---- *)

Fixpoint full_chunks (consumed : nat) (lens : list nat) : nat :=
  match lens with
  | [] => 0
  | l :: t => if l <=? consumed then S (full_chunks (consumed - l) t) else 0
  end.

(* bytes an engine takes before it stops reading without reaching EOF; None = reads to EOF *)
Definition stops_after (b : option beh) (total : nat) : option nat :=
  match b with
  | None => Some 0                                        (* no engine call at all *)
  | Some (Drain | DrainErr) => None
  | Some (GiveUp k) => Some (Nat.min k total)
  | Some Ignore => Some 0
  end.

(* chunks the sender has dequeued when the (unrepaired) network is quiescent *)
Definition quiescent_taken (b : option beh) (lens : list nat) : nat :=
  match stops_after b (list_sum lens) with
  | None => length lens
  | Some k => Nat.min (length lens) (S (full_chunks k lens))
  end.

Definition buffer_cap : nat := 10.

(* does the call finish? *)
Definition finishes_with (fixed : bool) (lens : list nat) (targets : list target) (behs : list beh) : bool :=
  if fixed then true
  else forallb (fun t => length lens <=? quiescent_taken (option_map (beh_of behs) t) lens + buffer_cap)
               (dedupe targets).

(* ---- the transfer of one file ---- *)

Record outcome (A : Type) := mkOut {
  finished : bool;
  messages : list msg;                  (* sorted by target *)
  received : nat -> option (list A) }.  (* per existing workload: what its engine read, if it was called *)
Arguments mkOut {A}. Arguments finished {A}. Arguments messages {A}. Arguments received {A}.

Definition send_chunks {A} (chunks : list (list A)) (targets : list target) (behs : list beh) : outcome A :=
  match chunks with
  | [] => mkOut true [] (fun _ => None)                   (* nothing on the input channel: no sender at all *)
  | _ =>
    let ts := dedupe targets in
    mkOut (finishes_with true (map (@length A) chunks) targets behs)
          (sort_msgs (map (message behs) ts))
          (fun o => if existsb (target_eqb (Some o)) ts
                    then Some (engine_reads (beh_of behs o) chunks) else None)
  end.

(* Vibranium.Send for one file *)
Definition send_file {A} (size : nat) (content : list A) (targets : list target) (behs : list beh) : outcome A :=
  send_chunks (to_chunks size content) targets behs.

(* ---- correspondence cases ---- *)

Record case := mkCase {
  c_chunks : nat; c_extra : nat;         (* file size = c_chunks * 2048 + c_extra *)
  c_targets : list target; c_behs : list beh;
  obs_finished : bool; obs_msgs : list msg; obs_recv : list recv }.

Definition err_eqb (a b : err) : bool :=
  match a, b with ENone, ENone | EEngine, EEngine | EOther, EOther => true | _, _ => false end.
Definition msg_eqb (a b : msg) : bool :=
  target_eqb (m_target a) (m_target b) && err_eqb (m_err a) (m_err b) && Bool.eqb (m_path_ok a) (m_path_ok b).
Definition recv_eqb (a b : recv) : bool :=
  match a, b with
  | RNone, RNone => true
  | RPrefix n m c, RPrefix n' m' c' => Nat.eqb n n' && Bool.eqb m m' && Nat.eqb c c'
  | RGarbled n c, RGarbled n' c' => Nat.eqb n n' && Nat.eqb c c'
  | _, _ => false
  end.

Definition file_size (c : case) : nat := c_chunks c * chunk_size + c_extra c.

(* the pipeline is parametric in the bytes; positions are enough to run it *)
Definition model (c : case) : outcome unit :=
  send_file chunk_size (repeat tt (file_size c)) (c_targets c) (c_behs c).

Definition model_recv (c : case) (o : nat) : recv :=
  match received (model c) o with
  | None => RNone
  | Some l => RPrefix (length l) true 1
  end.

Definition agree (c : case) : bool :=
  let m := model c in
  Bool.eqb (finished m) (obs_finished c)
  && all2 msg_eqb (messages m) (obs_msgs c)
  && all2 recv_eqb (map (model_recv c) (seq 0 (length (obs_recv c)))) (obs_recv c).

(* boolean reflection of the property on what the implementation did *)
Definition recv_ok (c : case) (o : nat) (r : recv) : bool :=
  if existsb (target_eqb (Some o)) (c_targets c) then
    match r with
    | RPrefix n meta calls =>
        meta && Nat.eqb calls 1
        && match beh_of (c_behs c) o with
           | Drain | DrainErr => Nat.eqb n (file_size c)          (* byte-identical, complete *)
           | GiveUp k => n <=? file_size c                          (* whatever it took is a prefix *)
           | Ignore => true
           end
    | _ => false
    end
  else match r with RNone => true | _ => false end.

Definition ok (c : case) : bool :=
  obs_finished c
  && all2 (fun t m => target_eqb (m_target m) t
                     && match t with
                        | Some o => err_eqb (m_err m) (engine_err (beh_of (c_behs c) o)) && m_path_ok m
                        | None => negb (err_eqb (m_err m) ENone)
                        end)
          (map m_target (sort_msgs (map (message (c_behs c)) (dedupe (c_targets c))))) (obs_msgs c)
  && all2 (recv_ok c) (seq 0 (length (obs_recv c))) (obs_recv c).

(* ---- client-chosen chunkings ----
   A client of the streaming RPC cuts the file as it likes (2500 bytes as 1000+1000+500);
   SendLargeFile must not depend on the chunk sizes: the engine still gets the
   concatenation, one copy and one result per target. *)
Record kcase := mkKCase {
  k_lens : list nat;                      (* lengths of the chunks put on the input channel *)
  k_targets : list target; k_behs : list beh;
  kobs_finished : bool; kobs_msgs : list msg; kobs_recv : list recv }.

Definition kmodel (c : kcase) : outcome unit :=
  send_chunks (map (fun n => repeat tt n) (k_lens c)) (k_targets c) (k_behs c).

Definition kmodel_recv (c : kcase) (o : nat) : recv :=
  match received (kmodel c) o with
  | None => RNone
  | Some l => RPrefix (length l) true 1
  end.

Definition kagree (c : kcase) : bool :=
  Bool.eqb (finished (kmodel c)) (kobs_finished c)
  && all2 msg_eqb (messages (kmodel c)) (kobs_msgs c)
  && all2 recv_eqb (map (kmodel_recv c) (seq 0 (length (kobs_recv c)))) (kobs_recv c).

Definition kok (c : kcase) : bool :=
  let size := list_sum (k_lens c) in
  kobs_finished c
  && all2 (fun t m => target_eqb (m_target m) t
                     && match t with
                        | Some o => err_eqb (m_err m) (engine_err (beh_of (k_behs c) o)) && m_path_ok m
                        | None => negb (err_eqb (m_err m) ENone)
                        end)
          (map m_target (sort_msgs (map (message (k_behs c)) (dedupe (k_targets c))))) (kobs_msgs c)
  && all2 (fun o r =>
             if existsb (target_eqb (Some o)) (k_targets c) then
               match r with
               | RPrefix n meta calls =>
                   meta && Nat.eqb calls 1
                   && match beh_of (k_behs c) o with
                      | Drain | DrainErr => Nat.eqb n size
                      | GiveUp _ => n <=? size
                      | Ignore => true
                      end
               | _ => false
               end
             else match r with RNone => true | _ => false end)
          (seq 0 (length (kobs_recv c))) (kobs_recv c).
