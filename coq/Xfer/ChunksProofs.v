(* Proofs about the chunking model (C29). *)
From Coq Require Import List Bool Arith Lia.
From Verif Require Import Xfer.Chunks.
Import ListNotations.

(* all chunks but the last are full; the last is at most a chunk; at least one chunk *)
Inductive shape {A} (size : nat) : list (list A) -> Prop :=
  | shape_last : forall x, length x <= size -> shape size [x]
  | shape_cons : forall x t, length x = size -> shape size t -> shape size (x :: t).

Lemma chunks_fuel_concat : forall {A} fuel size (c : list A),
  0 < size -> length c <= fuel -> concat (chunks_fuel fuel size c) = c.
Proof.
  induction fuel as [|f IH]; intros size c Hs Hl.
  - destruct c; [reflexivity|exfalso; simpl in Hl; lia].
  - destruct c as [|a c']; [reflexivity|].
    cbn [chunks_fuel concat]. rewrite IH; [apply firstn_skipn|exact Hs|].
    rewrite skipn_length. cbn [length] in *. lia.
Qed.

Lemma chunks_fuel_shape : forall {A} fuel size (c : list A),
  0 < size -> length c <= fuel -> c <> [] ->
  shape size (chunks_fuel fuel size c) /\ Forall (fun ch => ch <> []) (chunks_fuel fuel size c).
Proof.
  induction fuel as [|f IH]; intros size c Hs Hl Hc.
  - destruct c; [congruence|exfalso; simpl in Hl; lia].
  - destruct c as [|a c']; [congruence|].
    cbn [chunks_fuel].
    assert (Hne : firstn size (a :: c') <> []) by (destruct size; [lia|simpl; discriminate]).
    destruct (le_lt_dec (length (a :: c')) size) as [Hle|Hgt].
    + (* last chunk *)
      rewrite (skipn_all2 (a :: c')) by exact Hle.
      rewrite firstn_all2 by exact Hle.
      destruct f; cbn [chunks_fuel]; (split; [apply shape_last; exact Hle|repeat constructor; discriminate]).
    + assert (Hsk : skipn size (a :: c') <> []).
      { intro E. apply (f_equal (@length A)) in E. rewrite skipn_length in E. cbn [length] in E, Hgt. lia. }
      assert (Hl' : length (skipn size (a :: c')) <= f) by (rewrite skipn_length; cbn [length] in *; lia).
      destruct (IH size _ Hs Hl' Hsk) as [Sh Fa].
      split.
      * apply shape_cons; [apply firstn_length_le; lia|exact Sh].
      * constructor; assumption.
Qed.

(* C29_chunks: round trip and shape, for any content and any positive chunk size *)
Theorem chunks_statement : forall {A} size (c : list A), 0 < size ->
  concat (to_chunks size c) = c /\
  shape size (to_chunks size c) /\
  (c <> [] -> Forall (fun ch => ch <> []) (to_chunks size c)).
Proof.
  intros A size c Hs. destruct c as [|a c'].
  - cbn. repeat split; [apply shape_last; simpl; lia|congruence].
  - unfold to_chunks.
    assert (Hne : a :: c' <> []) by discriminate.
    destruct (chunks_fuel_shape (length (a :: c')) size (a :: c') Hs (le_n _) Hne) as [Sh Fa].
    repeat split; [apply chunks_fuel_concat; [exact Hs|apply le_n]|exact Sh|intros _; exact Fa].
Qed.

(* every chunk fits, hence "<= size" for all of them *)
Lemma shape_all_le : forall {A} size (l : list (list A)), shape size l -> Forall (fun ch => length ch <= size) l.
Proof. induction 1; constructor; auto; lia. Qed.

Lemma shape_nonempty : forall {A} size (l : list (list A)), shape size l -> l <> [].
Proof. destruct 1; discriminate. Qed.

(* the metadata (ids, destination, owner, mode) and the total size are repeated on every chunk *)
Theorem options_statement : forall {M A} size (meta : M) (c : list A),
  map o_chunk (to_options size meta c) = to_chunks size c /\
  Forall (fun o => o_meta o = meta /\ o_size o = length c) (to_options size meta c).
Proof.
  intros. unfold to_options. split.
  - rewrite map_map. cbn [o_chunk]. apply map_id.
  - apply Forall_forall. intros o Ho. apply in_map_iff in Ho. destruct Ho as [ch [E _]]. subst o. split; reflexivity.
Qed.

(* before the repair an empty file produced no chunk at all: nothing was sent *)
Theorem orig_empty_refuted : forall {A} size, @to_chunks_orig A size [] = [].
Proof. reflexivity. Qed.

(* for a non-empty file the repair changes nothing *)
Theorem orig_same_nonempty : forall {A} size (c : list A), c <> [] -> to_chunks size c = to_chunks_orig size c.
Proof. intros A size [|a c'] H; [congruence|reflexivity]. Qed.

(* the boolean shape check of the harness implies the shape *)
Lemma shape_ok_shape : forall size l, shape_ok size l = true -> shape size l.
Proof.
  induction l as [|x t IH]; intros H; [discriminate|].
  destruct t as [|y t'].
  - apply shape_last. apply Nat.leb_le. exact H.
  - cbn [shape_ok] in H. apply andb_true_iff in H. destruct H as [H1 H2].
    apply shape_cons; [apply Nat.eqb_eq; exact H1|apply IH; exact H2].
Qed.

Example chunks_example : to_chunks 3 [1;2;3;4;5;6;7] = [[1;2;3];[4;5;6];[7]] /\ to_chunks 3 (@nil nat) = [[]]
  /\ to_chunks 3 [1;2;3] = [[1;2;3]].
Proof. repeat split; reflexivity. Qed.
