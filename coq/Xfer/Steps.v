(* Small-step (interleaving) model of the goroutine network of
   cluster/calcium/sendlarge.go (C29), after the repairs: one dispatcher D, and
   per target t a buffered channel (capacity 10), a sender goroutine S_t, an
   io.Pipe, and an engine goroutine E_t that runs the copy under the workload
   lock, reports on the result channel (whose reader is always ready), closes
   the pipe reader and signals the wait group.

   A step is one goroutine doing one channel / pipe operation; which enabled
   goroutine moves is not determined: theorems quantify over all schedules.

     D   for each chunk, for each (distinct) target: buffer_t <- chunk   [blocks when full]
         close all buffers; wg.Wait(); close(resp)
     S_t for data := range buffer: first chunk: io.Pipe(), go E_t
           writer.Write(chunk)   -- rendezvous with Reads; error once the reader is closed -> break
         writer.Close(); for range buffer {}
     E_t (lock) VirtualizationCopyChunkTo(... reader ...): reads until it has what
         it wants (None = until EOF, Some k = k bytes) ; resp <- message ;
         reader.Close() ; wg.Done()
   A target that does not exist, or an engine that returns without reading, is
   an E_t that wants Some 0.

   No proofs in this file. *)
From Coq Require Import List Bool Arith.
Import ListNotations.

Section Steps.
Variable A : Type.
Variable n : nat.                         (* number of distinct targets, 0 .. n-1 *)
Variable want_of : nat -> option nat.     (* how much E_t reads before returning *)

Definition cap : nat := 10.

Inductive sstate := SIdle | SWriting (rem : list A) | SDraining | SDone.
Inductive estate := ENotStarted | EReading (want : option nat) | EReturned.

Record tstate := mkT {
  buf : list (list A);      (* sender.buffer, FIFO *)
  sst : sstate;
  started : bool;           (* pipe created, E_t spawned *)
  eng : estate;
  got : list A;             (* bytes E_t has read so far *)
  wclosed : bool;           (* writer.Close() done *)
  rclosed : bool;           (* reader.Close() done *)
  nmsg : nat }.             (* messages E_t has put on the result channel *)

Inductive dstate := DSending (items : list (nat * list A)) | DWait | DFinished.

Record state := mkS { dst : dstate; tg : nat -> tstate; bclosed : bool }.

Definition upd (f : nat -> tstate) (t : nat) (x : tstate) : nat -> tstate :=
  fun u => if Nat.eqb u t then x else f u.

Definition reported (x : tstate) : bool := negb (Nat.eqb (nmsg x) 0).

(* bytes a Read takes out of the pending Write *)
Definition take (w : option nat) (rem : list A) : nat :=
  match w with None => length rem | Some k => Nat.min k (length rem) end.
Definition after (w : option nat) (k : nat) : option nat :=
  match w with None => None | Some m => Some (m - k) end.

Definition is_writing (s : sstate) : bool := match s with SWriting _ => true | _ => false end.

Inductive step : state -> state -> Prop :=
  | st_send : forall s t ch rest x,
      dst s = DSending ((t, ch) :: rest) -> t < n -> tg s t = x -> length (buf x) < cap ->
      step s (mkS (DSending rest)
                  (upd (tg s) t (mkT (buf x ++ [ch]) (sst x) (started x) (eng x) (got x) (wclosed x) (rclosed x) (nmsg x)))
                  (bclosed s))
  | st_close : forall s,
      dst s = DSending [] -> step s (mkS DWait (tg s) true)
  | st_finish : forall s,
      dst s = DWait -> (forall t, t < n -> reported (tg s t) = true) ->
      step s (mkS DFinished (tg s) (bclosed s))
  | st_take : forall s t x ch b',
      t < n -> tg s t = x -> sst x = SIdle -> buf x = ch :: b' ->
      step s (mkS (dst s) (upd (tg s) t (mkT b' (SWriting ch) true (eng x) (got x) (wclosed x) (rclosed x) (nmsg x))) (bclosed s))
  | st_idle_closed : forall s t x,
      t < n -> tg s t = x -> sst x = SIdle -> buf x = [] -> bclosed s = true ->
      step s (mkS (dst s) (upd (tg s) t (mkT [] SDone (started x) (eng x) (got x) true (rclosed x) (nmsg x))) (bclosed s))
  | st_write_fail : forall s t x rem,
      t < n -> tg s t = x -> sst x = SWriting rem -> rclosed x = true ->
      step s (mkS (dst s) (upd (tg s) t (mkT (buf x) SDraining (started x) (eng x) (got x) true (rclosed x) (nmsg x))) (bclosed s))
  | st_drain : forall s t x ch b',
      t < n -> tg s t = x -> sst x = SDraining -> buf x = ch :: b' ->
      step s (mkS (dst s) (upd (tg s) t (mkT b' SDraining (started x) (eng x) (got x) (wclosed x) (rclosed x) (nmsg x))) (bclosed s))
  | st_drain_end : forall s t x,
      t < n -> tg s t = x -> sst x = SDraining -> buf x = [] -> bclosed s = true ->
      step s (mkS (dst s) (upd (tg s) t (mkT [] SDone (started x) (eng x) (got x) (wclosed x) (rclosed x) (nmsg x))) (bclosed s))
  | st_transfer : forall s t x rem w,
      t < n -> tg s t = x -> sst x = SWriting rem -> eng x = EReading w -> w <> Some 0 -> rclosed x = false ->
      let k := take w rem in
      step s (mkS (dst s)
                  (upd (tg s) t (mkT (buf x)
                                     (match skipn k rem with [] => SIdle | r => SWriting r end)
                                     (started x) (EReading (after w k)) (got x ++ firstn k rem)
                                     (wclosed x) (rclosed x) (nmsg x)))
                  (bclosed s))
  | st_estart : forall s t x,
      t < n -> tg s t = x -> eng x = ENotStarted -> started x = true ->
      step s (mkS (dst s) (upd (tg s) t (mkT (buf x) (sst x) (started x) (EReading (want_of t)) (got x) (wclosed x) (rclosed x) (nmsg x))) (bclosed s))
  | st_eof : forall s t x w,
      t < n -> tg s t = x -> eng x = EReading w -> w <> Some 0 -> wclosed x = true -> is_writing (sst x) = false ->
      step s (mkS (dst s) (upd (tg s) t (mkT (buf x) (sst x) (started x) EReturned (got x) (wclosed x) (rclosed x) (nmsg x))) (bclosed s))
  | st_enough : forall s t x,
      t < n -> tg s t = x -> eng x = EReading (Some 0) ->
      step s (mkS (dst s) (upd (tg s) t (mkT (buf x) (sst x) (started x) EReturned (got x) (wclosed x) (rclosed x) (nmsg x))) (bclosed s))
  | st_report : forall s t x,
      t < n -> tg s t = x -> eng x = EReturned -> nmsg x = 0 ->
      step s (mkS (dst s) (upd (tg s) t (mkT (buf x) (sst x) (started x) EReturned (got x) (wclosed x) true 1)) (bclosed s)).

(* D's work list: every chunk to every target, chunk by chunk *)
Definition items_of (chunks : list (list A)) : list (nat * list A) :=
  flat_map (fun ch => map (fun t => (t, ch)) (seq 0 n)) chunks.

Definition tinit : tstate := mkT [] SIdle false ENotStarted [] false false 0.
Definition init (chunks : list (list A)) : state := mkS (DSending (items_of chunks)) (fun _ => tinit) false.

(* what E_t is supposed to have read when it returns *)
Definition reads_spec (w : option nat) (all : list A) : list A :=
  match w with None => all | Some k => firstn k all end.

(* ---- progress measure: every step decreases it ---- *)

Definition smu (s : sstate) : nat :=
  match s with SIdle => 1 | SWriting rem => length rem + 2 | SDraining => 1 | SDone => 0 end.
Definition emu (x : tstate) : nat :=
  match eng x with ENotStarted => 3 | EReading _ => 2 | EReturned => if Nat.eqb (nmsg x) 0 then 1 else 0 end.
Definition bmu (b : list (list A)) : nat := fold_right (fun ch m => length ch + 3 + m) 0 b.
Definition tmu (x : tstate) : nat := bmu (buf x) + smu (sst x) + emu x.
Definition imu (l : list (nat * list A)) : nat := fold_right (fun it m => length (snd it) + 4 + m) 0 l.
Definition dmu (d : dstate) : nat :=
  match d with DSending l => imu l + 2 | DWait => 1 | DFinished => 0 end.
Fixpoint sum_to (k : nat) (f : nat -> nat) : nat :=
  match k with 0 => 0 | S k' => sum_to k' f + f k' end.
Definition mu (s : state) : nat := dmu (dst s) + sum_to n (fun t => tmu (tg s t)).

End Steps.
