(* The interleaving model (Steps) and the dataflow model (Pipeline) of the
   transfer network describe the same outcome: what an engine has read when the
   network has finished, under any schedule, is what the dataflow model says. *)
From Coq Require Import List Bool Arith Lia.
From Verif Require Import Xfer.Chunks Xfer.Pipeline Xfer.Steps Xfer.StepsProofs.
Import ListNotations.

(* how much the engine goroutine of a target reads before it returns *)
Definition want_of_target (behs : list beh) (t : target) : option nat :=
  match t with
  | None => Some 0                         (* unknown id: the copy is never started *)
  | Some o =>
      match beh_of behs o with
      | Drain | DrainErr => None
      | GiveUp k => Some k
      | Ignore => Some 0
      end
  end.

Lemma reads_bridge : forall {A} behs o (chunks : list (list A)),
  reads_spec A (want_of_target behs (Some o)) (concat chunks) = engine_reads (beh_of behs o) chunks.
Proof. intros A behs o chunks. unfold want_of_target, reads_spec, engine_reads. destruct (beh_of behs o); reflexivity. Qed.

(* all schedules, stated for a list of distinct targets with their engines *)
Theorem transfer_all_schedules : forall {A} (chunks : list (list A)) (ts : list target) (behs : list beh),
  chunks <> [] ->
  let n := length ts in
  let want := fun i => want_of_target behs (nth i ts None) in
  forall k s, steps A n want k (init A n chunks) s ->
    k <= mu A n (init A n chunks) /\
    (dst A s <> DFinished A -> exists s', step A n want s s') /\
    (dst A s = DFinished A ->
       forall i, i < n ->
         nmsg A (tg A s i) = 1 /\
         got A (tg A s i) = reads_spec A (want i) (concat chunks)).
Proof.
  intros A chunks ts behs Hne n want k s H.
  exact (all_schedules A n want chunks Hne k s H).
Qed.

(* ... and what is read is what the dataflow model computes *)
Corollary transfer_matches_dataflow : forall {A} (chunks : list (list A)) (ts : list target) (behs : list beh),
  chunks <> [] ->
  let n := length ts in
  let want := fun i => want_of_target behs (nth i ts None) in
  forall k s, steps A n want k (init A n chunks) s -> dst A s = DFinished A ->
  forall i o, i < n -> nth i ts None = Some o ->
    got A (tg A s i) = engine_reads (beh_of behs o) chunks.
Proof.
  intros A chunks ts behs Hne n want k s H Hd i o Hi Ho.
  destruct (transfer_all_schedules chunks ts behs Hne k s H) as (_ & _ & F).
  destruct (F Hd i Hi) as [_ G]. rewrite G. unfold want. rewrite Ho. apply reads_bridge.
Qed.

(* the measure of the initial state: an explicit bound on the length of any execution *)
Example bound_example :
  mu nat 2 (init nat 2 [[1;2;3];[4]]) = 34.
Proof. vm_compute. reflexivity. Qed.
