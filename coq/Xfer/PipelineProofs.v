(* Proofs about the file-transfer pipeline model (C29). *)
From Coq Require Import List Bool Arith Lia Permutation.
From Verif Require Import Xfer.Chunks Xfer.ChunksProofs Xfer.Pipeline.
Import ListNotations.

(* ---- targets ---- *)

Lemma target_eqb_eq : forall a b, target_eqb a b = true <-> a = b.
Proof.
  intros [x|] [y|]; simpl; split; intro H; try discriminate; try reflexivity.
  - apply Nat.eqb_eq in H. congruence.
  - inversion H. apply Nat.eqb_refl.
Qed.

Lemma dedupe_in : forall ids t, In t (dedupe ids) <-> In t ids.
Proof.
  induction ids as [|x l IH]; intros t; simpl; [tauto|].
  rewrite filter_In, IH. split.
  - intros [H|[H _]]; auto.
  - intros [H|H]; [left; exact H|].
    destruct (target_eqb x t) eqn:E; [left; apply target_eqb_eq; exact E|right; split; [exact H|reflexivity]].
Qed.

Lemma NoDup_filter : forall {A} (f : A -> bool) l, NoDup l -> NoDup (filter f l).
Proof.
  intros A f l H. induction H as [|x l Hx Hn IH]; simpl; [constructor|].
  destruct (f x); [constructor; [rewrite filter_In; tauto|exact IH]|exact IH].
Qed.

Lemma dedupe_nodup : forall ids, NoDup (dedupe ids).
Proof.
  induction ids as [|x l IH]; simpl; constructor.
  - rewrite filter_In. intros [_ H]. rewrite (proj2 (target_eqb_eq x x) eq_refl) in H. discriminate.
  - apply NoDup_filter. exact IH.
Qed.

(* ---- the result channel: a permutation of one message per distinct target ---- *)

Lemma insert_perm : forall m l, Permutation (insert m l) (m :: l).
Proof.
  induction l as [|x t IH]; simpl; [reflexivity|].
  destruct (key (m_target m) <=? key (m_target x)); [reflexivity|].
  rewrite IH. apply perm_swap.
Qed.

Lemma sort_msgs_perm : forall l, Permutation (sort_msgs l) l.
Proof.
  induction l as [|x t IH]; simpl; [reflexivity|].
  rewrite insert_perm. constructor. exact IH.
Qed.

(* ---- the statements of Properties/C29.v ---- *)

(* exactly one result per distinct target (and none for anybody else), for
   every content, target list (missing and duplicated ids included) and engine behaviour *)
Theorem one_result_per_target : forall {A} size (content : list A) targets behs,
  0 < size ->
  let out := send_file size content targets behs in
  Permutation (messages out) (map (message behs) (dedupe targets)) /\
  NoDup (dedupe targets) /\ (forall t, In t (dedupe targets) <-> In t targets).
Proof.
  intros A size content targets behs Hs out.
  destruct (chunks_statement size content Hs) as (_ & Sh & _).
  pose proof (shape_nonempty _ _ Sh) as Hne.
  unfold out, send_file, send_chunks. destruct (to_chunks size content) as [|c0 cs]; [congruence|].
  cbn [messages]. split; [apply sort_msgs_perm|]. split; [apply dedupe_nodup|apply dedupe_in].
Qed.

Lemma existsb_target : forall o ts, existsb (target_eqb (Some o)) ts = true <-> In (Some o) ts.
Proof.
  intros o ts. rewrite existsb_exists. split.
  - intros [x [Hin E]]. apply target_eqb_eq in E. subst x. exact Hin.
  - intros H. exists (Some o). split; [exact H|apply target_eqb_eq; reflexivity].
Qed.

(* delivery: an engine that reads to EOF receives exactly the content (any
   size, the empty file included); one that gives up after k bytes has read the
   first k bytes; a workload that is not a target receives nothing *)
Theorem delivery : forall {A} size (content : list A) targets behs o,
  0 < size ->
  let out := send_file size content targets behs in
  (In (Some o) targets ->
     received out o = Some (match beh_of behs o with
                            | Drain | DrainErr => content
                            | GiveUp k => firstn k content
                            | Ignore => []
                            end)) /\
  (~ In (Some o) targets -> received out o = None).
Proof.
  intros A size content targets behs o Hs out.
  destruct (chunks_statement size content Hs) as (Hc & Sh & _).
  pose proof (shape_nonempty _ _ Sh) as Hne.
  unfold out, send_file, send_chunks.
  destruct (to_chunks size content) as [|c0 cs] eqn:E; [congruence|].
  cbn [received]. split; intro H.
  - rewrite (proj2 (existsb_target o (dedupe targets))) by (apply dedupe_in; exact H).
    unfold engine_reads. rewrite Hc. reflexivity.
  - destruct (existsb (target_eqb (Some o)) (dedupe targets)) eqn:Ex; [|reflexivity].
    exfalso. apply H. apply dedupe_in. apply existsb_target. exact Ex.
Qed.

(* the message of a target carries the engine's verdict; an unknown id gets an error *)
Theorem verdicts : forall behs t,
  message behs t = match t with
                   | Some o => mkMsg (Some o) (engine_err (beh_of behs o)) true
                   | None => mkMsg None EOther false
                   end.
Proof. intros behs [o|]; reflexivity. Qed.

(* termination: with the repaired network nothing can block *)
Theorem terminates : forall {A} size (content : list A) targets behs,
  finished (send_file size content targets behs) = true.
Proof.
  intros. unfold send_file, send_chunks. destruct (to_chunks size content); reflexivity.
Qed.

(* ---- the network before the repairs ---- *)

(* even then the call finished when every target existed and every engine read to EOF *)
Theorem orig_finishes_when_all_drain : forall lens targets behs,
  (forall t, In t targets -> exists o, t = Some o /\ (beh_of behs o = Drain \/ beh_of behs o = DrainErr)) ->
  finishes_with false lens targets behs = true.
Proof.
  intros lens targets behs H. unfold finishes_with. apply forallb_forall. intros t Ht.
  apply (proj1 (dedupe_in _ _)) in Ht. destruct (H t Ht) as [o [E Hb]]. subst t. cbn [option_map].
  unfold quiescent_taken, stops_after. destruct Hb as [-> | ->]; apply Nat.leb_le; lia.
Qed.

Definition thirteen : list nat := repeat 2048 13.

(* refutations (each reproduced on the unrepaired code by the harness corpus) *)
Theorem orig_missing_target_blocks : finishes_with false thirteen [Some 0; None] [] = false.
Proof. vm_compute. reflexivity. Qed.

Theorem orig_aborting_engine_blocks :
  finishes_with false thirteen [Some 0; Some 1] [GiveUp 3000] = false /\
  finishes_with false (repeat 2048 12) [Some 0] [GiveUp 10] = false /\
  finishes_with false (repeat 2048 11) [Some 0] [GiveUp 10] = true.
Proof. repeat split; vm_compute; reflexivity. Qed.

(* without the `dispatched` set a target listed m times got every chunk m times *)
Definition dup_stream {A} (m : nat) (chunks : list (list A)) : list (list A) :=
  flat_map (fun ch => repeat ch m) chunks.

Theorem orig_duplicate_garbles :
  engine_reads Drain (dup_stream 2 (to_chunks 2 [1; 2; 3])) = [1; 2; 1; 2; 3; 3] /\
  engine_reads Drain (dup_stream 1 (to_chunks 2 [1; 2; 3])) = [1; 2; 3].
Proof. split; reflexivity. Qed.

(* before the empty-chunk repair Send of an empty file reached no sender: no result at all *)
Theorem orig_empty_file_reports_nothing : forall targets behs,
  messages (send_chunks (@to_chunks_orig nat 2048 []) targets behs) = [] /\
  forall o, received (send_chunks (@to_chunks_orig nat 2048 []) targets behs) o = None.
Proof. intros. split; reflexivity. Qed.

Example transfer_example :
  let out := send_file 2 [10; 20; 30] [Some 1; None; Some 0; Some 1] [GiveUp 1; Drain] in
  messages out = [mkMsg None EOther false; mkMsg (Some 0) EEngine true; mkMsg (Some 1) ENone true] /\
  received out 0 = Some [10] /\ received out 1 = Some [10; 20; 30] /\ received out 2 = None /\
  finished out = true.
Proof. repeat split; reflexivity. Qed.

Example empty_file_example :
  let out := send_file 2048 (@nil nat) [Some 0] [Drain] in
  messages out = [mkMsg (Some 0) ENone true] /\ received out 0 = Some [].
Proof. split; reflexivity. Qed.

(* the outcome does not depend on how the client cut the file into chunks *)
Theorem chunking_independent : forall {A} (c1 c2 : list (list A)) targets behs,
  c1 <> [] -> c2 <> [] -> concat c1 = concat c2 ->
  messages (send_chunks c1 targets behs) = messages (send_chunks c2 targets behs) /\
  finished (send_chunks c1 targets behs) = finished (send_chunks c2 targets behs) /\
  forall o, received (send_chunks c1 targets behs) o = received (send_chunks c2 targets behs) o.
Proof.
  intros A c1 c2 targets behs H1 H2 Hc. unfold send_chunks.
  destruct c1 as [|x1 t1]; [congruence|]. destruct c2 as [|x2 t2]; [congruence|].
  cbn [messages finished received]. repeat split.
  intros o. destruct (existsb (target_eqb (Some o)) (dedupe targets)); [|reflexivity].
  unfold engine_reads. rewrite Hc. reflexivity.
Qed.
