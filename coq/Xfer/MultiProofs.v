(* Proofs about several files on one SendLargeFile input channel (C29). *)
From Coq Require Import List Bool Arith Lia Permutation.
From Verif Require Import Xfer.Chunks Xfer.ChunksProofs Xfer.Pipeline Xfer.PipelineProofs Xfer.Multi.
Import ListNotations.

Lemma rinsert_perm : forall m l, Permutation (rinsert m l) (m :: l).
Proof.
  induction l as [|x t IH]; simpl; [reflexivity|].
  destruct (rle m x); [reflexivity|]. rewrite IH. apply perm_swap.
Qed.

Lemma rsort_perm : forall l, Permutation (rsort l) l.
Proof.
  induction l as [|x t IH]; simpl; [reflexivity|]. rewrite rinsert_perm. constructor. exact IH.
Qed.

Lemma length_flat_results : forall n ts, length (flat_map (results_of n) ts) = n * length ts.
Proof.
  induction ts as [|t ts IH]; simpl; [lia|].
  rewrite app_length, IH. unfold results_of. rewrite map_length, seq_length. lia.
Qed.

(* every (distinct target, file) pair gets a result, nothing else does *)
Theorem multi_results : forall {A} (files : list (list (list A))) targets behs,
  let out := send_files files targets behs in
  mfinished out = true /\
  Permutation (mresults out) (flat_map (results_of (length files)) (dedupe targets)) /\
  length (mresults out) = length files * length (dedupe targets).
Proof.
  intros A files targets behs out. unfold out, send_files, send_files_with. cbn [mfinished mresults].
  split; [reflexivity|]. split; [apply rsort_perm|].
  rewrite (Permutation_length (rsort_perm _)). apply length_flat_results.
Qed.

(* every file is delivered completely to every listed workload whose engine reads to EOF *)
Theorem multi_delivery : forall {A} size (contents : list (list A)) targets behs o f c,
  0 < size -> In (Some o) targets -> nth_error contents f = Some c ->
  mreceived (send_files (map (to_chunks size) contents) targets behs) o f =
    Some (match beh_of behs o with
          | Drain | DrainErr => c
          | GiveUp k => firstn k c
          | Ignore => []
          end).
Proof.
  intros A size contents targets behs o f c Hs Hin Hf.
  unfold send_files, send_files_with. cbn [mreceived].
  rewrite (proj2 (existsb_target o (dedupe targets))) by (apply dedupe_in; exact Hin).
  assert (Hlt : f < length contents) by (apply nth_error_Some; congruence).
  rewrite map_length. replace (f <? length contents) with true by (symmetry; apply Nat.ltb_lt; exact Hlt).
  cbn [andb]. rewrite nth_error_map, Hf. cbn [option_map].
  destruct (chunks_statement size c Hs) as (Hc & _ & _).
  unfold engine_reads. rewrite Hc. reflexivity.
Qed.

(* before the repair only the first file was delivered and reported *)
Theorem multi_orig_refuted :
  let out := send_files_with false [[[1; 2]]; [[3]]] [Some 0] [] in
  mresults out = [(Some 0, Some 0)] /\ mreceived out 0 1 = None /\
  mresults (send_files [[[1; 2]]; [[3]]] [Some 0] []) = [(Some 0, Some 0); (Some 0, Some 1)] /\
  mreceived (send_files [[[1; 2]]; [[3]]] [Some 0] []) 0 1 = Some [3].
Proof. repeat split; reflexivity. Qed.
