(* Proofs about the model of Calcium.Send (C29, non-chunked path). *)
From Coq Require Import List Bool Arith Lia.
From Verif Require Import Xfer.Chunks Xfer.Pipeline Xfer.PipelineProofs Xfer.Direct.
Import ListNotations.

(* delivery: the engine is handed the whole content; one that reads to EOF has all of it *)
Theorem direct_delivery : forall {A} (content : list A),
  direct_reads Drain content = content /\ direct_reads DrainErr content = content /\
  forall k, direct_reads (GiveUp k) content = firstn k content.
Proof.
  intros A content. unfold direct_reads, engine_reads. cbn [concat]. rewrite app_nil_r. repeat split; reflexivity.
Qed.

Lemma filter_nothing : forall {B} (g : B -> bool) l, (forall x, In x l -> g x = false) -> filter g l = [].
Proof.
  induction l as [|x l IH]; intros H; [reflexivity|]. simpl. rewrite (H x) by (left; reflexivity).
  apply IH. intros y Hy. apply H. right; exact Hy.
Qed.

Lemma messages_of_count : forall nfiles behs o f,
  f < nfiles ->
  length (filter (fun m => onat_eqb (d_target m) (Some o) && onat_eqb (d_file m) (Some f))
                 (messages_of nfiles behs (Some o))) = 1.
Proof.
  intros nfiles behs o f Hf. cbn [messages_of].
  replace nfiles with (f + (1 + (nfiles - S f))) by lia.
  rewrite seq_app, map_app, filter_app. cbn [Nat.add]. rewrite (seq_app 1), map_app, filter_app.
  cbn [seq map filter d_target d_file onat_eqb]. rewrite !Nat.eqb_refl. cbn [andb].
  rewrite !filter_nothing; [reflexivity| |].
  - intros m Hin. apply in_map_iff in Hin. destruct Hin as [v [E Hv]]. subst m. apply in_seq in Hv.
    cbn [d_target d_file onat_eqb]. rewrite Nat.eqb_refl. cbn [andb]. apply Nat.eqb_neq. lia.
  - intros m Hin. apply in_map_iff in Hin. destruct Hin as [v [E Hv]]. subst m. apply in_seq in Hv.
    cbn [d_target d_file onat_eqb]. rewrite Nat.eqb_refl. cbn [andb]. apply Nat.eqb_neq. lia.
Qed.

Lemma messages_of_other : forall nfiles behs id o f,
  id <> Some o ->
  filter (fun m => onat_eqb (d_target m) (Some o) && onat_eqb (d_file m) (Some f)) (messages_of nfiles behs id) = [].
Proof.
  intros nfiles behs id o f Hne. destruct id as [o'|]; cbn [messages_of].
  - induction (seq 0 nfiles) as [|x l IH]; [reflexivity|]. cbn [map filter d_target onat_eqb].
    destruct (Nat.eqb_spec o' o); [congruence|]. cbn [andb]. exact IH.
  - reflexivity.
Qed.

Lemma messages_absent : forall nfiles behs ids o f, ~ In (Some o) ids ->
  filter (fun m => onat_eqb (d_target m) (Some o) && onat_eqb (d_file m) (Some f))
         (flat_map (messages_of nfiles behs) ids) = [].
Proof.
  intros nfiles behs ids o f. induction ids as [|y ys IH]; intros Hx; [reflexivity|].
  cbn [flat_map]. rewrite filter_app.
  rewrite messages_of_other by (intro E; apply Hx; left; exact E).
  apply IH. intro H. apply Hx. right; exact H.
Qed.

(* with distinct ids: exactly one result per (target, file) *)
Theorem direct_one_result : forall nfiles ids behs o f,
  NoDup ids -> In (Some o) ids -> f < nfiles ->
  length (filter (fun m => onat_eqb (d_target m) (Some o) && onat_eqb (d_file m) (Some f))
                 (flat_map (messages_of nfiles behs) ids)) = 1.
Proof.
  intros nfiles ids behs o f Hnd Hin Hf. induction ids as [|id ids IH]; [destruct Hin|].
  cbn [flat_map]. rewrite filter_app, app_length. inversion Hnd as [|x l Hx Hl]; subst.
  destruct Hin as [E|Hin].
  - subst id. rewrite messages_of_count by exact Hf.
    pose proof (messages_absent nfiles behs ids o f Hx) as Hz.
    rewrite Hz. reflexivity.
  - rewrite messages_of_other by (intro E; subst id; contradiction). cbn [length]. apply IH; assumption.
Qed.

(* exactly one result per (listed target, file), for ANY id list (repeats included) *)
Theorem direct_one_result_any : forall nfiles ids behs o f,
  In (Some o) ids -> f < nfiles ->
  fst (send_direct nfiles ids behs) = DOk /\
  length (filter (fun m => onat_eqb (d_target m) (Some o) && onat_eqb (d_file m) (Some f))
                 (snd (send_direct nfiles ids behs))) = 1.
Proof.
  intros nfiles ids behs o f Hin Hf. unfold send_direct, send_direct_with.
  destruct ids as [|i0 ids']; [destruct Hin|]. destruct nfiles as [|nf]; [lia|].
  cbn [fst snd]. split; [reflexivity|].
  apply direct_one_result; [apply dedupe_nodup|apply dedupe_in; exact Hin|exact Hf].
Qed.

(* before the repair an id listed twice was served and reported twice *)
Theorem direct_duplicate_refuted :
  snd (send_direct_with false 1 [Some 0; Some 0] []) = [mkDMsg (Some 0) (Some 0) ENone; mkDMsg (Some 0) (Some 0) ENone] /\
  snd (send_direct 1 [Some 0; Some 0] []) = [mkDMsg (Some 0) (Some 0) ENone].
Proof. split; reflexivity. Qed.

(* a target that does not exist gets one error result *)
Theorem direct_missing : forall nfiles behs, messages_of nfiles behs None = [mkDMsg None None EOther].
Proof. reflexivity. Qed.

Theorem direct_validation : forall ids behs nfiles,
  fst (send_direct nfiles [] behs) = DNoIDs /\ (ids <> [] -> fst (send_direct 0 ids behs) = DNoFiles).
Proof. intros. split; [reflexivity|]. destruct ids; [congruence|reflexivity]. Qed.
