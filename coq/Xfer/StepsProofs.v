(* Proofs about the interleaving model of the transfer network (C29):
   every step decreases a measure (so every schedule is finite and bounded),
   no reachable state short of "finished" is stuck, and in a finished state
   every target reported exactly once and every engine read what it had to. *)
From Coq Require Import List Bool Arith Lia.
From Verif Require Import Xfer.Steps.
Import ListNotations.

Section Proofs.
Variable A : Type.
Variable n : nat.
Variable want_of : nat -> option nat.

Notation tstate := (tstate A).
Notation state := (state A).
Notation step := (step A n want_of).
Notation mu := (mu A n).

(* ---- sums over targets ---- *)

Lemma sum_to_ext : forall k f g, (forall t, t < k -> f t = g t) -> sum_to k f = sum_to k g.
Proof.
  induction k as [|k IH]; intros f g H; simpl; [reflexivity|].
  rewrite (IH f g) by (intros; apply H; lia). rewrite H by lia. reflexivity.
Qed.

Lemma sum_to_upd : forall k (g : tstate -> nat) (f : nat -> tstate) t x, t < k ->
  sum_to k (fun u => g (upd A f t x u)) + g (f t) = sum_to k (fun u => g (f u)) + g x.
Proof.
  induction k as [|k IH]; intros g f t x Ht; [lia|]. simpl.
  destruct (Nat.eq_dec t k) as [->|Hne].
  - unfold upd at 2. rewrite Nat.eqb_refl.
    rewrite (sum_to_ext k (fun u => g (upd A f k x u)) (fun u => g (f u))).
    + lia.
    + intros u Hu. unfold upd. destruct (Nat.eqb_spec u k); [lia|reflexivity].
  - assert (Ht' : t < k) by lia. specialize (IH g f t x Ht').
    unfold upd at 2. destruct (Nat.eqb_spec k t); [lia|]. lia.
Qed.

Lemma bmu_app : forall (b : list (list A)) ch, bmu A (b ++ [ch]) = bmu A b + (length ch + 3).
Proof. induction b as [|x b IH]; intros ch; simpl; [lia|]. rewrite IH. lia. Qed.

(* ---- every step decreases the measure ---- *)

Theorem step_decreases : forall s s', step s s' -> mu s' < mu s.
Proof.
  intros s s' H. destruct H; unfold Steps.mu; cbn [dst tg];
    try (match goal with
         | Ht : ?t < n |- context [upd A (tg A ?s) ?t ?x] =>
             pose proof (sum_to_upd n (tmu A) (tg A s) t x Ht) as Hsum
         end).
  - (* send *)
    rewrite H in *. subst x. cbn [dmu imu fold_right snd].
    unfold tmu, emu in *. cbn [buf sst eng nmsg] in Hsum.
    rewrite bmu_app in Hsum. fold (imu A rest). lia.
  - rewrite H. cbn [dmu imu fold_right]. lia.
  - rewrite H. cbn [dmu]. lia.
  - (* take *)
    subst x. unfold tmu, emu in *. cbn [buf sst eng nmsg] in Hsum.
    rewrite H1, H2 in Hsum. cbn [bmu fold_right smu] in Hsum. fold (bmu A b') in Hsum.
    lia.
  - subst x. unfold tmu, emu in *. cbn [buf sst eng nmsg] in Hsum.
    rewrite H1, H2 in Hsum. cbn [bmu fold_right smu] in Hsum. lia.
  - subst x. unfold tmu, emu in *. cbn [buf sst eng nmsg] in Hsum.
    rewrite H1 in Hsum. cbn [smu] in Hsum. lia.
  - subst x. unfold tmu, emu in *. cbn [buf sst eng nmsg] in Hsum.
    rewrite H1, H2 in Hsum. cbn [bmu fold_right smu] in Hsum. fold (bmu A b') in Hsum. lia.
  - subst x. unfold tmu, emu in *. cbn [buf sst eng nmsg] in Hsum.
    rewrite H1, H2 in Hsum. cbn [bmu fold_right smu] in Hsum. lia.
  - (* transfer *)
    subst x. unfold tmu, emu in *. cbn [buf sst eng nmsg] in Hsum.
    rewrite H1, H2 in Hsum. cbn [smu] in Hsum.
    assert (Hs : smu A (match skipn k rem with [] => SIdle A | r => SWriting A r end) < length rem + 2).
    { destruct (skipn k rem) as [|a r] eqn:E; cbn [smu length]; [lia|].
      assert (Hl : length (skipn k rem) = length rem - k) by apply skipn_length.
      rewrite E in Hl. cbn [length] in Hl.
      assert (Hk : 1 <= k).
      { unfold k, take in *. destruct w as [m|]; [|lia].
        destruct m; [congruence|]. destruct rem; [simpl in Hl; lia|]. cbn [length]. lia. }
      lia. }
    lia.
  - subst x. unfold tmu, emu in *. cbn [buf sst eng nmsg] in Hsum.
    rewrite H1 in Hsum. lia.
  - subst x. unfold tmu, emu in *. cbn [buf sst eng nmsg] in Hsum.
    rewrite H1 in Hsum. destruct (nmsg A (tg A s t) =? 0); lia.
  - subst x. unfold tmu, emu in *. cbn [buf sst eng nmsg] in Hsum.
    rewrite H1 in Hsum. destruct (nmsg A (tg A s t) =? 0); lia.
  - subst x. unfold tmu, emu in *. cbn [buf sst eng nmsg] in Hsum.
    rewrite H1, H2 in Hsum. cbn [Nat.eqb] in Hsum. lia.
Qed.

(* ---- invariants ---- *)

Variable chunks : list (list A).
Hypothesis chunks_nonempty : chunks <> [].
Definition all : list A := concat chunks.

Definition pending (t : nat) (d : dstate A) : list (list A) :=
  match d with
  | DSending _ l => map snd (filter (fun it => Nat.eqb (fst it) t) l)
  | _ => []
  end.
Definition rem_of (x : sstate A) : list A := match x with SWriting _ r => r | _ => [] end.

Definition want_ok (t : nat) (x : tstate) : Prop :=
  match eng A x with
  | ENotStarted => got A x = []
  | EReading w =>
      match want_of t, w with
      | None, None => True
      | Some k, Some m => length (got A x) + m = k
      | _, _ => False
      end
  | EReturned => got A x = reads_spec A (want_of t) all
  end.

Record TI (d : dstate A) (bc : bool) (t : nat) (x : tstate) : Prop := mkTI {
  i_writing : is_writing A (sst A x) = true -> started A x = true;
  i_engstart : eng A x <> ENotStarted -> started A x = true;
  i_rclosed : rclosed A x = true <-> nmsg A x <> 0;
  i_nmsg : nmsg A x <= 1 /\ (nmsg A x <> 0 -> eng A x = EReturned);
  i_wclosed : wclosed A x = true <-> (sst A x = SDraining A \/ sst A x = SDone A);
  i_draining : sst A x = SDraining A -> rclosed A x = true;
  i_done : sst A x = SDone A -> buf A x = [] /\ bc = true;
  i_unstarted : started A x = false -> sst A x = SIdle A /\ (buf A x <> [] \/ pending t d <> []);
  i_data : eng A x <> EReturned ->
           got A x ++ rem_of (sst A x) ++ concat (buf A x) ++ concat (pending t d) = all;
  i_want : want_ok t x }.

Definition GI (d : dstate A) (bc : bool) : Prop :=
  (bc = true <-> (forall l, d <> DSending A l)) /\
  (forall l, d = DSending A l -> Forall (fun it => fst it < n) l).

Definition Inv (s : state) : Prop :=
  GI (dst A s) (bclosed A s) /\ forall t, t < n -> TI (dst A s) (bclosed A s) t (tg A s t).

Lemma upd_same : forall f t x, upd A f t x t = x.
Proof. intros. unfold upd. rewrite Nat.eqb_refl. reflexivity. Qed.
Lemma upd_other : forall f t x u, u <> t -> upd A f t x u = f u.
Proof. intros. unfold upd. destruct (Nat.eqb_spec u t); [congruence|reflexivity]. Qed.

(* a step of target t that leaves D alone: only t's invariant has to be re-established *)
Lemma inv_target_step : forall s t x',
  Inv s -> t < n -> TI (dst A s) (bclosed A s) t x' ->
  Inv (mkS A (dst A s) (upd A (tg A s) t x') (bclosed A s)).
Proof.
  intros s t x' [G H] Ht Hx. split; [exact G|]. cbn [dst tg bclosed]. intros u Hu.
  destruct (Nat.eq_dec u t) as [->|Hne]; [rewrite upd_same; exact Hx|rewrite upd_other by exact Hne; apply H; exact Hu].
Qed.

Lemma rem_of_match : forall l : list A,
  rem_of (match l with [] => SIdle A | r => SWriting A r end) = l.
Proof. destruct l; reflexivity. Qed.

Lemma firstn_exact : forall (a b : list A), firstn (length a) (a ++ b) = a.
Proof. intros. rewrite firstn_app, Nat.sub_diag, firstn_all. simpl. apply app_nil_r. Qed.

Ltac ti_crush :=
  cbn [buf sst started eng got wclosed rclosed nmsg is_writing rem_of want_ok] in *;
  try solve [intuition (try congruence; try discriminate; try lia; eauto)].

Ltac no_msg_yet i_rclosed0 i_nmsg0 Hr :=
  (* Hr : rclosed = true contradicts an engine that has not returned *)
  let N := fresh "N" in
  apply i_rclosed0 in Hr; destruct i_nmsg0 as [_ N]; specialize (N Hr); congruence.

Theorem inv_step : forall s s', Inv s -> step s s' -> Inv s'.
Proof.
  intros s s' HI Hs. pose proof HI as [G HT].
  destruct Hs.
  - (* send *)
    subst x. destruct G as [G1 G2]. split.
    { split.
      - cbn [dst bclosed]. rewrite G1. rewrite H. split; intros; congruence.
      - cbn [dst]. intros l E. inversion E; subst l. specialize (G2 _ H). inversion G2; assumption. }
    cbn [dst tg bclosed]. intros u Hu. specialize (HT u Hu). rewrite H in HT.
    destruct (Nat.eq_dec u t) as [->|Hne].
    + rewrite upd_same. destruct HT. constructor; ti_crush.
      all: try solve [intros E; split; [apply i_unstarted0; exact E|]; left; destruct (buf A (tg A s t)); discriminate].
      all: try solve [intros E; specialize (i_data0 E); cbn [pending filter fst] in i_data0;
                      rewrite Nat.eqb_refl in i_data0; cbn [map snd concat] in i_data0; cbn [pending];
                      rewrite concat_app; cbn [concat]; rewrite app_nil_r; rewrite <- i_data0;
                      rewrite <- !app_assoc; reflexivity].
    + rewrite upd_other by exact Hne.
      assert (Hp : pending u (DSending A ((t, ch) :: rest)) = pending u (DSending A rest)).
      { cbn [pending filter fst]. destruct (Nat.eqb_spec t u); [congruence|reflexivity]. }
      destruct HT. rewrite Hp in *. constructor; assumption.
  - (* close *)
    destruct G as [G1 G2]. split.
    { split; [split; [intros _ l; discriminate|reflexivity]|intros l E; discriminate]. }
    cbn [dst tg bclosed]. intros u Hu. specialize (HT u Hu). rewrite H in HT. destruct HT.
    constructor; ti_crush.
    all: try solve [intros E; split; [apply i_done0; exact E|reflexivity]].
  - (* finish *)
    destruct G as [G1 G2]. split.
    { split; [split; [intros _ l; discriminate|]|intros l E; discriminate].
      cbn [bclosed]. intros _. apply G1. rewrite H. intros l; discriminate. }
    cbn [dst tg bclosed]. intros u Hu. specialize (HT u Hu). rewrite H in HT. destruct HT.
    constructor; ti_crush.
  - (* take *)
    apply inv_target_step; [exact HI|exact H|]. specialize (HT t H). subst x. destruct HT.
    rewrite H1, H2 in *. constructor; ti_crush.
    all: try solve [intros E; specialize (i_data0 E); cbn [concat] in i_data0; rewrite <- i_data0;
                    rewrite <- !app_assoc; reflexivity].
    all: try solve [destruct (eng A (tg A s t)); ti_crush].
  - (* idle, buffer closed and empty *)
    apply inv_target_step; [exact HI|exact H|]. specialize (HT t H). subst x. destruct HT.
    rewrite H1, H2 in *. constructor; ti_crush.
    all: try solve [intros E; exfalso; destruct (i_unstarted0 E) as [_ [B|B]]; [apply B; reflexivity|];
                    destruct G as [G1 _]; pose proof (proj1 G1 H3) as H3';
                    destruct (dst A s); cbn [pending] in B; try (apply B; reflexivity); apply (H3' items); reflexivity].
    all: try solve [destruct (eng A (tg A s t)); ti_crush].
  - (* write fails: reader closed *)
    apply inv_target_step; [exact HI|exact H|]. specialize (HT t H). subst x. destruct HT.
    rewrite H1 in *. constructor; ti_crush.
    all: try solve [intros E; exfalso; apply i_rclosed0 in H2; destruct i_nmsg0 as [_ N]; apply E; apply N; exact H2].
    all: try solve [destruct (eng A (tg A s t)) eqn:Ee; ti_crush; exfalso; no_msg_yet i_rclosed0 i_nmsg0 H2].
  - (* drain *)
    apply inv_target_step; [exact HI|exact H|]. specialize (HT t H). subst x. destruct HT.
    rewrite H1, H2 in *. pose proof (i_draining0 eq_refl) as Hr. constructor; ti_crush.
    all: try solve [intros E; exfalso; apply i_rclosed0 in Hr; destruct i_nmsg0 as [_ N]; apply E; apply N; exact Hr].
    all: try solve [destruct (eng A (tg A s t)) eqn:Ee; ti_crush; exfalso; no_msg_yet i_rclosed0 i_nmsg0 Hr].
  - (* drain ends *)
    apply inv_target_step; [exact HI|exact H|]. specialize (HT t H). subst x. destruct HT.
    rewrite H1, H2 in *. pose proof (i_draining0 eq_refl) as Hr. constructor; ti_crush.
    all: try solve [intros E; exfalso; apply i_rclosed0 in Hr; destruct i_nmsg0 as [_ N]; apply E; apply N; exact Hr].
    all: try solve [destruct (eng A (tg A s t)) eqn:Ee; ti_crush; exfalso; no_msg_yet i_rclosed0 i_nmsg0 Hr].
  - (* transfer *)
    apply inv_target_step; [exact HI|exact H|]. specialize (HT t H). subst x. destruct HT.
    rewrite H1, H2 in *. pose proof (i_writing0 eq_refl) as Hst.
    assert (Hnm : nmsg A (tg A s t) = 0).
    { destruct (Nat.eq_dec (nmsg A (tg A s t)) 0) as [E|E]; [exact E|]. destruct i_nmsg0 as [_ N']. specialize (N' E). discriminate. }
    constructor; ti_crush.
    all: try solve [rewrite i_wclosed0; split; intros [E|E]; try discriminate; destruct (skipn k rem); discriminate].
    all: try solve [intros E; destruct (skipn k rem); discriminate].
    all: try solve [intros _; destruct (skipn k rem) as [|a0 l0] eqn:Esk; cbn [rem_of]; rewrite <- Esk;
                    assert (D : EReading w <> EReturned) by discriminate;
                    specialize (i_data0 D); rewrite <- i_data0, <- app_assoc; f_equal;
                    rewrite app_assoc, firstn_skipn; reflexivity].
    all: try solve [unfold want_ok in i_want0; rewrite H2 in i_want0; subst k; unfold take, after; destruct (want_of t) as [kk|]; destruct w as [m|]; try contradiction; [|exact I];
                    rewrite app_length, firstn_length; lia].
  - (* engine starts *)
    apply inv_target_step; [exact HI|exact H|]. specialize (HT t H). subst x. destruct HT.
    rewrite H1 in *.
    assert (Hnm : nmsg A (tg A s t) = 0).
    { destruct (Nat.eq_dec (nmsg A (tg A s t)) 0) as [E|E]; [exact E|]. destruct i_nmsg0 as [_ N']. specialize (N' E). discriminate. }
    constructor; ti_crush.
    all: try solve [intros _; apply i_data0; discriminate].
    all: try solve [unfold want_ok in i_want0; rewrite H1 in i_want0; rewrite i_want0; destruct (want_of t); simpl; [lia|exact I]].
  - (* engine sees EOF *)
    apply inv_target_step; [exact HI|exact H|]. specialize (HT t H). subst x. destruct HT.
    rewrite H1 in *. constructor; ti_crush.
    (* what it has read is everything *)
    assert (D : EReading w <> EReturned) by discriminate. specialize (i_data0 D).
    apply i_wclosed0 in H3. destruct H3 as [E|E].
    + exfalso. specialize (i_draining0 E). no_msg_yet i_rclosed0 i_nmsg0 i_draining0.
    + destruct (i_done0 E) as [B BC]. rewrite E, B in i_data0. cbn [rem_of concat app] in i_data0.
      assert (P : pending t (dst A s) = []).
      { destruct G as [G1 _]. pose proof (proj1 G1 BC) as BC'. destruct (dst A s); try reflexivity. exfalso. apply (BC' items). reflexivity. }
      rewrite P in i_data0. cbn [concat] in i_data0. rewrite app_nil_r in i_data0.
      unfold want_ok in i_want0. rewrite H1 in i_want0.
      unfold reads_spec. destruct (want_of t) as [kk|]; destruct w as [m|]; try contradiction; [|exact i_data0].
      rewrite <- i_data0. symmetry. apply firstn_all2. destruct m; [congruence|]. lia.
  - (* engine has enough *)
    apply inv_target_step; [exact HI|exact H|]. specialize (HT t H). subst x. destruct HT.
    rewrite H1 in *. constructor; ti_crush.
    assert (D : EReading (Some 0) <> EReturned) by discriminate. specialize (i_data0 D).
    unfold want_ok in i_want0. rewrite H1 in i_want0.
    unfold reads_spec. destruct (want_of t) as [kk|]; [|contradiction].
    rewrite <- i_data0. replace kk with (length (got A (tg A s t))) by lia. symmetry. apply firstn_exact.
  - (* report, close the reader *)
    apply inv_target_step; [exact HI|exact H|]. specialize (HT t H). subst x. destruct HT.
    rewrite H1, H2 in *. constructor; ti_crush.
    unfold want_ok in i_want0. rewrite H1 in i_want0. exact i_want0.
Qed.

(* ---- the initial state satisfies the invariant ---- *)

Lemma filter_none : forall {B} (f : B -> bool) l, (forall x, In x l -> f x = false) -> filter f l = [].
Proof.
  induction l as [|x l IH]; intros H; [reflexivity|]. simpl. rewrite (H x) by (left; reflexivity).
  apply IH. intros y Hy. apply H. right; exact Hy.
Qed.

Lemma filter_row : forall t ch, t < n ->
  filter (fun it : nat * list A => Nat.eqb (fst it) t) (map (fun u => (u, ch)) (seq 0 n)) = [(t, ch)].
Proof.
  intros t ch Ht.
  replace n with (t + (1 + (n - S t))) by lia.
  rewrite seq_app, map_app, filter_app. cbn [Nat.add]. rewrite (seq_app 1), map_app, filter_app.
  cbn [seq map filter fst]. rewrite Nat.eqb_refl.
  rewrite !filter_none; [reflexivity| |].
  - intros [u c] Hin. apply in_map_iff in Hin. destruct Hin as [v [E Hv]]. inversion E; subst.
    apply in_seq in Hv. cbn [fst]. apply Nat.eqb_neq. lia.
  - intros [u c] Hin. apply in_map_iff in Hin. destruct Hin as [v [E Hv]]. inversion E; subst.
    apply in_seq in Hv. cbn [fst]. apply Nat.eqb_neq. lia.
Qed.

Lemma pending_items : forall t cs, t < n -> pending t (DSending A (items_of A n cs)) = cs.
Proof.
  intros t cs Ht. cbn [pending]. induction cs as [|c cs IH]; [reflexivity|].
  unfold items_of in *. cbn [flat_map]. rewrite filter_app, map_app, IH, filter_row by exact Ht. reflexivity.
Qed.

Lemma items_targets : forall cs, Forall (fun it : nat * list A => fst it < n) (items_of A n cs).
Proof.
  intros cs. apply Forall_forall. intros [u ch] Hin. unfold items_of in Hin.
  apply in_flat_map in Hin. destruct Hin as [c [_ Hin]]. apply in_map_iff in Hin.
  destruct Hin as [v [E Hv]]. inversion E; subst. apply in_seq in Hv. cbn [fst]. lia.
Qed.

Theorem inv_init : Inv (init A n chunks).
Proof.
  split.
  - split; [split; [discriminate|]|].
    + intros H. exfalso. apply (H (items_of A n chunks)). reflexivity.
    + intros l E. inversion E; subst. apply items_targets.
  - intros t Ht. cbn [init dst tg bclosed]. unfold tinit.
    pose proof (pending_items t chunks Ht) as P.
    constructor; cbn [buf sst started eng got wclosed rclosed nmsg is_writing rem_of]; try solve [intuition (try congruence; try discriminate; try lia)].
    all: try solve [intros _; split; [reflexivity|]; right; rewrite P; exact chunks_nonempty].
    all: try solve [intros _; rewrite P; cbn [concat app]; reflexivity].
    all: try solve [unfold want_ok; reflexivity].
Qed.

(* ---- no reachable state short of "finished" is stuck ---- *)

Lemma target_can_move_if_writing : forall s t rem,
  Inv s -> t < n -> sst A (tg A s t) = SWriting A rem -> exists s', step s s'.
Proof.
  intros s t rem [G HT] Ht Hw. pose proof (HT t Ht) as I. destruct I.
  destruct (rclosed A (tg A s t)) eqn:Hr.
  - eexists. eapply st_write_fail; eauto.
  - destruct (eng A (tg A s t)) as [|w|] eqn:He.
    + eexists. eapply st_estart; eauto. apply i_writing0. rewrite Hw. reflexivity.
    + destruct w as [[|m]|].
      * eexists. eapply st_enough; eauto.
      * eexists. eapply st_transfer; eauto. discriminate.
      * eexists. eapply st_transfer; eauto. discriminate.
    + destruct (Nat.eq_dec (nmsg A (tg A s t)) 0) as [E|E].
      * eexists. eapply st_report; eauto.
      * exfalso. apply i_rclosed0 in E. congruence.
Qed.

Theorem progress : forall s, Inv s -> dst A s <> DFinished A -> exists s', step s s'.
Proof.
  intros s HI Hnf. pose proof HI as [[G1 G2] HT].
  destruct (dst A s) as [items| |] eqn:Hd; [| |congruence].
  - (* D is sending *)
    destruct items as [|[t ch] rest].
    + eexists. apply st_close. exact Hd.
    + assert (Ht : t < n) by (specialize (G2 _ eq_refl); inversion G2; assumption).
      destruct (lt_dec (length (buf A (tg A s t))) cap) as [Hl|Hl].
      * eexists. eapply st_send; eauto.
      * (* the buffer is full: the sender side of t can move *)
        pose proof (HT t Ht) as I. destruct I.
        destruct (buf A (tg A s t)) as [|c b'] eqn:Hb; [unfold cap in Hl; simpl in Hl; lia|].
        destruct (sst A (tg A s t)) as [|rem| |] eqn:Hs.
        -- eexists. eapply st_take; eauto.
        -- eapply target_can_move_if_writing; eauto.
        -- eexists. eapply st_drain; eauto.
        -- destruct (i_done0 eq_refl) as [B _]. discriminate.
  - (* D waits for the engines *)
    assert (Hbc : bclosed A s = true) by (apply G1; intros l; discriminate).
    destruct (forallb (fun t => reported A (tg A s t)) (seq 0 n)) eqn:Hall.
    + eexists. apply st_finish; [exact Hd|]. intros t Ht. rewrite forallb_forall in Hall. apply Hall. apply in_seq. lia.
    + (* some target has not reported *)
      assert (Hex : exists t, t < n /\ nmsg A (tg A s t) = 0).
      { destruct (forallb_forall (fun t => reported A (tg A s t)) (seq 0 n)) as [_ F].
        destruct (existsb (fun t => negb (reported A (tg A s t))) (seq 0 n)) eqn:Ex.
        - apply existsb_exists in Ex. destruct Ex as [t [Hin Hr]]. apply in_seq in Hin. exists t. split; [lia|].
          unfold reported in Hr. rewrite negb_involutive in Hr. apply Nat.eqb_eq. exact Hr.
        - exfalso. rewrite F in Hall; [discriminate|]. intros t Hin.
          destruct (reported A (tg A s t)) eqn:Er; [reflexivity|].
          assert (existsb (fun t0 => negb (reported A (tg A s t0))) (seq 0 n) = true).
          { apply existsb_exists. exists t. split; [exact Hin|]. rewrite Er. reflexivity. }
          congruence. }
      destruct Hex as [t [Ht Hn0]]. pose proof (HT t Ht) as I. destruct I.
      assert (Hpend : pending t (DWait A) = []) by reflexivity.
      destruct (eng A (tg A s t)) as [|w|] eqn:He.
      * (* engine not started *)
        destruct (started A (tg A s t)) eqn:Hst.
        -- eexists. eapply st_estart; eauto.
        -- destruct (i_unstarted0 eq_refl) as [Hs [B|B]]; [|rewrite Hpend in B; congruence].
           destruct (buf A (tg A s t)) as [|c b'] eqn:Hb; [congruence|].
           eexists. eapply st_take; eauto.
      * destruct w as [[|m]|].
        -- eexists. eapply st_enough; eauto.
        -- (* reading *)
           destruct (sst A (tg A s t)) as [|rem| |] eqn:Hs.
           ++ destruct (buf A (tg A s t)) as [|c b'] eqn:Hb.
              ** eexists. eapply st_idle_closed; eauto.
              ** eexists. eapply st_take; eauto.
           ++ eapply target_can_move_if_writing; eauto.
           ++ eexists. eapply st_eof; eauto; [discriminate|apply i_wclosed0; left; reflexivity|rewrite Hs; reflexivity].
           ++ eexists. eapply st_eof; eauto; [discriminate|apply i_wclosed0; right; reflexivity|rewrite Hs; reflexivity].
        -- destruct (sst A (tg A s t)) as [|rem| |] eqn:Hs.
           ++ destruct (buf A (tg A s t)) as [|c b'] eqn:Hb.
              ** eexists. eapply st_idle_closed; eauto.
              ** eexists. eapply st_take; eauto.
           ++ eapply target_can_move_if_writing; eauto.
           ++ eexists. eapply st_eof; eauto; [discriminate|apply i_wclosed0; left; reflexivity|rewrite Hs; reflexivity].
           ++ eexists. eapply st_eof; eauto; [discriminate|apply i_wclosed0; right; reflexivity|rewrite Hs; reflexivity].
      * eexists. eapply st_report; eauto.
Qed.

(* ---- executions ---- *)

Inductive steps : nat -> state -> state -> Prop :=
  | steps_0 : forall s, steps 0 s s
  | steps_S : forall k s s1 s2, step s s1 -> steps k s1 s2 -> steps (S k) s s2.

Theorem steps_bounded : forall k s s', steps k s s' -> k + mu s' <= mu s.
Proof.
  induction 1 as [|k s s1 s2 H1 _ IH]; [lia|]. pose proof (step_decreases _ _ H1). lia.
Qed.

Lemma inv_steps : forall k s s', Inv s -> steps k s s' -> Inv s'.
Proof. induction 2; [assumption|]. apply IHsteps. eapply inv_step; eauto. Qed.

(* once finished, every target has reported *)
Definition all_reported (s : state) : Prop :=
  dst A s = DFinished A -> forall t, t < n -> nmsg A (tg A s t) = 1.

Lemma all_reported_step : forall s s', Inv s -> all_reported s -> step s s' -> all_reported s'.
Proof.
  intros s s' [G HT] Hr Hs. unfold all_reported in *.
  destruct Hs; cbn [dst tg].
  1-2: intros Hd; discriminate.
  1: { intros _ t Ht. specialize (H0 t Ht). unfold reported in H0. apply negb_true_iff in H0. apply Nat.eqb_neq in H0.
       destruct (HT t Ht). lia. }
  all: intros Hd u Hu; pose proof (Hr Hd u Hu) as Hru;
       (destruct (Nat.eq_dec u t) as [->|Hne];
        [rewrite upd_same; cbn [nmsg]; subst x; first [exact Hru|reflexivity]|rewrite upd_other by exact Hne; exact Hru]).
Qed.

Lemma all_reported_steps : forall k s s', Inv s -> all_reported s -> steps k s s' -> all_reported s'.
Proof.
  induction 3; [assumption|]. apply IHsteps; [eapply inv_step; eauto|eapply all_reported_step; eauto].
Qed.

(* the statement about all schedules: from the initial state, whatever the
   order in which the goroutines move,
   (1) an execution has at most mu(init) steps;
   (2) a state that is not finished can always make a step (no deadlock);
   (3) in a finished state every target has reported exactly once, and its
       engine has read exactly what it had to: the whole content, or its first
       k bytes *)
Theorem all_schedules : forall k s,
  steps k (init A n chunks) s ->
  k <= mu (init A n chunks) /\
  (dst A s <> DFinished A -> exists s', step s s') /\
  (dst A s = DFinished A ->
     forall t, t < n -> nmsg A (tg A s t) = 1 /\ got A (tg A s t) = reads_spec A (want_of t) all).
Proof.
  intros k s H. pose proof (inv_steps _ _ _ inv_init H) as HI.
  split; [pose proof (steps_bounded _ _ _ H); lia|].
  split; [apply progress; exact HI|].
  intros Hd t Ht.
  assert (Hr : all_reported s).
  { eapply all_reported_steps; [apply inv_init| |exact H]. intros E. discriminate. }
  specialize (Hr Hd t Ht). split; [exact Hr|].
  destruct HI as [_ HT]. destruct (HT t Ht). destruct i_nmsg0 as [_ N].
  assert (E : eng A (tg A s t) = EReturned) by (apply N; lia).
  unfold want_ok in i_want0. rewrite E in i_want0. exact i_want0.
Qed.

End Proofs.
