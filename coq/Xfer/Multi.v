(* Several files on ONE SendLargeFile input channel (what a client of the
   streaming RPC rpc.SendLargeFile can do; rpc.Send makes one call per file).
   Model of cluster/calcium/sendlarge.go after the repair "SendLargeFile handles
   several files on one input channel":

     the sender of a target remembers the destination of the copy in progress
     (curFile); the first chunk with another destination makes it close the
     writer (the engine sees EOF, reports, releases the workload lock) and start
     a new pipe + engine goroutine for the new file; the chunks of a copy whose
     engine gave up are consumed and dropped until the next file starts.
   So every file reaches every target, in order, and every (target, file) gets
   one result.  Before the repair the sender stopped at the first chunk of a
   second file ([send_files_with false]): only the first file was delivered and
   reported.  Files are assumed to have distinct destinations.
   Dataflow summary as in Pipeline.v; no proofs in this file. *)
From Coq Require Import List Bool Arith.
From Verif Require Import Xfer.Chunks Xfer.Pipeline.
Import ListNotations.

Record mout (A : Type) := mkMOut {
  mfinished : bool;
  mresults : list (target * option nat);          (* (target, file index) of every result, sorted *)
  mreceived : nat -> nat -> option (list A) }.    (* workload, file index -> what its engine read *)
Arguments mkMOut {A}. Arguments mfinished {A}. Arguments mresults {A}. Arguments mreceived {A}.

Definition results_of (nfiles : nat) (t : target) : list (target * option nat) :=
  map (fun f => (t, match t with Some _ => Some f | None => None end)) (seq 0 nfiles).

Definition rkey (r : target * option nat) : nat * nat :=
  (key (fst r), match snd r with None => 0 | Some f => S f end).
Definition rle (a b : target * option nat) : bool :=
  let '(a1, a2) := rkey a in let '(b1, b2) := rkey b in (a1 <? b1) || (Nat.eqb a1 b1 && (a2 <=? b2)).
Fixpoint rinsert (m : target * option nat) (l : list (target * option nat)) :=
  match l with [] => [m] | x :: t => if rle m x then m :: l else x :: rinsert m t end.
Definition rsort (l : list (target * option nat)) := fold_right rinsert [] l.

(* files: the chunks of each file, in the order they are put on the channel *)
Definition send_files_with {A} (fixed : bool) (files : list (list (list A))) (targets : list target) (behs : list beh) : mout A :=
  let served := if fixed then length files else Nat.min 1 (length files) in
  let ts := dedupe targets in
  mkMOut true
         (rsort (flat_map (results_of served) ts))
         (fun o f => if existsb (target_eqb (Some o)) ts && (f <? served)
                     then option_map (engine_reads (beh_of behs o)) (nth_error files f) else None).

Definition send_files {A} := @send_files_with A true.

(* ---- correspondence cases ---- *)
Record mcase := mkMCase {
  m_sizes : list nat;                           (* sizes of the files (>= 1), in order *)
  m_targets : list target; m_behs : list beh;
  mobs_finished : bool;
  mobs_msgs : list (option nat * option nat);   (* (target, file index) of every result, sorted *)
  mobs_recv : list (list nat) }.                (* per workload: bytes its engine read of each file (0 = not called) *)

Definition chunks_of_size (n : nat) : list (list unit) := to_chunks chunk_size (repeat tt n).

Definition onat_eqb (a b : option nat) : bool :=
  match a, b with None, None => true | Some x, Some y => Nat.eqb x y | _, _ => false end.

Definition model_of (c : mcase) : mout unit := send_files (map chunks_of_size (m_sizes c)) (m_targets c) (m_behs c).

Definition model_row (c : mcase) (o : nat) : list nat :=
  map (fun f => match mreceived (model_of c) o f with Some l => length l | None => 0 end) (seq 0 (length (m_sizes c))).

Fixpoint nats_eqb (a b : list nat) : bool :=
  match a, b with [], [] => true | x :: a', y :: b' => Nat.eqb x y && nats_eqb a' b' | _, _ => false end.

Definition magree (c : mcase) : bool :=
  Bool.eqb (mfinished (model_of c)) (mobs_finished c)
  && all2 (fun a b => onat_eqb (fst a) (fst b) && onat_eqb (snd a) (snd b)) (mresults (model_of c)) (mobs_msgs c)
  && all2 (fun o row => nats_eqb (model_row c o) row) (seq 0 (length (mobs_recv c))) (mobs_recv c).

(* property: finishes; exactly one result per (distinct target, file); every file complete at every draining engine *)
Definition mok (c : mcase) : bool :=
  let nf := length (m_sizes c) in
  mobs_finished c
  && all2 (fun a b => onat_eqb (fst a) (fst b) && onat_eqb (snd a) (snd b))
          (rsort (flat_map (results_of nf) (dedupe (m_targets c)))) (mobs_msgs c)
  && all2 (fun o row =>
             if existsb (target_eqb (Some o)) (m_targets c) then
               match beh_of (m_behs c) o with
               | Drain | DrainErr => nats_eqb row (m_sizes c)
               | _ => Nat.eqb (length row) nf
               end
             else forallb (Nat.eqb 0) row)
          (seq 0 (length (mobs_recv c))) (mobs_recv c).
