(* Model of cluster/calcium/send.go Calcium.Send (C29): the non-chunked path of
   the cluster API (not used by the RPC layer any more, which goes through
   SendLargeFile, but still part of the interface).

     opts.Validate(): no ids -> ErrNoWorkloadIDs; no files -> ErrNoFilesToSend;
                      a file with uid = gid = mode = 0 gets mode 0755
     for each distinct ID (one pool task each; after the repair "Calcium.Send sends the
     files once to a target listed twice"): withWorkloadLocked(ID):
         for each file: VirtualizationCopyChunkTo(ID, name, len, bytes.NewReader(clone), uid, gid, mode)
                        ch <- {ID, Path: name, Error: err}
       lock/lookup failure: ch <- {ID, Error: err}          (one message, no path)

   The engine gets a reader over the whole content; what it does with it is its
   behaviour (Pipeline.beh).  Message order across ids is scheduling dependent
   (compared sorted); per id the files are in order.  No proofs in this file. *)
From Coq Require Import List Bool Arith.
From Verif Require Import Xfer.Chunks Xfer.Pipeline.
Import ListNotations.

Inductive derr := DOk | DNoIDs | DNoFiles.

Record dmsg := mkDMsg { d_target : option nat; d_file : option nat; d_err : err }.

(* SendOptions.Validate: default permission *)
Definition effective_mode (uid gid mode : nat) : nat :=
  if Nat.eqb uid 0 && Nat.eqb gid 0 && Nat.eqb mode 0 then 493 (* 0755 *) else mode.

Definition messages_of (nfiles : nat) (behs : list beh) (id : target) : list dmsg :=
  match id with
  | None => [mkDMsg None None EOther]
  | Some o => map (fun f => mkDMsg (Some o) (Some f) (engine_err (beh_of behs o))) (seq 0 nfiles)
  end.

Definition send_direct_with (dedup : bool) (nfiles : nat) (ids : list target) (behs : list beh) : derr * list dmsg :=
  match ids with
  | [] => (DNoIDs, [])
  | _ => match nfiles with
         | 0 => (DNoFiles, [])
         | _ => (DOk, flat_map (messages_of nfiles behs) (if dedup then dedupe ids else ids))
         end
  end.

(* the code as it is; [send_direct_with false] is the loop before the repair (one task per listed id) *)
Definition send_direct := send_direct_with true.

(* what the engine of workload o reads of a file: a reader over the whole content *)
Definition direct_reads {A} (b : beh) (content : list A) : list A := engine_reads b [content].

(* ---- correspondence cases ---- *)

Definition dkey (m : dmsg) : nat * nat :=
  (match d_target m with None => 0 | Some o => S o end, match d_file m with None => 0 | Some f => S f end).
Definition dle (a b : dmsg) : bool :=
  let '(a1, a2) := dkey a in let '(b1, b2) := dkey b in
  (a1 <? b1) || (Nat.eqb a1 b1 && (a2 <=? b2)).
Fixpoint dinsert (m : dmsg) (l : list dmsg) : list dmsg :=
  match l with [] => [m] | x :: t => if dle m x then m :: l else x :: dinsert m t end.
Definition dsort (l : list dmsg) : list dmsg := fold_right dinsert [] l.

(* per (workload, file): calls, bytes read on the last call, prefix, metadata as requested *)
Record drecv := mkDRecv { r_calls : nat; r_bytes : nat; r_prefix : bool; r_meta : bool }.

Record dcase := mkDCase {
  dc_sizes : list nat;                 (* file sizes *)
  dc_ids : list target; dc_behs : list beh;
  dobs_err : derr; dobs_msgs : list dmsg;         (* sorted *)
  dobs_recv : list (list drecv) }.                (* per workload 0..2, per file *)

Definition derr_eqb (a b : derr) : bool :=
  match a, b with DOk, DOk | DNoIDs, DNoIDs | DNoFiles, DNoFiles => true | _, _ => false end.
Definition onat_eqb (a b : option nat) : bool :=
  match a, b with None, None => true | Some x, Some y => Nat.eqb x y | _, _ => false end.
Definition dmsg_eqb (a b : dmsg) : bool :=
  onat_eqb (d_target a) (d_target b) && onat_eqb (d_file a) (d_file b) && err_eqb (d_err a) (d_err b).
Definition drecv_eqb (a b : drecv) : bool :=
  Nat.eqb (r_calls a) (r_calls b) && Nat.eqb (r_bytes a) (r_bytes b)
  && Bool.eqb (r_prefix a) (r_prefix b) && Bool.eqb (r_meta a) (r_meta b).

Definition occurrences (o : nat) (ids : list target) : nat :=
  length (filter (target_eqb (Some o)) ids).

Definition model_drecv (c : dcase) (o : nat) (size : nat) : drecv :=
  let k := Nat.min 1 (occurrences o (dc_ids c)) in
  match k with
  | 0 => mkDRecv 0 0 true true
  | _ => mkDRecv k (length (direct_reads (beh_of (dc_behs c) o) (repeat tt size))) true true
  end.

Definition dagree (c : dcase) : bool :=
  let '(e, ms) := send_direct (length (dc_sizes c)) (dc_ids c) (dc_behs c) in
  derr_eqb e (dobs_err c)
  && all2 dmsg_eqb (dsort ms) (dobs_msgs c)
  && match e with
     | DOk => all2 (fun o row => all2 (fun size r => drecv_eqb (model_drecv c o size) r) (dc_sizes c) row)
                   (seq 0 (length (dobs_recv c))) (dobs_recv c)
     | _ => true
     end.

(* property reflection: exactly one result for every (distinct target, file), the file
   copied once, content complete where the engine read to EOF, requested metadata.
   (Before the repair an id listed twice was copied and reported twice.) *)
Definition dok (c : dcase) : bool :=
  match dc_ids c, dc_sizes c with
  | [], _ => derr_eqb (dobs_err c) DNoIDs
  | _, [] => derr_eqb (dobs_err c) DNoFiles
  | ids, sizes =>
      derr_eqb (dobs_err c) DOk
      && all2 (fun (want got : dmsg) =>
                 onat_eqb (d_target want) (d_target got) && onat_eqb (d_file want) (d_file got)
                 && match d_target want with
                    | Some o => err_eqb (d_err got) (engine_err (beh_of (dc_behs c) o))
                    | None => negb (err_eqb (d_err got) ENone)
                    end)
              (dsort (flat_map (messages_of (length sizes) (dc_behs c)) (dedupe ids))) (dobs_msgs c)
      && all2 (fun o row =>
                 all2 (fun size r =>
                         let k := Nat.min 1 (occurrences o ids) in
                         Nat.eqb (r_calls r) k
                         && (Nat.eqb k 0
                             || (r_prefix r && r_meta r
                                 && match beh_of (dc_behs c) o with
                                    | Drain | DrainErr => Nat.eqb (r_bytes r) size
                                    | GiveUp g => r_bytes r <=? size
                                    | Ignore => true
                                    end)))
                      sizes row)
              (seq 0 (length (dobs_recv c))) (dobs_recv c)
  end.
