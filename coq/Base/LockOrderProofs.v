(* Generic theorem: threads that acquire in strictly increasing key order (and
   end with nothing held) cannot deadlock, under every schedule; plus mutual
   exclusion as an invariant of the transition system and termination of every
   maximal run with all locks free. *)
From Coq Require Import List Bool Arith Lia Permutation.
From Verif Require Import Base.LockOrder.
Import ListNotations.

Section Proofs.
  Context {key : Type}.
  Variable eqb ltb : key -> key -> bool.
  Hypothesis eqb_spec : forall a b, eqb a b = true <-> a = b.
  Hypothesis ltb_irrefl : forall a, ltb a a = false.
  Hypothesis ltb_trans : forall a b c, ltb a b = true -> ltb b c = true -> ltb a c = true.

  Notation ord_run := (ord_run eqb ltb).
  Notation ordered := (ordered eqb ltb).
  Notation memb := (memb eqb).
  Notation removeb := (removeb eqb).
  Notation above := (above ltb).
  Notation step := (step eqb).
  Notation steps := (steps eqb).
  Notation holds_any := (holds_any eqb).
  Notation deadlocked := (deadlocked eqb).

  Lemma memb_In : forall k h, memb k h = true <-> In k h.
  Proof.
    intros k h. unfold LockOrder.memb. rewrite existsb_exists. split.
    - intros [x [Hin He]]. apply eqb_spec in He. subst. exact Hin.
    - intros Hin. exists k. split; [exact Hin | apply eqb_spec; reflexivity].
  Qed.

  Lemma memb_false : forall k h, memb k h = false <-> ~ In k h.
  Proof.
    intros k h. rewrite <- memb_In. destruct (memb k h); split; intro H.
    - discriminate.
    - exfalso. apply H. reflexivity.
    - intro H'. discriminate.
    - reflexivity.
  Qed.

  Lemma above_spec : forall h k, above h k = true <-> forall x, In x h -> ltb x k = true.
  Proof. intros h k. unfold LockOrder.above. apply forallb_forall. Qed.

  Lemma above_not_in : forall h k, above h k = true -> ~ In k h.
  Proof.
    intros h k Ha Hin. rewrite above_spec in Ha. specialize (Ha k Hin).
    rewrite ltb_irrefl in Ha. discriminate.
  Qed.

  Lemma ordered_spec : forall sc, ordered sc = true <-> ord_run [] sc = Some [].
  Proof.
    intros sc. unfold LockOrder.ordered. destruct (ord_run [] sc) as [[|x l]|]; split; congruence.
  Qed.

  Lemma removeb_incl : forall k h x, In x (removeb k h) -> In x h.
  Proof.
    intros k h. induction h as [|y t IH]; simpl; intros x Hx; [exact Hx|].
    destruct (eqb k y); [right; exact Hx|]. destruct Hx as [Hx|Hx]; [left; exact Hx | right; apply IH; exact Hx].
  Qed.

  (* composition of script segments *)
  Lemma ord_run_app : forall e1 e2 h,
    ord_run h (e1 ++ e2) = match ord_run h e1 with Some h1 => ord_run h1 e2 | None => None end.
  Proof.
    induction e1 as [|e t IH]; intros e2 h; simpl; [reflexivity|].
    destruct e; simpl.
    - destruct (above h k); [apply IH | reflexivity].
    - destruct (above h k); [apply IH | reflexivity].
    - destruct (memb k h); [apply IH | reflexivity].
  Qed.

  (* ---- invariant: every thread's remaining script is ordered from what it holds ---- *)
  Definition good (t : thread key) : Prop := ord_run (held t) (rest t) = Some [].
  Definition Inv (s : sys key) : Prop := forall t, In t s -> good t.

  Lemma inv_start : forall scripts,
    (forall sc, In sc scripts -> ordered sc = true) -> Inv (start scripts).
  Proof.
    intros scripts H t Ht. unfold start in Ht. apply in_map_iff in Ht.
    destruct Ht as [sc [E Hin]]. subst t. unfold good. simpl. apply ordered_spec. apply H. exact Hin.
  Qed.

  Lemma inv_replace : forall pre post (t t' : thread key),
    Inv (pre ++ t :: post) -> good t' -> Inv (pre ++ t' :: post).
  Proof.
    intros pre post t t' HI Hg u Hu. apply in_app_or in Hu. destruct Hu as [Hu|[Hu|Hu]].
    - apply HI. apply in_or_app. left. exact Hu.
    - subst u. exact Hg.
    - apply HI. apply in_or_app. right. right. exact Hu.
  Qed.

  Lemma inv_step : forall s s', Inv s -> step s s' -> Inv s'.
  Proof.
    intros s s' HI Hs. inversion Hs; subst; eapply inv_replace; try exact HI.
    - assert (G : good (mkT h (Acq k :: r))) by (apply HI; apply in_or_app; right; left; reflexivity).
      unfold good in *. simpl in *. destruct (above h k); [exact G | discriminate].
    - assert (G : good (mkT h (AcqFail k :: r))) by (apply HI; apply in_or_app; right; left; reflexivity).
      unfold good in *. simpl in *. destruct (above h k); [exact G | discriminate].
    - assert (G : good (mkT h (Rel k :: r))) by (apply HI; apply in_or_app; right; left; reflexivity).
      unfold good in *. simpl in *. destruct (memb k h); [exact G | discriminate].
  Qed.

  Lemma inv_steps : forall s s', steps s s' -> Inv s -> Inv s'.
  Proof. induction 1; intros HI; [exact HI | apply IHsteps; eapply inv_step; eauto]. Qed.

  (* ---- a maximal element of a non-empty finite list under a strict order ---- *)
  Lemma max_exists : forall l : list key, l <> [] ->
    exists m, In m l /\ forall x, In x l -> ltb m x = false.
  Proof.
    induction l as [|a t IH]; intros Hne; [congruence|].
    destruct t as [|b t'].
    - exists a. split; [left; reflexivity|]. intros x [Hx|[]]. subst. apply ltb_irrefl.
    - destruct IH as [m [Hm Hmax]]; [discriminate|].
      destruct (ltb m a) eqn:E.
      + exists a. split; [left; reflexivity|]. intros x [Hx|Hx].
        * subst. apply ltb_irrefl.
        * destruct (ltb a x) eqn:E2; [|reflexivity].
          pose proof (ltb_trans _ _ _ E E2) as T. rewrite (Hmax x Hx) in T. discriminate.
      + exists m. split; [right; exact Hm|]. intros x [Hx|Hx]; [subst; exact E | apply Hmax; exact Hx].
  Qed.

  Definition want (t : thread key) : list key :=
    match rest t with Acq k :: _ => [k] | _ => [] end.

  Lemma classify : forall s : sys key,
    (exists pre t post, s = pre ++ t :: post /\
        exists k r, rest t = AcqFail k :: r \/ rest t = Rel k :: r)
    \/ (forall t, In t s -> rest t = [] \/ exists k r, rest t = Acq k :: r).
  Proof.
    induction s as [|t s IH].
    - right. intros t [].
    - destruct (rest t) as [|e r] eqn:E.
      + destruct IH as [[pre [u [post [Es H]]]]|IH].
        * left. exists (t :: pre), u, post. split; [simpl; rewrite Es; reflexivity | exact H].
        * right. intros u [Hu|Hu]; [subst; left; exact E | apply IH; exact Hu].
      + destruct e as [k|k|k].
        * destruct IH as [[pre [u [post [Es H]]]]|IH].
          -- left. exists (t :: pre), u, post. split; [simpl; rewrite Es; reflexivity | exact H].
          -- right. intros u [Hu|Hu]; [subst; right; exists k, r; exact E | apply IH; exact Hu].
        * left. exists [], t, s. split; [reflexivity|]. exists k, r. left. exact E.
        * left. exists [], t, s. split; [reflexivity|]. exists k, r. right. exact E.
  Qed.

  (* ---- progress: whenever some thread is unfinished, some thread can move ---- *)
  Theorem progress : forall s, Inv s -> (exists t, In t s /\ rest t <> []) -> exists s', step s s'.
  Proof.
    intros s HI [t0 [Ht0 Hne]].
    destruct (classify s) as [[pre [t [post [Es [k [r [E|E]]]]]]]|Hall].
    - destruct t as [h rs]. simpl in E. subst rs s. eexists. apply st_fail.
    - destruct t as [h rs]. simpl in E. subst rs s. eexists. apply st_rel.
    - (* everybody unfinished waits for a key: take a maximal wanted key *)
      set (W := flat_map want s).
      assert (HW : W <> []).
      { destruct (Hall t0 Ht0) as [E|[k [r E]]]; [congruence|].
        intro HWn. assert (Hin : In k W).
        { unfold W. apply in_flat_map. exists t0. split; [exact Ht0|]. unfold want. rewrite E. left. reflexivity. }
        rewrite HWn in Hin. destruct Hin. }
      destruct (max_exists W HW) as [m [Hm Hmax]].
      unfold W in Hm. apply in_flat_map in Hm. destruct Hm as [tm [Htm Hwm]].
      unfold want in Hwm. destruct tm as [hm rm]. simpl in Hwm.
      destruct rm as [|[km|km|km] rm']; simpl in Hwm; try contradiction.
      destruct Hwm as [Hk|[]]. subst km.
      destruct (in_split _ _ Htm) as [pre [post Es]].
      assert (Gm : good (mkT hm (Acq m :: rm'))) by (apply HI; exact Htm).
      unfold good in Gm. simpl in Gm. destruct (above hm m) eqn:Ea; [|discriminate].
      exists (pre ++ mkT (m :: hm) rm' :: post). rewrite Es. apply st_acq.
      + destruct (holds_any (pre ++ post) m) eqn:Eh; [|reflexivity]. exfalso.
        unfold LockOrder.holds_any in Eh. apply existsb_exists in Eh. destruct Eh as [u [Hu Hmu]].
        assert (Hus : In u s).
        { rewrite Es. apply in_app_or in Hu. apply in_or_app. destruct Hu; [left|right; right]; assumption. }
        apply memb_In in Hmu.
        assert (Gu : good u) by (apply HI; exact Hus).
        destruct (Hall u Hus) as [E|[k' [r' E]]].
        * unfold good in Gu. rewrite E in Gu. simpl in Gu. injection Gu as Gu. rewrite Gu in Hmu. destruct Hmu.
        * unfold good in Gu. rewrite E in Gu. simpl in Gu.
          destruct (above (held u) k') eqn:Eu; [|discriminate].
          rewrite above_spec in Eu. specialize (Eu m Hmu).
          assert (Hk' : In k' W).
          { unfold W. apply in_flat_map. exists u. split; [exact Hus|]. unfold want. rewrite E. left. reflexivity. }
          rewrite (Hmax k' Hk') in Eu. discriminate.
      + apply memb_false. apply above_not_in. exact Ea.
  Qed.

  Theorem no_deadlock : forall scripts s,
    (forall sc, In sc scripts -> ordered sc = true) ->
    steps (start scripts) s -> ~ deadlocked s.
  Proof.
    intros scripts s Ho Hst [Hex Hno].
    assert (HI : Inv s) by (eapply inv_steps; [exact Hst | apply inv_start; exact Ho]).
    destruct (progress s HI Hex) as [s' Hs']. exact (Hno s' Hs').
  Qed.

  (* ---- what a state without successor looks like: all done, nothing held ---- *)
  Definition all_held (s : sys key) : list key := flat_map (@held key) s.

  Theorem stuck_is_done : forall scripts s,
    (forall sc, In sc scripts -> ordered sc = true) ->
    steps (start scripts) s -> (forall s', ~ step s s') ->
    all_finished s /\ all_held s = [].
  Proof.
    intros scripts s Ho Hst Hno.
    assert (HI : Inv s) by (eapply inv_steps; [exact Hst | apply inv_start; exact Ho]).
    assert (Hfin : all_finished s).
    { intros t Ht. unfold finished. destruct (rest t) eqn:E; [reflexivity|]. exfalso.
      destruct (progress s HI) as [s' Hs']; [|exact (Hno s' Hs')].
      exists t. split; [exact Ht | rewrite E; discriminate]. }
    split; [exact Hfin|].
    unfold all_held. clear Hno Hst. induction s as [|t s IH]; [reflexivity|]. simpl.
    assert (G : good t) by (apply HI; left; reflexivity).
    unfold good in G. rewrite (Hfin t (or_introl eq_refl)) in G. simpl in G. injection G as G. rewrite G. simpl.
    apply IH.
    - intros u Hu. apply HI. right. exact Hu.
    - intros u Hu. apply Hfin. right. exact Hu.
  Qed.

  (* ---- every run is finite: each step consumes one event ---- *)
  Definition size (s : sys key) : nat := fold_right (fun t n => length (rest t) + n) 0 s.

  Lemma size_app : forall a b, size (a ++ b) = size a + size b.
  Proof. induction a; intros; simpl; [reflexivity | rewrite IHa; lia]. Qed.

  Lemma step_size : forall s s', step s s' -> size s = S (size s').
  Proof. intros s s' H. inversion H; subst; rewrite !size_app; simpl; lia. Qed.

  Theorem steps_bounded : forall s s', steps s s' -> size s' <= size s.
  Proof. induction 1; [lia | apply step_size in H; lia]. Qed.

  (* ---- mutual exclusion is an invariant of the transition system ---- *)
  Definition mutex (s : sys key) : Prop := NoDup (all_held s).

  Lemma all_held_app : forall a b, all_held (a ++ b) = all_held a ++ all_held b.
  Proof. intros. unfold all_held. apply flat_map_app. Qed.

  Lemma all_held_perm : forall pre t post,
    Permutation (all_held (pre ++ t :: post)) (held t ++ all_held (pre ++ post)).
  Proof.
    intros. rewrite !all_held_app. simpl. change (flat_map (@held key) post) with (all_held post).
    apply Permutation_app_swap_app.
  Qed.

  Lemma holds_any_false : forall s k, holds_any s k = false -> ~ In k (all_held s).
  Proof.
    intros s k H Hin. unfold all_held in Hin. apply in_flat_map in Hin. destruct Hin as [t [Ht Hk]].
    assert (holds_any s k = true); [|congruence].
    unfold LockOrder.holds_any. apply existsb_exists. exists t. split; [exact Ht | apply memb_In; exact Hk].
  Qed.

  Lemma NoDup_removeb : forall k h X, NoDup (h ++ X) -> NoDup (removeb k h ++ X).
  Proof.
    intros k h X. induction h as [|y t IH]; simpl; intros H; [exact H|].
    inversion H as [|? ? Hn Hd]; subst. destruct (eqb k y); [exact Hd|].
    simpl. constructor.
    - intro Hin. apply Hn. apply in_app_or in Hin. apply in_or_app.
      destruct Hin as [Hin|Hin]; [left; eapply removeb_incl; exact Hin | right; exact Hin].
    - apply IH. exact Hd.
  Qed.

  Lemma mutex_step : forall s s', mutex s -> step s s' -> mutex s'.
  Proof.
    intros s s' HM Hs. unfold mutex in *. inversion Hs; subst.
    - eapply Permutation_NoDup; [apply Permutation_sym; apply all_held_perm|].
      eapply Permutation_NoDup in HM; [|apply all_held_perm]. simpl in *.
      constructor; [|exact HM]. intro Hin. apply in_app_or in Hin. destruct Hin as [Hin|Hin].
      + apply memb_false in H0. exact (H0 Hin).
      + exact (holds_any_false _ _ H Hin).
    - eapply Permutation_NoDup; [apply Permutation_sym; apply all_held_perm|].
      eapply Permutation_NoDup in HM; [|apply all_held_perm]. exact HM.
    - eapply Permutation_NoDup; [apply Permutation_sym; apply all_held_perm|].
      eapply Permutation_NoDup in HM; [|apply all_held_perm]. simpl in *.
      apply NoDup_removeb. exact HM.
  Qed.

  Lemma mutex_start : forall scripts, mutex (start scripts).
  Proof.
    intros. unfold mutex, all_held, start. induction scripts; simpl; [constructor | exact IHscripts].
  Qed.

  Theorem mutex_reachable : forall scripts s, steps (start scripts) s -> mutex s.
  Proof.
    intros scripts s H. remember (start scripts) as s0.
    assert (M0 : mutex s0) by (subst; apply mutex_start). clear Heqs0.
    induction H; [exact M0 | apply IHsteps; eapply mutex_step; eauto].
  Qed.
End Proofs.
