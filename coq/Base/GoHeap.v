(* Exact model of Go's container/heap over lists (heap.Init / Push / Pop / up /
   down), parametrised by the element type, a default element and Less.
   Executable only; the specification lemmas live in Base/GoHeapSpec.v. *)
From Coq Require Import List Arith.
Import ListNotations.

Section H.
Variable A : Type.
Variable d : A.
Variable less : A -> A -> bool.

Definition get (l : list A) (i : nat) := nth i l d.
Fixpoint set (l : list A) (i : nat) (x : A) : list A :=
  match l, i with
  | [], _ => []
  | _ :: t, O => x :: t
  | h :: t, S i' => h :: set t i' x
  end.
Definition swap (l : list A) (i j : nat) := set (set l i (get l j)) j (get l i).

(* heap.down(i, n) *)
Fixpoint down (fuel : nat) (l : list A) (i n : nat) : list A :=
  match fuel with
  | O => l
  | S f =>
    let j1 := (2 * i + 1)%nat in
    if Nat.leb n j1 then l else
    let j2 := (j1 + 1)%nat in
    let j := if andb (Nat.ltb j2 n) (less (get l j2) (get l j1)) then j2 else j1 in
    if negb (less (get l j) (get l i)) then l else down f (swap l i j) j n
  end.

(* heap.up(j) *)
Fixpoint up (fuel : nat) (l : list A) (j : nat) : list A :=
  match fuel with
  | O => l
  | S f =>
    match j with
    | O => l
    | _ =>
      let i := ((j - 1) / 2)%nat in
      if negb (less (get l j) (get l i)) then l else up f (swap l i j) i
    end
  end.

(* heap.Init: for i := n/2 - 1; i >= 0; i-- { down(i, n) } *)
Fixpoint init_loop (k : nat) (l : list A) (n : nat) :=
  match k with
  | O => l
  | S i => init_loop i (down (length l) l i n) n
  end.
Definition init (l : list A) := let n := length l in init_loop (n / 2)%nat l n.

(* heap.Push(h, x) for an h.Push that appends *)
Definition push (l : list A) (x : A) :=
  let l' := l ++ [x] in up (length l') l' (length l' - 1)%nat.

(* heap.Pop(h): n := Len()-1; Swap(0, n); down(0, n); return h.Pop() *)
Definition pop (l : list A) : option (A * list A) :=
  match l with
  | [] => None
  | _ =>
    let n := (length l - 1)%nat in
    let l2 := down (length l) (swap l 0 n) 0 n in
    Some (get l2 n, firstn n l2)
  end.
End H.

Arguments get {A} d l i.
Arguments set {A} l i x.
Arguments swap {A} d l i j.
Arguments down {A} d less fuel l i n.
Arguments up {A} d less fuel l j.
Arguments init {A} d less l.
Arguments push {A} d less l x.
Arguments pop {A} d less l.
