(* Lemmas about Base/GoSort.v: [gosort] returns a permutation that has no
   adjacent inversion as soon as the comparator is asymmetric; [search] returns
   the partition point of a monotone predicate. *)
From Coq Require Import List Bool Arith Lia Permutation Sorted ZArith ZifyNat ZifyBool.
From Verif Require Import Base.GoSort.
Import ListNotations.
Ltac Zify.zify_post_hook ::= Z.div_mod_to_equations.

Section SortSpec.
Variable A : Type.
Variable less : A -> A -> bool.

(* "a may stand before b": b is not less than a *)
Definition ngt (a b : A) : Prop := less b a = false.

Lemma rins_perm x rp : Permutation (rins less x rp) (x :: rp).
Proof.
  induction rp as [|y t IH]; simpl.
  - apply Permutation_refl.
  - destruct (less x y).
    + eapply perm_trans; [apply perm_skip; exact IH|]. apply perm_swap.
    + apply Permutation_refl.
Qed.

Lemma fold_rins_perm l : forall rp,
  Permutation (fold_left (fun rp x => rins less x rp) l rp) (rev l ++ rp).
Proof.
  induction l as [|x t IH]; intro rp; simpl.
  - apply Permutation_refl.
  - eapply perm_trans; [apply IH|].
    rewrite <- app_assoc. simpl.
    apply Permutation_app_head. apply rins_perm.
Qed.

Lemma gosort_perm l : Permutation (gosort less l) l.
Proof.
  unfold gosort. eapply perm_trans; [symmetry; apply Permutation_rev|].
  eapply perm_trans; [apply fold_rins_perm|].
  rewrite app_nil_r. symmetry. apply Permutation_rev.
Qed.

Lemma gosort_length l : length (gosort less l) = length l.
Proof. apply Permutation_length. apply gosort_perm. Qed.

Hypothesis less_asym : forall x y, less x y = true -> less y x = false.

(* reversed prefix: every element is not less than the one after it (its left
   neighbour in slice order) *)
Definition rrel (u v : A) : Prop := less u v = false.

Lemma rins_hd x rp z : HdRel rrel z rp -> rrel z x -> HdRel rrel z (rins less x rp).
Proof.
  intros H Hz. destruct rp as [|y t]; simpl.
  - constructor. exact Hz.
  - destruct (less x y); constructor; auto. inversion H; auto.
Qed.

Lemma rins_sorted x rp : Sorted rrel rp -> Sorted rrel (rins less x rp).
Proof.
  induction rp as [|y t IH]; intro H; simpl.
  - repeat constructor.
  - inversion H as [|? ? Ht Hhd]; subst.
    destruct (less x y) eqn:E.
    + constructor; [apply IH; exact Ht|].
      apply rins_hd; [exact Hhd|]. unfold rrel. apply less_asym. exact E.
    + constructor; [exact H|]. constructor. exact E.
Qed.

Lemma fold_rins_sorted l : forall rp,
  Sorted rrel rp -> Sorted rrel (fold_left (fun rp x => rins less x rp) l rp).
Proof.
  induction l as [|x t IH]; intros rp H; simpl; auto.
  apply IH. apply rins_sorted. exact H.
Qed.

Lemma sorted_snoc (R : A -> A -> Prop) l a :
  Sorted R l -> (forall y, l <> [] -> last l a = y -> R y a) -> Sorted R (l ++ [a]).
Proof.
  induction l as [|h t IH]; intros H Hl; simpl.
  - repeat constructor.
  - inversion H as [|? ? Ht Hhd]; subst. constructor.
    + apply IH; auto. intros y Hne Hy. apply Hl; [discriminate|].
      destruct t; [congruence|exact Hy].
    + destruct t as [|h2 t2]; simpl.
      * constructor. apply Hl; [discriminate|reflexivity].
      * inversion Hhd; subst. constructor. auto.
Qed.

Lemma sorted_rev l : Sorted rrel l -> Sorted ngt (rev l).
Proof.
  induction l as [|u t IH]; intro H; simpl.
  - constructor.
  - inversion H as [|? ? Ht Hhd]; subst.
    apply sorted_snoc; [apply IH; exact Ht|].
    intros y Hne Hy.
    destruct t as [|v t']; [simpl in Hne; congruence|].
    inversion Hhd as [|? ? Huv]; subst.
    (* last (rev (v :: t')) = v *)
    simpl. rewrite last_last. unfold ngt. exact Huv.
Qed.

Lemma gosort_sorted l : Sorted ngt (gosort less l).
Proof. unfold gosort. apply sorted_rev. apply fold_rins_sorted. constructor. Qed.
End SortSpec.

Arguments ngt {A} less a b.

(* ---- sort.Search ---- *)
Definition search_post (f : nat -> bool) (n p : nat) : Prop :=
  (p <= n)%nat /\ (forall i, (i < p)%nat -> f i = false) /\ (forall i, (p <= i < n)%nat -> f i = true).

Lemma search_loop_S k f i j : search_loop (S k) f i j =
  if Nat.ltb i j then
    if negb (f ((i + j) / 2)%nat) then search_loop k f ((i + j) / 2 + 1)%nat j
    else search_loop k f i ((i + j) / 2)%nat
  else i.
Proof. reflexivity. Qed.

Lemma search_loop_spec (f : nat -> bool) (n : nat) :
  (forall i j, (i <= j < n)%nat -> f i = true -> f j = true) ->
  forall fuel lo hi,
  (lo <= hi <= n)%nat -> (hi - lo <= fuel)%nat ->
  (forall i, (i < lo)%nat -> f i = false) ->
  (forall i, (hi <= i < n)%nat -> f i = true) ->
  search_post f n (search_loop fuel f lo hi).
Proof.
  intros Hmono. induction fuel as [|k IH]; intros lo hi Hb Hf Hlo Hhi.
  - simpl. assert (lo = hi) by lia. subst. repeat split; auto. lia.
  - rewrite search_loop_S. destruct (Nat.ltb_spec lo hi) as [Hlt|Hge].
    + set (h := ((lo + hi) / 2)%nat).
      assert (Hh : (lo <= h < hi)%nat) by (subst h; lia).
      destruct (f h) eqn:E; cbn [negb].
      * apply IH; auto; try lia.
        intros i Hi. destruct (Nat.eq_dec i h) as [->|]; [exact E|].
        destruct (Nat.lt_ge_cases i hi); [|apply Hhi; lia].
        apply (Hmono h i); [lia|exact E].
      * apply IH; auto; try lia.
        intros i Hi. destruct (Nat.lt_ge_cases i lo); [apply Hlo; lia|].
        destruct (f i) eqn:Ei; auto.
        rewrite (Hmono i h) in E; [discriminate|lia|exact Ei].
    + assert (lo = hi) by lia. subst. repeat split; auto. lia.
Qed.

Lemma search_spec (f : nat -> bool) (n : nat) :
  (forall i j, (i <= j < n)%nat -> f i = true -> f j = true) ->
  search_post f n (search n f).
Proof.
  intro Hmono. unfold search. apply search_loop_spec; auto; try lia.
Qed.

(* ---- two sorted permutations agree on their keys ----
   Whatever permutation an unstable sort returns, the sequence of sort keys is the
   same: this is what makes a comparison "modulo ties" well defined. *)
Section SortedUnique.
Variable K : Type.
Variable leK : K -> K -> Prop.
Hypothesis leK_antisym : forall a b, leK a b -> leK b a -> a = b.

Lemma sorted_perm_eq (l1 l2 : list K) :
  Permutation l1 l2 -> StronglySorted leK l1 -> StronglySorted leK l2 -> l1 = l2.
Proof.
  revert l2. induction l1 as [|a t1 IH]; intros l2 Hp H1 H2.
  - apply Permutation_nil in Hp. subst. reflexivity.
  - destruct l2 as [|b t2]; [apply Permutation_sym, Permutation_nil in Hp; discriminate|].
    inversion H1 as [|? ? Ht1 Ha]; subst. inversion H2 as [|? ? Ht2 Hb]; subst.
    rewrite Forall_forall in Ha, Hb.
    assert (E : a = b).
    { assert (Hb_in : In b (a :: t1)) by (eapply Permutation_in; [symmetry; exact Hp|left; reflexivity]).
      assert (Ha_in : In a (b :: t2)) by (eapply Permutation_in; [exact Hp|left; reflexivity]).
      destruct Hb_in as [|Hb_in]; [assumption|]. destruct Ha_in as [|Ha_in]; [congruence|].
      apply leK_antisym; [apply Ha; exact Hb_in|apply Hb; exact Ha_in]. }
    subst b. f_equal. apply IH; auto. eapply Permutation_cons_inv; exact Hp.
Qed.
End SortedUnique.

Lemma ssorted_map {A K} (key : A -> K) (leK : K -> K -> Prop) l :
  StronglySorted (fun a b => leK (key a) (key b)) l -> StronglySorted leK (map key l).
Proof.
  induction 1 as [|a l Hl IH Ha]; simpl; constructor; auto.
  rewrite Forall_forall in *. intros k Hk. apply in_map_iff in Hk. destruct Hk as (x & <- & Hx). auto.
Qed.

(* keys of any two sorted permutations coincide *)
Lemma sorted_perm_keys_eq {A K} (key : A -> K) (leK : K -> K -> Prop) :
  (forall a b, leK a b -> leK b a -> a = b) ->
  forall l1 l2 : list A, Permutation l1 l2 ->
  StronglySorted (fun a b => leK (key a) (key b)) l1 ->
  StronglySorted (fun a b => leK (key a) (key b)) l2 ->
  map key l1 = map key l2.
Proof.
  intros Hanti l1 l2 Hp H1 H2. apply (sorted_perm_eq K leK Hanti).
  - apply Permutation_map. exact Hp.
  - apply ssorted_map. exact H1.
  - apply ssorted_map. exact H2.
Qed.

(* variants relative to a predicate on the elements (e.g. "usage is finite") *)
Lemma sorted_strong_on {A} (R : A -> A -> Prop) (P : A -> Prop) :
  (forall a b c, P a -> P b -> P c -> R a b -> R b c -> R a c) ->
  forall l, Forall P l -> Sorted R l -> StronglySorted R l.
Proof.
  intros Htr l. induction l as [|a t IH]; intros HP Hs; [constructor|].
  inversion HP as [|? ? Pa Pt]; subst. inversion Hs as [|? ? Hst Hhd]; subst.
  specialize (IH Pt Hst). constructor; [exact IH|].
  destruct t as [|h t']; [constructor|].
  inversion Hhd as [|? ? Rah]; subst. inversion IH as [|? ? _ Hall]; subst.
  inversion Pt as [|? ? Ph Pt']; subst.
  constructor; [exact Rah|].
  rewrite Forall_forall in *. intros x Hx. apply (Htr a h x); auto.
Qed.

Lemma sorted_perm_eq_in {K} (leK : K -> K -> Prop) (l1 l2 : list K) :
  (forall a b, In a l1 -> In b l1 -> leK a b -> leK b a -> a = b) ->
  Permutation l1 l2 -> StronglySorted leK l1 -> StronglySorted leK l2 -> l1 = l2.
Proof.
  revert l2. induction l1 as [|a t1 IH]; intros l2 Hanti Hp H1 H2.
  - apply Permutation_nil in Hp. subst. reflexivity.
  - destruct l2 as [|b t2]; [apply Permutation_sym, Permutation_nil in Hp; discriminate|].
    inversion H1 as [|? ? Ht1 Ha]; subst. inversion H2 as [|? ? Ht2 Hb]; subst.
    rewrite Forall_forall in Ha, Hb.
    assert (Hb_in : In b (a :: t1)) by (eapply Permutation_in; [symmetry; exact Hp|left; reflexivity]).
    assert (Ha_in : In a (b :: t2)) by (eapply Permutation_in; [exact Hp|left; reflexivity]).
    assert (E : a = b).
    { destruct Hb_in as [|Hb_in']; [assumption|]. destruct Ha_in as [|Ha_in']; [congruence|].
      apply Hanti; [left; reflexivity|right; exact Hb_in'|apply Ha; exact Hb_in'|apply Hb; exact Ha_in']. }
    subst b. f_equal. apply IH; auto.
    + intros x y Hx Hy. apply Hanti; right; assumption.
    + eapply Permutation_cons_inv; exact Hp.
Qed.
