(* Base/KVProofs.v — facts about the abstract etcd / redis of Base/KV.v. *)
From Coq Require Import List Bool ZArith Lia.
From Verif Require Import Base.KV.
Import ListNotations.
Local Open Scope Z_scope.

(* ---- list helpers ---- *)
Lemma filter_all_true {A} (f : A -> bool) : forall l, (forall x, In x l -> f x = true) -> filter f l = l.
Proof.
  induction l as [|a t IH]; intros H; simpl; auto.
  rewrite (H a (or_introl eq_refl)). f_equal. apply IH. intros; apply H; right; auto.
Qed.

Lemma filter_nil_all_false {A} (f : A -> bool) : forall l, filter f l = [] -> forall x, In x l -> f x = false.
Proof.
  induction l as [|a t IH]; intros H x Hin; simpl in *; [tauto|].
  destruct (f a) eqn:E; [discriminate|]. destruct Hin; subst; auto.
Qed.

Lemma all_false_filter_nil {A} (f : A -> bool) : forall l, (forall x, In x l -> f x = false) -> filter f l = [].
Proof.
  induction l as [|a t IH]; intros H; simpl; auto.
  rewrite (H a (or_introl eq_refl)). apply IH. intros; apply H; right; auto.
Qed.

Lemma NoDup_map_filter {A B} (g : A -> B) (f : A -> bool) : forall l,
  NoDup (map g l) -> NoDup (map g (filter f l)).
Proof.
  induction l as [|a t IH]; intros H; simpl; auto.
  inversion H; subst. destruct (f a); simpl; auto.
  constructor; auto. intro Hin. apply H2.
  apply in_map_iff in Hin. destruct Hin as [x [Hx Hi]]. apply filter_In in Hi.
  apply in_map_iff. exists x. tauto.
Qed.

Lemma NoDup_map_inj {A B} (g : A -> B) : forall l x y,
  NoDup (map g l) -> In x l -> In y l -> g x = g y -> x = y.
Proof.
  induction l as [|a t IH]; intros x y H Hx Hy E; simpl in *; [tauto|].
  inversion H; subst.
  destruct Hx as [->|Hx]; destruct Hy as [->|Hy]; auto.
  - exfalso. apply H2. rewrite E. apply in_map; auto.
  - exfalso. apply H2. rewrite <- E. apply in_map; auto.
Qed.

Lemma NoDup_app_one {A} : forall (l : list A) x, NoDup l -> ~ In x l -> NoDup (l ++ [x]).
Proof.
  induction l as [|a t IH]; intros x H Hn; simpl.
  - constructor; auto.
  - inversion H; subst. constructor.
    + intro Hi. apply in_app_or in Hi. destruct Hi as [Hi|[Hi|[]]]; auto. subst. apply Hn. left; auto.
    + apply IH; auto. intro; apply Hn; right; auto.
Qed.

(* ------------------------------------------------------------------ etcd *)
Section EtcdFacts.
  Context {K V : Type}.
  Variable keqb : K -> K -> bool.
  Hypothesis keqb_eq : forall a b, keqb a b = true <-> a = b.

  Lemma keqb_refl : forall a, keqb a a = true.
  Proof. intros; apply keqb_eq; reflexivity. Qed.
  Lemma keqb_neq : forall a b, a <> b -> keqb a b = false.
  Proof. intros a b H. destruct (keqb a b) eqn:E; auto. apply keqb_eq in E. contradiction. Qed.

  Lemma e_get_some : forall (s : etcd K V) k x, e_get keqb s k = Some x -> In x (e_kvs s) /\ ek_key x = k.
  Proof.
    unfold e_get. intros s k x H. apply find_some in H. destruct H as [Hi He].
    apply keqb_eq in He. auto.
  Qed.

  Lemma e_get_none : forall (s : etcd K V) k x, e_get keqb s k = None -> In x (e_kvs s) -> ek_key x <> k.
  Proof.
    unfold e_get. intros s k x H Hi E. eapply find_none in H; eauto. simpl in H.
    rewrite E, keqb_refl in H. discriminate.
  Qed.

  Lemma e_get_in : forall (s : etcd K V) k x,
    NoDup (map ek_key (e_kvs s)) -> In x (e_kvs s) -> ek_key x = k -> e_get keqb s k = Some x.
  Proof.
    unfold e_get. intros s k x. induction (e_kvs s) as [|a t IH]; intros Hnd Hi E; simpl in *; [tauto|].
    inversion Hnd; subst. destruct Hi as [->|Hi].
    - rewrite keqb_refl. reflexivity.
    - destruct (keqb (ek_key a) (ek_key x)) eqn:Ek.
      + apply keqb_eq in Ek. exfalso. apply H1. rewrite Ek. apply in_map; auto.
      + apply IH; auto.
  Qed.

  Lemma e_get_absent : forall (s : etcd K V) k,
    (forall x, In x (e_kvs s) -> ek_key x <> k) -> e_get keqb s k = None.
  Proof.
    unfold e_get. intros s k H. destruct (find _ _) eqn:E; auto.
    apply find_some in E. destruct E as [Hi He]. apply keqb_eq in He. exfalso. eapply H; eauto.
  Qed.

  (* leases *)
  Lemma live_iff : forall (s : etcd K V) id, e_lease_live s id = true <-> In id (map l_id (e_leases s)).
  Proof.
    unfold e_lease_live, e_find_lease. intros s id. split.
    - destruct (find _ _) eqn:E; [|discriminate]. intros _. apply find_some in E.
      destruct E as [Hi He]. apply Z.eqb_eq in He. subst. apply in_map; auto.
    - intros Hi. apply in_map_iff in Hi. destruct Hi as [l [El Hi]].
      destruct (find _ _) eqn:E; auto. eapply find_none in E; eauto. simpl in E.
      rewrite El, Z.eqb_refl in E. discriminate.
  Qed.

  Lemma live_ids_eq : forall (s s' : etcd K V) id,
    map l_id (e_leases s') = map l_id (e_leases s) -> e_lease_live s' id = e_lease_live s id.
  Proof.
    intros s s' id H. destruct (e_lease_live s id) eqn:E.
    - apply live_iff. rewrite H. apply live_iff; auto.
    - destruct (e_lease_live s' id) eqn:E'; auto. apply live_iff in E'. rewrite H in E'.
      apply live_iff in E'. congruence.
  Qed.

  (* shapes of the operations *)
  Lemma grant_shape : forall (s s' : etcd K V) ttl id,
    e_grant s ttl = (id, s') ->
    id = e_next_lease s /\ e_kvs s' = e_kvs s /\ e_rev s' = e_rev s /\
    e_leases s' = mkLease id ttl (e_now s + ttl) :: e_leases s /\ e_next_lease s' = id + 1.
  Proof. unfold e_grant. intros. inversion H; subst; simpl. repeat split; reflexivity. Qed.

  Lemma keepalive_shape : forall (s s' : etcd K V) id b,
    e_keepalive s id = (b, s') ->
    e_kvs s' = e_kvs s /\ e_rev s' = e_rev s /\ e_next_lease s' = e_next_lease s /\
    map l_id (e_leases s') = map l_id (e_leases s) /\ b = e_lease_live s id.
  Proof.
    unfold e_keepalive, e_lease_live. intros s s' id b H.
    destruct (e_find_lease s id) eqn:E; inversion H; subst; simpl; repeat split; auto.
    rewrite map_map. apply map_ext_in. intros a _. destruct (Z.eqb (l_id a) id) eqn:Ea; simpl; auto.
    apply Z.eqb_eq in Ea. auto.
  Qed.

  Lemma put_shape : forall (s s' : etcd K V) k v lid,
    e_get keqb s k = None -> e_put keqb s k v lid = Some s' ->
    e_rev s' = e_rev s + 1 /\
    e_kvs s' = e_kvs s ++ [mkEkv k v (e_rev s + 1) (e_rev s + 1) 1 lid] /\
    e_leases s' = e_leases s /\ e_next_lease s' = e_next_lease s /\
    (lid = 0 \/ e_lease_live s lid = true).
  Proof.
    unfold e_put. intros s s' k v lid Hg H. rewrite Hg in H.
    destruct (negb (Z.eqb lid 0) && negb (e_lease_live s lid)) eqn:E; [discriminate|].
    inversion H; subst; simpl. repeat split; auto.
    apply andb_false_iff in E. destruct E as [E|E]; apply negb_false_iff in E.
    - left. apply Z.eqb_eq; auto.
    - right; auto.
  Qed.

  Lemma put_none : forall (s : etcd K V) k v lid,
    e_put keqb s k v lid = None -> lid <> 0 /\ e_lease_live s lid = false.
  Proof.
    unfold e_put. intros s k v lid H.
    destruct (negb (Z.eqb lid 0) && negb (e_lease_live s lid)) eqn:E; [|discriminate].
    apply andb_true_iff in E. destruct E as [E1 E2].
    apply negb_true_iff in E1. apply negb_true_iff in E2. apply Z.eqb_neq in E1. auto.
  Qed.

  Lemma delete_shape : forall (s s' : etcd K V) k n,
    e_delete keqb s k = (n, s') ->
    e_kvs s' = filter (fun x => negb (keqb (ek_key x) k)) (e_kvs s) /\
    e_rev s <= e_rev s' <= e_rev s + 1 /\
    e_leases s' = e_leases s /\ e_next_lease s' = e_next_lease s.
  Proof.
    unfold e_delete. intros s s' k n H. destruct (e_get keqb s k) eqn:E; inversion H; subst; simpl.
    - repeat split; auto; lia.
    - repeat split; auto; try lia. symmetry. apply filter_all_true. intros x Hi.
      apply negb_true_iff. apply keqb_neq. eapply e_get_none; eauto.
  Qed.

  Lemma detach_shape : forall (s : etcd K V) id,
    e_kvs (e_detach s id) = filter (fun x => negb (Z.eqb (ek_lease x) id)) (e_kvs s) /\
    e_rev s <= e_rev (e_detach s id) <= e_rev s + 1 /\
    e_leases (e_detach s id) = filter (fun l => negb (Z.eqb (l_id l) id)) (e_leases s) /\
    e_next_lease (e_detach s id) = e_next_lease s.
  Proof. unfold e_detach. intros; simpl. repeat split; auto; destruct (existsb _ _); lia. Qed.

  Lemma detach_live : forall (s : etcd K V) id x,
    e_lease_live (e_detach s id) x = e_lease_live s x && negb (Z.eqb x id).
  Proof.
    intros s id x. destruct (detach_shape s id) as (_ & _ & Hl & _).
    destruct (e_lease_live (e_detach s id) x) eqn:E.
    - apply live_iff in E. rewrite Hl in E. apply in_map_iff in E. destruct E as [l [El Hi]].
      apply filter_In in Hi. destruct Hi as [Hi Hn]. subst.
      symmetry. apply andb_true_iff. split; auto. apply live_iff. apply in_map; auto.
    - destruct (e_lease_live s x) eqn:E1; auto. destruct (Z.eqb x id) eqn:E2; auto. simpl.
      apply live_iff in E1. apply in_map_iff in E1. destruct E1 as [l [El Hi]].
      assert (e_lease_live (e_detach s id) x = true); [|congruence].
      apply live_iff. rewrite Hl. apply in_map_iff. exists l. split; auto.
      apply filter_In. split; auto. rewrite El, E2. reflexivity.
  Qed.

  (* min / max by create revision *)
  Lemma min_create_spec : forall (l : list (ekv K V)) m,
    min_create l = Some m -> In m l /\ forall x, In x l -> ek_create m <= ek_create x.
  Proof.
    induction l as [|a t IH]; intros m H; simpl in *; [discriminate|].
    destruct (min_create t) as [y|] eqn:E.
    - destruct (IH y eq_refl) as [Hy Hmin].
      destruct (Z.leb (ek_create a) (ek_create y)) eqn:L; inversion H; subst.
      + apply Z.leb_le in L. split; auto. intros x [->|Hx]; [lia|]. specialize (Hmin x Hx). lia.
      + apply Z.leb_gt in L. split; auto. intros x [->|Hx]; [lia|]. auto.
    - inversion H; subst. split; auto. intros x [->|Hx]; [lia|].
      destruct t; [destruct Hx|]. simpl in E. destruct (min_create t); [destruct (Z.leb _ _)|]; discriminate.
  Qed.

  Lemma min_create_none : forall (l : list (ekv K V)), min_create l = None -> l = [].
  Proof.
    destruct l as [|a t]; auto. simpl. destruct (min_create t); [destruct (Z.leb _ _)|]; discriminate.
  Qed.

  Lemma max_create_none : forall (l : list (ekv K V)), max_create l = None <-> l = [].
  Proof.
    split.
    - destruct l as [|a t]; auto. simpl. destruct (max_create t); [destruct (Z.leb _ _)|]; discriminate.
    - intros ->. reflexivity.
  Qed.

  Lemma last_create_upto_none : forall (s : etcd K V) p m,
    e_last_create_upto s p m = None <->
    (forall x, In x (e_kvs s) -> p (ek_key x) = true -> m < ek_create x).
  Proof.
    unfold e_last_create_upto, e_range. intros s p m. rewrite max_create_none. split.
    - intros H x Hi Hp. eapply filter_nil_all_false in H.
      + apply Z.leb_gt in H. exact H.
      + apply filter_In. split; eauto.
    - intros H. apply all_false_filter_nil. intros x Hi. apply filter_In in Hi. destruct Hi as [Hi Hp].
      apply Z.leb_gt. auto.
  Qed.

  Lemma first_create_all : forall (s : etcd K V),
    e_first_create s (fun _ => true) = min_create (e_kvs s).
  Proof.
    unfold e_first_create, e_range. intros. rewrite filter_all_true; auto.
  Qed.
End EtcdFacts.
