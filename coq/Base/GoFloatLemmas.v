(* Order facts about Go float64 (Flocq binary64) needed by the strategy proofs:
   [fle] is a total preorder on non-NaN values, [flt] is its strict part,
   adding a finite value to a non-NaN value never yields NaN, and adding a
   non-negative finite value never decreases a value (monotonicity of rounding
   to nearest).  Infinities are covered (a float sum may overflow). *)
From Coq Require Import ZArith Bool Reals Lra Lia.
From Flocq Require Import Core IEEE754.BinarySingleNaN IEEE754.Binary IEEE754.Bits.
From Verif Require Import Base.GoFloat.
Local Open Scope R_scope.

Local Instance prec53_gt_0 : Prec_gt_0 53 := eq_refl.

Definition nn (f : f64) : Prop := is_nan 53 1024 f = false.

Lemma finite_nn f : f_finite f = true -> nn f.
Proof. unfold f_finite, nn. destruct f; simpl; congruence. Qed.

(* extended reals *)
Inductive er := NegInf | Fin (r : R) | PosInf.
Definition er_le (a b : er) : Prop :=
  match a, b with
  | NegInf, _ => True
  | _, PosInf => True
  | Fin x, Fin y => x <= y
  | _, _ => False
  end.
Definition er_lt (a b : er) : Prop :=
  match a, b with
  | NegInf, NegInf => False
  | NegInf, _ => True
  | PosInf, _ => False
  | _, PosInf => True
  | Fin x, Fin y => x < y
  | _, _ => False
  end.

Definition ext (f : f64) : er :=
  match f with
  | B754_infinity _ _ true => NegInf
  | B754_infinity _ _ false => PosInf
  | _ => Fin (B2R 53 1024 f)
  end.

Lemma er_le_refl a : er_le a a.
Proof. destruct a; simpl; auto. lra. Qed.
Lemma er_le_trans a b c : er_le a b -> er_le b c -> er_le a c.
Proof. destruct a, b, c; simpl; auto; try tauto. lra. Qed.
Lemma er_le_total a b : er_le a b \/ er_le b a.
Proof. destruct a, b; simpl; auto. destruct (Rle_or_lt r r0); [left; auto|right; lra]. Qed.
Lemma er_lt_not_le a b : er_lt a b <-> ~ er_le b a.
Proof. destruct a, b; simpl; try tauto. split; lra. Qed.

Lemma Bcompare_ext (a b : f64) : nn a -> nn b ->
  Bcompare 53 1024 a b =
    Some (match ext a, ext b with
          | NegInf, NegInf => Eq | NegInf, _ => Lt
          | PosInf, PosInf => Eq | PosInf, _ => Gt
          | Fin _, NegInf => Gt | Fin _, PosInf => Lt
          | Fin x, Fin y => Rcompare x y
          end).
Proof.
  intros Ha Hb.
  destruct a as [sa|sa|sa pa Ha'|sa ma ea Ha']; try discriminate Ha;
  destruct b as [sb|sb|sb pb Hb'|sb mb eb Hb']; try discriminate Hb;
  try (destruct sa; reflexivity); try (destruct sb; reflexivity);
  try (destruct sa, sb; reflexivity);
  try (unfold ext; apply Bcompare_correct; reflexivity).
Qed.

Lemma fle_ext a b : nn a -> nn b -> (fle a b = true <-> er_le (ext a) (ext b)).
Proof.
  intros Ha Hb. unfold fle. rewrite (Bcompare_ext a b Ha Hb).
  destruct (ext a) as [|x|], (ext b) as [|y|]; simpl; try tauto; try (split; [discriminate|tauto]).
  destruct (Rcompare_spec x y); split; intro H0; try reflexivity; try discriminate; try lra.
Qed.

Lemma flt_ext a b : nn a -> nn b -> (flt a b = true <-> er_lt (ext a) (ext b)).
Proof.
  intros Ha Hb. unfold flt. rewrite (Bcompare_ext a b Ha Hb).
  destruct (ext a) as [|x|], (ext b) as [|y|]; simpl; try tauto; try (split; [discriminate|tauto]).
  destruct (Rcompare_spec x y); split; intro H0; try reflexivity; try discriminate; try lra.
Qed.

Lemma fle_refl a : nn a -> fle a a = true.
Proof. intro H. apply fle_ext; auto. apply er_le_refl. Qed.
Lemma fle_trans a b c : nn a -> nn b -> nn c -> fle a b = true -> fle b c = true -> fle a c = true.
Proof.
  intros Ha Hb Hc H1 H2. apply fle_ext; auto. apply fle_ext in H1; auto. apply fle_ext in H2; auto.
  eapply er_le_trans; eauto.
Qed.
Lemma fle_total a b : nn a -> nn b -> fle a b = true \/ fle b a = true.
Proof.
  intros Ha Hb. destruct (er_le_total (ext a) (ext b)); [left|right]; apply fle_ext; auto.
Qed.
Lemma negb_flt_fle a b : nn a -> nn b -> negb (flt b a) = fle a b.
Proof.
  intros Ha Hb. destruct (fle a b) eqn:E1, (flt b a) eqn:E2; try reflexivity; exfalso.
  - apply fle_ext in E1; auto. apply flt_ext in E2; auto. apply er_lt_not_le in E2. tauto.
  - assert (~ er_le (ext a) (ext b)) by (rewrite <- fle_ext by auto; congruence).
    assert (~ er_lt (ext b) (ext a)) by (rewrite <- flt_ext by auto; congruence).
    rewrite er_lt_not_le in H0. tauto.
Qed.

(* ---- addition ---- *)
Lemma fadd_inf_l s (r : f64) : f_finite r = true -> fadd (B754_infinity 53 1024 s) r = B754_infinity 53 1024 s.
Proof. destruct r; try discriminate; intros _; reflexivity. Qed.

Lemma fadd_nn u r : nn u -> f_finite r = true -> nn (fadd u r).
Proof.
  intros Hu Hr. destruct (is_finite 53 1024 u) eqn:Fu.
  - unfold nn, fadd, b64_plus.
    match goal with |- context [Bplus 53 1024 ?h1 ?h2 _ _ _ _] =>
      pose proof (Bplus_correct 53 1024 h1 h2 binop_nan_pl64 mode_NE u r Fu Hr) as H;
      set (res := Bplus 53 1024 h1 h2 binop_nan_pl64 mode_NE u r) in * end.
    destruct (Rlt_bool _ _) in H.
    + destruct H as (_ & Hf & _). destruct res; simpl in *; congruence.
    + destruct H as (Ho & _). destruct res; simpl in *; try reflexivity.
      unfold binary_overflow in Ho. simpl in Ho. discriminate.
  - destruct u; try discriminate. rewrite fadd_inf_l by exact Hr. reflexivity.
Qed.

Lemma fzero_eq : fb 0 = B754_zero 53 1024 false.
Proof. reflexivity. Qed.

Lemma fadd_ge u r : nn u -> f_finite r = true -> fle (fb 0) r = true -> fle u (fadd u r) = true.
Proof.
  intros Hu Hr Hr0.
  assert (Hy : 0 <= B2R 53 1024 r).
  { rewrite fzero_eq in Hr0. unfold fle in Hr0.
    rewrite (Bcompare_correct 53 1024 (B754_zero 53 1024 false) r (eq_refl true) Hr) in Hr0. simpl in Hr0.
    destruct (Rcompare_spec 0 (B2R 53 1024 r)); try discriminate; lra. }
  destruct (is_finite 53 1024 u) eqn:Fu.
  - assert (H := I). clear H.
    assert (Hbp : exists h1 h2, fadd u r = Bplus 53 1024 h1 h2 binop_nan_pl64 mode_NE u r).
    { unfold fadd, b64_plus. eexists. eexists. reflexivity. }
    destruct Hbp as (h1 & h2 & Hbp).
    pose proof (Bplus_correct 53 1024 h1 h2 binop_nan_pl64 mode_NE u r Fu Hr) as H.
    rewrite <- Hbp in H.
    set (x := B2R 53 1024 u) in *. set (y := B2R 53 1024 r) in *.
    revert H.
    match goal with |- context [Rlt_bool (Rabs ?t) ?b] =>
      set (rd := t); destruct (Rlt_bool_spec (Rabs rd) b) as [Hlt|Hge] end; intro H.
    + destruct H as (HR & Hf & _).
      assert (Hrx : x <= rd).
      { unfold rd.
        apply (@round_ge_generic radix2 (SpecFloat.fexp 53 1024) (fexp_correct 53 1024 prec53_gt_0) (round_mode mode_NE) _ x (x + y)).
        - apply generic_format_B2R.
        - lra. }
      unfold fle. rewrite (Bcompare_correct 53 1024 u (fadd u r) Fu Hf). rewrite HR. fold x.
      destruct (Rcompare_spec x rd); try reflexivity. lra.
    + destruct H as (Ho & Hs).
      (* overflow: r is positive, the sum is +infinity *)
      assert (Hyp : 0 < y).
      { destruct (Rle_lt_or_eq_dec 0 y Hy) as [|E0]; [assumption|exfalso].
        unfold rd in Hge. rewrite <- E0, Rplus_0_r in Hge.
        rewrite (@round_generic radix2 (SpecFloat.fexp 53 1024) (round_mode mode_NE) _ x) in Hge.
        - pose proof (abs_B2R_lt_emax 53 1024 u) as Hab. fold x in Hab. lra.
        - apply generic_format_B2R. }
      assert (Hsr : Bsign 53 1024 r = false).
      { destruct r as [sr|sr|sr pr Hpr|sr mr er Hbr]; try discriminate Hr.
        - unfold y in Hyp. simpl in Hyp. lra.
        - destruct sr; [|reflexivity]. exfalso. unfold y in Hyp. simpl in Hyp.
          pose proof (F2R_lt_0 radix2 (Float radix2 (Zneg mr) er) ltac:(simpl; lia)) as Hneg.
          simpl in Hneg. lra. }
      rewrite Hsr in Hs. rewrite Hs in Ho. unfold binary_overflow in Ho. simpl in Ho.
      assert (Einf : fadd u r = B754_infinity 53 1024 false).
      { destruct (fadd u r); simpl in Ho; try discriminate. inversion Ho. reflexivity. }
      rewrite Einf. apply fle_ext; [exact Hu|reflexivity|]. simpl. destruct (ext u); exact I.
  - destruct u; try discriminate. rewrite fadd_inf_l by exact Hr. apply fle_refl. reflexivity.
Qed.

(* a stored float is the float *)
Lemma fb_fbits f : fb (fbits f) = f.
Proof.
  unfold fb, fbits, b64_of_bits, bits_of_b64.
  exact (binary_float_of_bits_of_binary_float 52 11 (eq_refl _) (eq_refl _) (eq_refl _) f).
Qed.

Lemma flt_asym (a b : f64) : flt a b = true -> flt b a = false.
Proof.
  unfold flt. rewrite (Bcompare_swap 53 1024 a b).
  destruct (Bcompare 53 1024 a b) as [[| |]|]; simpl; congruence.
Qed.

(* ---- equality modulo the sign of zero ---- *)
Lemma er_le_antisym a b : er_le a b -> er_le b a -> a = b.
Proof. destruct a, b; simpl; try tauto. intros H1 H2. f_equal. lra. Qed.

Lemma fle_antisym_ext a b : nn a -> nn b -> fle a b = true -> fle b a = true -> ext a = ext b.
Proof.
  intros Ha Hb H1 H2. apply fle_ext in H1; auto. apply fle_ext in H2; auto. apply er_le_antisym; assumption.
Qed.

Lemma finite_ext a : f_finite a = true -> ext a = Fin (B2R 53 1024 a).
Proof. destruct a; try discriminate; reflexivity. Qed.

Lemma feq_zero_iff a : f_finite a = true -> (feq a (fb 0) = true <-> B2R 53 1024 a = 0).
Proof.
  intro Ha. rewrite fzero_eq. unfold feq.
  rewrite (Bcompare_correct 53 1024 a (B754_zero 53 1024 false) Ha (eq_refl true)). simpl.
  destruct (Rcompare_spec (B2R 53 1024 a) 0); split; intro H0; try reflexivity; try discriminate; lra.
Qed.

Lemma finite_nonzero_strict a : f_finite a = true -> B2R 53 1024 a <> 0 -> is_finite_strict 53 1024 a = true.
Proof. destruct a; try discriminate; simpl; intros _ H0; [exfalso; apply H0; reflexivity|reflexivity]. Qed.

(* two finite floats with the same real value have the same bits, except +0 / -0 *)
Lemma same_value_same_bits a b : f_finite a = true -> f_finite b = true ->
  B2R 53 1024 a = B2R 53 1024 b ->
  (if feq a (fb 0) then 0%Z else fbits a) = (if feq b (fb 0) then 0%Z else fbits b).
Proof.
  intros Ha Hb E.
  destruct (feq a (fb 0)) eqn:Ea, (feq b (fb 0)) eqn:Eb; try reflexivity.
  - apply (feq_zero_iff a Ha) in Ea. exfalso.
    assert (feq b (fb 0) = true) by (apply (feq_zero_iff b Hb); lra). congruence.
  - apply (feq_zero_iff b Hb) in Eb. exfalso.
    assert (feq a (fb 0) = true) by (apply (feq_zero_iff a Ha); lra). congruence.
  - assert (Na : B2R 53 1024 a <> 0) by (intro H0; apply (feq_zero_iff a Ha) in H0; congruence).
    assert (Nb : B2R 53 1024 b <> 0) by (intro H0; apply (feq_zero_iff b Hb) in H0; congruence).
    f_equal. apply (B2R_inj 53 1024); auto using finite_nonzero_strict.
Qed.
