(* LockOrder: lock scripts of threads, the order discipline, and the
   interleaving transition system of threads contending for non-reentrant locks.
   Definitions only (executable where possible); proofs in LockOrderProofs.v.

   A thread is a sequence of events
     Acq k      blocking acquisition of key k (enabled only while nobody holds k)
     AcqFail k  an acquisition attempt that returned an error (time-out,
                cancelled context); nothing is held afterwards
     Rel k      release of k (no-op when the thread does not hold k, like
                Unlock on a lock object that is not locked)
   The discipline [ord_run]: every attempted key is strictly above every key
   the thread holds at that moment; only held keys are released; at the end of
   the script nothing is held. *)
From Coq Require Import List Bool.
Import ListNotations.

Section LockOrder.
  Context {key : Type}.
  Variable eqb : key -> key -> bool.
  Variable ltb : key -> key -> bool.

  Inductive ev := Acq (k : key) | AcqFail (k : key) | Rel (k : key).

  Fixpoint removeb (k : key) (h : list key) : list key :=
    match h with
    | [] => []
    | x :: t => if eqb k x then t else x :: removeb k t
    end.
  Definition memb (k : key) (h : list key) : bool := existsb (eqb k) h.
  Definition above (h : list key) (k : key) : bool := forallb (fun x => ltb x k) h.

  (* run a script from held set [h]; None = discipline violated *)
  Fixpoint ord_run (h : list key) (evs : list ev) : option (list key) :=
    match evs with
    | [] => Some h
    | Acq k :: r => if above h k then ord_run (k :: h) r else None
    | AcqFail k :: r => if above h k then ord_run h r else None
    | Rel k :: r => if memb k h then ord_run (removeb k h) r else None
    end.

  Definition ordered (evs : list ev) : bool :=
    match ord_run [] evs with Some [] => true | _ => false end.

  (* well-nested variant: releases are LIFO *)
  Fixpoint lifo_run (h : list key) (evs : list ev) : option (list key) :=
    match evs with
    | [] => Some h
    | Acq k :: r => lifo_run (k :: h) r
    | AcqFail _ :: r => lifo_run h r
    | Rel k :: r => match h with
                    | x :: t => if eqb k x then lifo_run t r else None
                    | [] => None
                    end
    end.
  Definition well_nested (evs : list ev) : bool :=
    match lifo_run [] evs with Some [] => true | _ => false end.

  (* order discipline and LIFO releases checked together *)
  Fixpoint strict_run (h : list key) (evs : list ev) : option (list key) :=
    match evs with
    | [] => Some h
    | Acq k :: r => if above h k then strict_run (k :: h) r else None
    | AcqFail k :: r => if above h k then strict_run h r else None
    | Rel k :: r => match h with
                    | x :: t => if eqb k x then strict_run t r else None
                    | [] => None
                    end
    end.

  (* maximal number of keys held at once *)
  Fixpoint max_held (cur : nat) (evs : list ev) : nat :=
    match evs with
    | [] => cur
    | Acq _ :: r => Nat.max (S cur) (max_held (S cur) r)
    | AcqFail _ :: r => max_held cur r
    | Rel _ :: r => Nat.max cur (max_held (pred cur) r)
    end.

  (* ---- the transition system ---- *)
  Record thread := mkT { held : list key; rest : list ev }.
  Definition sys := list thread.

  Definition holds_any (s : sys) (k : key) : bool := existsb (fun t => memb k (held t)) s.

  Inductive step : sys -> sys -> Prop :=
  | st_acq pre post h k r :
      holds_any (pre ++ post) k = false -> memb k h = false ->
      step (pre ++ mkT h (Acq k :: r) :: post) (pre ++ mkT (k :: h) r :: post)
  | st_fail pre post h k r :
      step (pre ++ mkT h (AcqFail k :: r) :: post) (pre ++ mkT h r :: post)
  | st_rel pre post h k r :
      step (pre ++ mkT h (Rel k :: r) :: post) (pre ++ mkT (removeb k h) r :: post).

  Inductive steps : sys -> sys -> Prop :=
  | steps_refl s : steps s s
  | steps_cons s1 s2 s3 : step s1 s2 -> steps s2 s3 -> steps s1 s3.

  Definition start (scripts : list (list ev)) : sys := map (mkT []) scripts.
  Definition finished (t : thread) : Prop := rest t = [].
  Definition all_finished (s : sys) : Prop := forall t, In t s -> finished t.
  (* a deadlock: somebody still has work to do and nobody can move *)
  Definition deadlocked (s : sys) : Prop :=
    (exists t, In t s /\ rest t <> []) /\ forall s', ~ step s s'.
  (* a step that is not a time-out *)
  Definition is_fail_head (t : thread) : bool :=
    match rest t with AcqFail _ :: _ => true | _ => false end.
End LockOrder.

Arguments ev : clear implicits.
Arguments thread : clear implicits.
Arguments sys : clear implicits.
