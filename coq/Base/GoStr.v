(* GoStr: executable models of the Go string / path helpers the anchored code uses.
   No proofs here (see GoStrLemmas.v).

   Go strings are byte sequences.  The harness emits them as Coq [string]s
   ([sb [bytes]]); the models work on [bytes = list ascii] and convert at the
   boundary with [s2l] / [l2s].

   Modelled (byte-exact, cross-checked against the real functions by the C24
   and C16 harnesses):
     string comparison            -> bytes_ltb / bytes_leb / bytes_eqb (bytewise lexicographic)
     strings.HasPrefix/TrimPrefix -> has_prefix / trim_prefix
     strings.TrimLeft(s, cutset)  -> trim_left   (cutset of single bytes)
     strings.Split(s, sep)        -> split_on    (single-byte separator)
     strings.Join                 -> join
     strings.Contains(s, c)       -> contains_byte (single-byte needle)
     filepath.Clean (unix)        -> clean       (element-wise reformulation of the lazybuf loop)
     filepath.Join                -> join_path
     fmt.Sprintf("%016x", u64)    -> hex16
     strconv.ParseUint(s, 16, 64) -> parse_hex64
*)
From Coq Require Import List Bool Arith NArith String Ascii.
Import ListNotations.

Definition bytes := list ascii.
Definition s2l : string -> bytes := list_ascii_of_string.
Definition l2s : bytes -> string := string_of_list_ascii.

(* ---- comparison ---- *)
Definition byte_ltb (a b : ascii) : bool := N.ltb (N_of_ascii a) (N_of_ascii b).

Fixpoint bytes_eqb (a b : bytes) : bool :=
  match a, b with
  | [], [] => true
  | x :: a', y :: b' => Ascii.eqb x y && bytes_eqb a' b'
  | _, _ => false
  end.

Fixpoint bytes_ltb (a b : bytes) : bool :=
  match a, b with
  | _, [] => false
  | [], _ :: _ => true
  | x :: a', y :: b' =>
      if byte_ltb x y then true else if byte_ltb y x then false else bytes_ltb a' b'
  end.
Definition bytes_leb (a b : bytes) : bool := negb (bytes_ltb b a).

Definition str_ltb (a b : string) : bool := bytes_ltb (s2l a) (s2l b).
Definition str_leb (a b : string) : bool := bytes_leb (s2l a) (s2l b).
Definition str_eqb (a b : string) : bool := String.eqb a b.

Fixpoint mem_bytes (x : bytes) (l : list bytes) : bool :=
  match l with [] => false | y :: t => bytes_eqb x y || mem_bytes x t end.
Fixpoint mem_str (x : string) (l : list string) : bool :=
  match l with [] => false | y :: t => String.eqb x y || mem_str x t end.

(* ---- prefixes, trimming ---- *)
Fixpoint has_prefix (p s : bytes) : bool :=
  match p, s with
  | [], _ => true
  | x :: p', y :: s' => Ascii.eqb x y && has_prefix p' s'
  | _ :: _, [] => false
  end.

(* strings.TrimPrefix: s without the leading p, or s itself *)
Fixpoint drop_prefix (p s : bytes) : bytes :=
  match p, s with
  | _ :: p', _ :: s' => drop_prefix p' s'
  | _, _ => s
  end.
Definition trim_prefix (p s : bytes) : bytes := if has_prefix p s then drop_prefix p s else s.

Fixpoint mem_byte (c : ascii) (l : bytes) : bool :=
  match l with [] => false | y :: t => Ascii.eqb c y || mem_byte c t end.
Definition contains_byte (s : bytes) (c : ascii) : bool := mem_byte c s.

(* strings.TrimLeft(s, cutset) for a cutset of single bytes *)
Fixpoint trim_left (cutset : bytes) (s : bytes) : bytes :=
  match s with
  | [] => []
  | x :: t => if mem_byte x cutset then trim_left cutset t else s
  end.

(* ---- split / join ---- *)
(* strings.Split(s, string(c)): always at least one element *)
Fixpoint split_on (c : ascii) (s : bytes) : list bytes :=
  match s with
  | [] => [[]]
  | x :: t =>
      let r := split_on c t in
      if Ascii.eqb x c then [] :: r
      else match r with
           | h :: r' => (x :: h) :: r'
           | [] => [[x]]
           end
  end.

Fixpoint join (sep : bytes) (l : list bytes) : bytes :=
  match l with
  | [] => []
  | [x] => x
  | x :: t => x ++ sep ++ join sep t
  end.

(* ---- filepath.Clean / filepath.Join (unix) ---- *)
Definition slash : ascii := "/"%char.
Definition dot : ascii := "."%char.
Definition is_dot (e : bytes) : bool := bytes_eqb e [dot].
Definition is_dotdot (e : bytes) : bool := bytes_eqb e [dot; dot].

(* The Go loop walks the path element by element: an empty element and "." are
   skipped; ".." removes the last kept element when there is one that is not
   itself a kept ".." (out.w > dotdot), is appended when the path is not rooted,
   and is dropped at the root; anything else is appended.  [stack] is the kept
   elements, most recent first. *)
Fixpoint clean_elems (rooted : bool) (stack : list bytes) (elems : list bytes) : list bytes :=
  match elems with
  | [] => rev stack
  | e :: rest =>
      match e with
      | [] => clean_elems rooted stack rest
      | _ =>
        if is_dot e then clean_elems rooted stack rest
        else if is_dotdot e then
          match stack with
          | top :: st' =>
              if is_dotdot top then clean_elems rooted (e :: stack) rest
              else clean_elems rooted st' rest
          | [] => if rooted then clean_elems rooted [] rest else clean_elems rooted [e] rest
          end
        else clean_elems rooted (e :: stack) rest
      end
  end.

Definition clean (p : bytes) : bytes :=
  match p with
  | [] => [dot]
  | c :: _ =>
      let rooted := Ascii.eqb c slash in
      let out := join [slash] (clean_elems rooted [] (split_on slash p)) in
      if rooted then slash :: out
      else match out with [] => [dot] | _ => out end
  end.

(* filepath.Join: drop leading empty elements, join the rest with "/", Clean; "" if all empty *)
Fixpoint join_path (elems : list bytes) : bytes :=
  match elems with
  | [] => []
  | [] :: rest => join_path rest
  | _ :: _ => clean (join [slash] elems)
  end.

(* ---- hexadecimal ---- *)
Local Open Scope N_scope.
Definition hex_digit (d : N) : ascii :=
  ascii_of_N (if N.ltb d 10 then 48 + d else 87 + d).   (* '0' = 48, 'a' = 97 *)

(* [w] least significant hex digits of n, most significant first *)
Fixpoint hexw (w : nat) (n : N) : bytes :=
  match w with
  | O => []
  | S w' => hexw w' (N.div n 16) ++ [hex_digit (N.modulo n 16)]
  end.
(* fmt.Sprintf("%016x", n) for n < 2^64 (a uint64 never has more than 16 digits) *)
Definition hex16 (n : N) : bytes := hexw 16 n.

Definition two64N : N := 18446744073709551616.

(* strconv's digit value: '0'-'9', and letters through lower(c) = c | 0x20 *)
Definition digit_val (c : ascii) : option N :=
  let v := N_of_ascii c in
  if N.leb 48 v && N.leb v 57 then Some (v - 48)
  else let lv := N.lor v 32 in
       if N.leb 97 lv && N.leb lv 122 then Some (lv - 97 + 10) else None.

Fixpoint parse_hex_acc (acc : N) (s : bytes) : option N :=
  match s with
  | [] => Some acc
  | c :: t =>
      match digit_val c with
      | Some d =>
          if N.ltb d 16 then
            let acc' := acc * 16 + d in
            if N.ltb acc' two64N then parse_hex_acc acc' t else None  (* ErrRange *)
          else None                                                  (* ErrSyntax *)
      | None => None
      end
  end.
(* strconv.ParseUint(s, 16, 64): None = any error *)
Definition parse_hex64 (s : bytes) : option N :=
  match s with
  | [] => None
  | _ => parse_hex_acc 0 s
  end.

Local Close Scope N_scope.

(* ---- string-level wrappers ---- *)
Definition sclean (p : string) : string := l2s (clean (s2l p)).
Definition sjoin_path (elems : list string) : string := l2s (join_path (map s2l elems)).
Definition ssplit_on (c : ascii) (s : string) : list string := map l2s (split_on c (s2l s)).
Definition sjoin (sep : string) (l : list string) : string := l2s (join (s2l sep) (map s2l l)).

(* insertion sort of strings in Go's string order (slices.Sort / sort.Strings:
   the sorted sequence of strings is unique, so any sorting algorithm gives it) *)
Fixpoint insert_str (x : string) (l : list string) : list string :=
  match l with
  | [] => [x]
  | y :: t => if str_ltb y x then y :: insert_str x t else x :: l
  end.
Fixpoint sort_str (l : list string) : list string :=
  match l with [] => [] | x :: t => insert_str x (sort_str t) end.
