(* Go integer conventions. int/int64 are unbounded Z in the models except where
   the code can overflow; there [wrap64] is applied explicitly. *)
From Coq Require Import ZArith.
Open Scope Z_scope.

Definition max_int : Z := 9223372036854775807.
Definition min_int : Z := -9223372036854775808.
Definition two64 : Z := 18446744073709551616.

(* two's-complement wrap of a mathematical integer into int64 *)
Definition wrap64 (z : Z) : Z := ((z + 9223372036854775808) mod two64) - 9223372036854775808.

(* Go's / and % truncate toward zero *)
Definition go_div (a b : Z) : Z := Z.quot a b.
Definition go_mod (a b : Z) : Z := Z.rem a b.

(* saturating add used as the reference for "unlimited" totals *)
Definition satadd (a b : Z) : Z := if Z.leb max_int (a + b) then max_int else a + b.

Definition in_int64 (z : Z) : bool := Z.leb min_int z && Z.leb z max_int.
