(* Base/KV.v — abstract key-value servers used by the lock / ephemeral /
   metadata-store models.  Executable, no proofs (lemmas live in KVProofs.v).

   Two servers, both with a discrete clock ([Z], unit left to the client model:
   the lock models use milliseconds for redis and seconds-ticks for etcd).

   * etcd  : one global revision counter; every key carries create / mod
             revision, version and an optional lease; leases have a ttl and an
             absolute deadline; revoke / expiry deletes the attached keys in ONE
             revision; a txn is a single atomic step (the functions below are the
             txn shapes the anchored code uses: put-if-absent, delete,
             delete-if-create-revision, ranges sorted by create revision).
   * redis : keys with an optional absolute expiry; SET NX [PX], GET, DEL,
             EXPIRE, compare-and-delete (the Lua script of redislock), PEXPIRE-if
             (the Lua refresh script).  Expiry is eager: [r_tick] purges.

   The key and value types are parameters; every function takes the key
   equality as its first explicit argument so that instances are plain
   applications (no functors, no type classes). *)
From Coq Require Import List Bool ZArith.
Import ListNotations.
Local Open Scope Z_scope.

(* ------------------------------------------------------------------ etcd *)
Section Etcd.
  Context {K V : Type}.
  Variable keqb : K -> K -> bool.

  Record ekv := mkEkv {
    ek_key : K; ek_val : V;
    ek_create : Z;            (* create revision *)
    ek_mod : Z;               (* mod revision *)
    ek_version : Z;           (* number of puts since creation *)
    ek_lease : Z }.           (* 0 = no lease (clientv3.NoLease) *)

  Record lease := mkLease { l_id : Z; l_ttl : Z; l_deadline : Z }.

  Record etcd := mkEtcd {
    e_rev : Z;                (* store revision (header revision) *)
    e_kvs : list ekv;
    e_leases : list lease;
    e_next_lease : Z;         (* ids handed out by Grant: fresh, > 0 *)
    e_now : Z }.

  Definition etcd_init : etcd := mkEtcd 1 [] [] 1 0.

  Definition e_get (s : etcd) (k : K) : option ekv :=
    find (fun x => keqb (ek_key x) k) (e_kvs s).
  Definition e_create_rev (s : etcd) (k : K) : Z :=
    match e_get s k with Some x => ek_create x | None => 0 end.
  Definition e_version_of (s : etcd) (k : K) : Z :=
    match e_get s k with Some x => ek_version x | None => 0 end.

  Definition e_find_lease (s : etcd) (id : Z) : option lease :=
    find (fun l => Z.eqb (l_id l) id) (e_leases s).
  Definition e_lease_live (s : etcd) (id : Z) : bool :=
    match e_find_lease s id with Some _ => true | None => false end.

  (* LeaseGrant: a fresh id; the deadline is now + ttl *)
  Definition e_grant (s : etcd) (ttl : Z) : Z * etcd :=
    let id := e_next_lease s in
    (id, mkEtcd (e_rev s) (e_kvs s) (mkLease id ttl (e_now s + ttl) :: e_leases s)
                (id + 1) (e_now s)).

  (* LeaseKeepAlive(Once): false = lease not found *)
  Definition e_keepalive (s : etcd) (id : Z) : bool * etcd :=
    match e_find_lease s id with
    | None => (false, s)
    | Some _ =>
      (true, mkEtcd (e_rev s) (e_kvs s)
               (map (fun l => if Z.eqb (l_id l) id
                              then mkLease id (l_ttl l) (e_now s + l_ttl l) else l) (e_leases s))
               (e_next_lease s) (e_now s))
    end.

  (* Put.  [None] = rejected (lease given but not found); otherwise the store at
     revision rev+1. *)
  Definition e_put (s : etcd) (k : K) (v : V) (lid : Z) : option etcd :=
    if negb (Z.eqb lid 0) && negb (e_lease_live s lid) then None else
    let r := e_rev s + 1 in
    let kvs' :=
      match e_get s k with
      | None => e_kvs s ++ [mkEkv k v r r 1 lid]
      | Some _ => map (fun x => if keqb (ek_key x) k
                                then mkEkv k v (ek_create x) r (ek_version x + 1) lid else x) (e_kvs s)
      end in
    Some (mkEtcd r kvs' (e_leases s) (e_next_lease s) (e_now s)).

  (* Txn If(CreateRevision(k) = 0) Then Put(k, v, lease).
     Result: (succeeded, store).  Version(k) = 0 is the same test. *)
  Definition e_put_if_absent (s : etcd) (k : K) (v : V) (lid : Z) : option (bool * etcd) :=
    match e_get s k with
    | Some _ => Some (false, s)
    | None => match e_put s k v lid with Some s' => Some (true, s') | None => None end
    end.

  (* Delete(k): number of deleted keys, store (revision bumps only if deleted) *)
  Definition e_delete (s : etcd) (k : K) : Z * etcd :=
    match e_get s k with
    | None => (0, s)
    | Some _ => (1, mkEtcd (e_rev s + 1) (filter (fun x => negb (keqb (ek_key x) k)) (e_kvs s))
                           (e_leases s) (e_next_lease s) (e_now s))
    end.

  (* Txn If(CreateRevision(k) = r) Then Delete(k) *)
  Definition e_delete_if_create (s : etcd) (k : K) (r : Z) : bool * etcd :=
    if Z.eqb (e_create_rev s k) r then (true, snd (e_delete s k)) else (false, s).

  (* remove all keys attached to the lease, in one revision *)
  Definition e_detach (s : etcd) (id : Z) : etcd :=
    let gone := existsb (fun x => Z.eqb (ek_lease x) id) (e_kvs s) in
    mkEtcd (if gone then e_rev s + 1 else e_rev s)
           (filter (fun x => negb (Z.eqb (ek_lease x) id)) (e_kvs s))
           (filter (fun l => negb (Z.eqb (l_id l) id)) (e_leases s))
           (e_next_lease s) (e_now s).

  (* LeaseRevoke: false = lease not found *)
  Definition e_revoke (s : etcd) (id : Z) : bool * etcd :=
    if e_lease_live s id then (true, e_detach s id) else (false, s).

  (* clock: advance by d, then expire every lease whose deadline has passed *)
  Definition e_expired_ids (s : etcd) : list Z :=
    map l_id (filter (fun l => Z.leb (l_deadline l) (e_now s)) (e_leases s)).
  Definition e_tick (s : etcd) (d : Z) : etcd :=
    let s1 := mkEtcd (e_rev s) (e_kvs s) (e_leases s) (e_next_lease s) (e_now s + d) in
    fold_left e_detach (e_expired_ids s1) s1.

  (* ranges *)
  Definition e_range (s : etcd) (p : K -> bool) : list ekv :=
    filter (fun x => p (ek_key x)) (e_kvs s).
  Fixpoint min_create (l : list ekv) : option ekv :=
    match l with
    | [] => None
    | x :: t => match min_create t with
                | None => Some x
                | Some y => if Z.leb (ek_create x) (ek_create y) then Some x else Some y
                end
    end.
  Fixpoint max_create (l : list ekv) : option ekv :=
    match l with
    | [] => None
    | x :: t => match max_create t with
                | None => Some x
                | Some y => if Z.leb (ek_create y) (ek_create x) then Some x else Some y
                end
    end.
  (* Get(prefix, WithFirstCreate()) *)
  Definition e_first_create (s : etcd) (p : K -> bool) : option ekv := min_create (e_range s p).
  (* Get(prefix, WithLastCreate(), WithMaxCreateRev(m)) *)
  Definition e_last_create_upto (s : etcd) (p : K -> bool) (m : Z) : option ekv :=
    max_create (filter (fun x => Z.leb (ek_create x) m) (e_range s p)).
End Etcd.

Arguments ekv : clear implicits.
Arguments etcd : clear implicits.
Arguments etcd_init {K V}.

(* ----------------------------------------------------------------- redis *)
Section Redis.
  Context {K V : Type}.
  Variable keqb : K -> K -> bool.
  Variable veqb : V -> V -> bool.

  Record rkv := mkRkv { rk_key : K; rk_val : V; rk_exp : option Z }.  (* absolute expiry *)
  Record redis := mkRedis { r_now : Z; r_kvs : list rkv }.

  Definition redis_init : redis := mkRedis 0 [].

  Definition rkv_live (now : Z) (x : rkv) : bool :=
    match rk_exp x with None => true | Some t => Z.ltb now t end.

  Definition r_find (s : redis) (k : K) : option rkv :=
    find (fun x => keqb (rk_key x) k && rkv_live (r_now s) x) (r_kvs s).
  Definition r_get (s : redis) (k : K) : option V :=
    match r_find s k with Some x => Some (rk_val x) | None => None end.
  Definition r_exists (s : redis) (k : K) : bool :=
    match r_find s k with Some _ => true | None => false end.

  Definition r_remove (s : redis) (k : K) : list rkv :=
    filter (fun x => negb (keqb (rk_key x) k)) (r_kvs s).

  (* SET k v [PX ttl]   (ttl <= 0 or None: no expiry) *)
  Definition r_set (s : redis) (k : K) (v : V) (ttl : option Z) : redis :=
    let e := match ttl with Some d => if Z.ltb 0 d then Some (r_now s + d) else None | None => None end in
    mkRedis (r_now s) (r_remove s k ++ [mkRkv k v e]).

  (* SET k v NX [PX ttl] *)
  Definition r_setnx (s : redis) (k : K) (v : V) (ttl : option Z) : bool * redis :=
    if r_exists s k then (false, s) else (true, r_set s k v ttl).

  (* DEL k *)
  Definition r_del (s : redis) (k : K) : Z * redis :=
    if r_exists s k then (1, mkRedis (r_now s) (r_remove s k)) else (0, s).

  (* EXPIRE / PEXPIRE k ttl: false when the key does not exist *)
  Definition r_expire (s : redis) (k : K) (ttl : Z) : bool * redis :=
    match r_find s k with
    | None => (false, s)
    | Some x => if Z.leb ttl 0 then (true, mkRedis (r_now s) (r_remove s k))
                else (true, mkRedis (r_now s) (r_remove s k ++ [mkRkv k (rk_val x) (Some (r_now s + ttl))]))
    end.

  (* Lua: if get(k) == v then return del(k) else return 0 *)
  Definition r_cad (s : redis) (k : K) (v : V) : bool * redis :=
    match r_get s k with
    | Some v' => if veqb v' v then (true, snd (r_del s k)) else (false, s)
    | None => (false, s)
    end.

  (* Lua: if get(k) == v then return pexpire(k, ttl) else return 0 *)
  Definition r_pexpire_if (s : redis) (k : K) (v : V) (ttl : Z) : bool * redis :=
    match r_get s k with
    | Some v' => if veqb v' v then r_expire s k ttl else (false, s)
    | None => (false, s)
    end.

  (* remaining ttl: None = no key, Some None = no expiry *)
  Definition r_ttl (s : redis) (k : K) : option (option Z) :=
    match r_find s k with
    | None => None
    | Some x => Some (match rk_exp x with None => None | Some t => Some (t - r_now s) end)
    end.

  (* clock: advance and purge *)
  Definition r_tick (s : redis) (d : Z) : redis :=
    let now := r_now s + d in
    mkRedis now (filter (rkv_live now) (r_kvs s)).
End Redis.

Arguments rkv : clear implicits.
Arguments redis : clear implicits.
Arguments redis_init {K V}.
