(* Go float64 = IEEE-754 binary64, modelled bit-exactly with Flocq.
   NOTE (trusted base): any definition mentioning these operations depends on the
   standard-library axioms ClassicalDedekindReals.sig_not_dec, sig_forall_dec,
   FunctionalExtensionality.functional_extensionality_dep and
   Classical_Prop.classic, because Flocq's operations carry proofs over Reals. *)
From Coq Require Import ZArith Bool.
From Flocq Require Import IEEE754.BinarySingleNaN IEEE754.Binary IEEE754.Bits Core.
Open Scope Z_scope.

Definition f64 := binary64.
Definition fb (bits : Z) : f64 := b64_of_bits bits.          (* math.Float64frombits *)
Definition fbits (f : f64) : Z := bits_of_b64 f.               (* math.Float64bits *)

Definition fadd (a b : f64) : f64 := b64_plus mode_NE a b.
Definition fsub (a b : f64) : f64 := b64_minus mode_NE a b.
Definition fmul (a b : f64) : f64 := b64_mult mode_NE a b.
Definition fdiv (a b : f64) : f64 := b64_div mode_NE a b.

(* float64(int) for |z| < 2^53 is exact; in general round to nearest even *)
Definition f_of_Z (z : Z) : f64 := binary_normalize 53 1024 (eq_refl _) (eq_refl _) mode_NE z 0 false.

(* comparisons; NaN compares false as in Go *)
Definition flt (a b : f64) : bool :=
  match Bcompare 53 1024 a b with Some Lt => true | _ => false end.
Definition fle (a b : f64) : bool :=
  match Bcompare 53 1024 a b with Some Lt | Some Eq => true | _ => false end.
Definition feq (a b : f64) : bool :=
  match Bcompare 53 1024 a b with Some Eq => true | _ => false end.
Definition fgt (a b : f64) : bool := flt b a.

Definition f_finite (a : f64) : bool := is_finite 53 1024 a.

(* Go's int(f) for finite f in range: truncation toward zero *)
Definition f_trunc (a : f64) : Z :=
  match a with
  | B754_finite _ _ s m e _ =>
      let z := match e with
               | Z0 => Zpos m
               | Zpos p => Zpos m * Z.pow 2 (Zpos p)
               | Zneg p => Z.quot (Zpos m) (Z.pow 2 (Zpos p))
               end in
      if s then - z else z
  | _ => 0
  end.

(* bit equality: what the correspondence check compares *)
Definition fbits_eqb (a b : f64) : bool := Z.eqb (fbits a) (fbits b).
