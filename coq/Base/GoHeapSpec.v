(* Specification lemmas for the exact container/heap model of Base/GoHeap.v.

   Part 1 (section Perm, no hypotheses on [less]): get/set/swap algebra, length
   and Permutation preservation for down/up/init/push/pop.

   Part 2 (section Order): heap-shape invariant.  [hle a b := negb (less b a)]
   is assumed reflexive, transitive and total ON THE ELEMENTS SATISFYING A
   PREDICATE [P] (e.g. "not NaN" for float keys); every lemma asks
   [Forall P l].  Section OrderAll below re-exports the lemmas for [P := True],
   i.e. for a [less] whose negation is a total preorder on the whole type.

   heap_inv l            : every element is >= its parent (Go's heap invariant)
   init_inv / push_inv / pop_inv, pop_min, heap_root_min, up_heap_id. *)
From Coq Require Import List Bool Arith Lia Permutation ZArith ZifyNat ZifyBool.
From Verif Require Import Base.GoHeap.
Import ListNotations.
Ltac Zify.zify_post_hook ::= Z.div_mod_to_equations.

Section Basic.
Variable A : Type.
Variable d : A.

Notation get := (get d).
Notation swap := (swap d).

Lemma set_length (l : list A) i x : length (set l i x) = length l.
Proof. revert i; induction l as [|h t IH]; intros [|i]; simpl; auto. Qed.

Lemma get_set_eq (l : list A) i x : (i < length l)%nat -> get (set l i x) i = x.
Proof.
  revert i; induction l as [|h t IH]; intros [|i] H; simpl in *; try lia; auto.
  apply IH; lia.
Qed.

Lemma get_set_neq (l : list A) i j x : i <> j -> get (set l i x) j = get l j.
Proof.
  revert i j; induction l as [|h t IH]; intros i j H.
  - destruct i; reflexivity.
  - destruct i as [|i], j as [|j]; simpl; auto; try lia.
Qed.

Lemma swap_length (l : list A) i j : length (swap l i j) = length l.
Proof. unfold GoHeap.swap. rewrite !set_length. reflexivity. Qed.

Lemma get_swap_l (l : list A) i j :
  (i < length l)%nat -> (j < length l)%nat -> get (swap l i j) i = get l j.
Proof.
  intros Hi Hj. unfold GoHeap.swap.
  destruct (Nat.eq_dec i j) as [->|Hne].
  - rewrite get_set_eq; auto. rewrite set_length; auto.
  - rewrite get_set_neq by auto. rewrite get_set_eq; auto.
Qed.
Lemma get_swap_r (l : list A) i j :
  (i < length l)%nat -> (j < length l)%nat -> get (swap l i j) j = get l i.
Proof. intros Hi Hj. unfold GoHeap.swap. rewrite get_set_eq; auto. rewrite set_length; auto. Qed.
Lemma get_swap_o (l : list A) i j k : k <> i -> k <> j -> get (swap l i j) k = get l k.
Proof. intros H1 H2. unfold GoHeap.swap. rewrite !get_set_neq; auto. Qed.

Lemma get_in (l : list A) i : (i < length l)%nat -> In (get l i) l.
Proof. intro H. apply nth_In; exact H. Qed.

Lemma in_get (l : list A) y : In y l -> exists i, (i < length l)%nat /\ get l i = y.
Proof. intro H. destruct (In_nth l y d H) as (i & Hi & E). exists i; auto. Qed.

(* ---- permutations ---- *)
Lemma set_perm (l : list A) i x :
  (i < length l)%nat -> Permutation (x :: l) (get l i :: set l i x).
Proof.
  revert i; induction l as [|h t IH]; intros [|i] H; simpl in *; try lia.
  - apply perm_swap.
  - eapply perm_trans; [apply perm_swap|].
    eapply perm_trans; [apply perm_skip; apply (IH i); lia|].
    apply perm_swap.
Qed.

Lemma swap_perm (l : list A) i j :
  (i < length l)%nat -> (j < length l)%nat -> Permutation (swap l i j) l.
Proof.
  intros Hi Hj. symmetry.
  apply Permutation_cons_inv with (a := get l j).
  eapply perm_trans; [apply (set_perm l i (get l j) Hi)|].
  set (l1 := set l i (get l j)).
  assert (Hl1 : (j < length l1)%nat) by (unfold l1; rewrite set_length; exact Hj).
  eapply perm_trans; [apply (set_perm l1 j (get l i) Hl1)|].
  assert (E : get l1 j = get l j).
  { unfold l1. destruct (Nat.eq_dec i j) as [->|Hne].
    - apply get_set_eq; auto.
    - apply get_set_neq; auto. }
  rewrite E. apply Permutation_refl.
Qed.

Lemma firstn_last_nth (l : list A) n :
  length l = S n -> l = firstn n l ++ [get l n].
Proof.
  revert n; induction l as [|h t IH]; intros n H; simpl in H; [lia|].
  destruct n as [|n].
  - destruct t; simpl in *; [reflexivity|lia].
  - simpl. f_equal. apply IH. lia.
Qed.

Lemma get_firstn (l : list A) n k : (k < n)%nat -> get (firstn n l) k = get l k.
Proof.
  revert n k; induction l as [|h t IH]; intros n k H.
  - rewrite firstn_nil. reflexivity.
  - destruct n as [|n]; [lia|]. destruct k as [|k]; simpl; auto. apply IH; lia.
Qed.

End Basic.

Section Perm.
Variable A : Type.
Variable d : A.
Variable less : A -> A -> bool.

Notation get := (get d).
Notation swap := (swap d).
Notation down := (down d less).
Notation up := (up d less).
Notation init := (init d less).
Notation push := (push d less).
Notation pop := (pop d less).

Lemma down_length fuel : forall (l : list A) i n, length (down fuel l i n) = length l.
Proof.
  induction fuel as [|f IH]; intros l i n; simpl; auto.
  destruct (Nat.leb n (i + (i + 0) + 1)); auto.
  match goal with |- context [negb ?b] => destruct b end; simpl; auto.
  rewrite IH, swap_length; auto.
Qed.

Lemma up_length fuel : forall (l : list A) j, length (up fuel l j) = length l.
Proof.
  induction fuel as [|f IH]; intros l j; simpl; auto.
  destruct j as [|j]; auto.
  match goal with |- context [negb ?b] => destruct b end; simpl; auto.
  rewrite IH, swap_length; auto.
Qed.

Lemma down_S f (l : list A) i n : down (S f) l i n =
    if Nat.leb n (2 * i + 1) then l else
    let j := if andb (Nat.ltb (2 * i + 1 + 1) n) (less (get l (2 * i + 1 + 1)) (get l (2 * i + 1)))
             then (2 * i + 1 + 1)%nat else (2 * i + 1)%nat in
    if negb (less (get l j) (get l i)) then l else down f (swap l i j) j n.
Proof. reflexivity. Qed.
Lemma down_0 (l : list A) i n : down 0 l i n = l.
Proof. reflexivity. Qed.

Lemma up_S f (l : list A) j : up (S f) l j =
    match j with
    | O => l
    | _ => let i := ((j - 1) / 2)%nat in
           if negb (less (get l j) (get l i)) then l else up f (swap l i j) i
    end.
Proof. reflexivity. Qed.
Lemma up_0 (l : list A) j : up 0 l j = l.
Proof. reflexivity. Qed.

Lemma down_perm fuel : forall (l : list A) i n,
  (n <= length l)%nat -> Permutation (down fuel l i n) l.
Proof.
  induction fuel as [|f IH]; intros l i n Hn.
  - rewrite down_0. apply Permutation_refl.
  - rewrite down_S.
    destruct (Nat.leb_spec n (2 * i + 1)) as [Hc|Hc]; [apply Permutation_refl|].
    cbv zeta.
    match goal with |- context [if ?c then (2 * i + 1 + 1)%nat else ?e] => set (j := if c then (2 * i + 1 + 1)%nat else e) end.
    assert (Hj : (j < n)%nat /\ (i < j)%nat).
    { subst j. destruct (Nat.ltb_spec (2 * i + 1 + 1) n); cbn [andb].
      - destruct (less _ _); lia.
      - lia. }
    destruct (negb _); [apply Permutation_refl|].
    eapply perm_trans.
    + apply IH. rewrite swap_length; exact Hn.
    + apply swap_perm; lia.
Qed.

Lemma up_perm fuel : forall (l : list A) j,
  (j < length l)%nat -> Permutation (up fuel l j) l.
Proof.
  induction fuel as [|f IH]; intros l j Hj.
  - rewrite up_0. apply Permutation_refl.
  - rewrite up_S. destruct j as [|j']; [apply Permutation_refl|].
    cbv zeta. set (i := ((S j' - 1) / 2)%nat).
    assert (Hi : (i <= j')%nat) by (subst i; lia).
    destruct (negb _); [apply Permutation_refl|].
    eapply perm_trans.
    + apply IH. rewrite swap_length; lia.
    + apply swap_perm; lia.
Qed.

(* down never touches positions >= n *)
Lemma down_get_ge fuel : forall (l : list A) i n k,
  (n <= k)%nat -> get (down fuel l i n) k = get l k.
Proof.
  induction fuel as [|f IH]; intros l i n k Hk.
  - reflexivity.
  - rewrite down_S.
    destruct (Nat.leb_spec n (2 * i + 1)) as [Hc|Hc]; [reflexivity|].
    cbv zeta.
    match goal with |- context [if ?c then (2 * i + 1 + 1)%nat else ?e] => set (j := if c then (2 * i + 1 + 1)%nat else e) end.
    assert (Hj : (j < n)%nat /\ (i < j)%nat).
    { subst j. destruct (Nat.ltb_spec (2 * i + 1 + 1) n); cbn [andb].
      - destruct (less _ _); lia.
      - lia. }
    destruct (negb _); [reflexivity|].
    rewrite IH by exact Hk. apply get_swap_o; lia.
Qed.

Lemma init_loop_length k : forall (l : list A) n,
  length (init_loop A d less k l n) = length l.
Proof.
  induction k as [|k IH]; intros l n; simpl; auto.
  rewrite IH, down_length; auto.
Qed.

Lemma init_loop_perm k : forall (l : list A) n,
  (n <= length l)%nat -> Permutation (init_loop A d less k l n) l.
Proof.
  induction k as [|k IH]; intros l n Hn; simpl.
  - apply Permutation_refl.
  - eapply perm_trans.
    + apply IH. rewrite down_length; exact Hn.
    + apply down_perm; exact Hn.
Qed.

Lemma init_length (l : list A) : length (init l) = length l.
Proof. unfold GoHeap.init. apply init_loop_length. Qed.

Lemma init_perm (l : list A) : Permutation (init l) l.
Proof. unfold GoHeap.init. apply init_loop_perm. lia. Qed.

Lemma push_length (l : list A) x : length (push l x) = S (length l).
Proof. unfold GoHeap.push. rewrite up_length, app_length. simpl. lia. Qed.

Lemma push_perm (l : list A) x : Permutation (push l x) (x :: l).
Proof.
  unfold GoHeap.push. eapply perm_trans.
  - apply up_perm. rewrite app_length; simpl; lia.
  - symmetry. apply Permutation_cons_append.
Qed.

Lemma pop_none (l : list A) : pop l = None <-> l = [].
Proof. destruct l; simpl; split; intro H; auto; discriminate. Qed.

Lemma pop_some (l : list A) : l <> [] -> exists x l', pop l = Some (x, l').
Proof. destruct l as [|a t]; [congruence|]. intros _. unfold GoHeap.pop. eauto. Qed.

Lemma pop_unfold (l : list A) x l' :
  pop l = Some (x, l') ->
  let n := (length l - 1)%nat in
  let l2 := down (length l) (swap l 0 n) 0 n in
  l <> [] /\ x = get l2 n /\ l' = firstn n l2.
Proof.
  destruct l as [|a t]; [discriminate|].
  unfold GoHeap.pop. intro H. injection H as <- <-.
  split; [congruence|]. split; reflexivity.
Qed.

Lemma pop_perm (l : list A) x l' : pop l = Some (x, l') -> Permutation l (x :: l').
Proof.
  intro H. apply pop_unfold in H. cbv zeta in H. destruct H as (Hne & -> & ->).
  set (n := (length l - 1)%nat).
  assert (Hlen : length l = S n) by (destruct l; [congruence|simpl in *; lia]).
  set (l2 := down (length l) (swap l 0 n) 0 n).
  assert (Hl2 : length l2 = S n) by (unfold l2; rewrite down_length, swap_length; exact Hlen).
  assert (Hp : Permutation l2 l).
  { unfold l2. eapply perm_trans.
    - apply down_perm. rewrite swap_length. lia.
    - apply swap_perm; lia. }
  symmetry. eapply perm_trans; [|exact Hp].
  rewrite (firstn_last_nth A d l2 n Hl2) at 3.
  apply Permutation_cons_append.
Qed.

Lemma pop_length (l : list A) x l' : pop l = Some (x, l') -> length l = S (length l').
Proof.
  intro H. apply pop_perm in H. apply Permutation_length in H. simpl in H. exact H.
Qed.

(* pop returns the old root *)
Lemma pop_root (l : list A) x l' : pop l = Some (x, l') -> x = get l 0.
Proof.
  intro H. apply pop_unfold in H. cbv zeta in H. destruct H as (Hne & -> & _).
  assert (Hlen : (0 < length l)%nat) by (destruct l; [congruence|simpl; lia]).
  rewrite down_get_ge by lia.
  apply get_swap_r; lia.
Qed.
End Perm.

(* ------------------------------------------------------------------------ *)
Section Order.
Variable A : Type.
Variable d : A.
Variable less : A -> A -> bool.
Variable P : A -> Prop.
Definition hle (a b : A) := negb (less b a).
Hypothesis le_refl : forall a, P a -> hle a a = true.
Hypothesis le_trans : forall a b c, P a -> P b -> P c -> hle a b = true -> hle b c = true -> hle a c = true.
Hypothesis le_total : forall a b, P a -> P b -> hle a b = true \/ hle b a = true.

Notation get := (get d).
Notation swap := (swap d).
Notation down := (down d less).
Notation up := (up d less).
Notation init := (init d less).
Notation push := (push d less).
Notation pop := (pop d less).

Lemma get_P (l : list A) i : Forall P l -> (i < length l)%nat -> P (get l i).
Proof. intros H Hi. rewrite Forall_forall in H. apply H. apply get_in; exact Hi. Qed.

Lemma perm_P (l l' : list A) : Permutation l l' -> Forall P l -> Forall P l'.
Proof. intros Hp H. rewrite Forall_forall in *. intros x Hx. apply H. eapply Permutation_in; [symmetry; exact Hp|exact Hx]. Qed.

Lemma swap_P (l : list A) i j :
  (i < length l)%nat -> (j < length l)%nat -> Forall P l -> Forall P (swap l i j).
Proof. intros Hi Hj H. eapply perm_P; [symmetry; apply swap_perm; eauto|exact H]. Qed.

Lemma less_le a b : P a -> P b -> less a b = true -> hle a b = true.
Proof.
  intros Pa Pb H. destruct (le_total a b Pa Pb) as [|H']; auto.
  unfold hle in H'. rewrite H in H'. discriminate.
Qed.

(* heap property on the prefix of length n *)
Definition edge (l : list A) (j : nat) := hle (get l ((j - 1) / 2)) (get l j) = true.
Definition heap_upto (l : list A) (n : nat) := forall j, (0 < j < n)%nat -> edge l j.
Definition heap_inv (l : list A) := heap_upto l (length l).
(* edges whose parent index is >= k *)
Definition heap_from (l : list A) (k n : nat) :=
  forall j, (0 < j < n)%nat -> (k <= (j - 1) / 2)%nat -> edge l j.
(* heap (from k) everywhere except edges whose parent is i; plus parent(i) <= children(i) *)
Definition heap_except_from (l : list A) (k i n : nat) :=
  (forall j, (0 < j < n)%nat -> (k <= (j - 1) / 2)%nat -> ((j - 1) / 2 <> i)%nat -> edge l j) /\
  (forall j, (0 < j < n)%nat -> ((j - 1) / 2 = i)%nat -> (0 < i)%nat -> (k <= (i - 1) / 2)%nat ->
             hle (get l ((i - 1) / 2)) (get l j) = true).
Definition heap_except (l : list A) (i n : nat) := heap_except_from l 0 i n.

Lemma heap_from_0 l n : heap_from l 0 n <-> heap_upto l n.
Proof. unfold heap_from, heap_upto. split; intros H j Hj; [apply H; auto; lia|intros _; apply H; auto]. Qed.

Lemma down_fix_from : forall fuel l k i n,
  Forall P l -> (n <= length l)%nat -> (n - i <= fuel)%nat -> (k <= i)%nat ->
  heap_except_from l k i n -> heap_from (down fuel l i n) k n.
Proof.
  induction fuel as [|f IH]; intros l k i n HP Hn Hf Hk [He Hg].
  - rewrite down_0. intros j Hj Hkj. apply He; auto. lia.
  - rewrite down_S.
    destruct (Nat.leb_spec n (2 * i + 1)) as [Hnc|Hc].
    + intros j Hj Hkj. apply He; auto. lia.
    + set (j1 := (2 * i + 1)%nat) in *.
      set (j2 := (j1 + 1)%nat).
      set (j := if (j2 <? n)%nat && less (get l j2) (get l j1) then j2 else j1).
      assert (Hjr : (j = j1 \/ (j = j2 /\ (j2 < n)%nat)) /\ (j < n)%nat /\ ((j - 1) / 2 = i)%nat).
      { subst j. destruct (Nat.ltb_spec j2 n) as [Hlt|Hge]; cbn [andb].
        - destruct (less (get l j2) (get l j1)).
          + split; [right; split; [reflexivity|exact Hlt]|]. subst j1 j2; split; lia.
          + split; [left; reflexivity|]. subst j1 j2; split; lia.
        - split; [left; reflexivity|]. subst j1 j2; split; lia. }
      destruct Hjr as (Hjcase & Hjn & Hjp).
      assert (Pg : forall c, (c < n)%nat -> P (get l c)) by (intros; apply get_P; auto; lia).
      assert (Hmin : forall c, (0 < c < n)%nat -> ((c - 1) / 2 = i)%nat -> hle (get l j) (get l c) = true).
      { intros c Hc1 Hc2. assert (c = j1 \/ c = j2) as [->| ->] by (subst j1 j2; lia).
        - subst j. destruct (Nat.ltb_spec j2 n); simpl; [|apply le_refl; apply Pg; lia].
          destruct (less (get l j2) (get l j1)) eqn:E; [apply less_le; auto; apply Pg; lia|apply le_refl; apply Pg; lia].
        - subst j. destruct (Nat.ltb_spec j2 n); simpl; [|lia].
          destruct (less (get l j2) (get l j1)) eqn:E; [apply le_refl; apply Pg; lia|].
          unfold hle. rewrite E. reflexivity. }
      fold j1. fold j2. fold j. cbv zeta. clearbody j.
      destruct (less (get l j) (get l i)) eqn:Eji; cbn [negb].
      * assert (Hil : (i < length l)%nat) by lia. assert (Hjl : (j < length l)%nat) by lia.
        assert (Hij : i <> j) by lia.
        apply IH.
        -- apply swap_P; auto.
        -- rewrite swap_length; auto.
        -- lia.
        -- lia.
        -- split.
           ++ intros c Hcr Hkc Hcp. unfold edge.
              destruct (Nat.eq_dec ((c - 1) / 2) i) as [Hpi|Hpi].
              ** rewrite Hpi. rewrite get_swap_l by auto.
                 destruct (Nat.eq_dec c j) as [->|Hcj].
                 --- rewrite get_swap_r by auto. apply less_le; auto; apply Pg; lia.
                 --- rewrite get_swap_o by lia. apply Hmin; auto.
              ** destruct (Nat.eq_dec c i) as [->|Hci].
                 --- rewrite get_swap_l by auto.
                     rewrite get_swap_o by lia.
                     apply Hg; auto; lia.
                 --- assert (c <> j) by (intro Hcj; apply Hpi; rewrite Hcj; exact Hjp).
                     rewrite get_swap_o by lia. rewrite get_swap_o by lia.
                     apply He; auto.
           ++ intros c Hcr Hcp Hj0 Hkj. rewrite Hjp.
              rewrite get_swap_l by auto. rewrite get_swap_o by lia.
              assert (edge l c) as Hec by (apply He; auto; lia).
              unfold edge in Hec. rewrite Hcp in Hec. exact Hec.
      * intros c Hcr Hkc. destruct (Nat.eq_dec ((c - 1) / 2) i) as [Hpi|Hpi].
        -- unfold edge. rewrite Hpi. apply le_trans with (get l j); try (apply Pg; lia).
           ++ unfold hle. rewrite Eji. reflexivity.
           ++ apply Hmin; auto.
        -- apply He; auto.
Qed.

Lemma down_fix : forall fuel l i n,
  Forall P l -> (n <= length l)%nat -> (n - i <= fuel)%nat ->
  heap_except l i n -> heap_upto (down fuel l i n) n.
Proof.
  intros. apply heap_from_0. apply down_fix_from; auto. lia.
Qed.

Lemma down_P fuel l i n : (n <= length l)%nat -> Forall P l -> Forall P (down fuel l i n).
Proof. intros Hn H. eapply perm_P; [symmetry; apply down_perm; auto|exact H]. Qed.

(* heap.Init establishes the invariant *)
Lemma init_loop_inv : forall k l n,
  Forall P l -> n = length l -> heap_from l k n ->
  heap_from (init_loop A d less k l n) 0 n.
Proof.
  induction k as [|k IH]; intros l n HP Hn H; simpl.
  - exact H.
  - apply IH.
    + apply down_P; [lia|exact HP].
    + rewrite down_length. exact Hn.
    + apply down_fix_from; auto; try lia.
      split.
      * intros j Hj Hkj Hne. apply H; auto. lia.
      * intros j Hj Hpj H0 Hkk. exfalso. lia.
Qed.

Lemma init_inv l : Forall P l -> heap_inv (init l).
Proof.
  intro HP. unfold heap_inv. rewrite init_length. apply heap_from_0.
  unfold GoHeap.init. apply init_loop_inv; auto.
  intros j Hj Hk. exfalso. lia.
Qed.

(* sift-up *)
Definition heap_except_up (l : list A) (j n : nat) :=
  (forall c, (0 < c < n)%nat -> c <> j -> edge l c) /\
  (forall c, (0 < c < n)%nat -> ((c - 1) / 2 = j)%nat -> (0 < j)%nat ->
             hle (get l ((j - 1) / 2)) (get l c) = true).

Lemma up_fix : forall fuel l j n,
  Forall P l -> (n <= length l)%nat -> (j < n)%nat -> (j <= fuel)%nat ->
  heap_except_up l j n -> heap_upto (up fuel l j) n.
Proof.
  induction fuel as [|f IH]; intros l j n HP Hn Hjn Hf [He Hg].
  - rewrite up_0. intros c Hc. apply He; auto. lia.
  - rewrite up_S. destruct j as [|j'].
    + intros c Hc. apply He; auto. lia.
    + set (j := S j') in *. cbv zeta. set (i := ((j - 1) / 2)%nat).
      assert (Hij : (i < j)%nat) by (subst i j; lia).
      assert (Pg : forall c, (c < n)%nat -> P (get l c)) by (intros; apply get_P; auto; lia).
      destruct (less (get l j) (get l i)) eqn:E; cbn [negb].
      * assert (Hil : (i < length l)%nat) by lia. assert (Hjl : (j < length l)%nat) by lia.
        apply IH.
        -- apply swap_P; auto.
        -- rewrite swap_length; auto.
        -- lia.
        -- lia.
        -- split.
           ++ intros c Hc Hci. unfold edge.
              destruct (Nat.eq_dec c j) as [->|Hcj].
              ** fold i. rewrite get_swap_l by auto. rewrite get_swap_r by auto.
                 apply less_le; auto; apply Pg; lia.
              ** destruct (Nat.eq_dec ((c - 1) / 2) j) as [Hpj|Hpj].
                 --- rewrite Hpj. rewrite get_swap_r by auto. rewrite get_swap_o by lia.
                     apply Hg; auto. lia.
                 --- destruct (Nat.eq_dec ((c - 1) / 2) i) as [Hpi|Hpi].
                     +++ rewrite Hpi. rewrite get_swap_l by auto. rewrite get_swap_o by lia.
                         apply le_trans with (get l i); try (apply Pg; lia).
                         *** apply less_le; auto; apply Pg; lia.
                         *** assert (edge l c) as Hec by (apply He; auto).
                             unfold edge in Hec. rewrite Hpi in Hec. exact Hec.
                     +++ rewrite get_swap_o by lia. rewrite get_swap_o by lia.
                         apply He; auto.
           ++ intros c Hc Hpc Hi0.
              assert (Hpi : ((i - 1) / 2 < i)%nat) by lia.
              rewrite (get_swap_o A d l i j ((i - 1) / 2)) by lia.
              assert (Hei : edge l i) by (apply He; lia).
              destruct (Nat.eq_dec c j) as [->|Hcj].
              ** rewrite get_swap_r by auto. exact Hei.
              ** rewrite get_swap_o by lia.
                 apply le_trans with (get l i); try (apply Pg; lia).
                 --- exact Hei.
                 --- assert (edge l c) as Hec by (apply He; auto).
                     unfold edge in Hec. rewrite Hpc in Hec. exact Hec.
      * intros c Hc. destruct (Nat.eq_dec c j) as [->|Hcj].
        -- unfold edge. fold i. unfold hle. rewrite E. reflexivity.
        -- apply He; auto.
Qed.

(* up on a list that already is a heap changes nothing (AUTO's filtered Push) *)
Lemma up_heap_id fuel l j n : heap_upto l n -> (j < n)%nat -> up fuel l j = l.
Proof.
  intros H Hj. destruct fuel as [|f]; [reflexivity|].
  rewrite up_S. destruct j as [|j']; [reflexivity|].
  cbv zeta. assert (He : edge l (S j')) by (apply H; lia).
  unfold edge, hle in He. rewrite He. reflexivity.
Qed.

Lemma up_nil fuel j : up fuel [] j = [].
Proof.
  revert j; induction fuel as [|f IH]; intro j; [reflexivity|].
  rewrite up_S. destruct j; [reflexivity|].
  cbv zeta. destruct (negb _); [reflexivity|]. apply IH.
Qed.

Lemma get_app_l (l : list A) x k : (k < length l)%nat -> get (l ++ [x]) k = get l k.
Proof. intro H. unfold GoHeap.get. apply app_nth1; exact H. Qed.

Lemma push_inv l x : Forall P l -> P x -> heap_inv l -> heap_inv (push l x).
Proof.
  intros HP Px H. unfold heap_inv. rewrite push_length.
  unfold GoHeap.push.
  assert (Hlen : length (l ++ [x]) = S (length l)) by (rewrite app_length; simpl; lia).
  rewrite Hlen. replace (S (length l) - 1)%nat with (length l) by lia.
  apply up_fix.
  - apply Forall_app; split; auto.
  - lia.
  - lia.
  - lia.
  - split.
    + intros c Hc Hne. unfold edge. rewrite !get_app_l by lia. apply H. lia.
    + intros c Hc Hpc Hl0. exfalso. lia.
Qed.

Lemma heap_root_min_idx l : Forall P l -> heap_inv l ->
  forall k, (k < length l)%nat -> hle (get l 0) (get l k) = true.
Proof.
  intros HP H k. induction k as [k IH] using lt_wf_ind. intro Hk.
  destruct k as [|k'].
  - apply le_refl. apply get_P; auto.
  - set (k := S k') in *.
    apply le_trans with (get l ((k - 1) / 2)); try (apply get_P; auto; lia).
    + apply IH; subst k; lia.
    + apply H. lia.
Qed.

Lemma heap_root_min l y : Forall P l -> heap_inv l -> In y l -> hle (get l 0) y = true.
Proof.
  intros HP H Hy. destruct (in_get A d l y Hy) as (k & Hk & <-).
  apply heap_root_min_idx; auto.
Qed.

Lemma heap_upto_firstn l n : (n <= length l)%nat -> heap_upto l n -> heap_inv (firstn n l).
Proof.
  intros Hn H. unfold heap_inv. rewrite firstn_length_le by exact Hn.
  intros j Hj. unfold edge. rewrite !get_firstn by lia. apply H. exact Hj.
Qed.

Lemma pop_inv l x l' : Forall P l -> heap_inv l -> pop l = Some (x, l') -> heap_inv l'.
Proof.
  intros HP H Hpop. apply pop_unfold in Hpop. cbv zeta in Hpop. destruct Hpop as (Hne & _ & ->).
  set (n := (length l - 1)%nat).
  assert (Hlen : length l = S n) by (destruct l; [congruence|simpl in *; lia]).
  apply heap_upto_firstn.
  - rewrite down_length, swap_length. lia.
  - apply down_fix.
    + apply swap_P; auto; lia.
    + rewrite swap_length. lia.
    + lia.
    + split.
      * intros j Hj _ Hp. unfold edge. rewrite !get_swap_o by lia. apply H. lia.
      * intros j Hj Hp H0. exfalso. lia.
Qed.

Lemma pop_min l x l' : Forall P l -> heap_inv l -> pop l = Some (x, l') ->
  (forall y, In y l -> hle x y = true) /\ heap_inv l'.
Proof.
  intros HP H Hpop. split.
  - intros y Hy. rewrite (pop_root A d less l x l' Hpop). apply heap_root_min; auto.
  - eapply pop_inv; eauto.
Qed.

(* everything a loop invariant needs about one Pop *)
Lemma pop_spec l : Forall P l -> heap_inv l -> l <> [] ->
  exists x l', pop l = Some (x, l') /\ Permutation l (x :: l') /\ heap_inv l' /\
               Forall P l' /\ P x /\ (forall y, In y l -> hle x y = true).
Proof.
  intros HP H Hne. destruct (pop_some A d less l Hne) as (x & l' & Hpop).
  exists x, l'. split; [exact Hpop|].
  assert (Hperm := pop_perm A d less l x l' Hpop).
  assert (HP' := perm_P _ _ Hperm HP).
  destruct (pop_min l x l' HP H Hpop) as [Hmin Hinv].
  repeat split; auto.
  - inversion HP'; auto.
  - inversion HP'; auto.
Qed.

Lemma heap_inv_nil : heap_inv [].
Proof. intros j Hj. simpl in Hj. lia. Qed.
End Order.

(* ------------------------------------------------------------------------ *)
(* The same for a [less] whose negation is a total preorder on the whole type. *)
Section OrderAll.
Variable A : Type.
Variable d : A.
Variable less : A -> A -> bool.
Hypothesis le_refl : forall a, hle A less a a = true.
Hypothesis le_trans : forall a b c, hle A less a b = true -> hle A less b c = true -> hle A less a c = true.
Hypothesis le_total : forall a b, hle A less a b = true \/ hle A less b a = true.

Let PT := fun _ : A => True.
Lemma all_PT (l : list A) : Forall PT l.
Proof. apply Forall_forall. intros; exact I. Qed.

Notation hinv := (heap_inv A d less).
Ltac pt := solve [apply all_PT | exact I | intros; eauto].

Lemma init_inv_all l : hinv (init d less l).
Proof. apply (init_inv A d less PT); pt. Qed.

Lemma push_inv_all l x : hinv l -> hinv (push d less l x).
Proof. apply (push_inv A d less PT); pt. Qed.

Lemma pop_inv_all l x l' : hinv l -> pop d less l = Some (x, l') -> hinv l'.
Proof. apply (pop_inv A d less PT); pt. Qed.

Lemma pop_min_all l x l' : hinv l -> pop d less l = Some (x, l') ->
  (forall y, In y l -> hle A less x y = true) /\ hinv l'.
Proof. apply (pop_min A d less PT); pt. Qed.

Lemma heap_root_min_all l y : hinv l -> In y l -> hle A less (get d l 0) y = true.
Proof. apply (heap_root_min A d less PT); pt. Qed.
End OrderAll.
