(* Lemmas about Base/GoStr.v: the byte-wise order is a strict total order, sort_str
   sorts, split/join facts, filepath.Clean on well-formed paths, hex codec. *)
From Coq Require Import List Bool Arith NArith String Ascii Lia Sorted Permutation.
From Verif Require Import Base.GoStr.
Import ListNotations.
Open Scope list_scope.

(* ---------- conversions ---------- *)
Lemma l2s_s2l : forall s, l2s (s2l s) = s.
Proof. exact string_of_list_ascii_of_string. Qed.
Lemma s2l_l2s : forall l, s2l (l2s l) = l.
Proof. exact list_ascii_of_string_of_list_ascii. Qed.
Lemma s2l_inj : forall a b, s2l a = s2l b -> a = b.
Proof. intros a b H. rewrite <- (l2s_s2l a), <- (l2s_s2l b), H. reflexivity. Qed.

(* ---------- bytes ---------- *)
Lemma N_of_ascii_inj : forall a b, N_of_ascii a = N_of_ascii b -> a = b.
Proof. intros a b H. rewrite <- (ascii_N_embedding a), <- (ascii_N_embedding b), H. reflexivity. Qed.

Lemma byte_ltb_irrefl : forall a, byte_ltb a a = false.
Proof. intros. unfold byte_ltb. apply N.ltb_irrefl. Qed.
Lemma byte_ltb_trans : forall a b c, byte_ltb a b = true -> byte_ltb b c = true -> byte_ltb a c = true.
Proof. unfold byte_ltb. intros a b c H1 H2. apply N.ltb_lt in H1, H2. apply N.ltb_lt. lia. Qed.
Lemma byte_ltb_total : forall a b, byte_ltb a b = false -> byte_ltb b a = false -> a = b.
Proof.
  unfold byte_ltb. intros a b H1 H2. apply N.ltb_ge in H1, H2. apply N_of_ascii_inj. lia.
Qed.
Lemma byte_ltb_asym : forall a b, byte_ltb a b = true -> byte_ltb b a = false.
Proof. unfold byte_ltb. intros a b H. apply N.ltb_lt in H. apply N.ltb_ge. lia. Qed.

Lemma bytes_eqb_eq : forall a b, bytes_eqb a b = true <-> a = b.
Proof.
  induction a as [|x a IH]; intros [|y b]; simpl; split; intro H; try reflexivity; try discriminate.
  - apply andb_true_iff in H. destruct H as [H1 H2]. apply Ascii.eqb_eq in H1. apply IH in H2. subst. reflexivity.
  - inversion H; subst. apply andb_true_iff. split; [apply Ascii.eqb_refl | apply IH; reflexivity].
Qed.
Lemma bytes_eqb_refl : forall a, bytes_eqb a a = true.
Proof. intros. apply bytes_eqb_eq. reflexivity. Qed.
Lemma bytes_eqb_neq : forall a b, bytes_eqb a b = false <-> a <> b.
Proof.
  intros a b. split; intro H.
  - intro E. apply bytes_eqb_eq in E. congruence.
  - destruct (bytes_eqb a b) eqn:E; [apply bytes_eqb_eq in E; contradiction | reflexivity].
Qed.

Lemma bytes_ltb_irrefl : forall a, bytes_ltb a a = false.
Proof. induction a as [|x a IH]; simpl; [reflexivity|]. rewrite byte_ltb_irrefl. exact IH. Qed.

Lemma bytes_ltb_asym : forall a b, bytes_ltb a b = true -> bytes_ltb b a = false.
Proof.
  induction a as [|x a IH]; intros [|y b] H; simpl in *; try reflexivity; try discriminate.
  destruct (byte_ltb x y) eqn:E1.
  - rewrite (byte_ltb_asym _ _ E1). reflexivity.
  - destruct (byte_ltb y x) eqn:E2; [discriminate|]. apply IH. exact H.
Qed.

Lemma bytes_ltb_total : forall a b, bytes_ltb a b = false -> bytes_ltb b a = false -> a = b.
Proof.
  induction a as [|x a IH]; intros [|y b] H1 H2; simpl in *; try reflexivity; try discriminate.
  destruct (byte_ltb x y) eqn:E1; [discriminate|].
  destruct (byte_ltb y x) eqn:E2; [discriminate|].
  rewrite (byte_ltb_total _ _ E1 E2). f_equal. apply IH; assumption.
Qed.

Lemma bytes_ltb_trans : forall a b c, bytes_ltb a b = true -> bytes_ltb b c = true -> bytes_ltb a c = true.
Proof.
  induction a as [|x a IH]; intros [|y b] [|z c] H1 H2; simpl in *; try reflexivity; try discriminate.
  destruct (byte_ltb x y) eqn:Exy.
  - destruct (byte_ltb y z) eqn:Eyz.
    + rewrite (byte_ltb_trans _ _ _ Exy Eyz). reflexivity.
    + destruct (byte_ltb z y) eqn:Ezy; [discriminate|].
      rewrite (byte_ltb_total _ _ Eyz Ezy) in Exy. rewrite Exy. reflexivity.
  - destruct (byte_ltb y x) eqn:Eyx; [discriminate|].
    pose proof (byte_ltb_total _ _ Exy Eyx) as ->.
    destruct (byte_ltb y z) eqn:Eyz; [reflexivity|].
    destruct (byte_ltb z y) eqn:Ezy; [discriminate|].
    eapply IH; eassumption.
Qed.

Lemma bytes_ltb_neq : forall a b, bytes_ltb a b = true -> a <> b.
Proof. intros a b H E. subst. rewrite bytes_ltb_irrefl in H. discriminate. Qed.

(* a <= b and b < c -> a < c, and variants *)
Lemma bytes_leb_ltb_trans : forall a b c, bytes_leb a b = true -> bytes_ltb b c = true -> bytes_ltb a c = true.
Proof.
  unfold bytes_leb. intros a b c H1 H2. apply negb_true_iff in H1.
  destruct (bytes_ltb a b) eqn:E.
  - eapply bytes_ltb_trans; eassumption.
  - rewrite (bytes_ltb_total _ _ E H1). exact H2.
Qed.
Lemma bytes_leb_trans : forall a b c, bytes_leb a b = true -> bytes_leb b c = true -> bytes_leb a c = true.
Proof.
  unfold bytes_leb. intros a b c H1 H2. apply negb_true_iff in H1, H2. apply negb_true_iff.
  destruct (bytes_ltb c a) eqn:E; [|reflexivity].
  destruct (bytes_ltb a b) eqn:Eab.
  - rewrite (bytes_ltb_trans _ _ _ E Eab) in H2. discriminate.
  - rewrite (bytes_ltb_total _ _ Eab H1) in E. congruence.
Qed.
Lemma bytes_leb_refl : forall a, bytes_leb a a = true.
Proof. intros. unfold bytes_leb. rewrite bytes_ltb_irrefl. reflexivity. Qed.
Lemma bytes_ltb_leb : forall a b, bytes_ltb a b = true -> bytes_leb a b = true.
Proof. intros. unfold bytes_leb. rewrite (bytes_ltb_asym _ _ H). reflexivity. Qed.
Lemma bytes_leb_total : forall a b, bytes_leb a b = true \/ bytes_leb b a = true.
Proof.
  intros. unfold bytes_leb. destruct (bytes_ltb b a) eqn:E; [right|left; reflexivity].
  rewrite (bytes_ltb_asym _ _ E). reflexivity.
Qed.
Lemma bytes_leb_neq_ltb : forall a b, bytes_leb a b = true -> a <> b -> bytes_ltb a b = true.
Proof.
  unfold bytes_leb. intros a b H N. apply negb_true_iff in H.
  destruct (bytes_ltb a b) eqn:E; [reflexivity|]. elim N. apply bytes_ltb_total; assumption.
Qed.

(* ---------- strings ---------- *)
Lemma str_ltb_irrefl : forall a, str_ltb a a = false.
Proof. intros. apply bytes_ltb_irrefl. Qed.
Lemma str_ltb_trans : forall a b c, str_ltb a b = true -> str_ltb b c = true -> str_ltb a c = true.
Proof. unfold str_ltb. intros. eapply bytes_ltb_trans; eassumption. Qed.
Lemma str_ltb_asym : forall a b, str_ltb a b = true -> str_ltb b a = false.
Proof. unfold str_ltb. intros. apply bytes_ltb_asym. assumption. Qed.
Lemma str_ltb_total : forall a b, str_ltb a b = false -> str_ltb b a = false -> a = b.
Proof. unfold str_ltb. intros. apply s2l_inj. apply bytes_ltb_total; assumption. Qed.
Lemma str_ltb_neq : forall a b, str_ltb a b = true -> a <> b.
Proof. intros a b H E. subst. rewrite str_ltb_irrefl in H. discriminate. Qed.
Lemma str_leb_refl : forall a, str_leb a a = true.
Proof. intros. apply bytes_leb_refl. Qed.
Lemma str_leb_trans : forall a b c, str_leb a b = true -> str_leb b c = true -> str_leb a c = true.
Proof. unfold str_leb. intros. eapply bytes_leb_trans; eassumption. Qed.
Lemma str_leb_neq_ltb : forall a b, str_leb a b = true -> a <> b -> str_ltb a b = true.
Proof.
  unfold str_leb, str_ltb. intros a b H N. apply bytes_leb_neq_ltb; [assumption|].
  intro E. apply N. apply s2l_inj. exact E.
Qed.
Lemma str_ltb_leb : forall a b, str_ltb a b = true -> str_leb a b = true.
Proof. unfold str_ltb, str_leb. intros. apply bytes_ltb_leb. assumption. Qed.
Lemma str_leb_ltb_trans : forall a b c, str_leb a b = true -> str_ltb b c = true -> str_ltb a c = true.
Proof. unfold str_ltb, str_leb. intros. eapply bytes_leb_ltb_trans; eassumption. Qed.
Lemma str_nlt_leb : forall a b, str_ltb a b = false -> str_leb b a = true.
Proof. unfold str_ltb, str_leb, bytes_leb. intros a b H. rewrite H. reflexivity. Qed.

Lemma mem_str_In : forall x l, mem_str x l = true <-> In x l.
Proof.
  induction l as [|y t IH]; simpl; [split; [discriminate|tauto]|].
  rewrite orb_true_iff, IH, String.eqb_eq. split; intros [H|H]; auto.
Qed.

(* ---------- sort_str ---------- *)
Definition sle (a b : string) : Prop := str_leb a b = true.
Definition slt (a b : string) : Prop := str_ltb a b = true.

Lemma insert_str_perm : forall x l, Permutation (x :: l) (insert_str x l).
Proof.
  induction l as [|y t IH]; simpl; [apply Permutation_refl|].
  destruct (str_ltb y x); [|apply Permutation_refl].
  eapply perm_trans; [apply perm_swap|]. apply perm_skip. exact IH.
Qed.
Lemma sort_str_perm : forall l, Permutation l (sort_str l).
Proof.
  induction l as [|x t IH]; simpl; [apply perm_nil|].
  eapply perm_trans; [apply perm_skip; exact IH|]. apply insert_str_perm.
Qed.
Lemma sort_str_In : forall x l, In x (sort_str l) <-> In x l.
Proof.
  intros. split; intro H.
  - eapply Permutation_in; [apply Permutation_sym; apply sort_str_perm|exact H].
  - eapply Permutation_in; [apply sort_str_perm|exact H].
Qed.

Lemma insert_str_sorted : forall x l, StronglySorted sle l -> StronglySorted sle (insert_str x l).
Proof.
  induction l as [|y t IH]; intro S; simpl.
  - constructor; constructor.
  - inversion S as [|? ? St Hy]; subst.
    destruct (str_ltb y x) eqn:E.
    + constructor; [apply IH; exact St|].
      apply Forall_forall. intros z Hz.
      apply (Permutation_in _ (Permutation_sym (insert_str_perm x t))) in Hz.
      destruct Hz as [<-|Hz]; [apply str_ltb_leb; exact E|].
      rewrite Forall_forall in Hy. apply Hy. exact Hz.
    + constructor; [exact S|].
      constructor; [apply str_nlt_leb; exact E|].
      rewrite Forall_forall in Hy |- *. intros z Hz.
      eapply str_leb_trans; [apply str_nlt_leb; exact E|apply Hy; exact Hz].
Qed.
Lemma sort_str_sorted : forall l, StronglySorted sle (sort_str l).
Proof.
  induction l as [|x t IH]; simpl; [constructor|]. apply insert_str_sorted. exact IH.
Qed.

(* two strictly sorted lists with the same elements are equal *)
Lemma strictly_sorted_unique : forall l1 l2,
  StronglySorted slt l1 -> StronglySorted slt l2 ->
  (forall x, In x l1 <-> In x l2) -> l1 = l2.
Proof.
  induction l1 as [|a t1 IH]; intros l2 S1 S2 H.
  - destruct l2 as [|b t2]; [reflexivity|]. exfalso. apply (H b). left. reflexivity.
  - destruct l2 as [|b t2]; [exfalso; apply (H a); left; reflexivity|].
    inversion S1 as [|? ? S1t Ha]; inversion S2 as [|? ? S2t Hb]; subst.
    rewrite Forall_forall in Ha, Hb.
    assert (a = b) as ->.
    { destruct (proj1 (H a) (or_introl eq_refl)) as [E|Hin]; [auto|].
      destruct (proj2 (H b) (or_introl eq_refl)) as [E|Hin2]; [auto|].
      pose proof (Hb _ Hin) as L1. pose proof (Ha _ Hin2) as L2. unfold slt in *.
      rewrite (str_ltb_asym _ _ L1) in L2. discriminate. }
    f_equal. apply IH; try assumption.
    intro x. split; intro Hx.
    + destruct (proj1 (H x) (or_intror Hx)) as [E|?]; [|assumption].
      subst. apply Ha in Hx. unfold slt in Hx. rewrite str_ltb_irrefl in Hx. discriminate.
    + destruct (proj2 (H x) (or_intror Hx)) as [E|?]; [|assumption].
      subst. apply Hb in Hx. unfold slt in Hx. rewrite str_ltb_irrefl in Hx. discriminate.
Qed.

(* ---------- prefixes ---------- *)
Lemma has_prefix_app : forall p s, has_prefix p (p ++ s) = true.
Proof. induction p as [|x p IH]; intro s; simpl; [reflexivity|]. rewrite Ascii.eqb_refl. apply IH. Qed.
Lemma drop_prefix_app : forall p s, drop_prefix p (p ++ s) = s.
Proof. induction p as [|x p IH]; intro s; simpl; [destruct s; reflexivity|]. apply IH. Qed.
Lemma trim_prefix_app : forall p s, trim_prefix p (p ++ s) = s.
Proof. intros. unfold trim_prefix. rewrite has_prefix_app. apply drop_prefix_app. Qed.
Lemma has_prefix_iff : forall p s, has_prefix p s = true <-> exists r, s = p ++ r.
Proof.
  induction p as [|x p IH]; intro s; simpl.
  - split; [intros _; exists s; reflexivity | reflexivity].
  - destruct s as [|y s]; [split; [discriminate | intros [r H]; discriminate]|].
    rewrite andb_true_iff, Ascii.eqb_eq, IH. split.
    + intros [-> [r ->]]. exists r. reflexivity.
    + intros [r H]. inversion H; subst. split; [reflexivity | exists r; reflexivity].
Qed.

Lemma bytes_ltb_app_common : forall p a b, bytes_ltb (p ++ a) (p ++ b) = bytes_ltb a b.
Proof. induction p as [|x p IH]; intros a b; simpl; [reflexivity|]. rewrite byte_ltb_irrefl. apply IH. Qed.
Lemma bytes_ltb_prefix_nlt : forall p a, bytes_ltb (p ++ a) p = false.
Proof. induction p as [|x p IH]; intro a; simpl; [destruct a; reflexivity|]. rewrite byte_ltb_irrefl. apply IH. Qed.
Lemma bytes_ltb_app_l : forall x y u v, List.length x = List.length y ->
  bytes_ltb x y = true -> bytes_ltb (x ++ u) (y ++ v) = true.
Proof.
  induction x as [|a x IH]; intros [|b y] u v L H; simpl in *; try discriminate.
  destruct (byte_ltb a b); [reflexivity|]. destruct (byte_ltb b a); [discriminate|].
  apply IH; [congruence | exact H].
Qed.

(* ---------- split / join ---------- *)
Definition no_byte (c : ascii) (e : bytes) : Prop := mem_byte c e = false.

Lemma mem_byte_In : forall c l, mem_byte c l = true <-> In c l.
Proof.
  induction l as [|y t IH]; simpl; [split; [discriminate|tauto]|].
  rewrite orb_true_iff, IH, Ascii.eqb_eq. split; intros [H|H]; auto.
Qed.
Lemma mem_byte_app : forall c a b, mem_byte c (a ++ b) = mem_byte c a || mem_byte c b.
Proof. induction a as [|x a IH]; intro b; simpl; [reflexivity|]. rewrite IH. apply orb_assoc. Qed.

Lemma split_on_none : forall c e, no_byte c e -> split_on c e = [e].
Proof.
  unfold no_byte. induction e as [|x e IH]; intro H; simpl in *; [reflexivity|].
  apply orb_false_iff in H. destruct H as [H1 H2]. rewrite Ascii.eqb_sym, H1. rewrite (IH H2). reflexivity.
Qed.
Lemma split_on_app : forall c e r, no_byte c e -> split_on c (e ++ c :: r) = e :: split_on c r.
Proof.
  unfold no_byte. induction e as [|x e IH]; intros r H; simpl in *.
  - rewrite Ascii.eqb_refl. reflexivity.
  - apply orb_false_iff in H. destruct H as [H1 H2]. rewrite Ascii.eqb_sym, H1. rewrite (IH r H2). reflexivity.
Qed.
Lemma split_join : forall c es, es <> [] -> Forall (no_byte c) es -> split_on c (join [c] es) = es.
Proof.
  induction es as [|x t IH]; intros N F; [congruence|].
  inversion F as [|? ? Fx Ft]; subst. destruct t as [|y u].
  - simpl. apply split_on_none. exact Fx.
  - change (join [c] (x :: y :: u)) with (x ++ [c] ++ join [c] (y :: u)). simpl app.
    rewrite split_on_app by exact Fx. f_equal. apply IH; [discriminate | exact Ft].
Qed.
Lemma join_app_split : forall c x t, t <> [] -> join [c] (x :: t) = x ++ c :: join [c] t.
Proof. intros c x [|y u] N; [congruence|]. reflexivity. Qed.

(* ---------- filepath.Clean on rooted paths made of ordinary elements ---------- *)
Definition safe_elem (e : bytes) : Prop :=
  e <> [] /\ no_byte slash e /\ is_dot e = false /\ is_dotdot e = false.
Definition safe_or_empty (e : bytes) : Prop := e = [] \/ safe_elem e.
Definition nonempty (e : bytes) : bool := match e with [] => false | _ => true end.

Lemma clean_elems_safe : forall rooted es stack,
  Forall safe_or_empty es -> clean_elems rooted stack es = rev stack ++ filter nonempty es.
Proof.
  induction es as [|e es IH]; intros stack F; simpl.
  - rewrite app_nil_r. reflexivity.
  - inversion F as [|? ? Fe Fs]; subst. destruct Fe as [->|[Hn [Hs [Hd Hdd]]]].
    + simpl. apply IH. exact Fs.
    + destruct e as [|c e]; [congruence|]. rewrite Hd, Hdd. simpl nonempty. cbv iota.
      rewrite IH by exact Fs. simpl. rewrite <- app_assoc. reflexivity.
Qed.

Lemma clean_rooted : forall es, Forall safe_or_empty es ->
  clean (slash :: join [slash] es) = slash :: join [slash] (filter nonempty es).
Proof.
  intros es F. unfold clean. rewrite Ascii.eqb_refl.
  change (split_on slash (slash :: join [slash] es)) with
    (let r := split_on slash (join [slash] es) in
     if Ascii.eqb slash slash then [] :: r else match r with h :: r' => (slash :: h) :: r' | [] => [[slash]] end).
  rewrite Ascii.eqb_refl. cbv zeta.
  destruct es as [|e0 es'].
  - simpl. reflexivity.
  - rewrite split_join; [|discriminate|].
    + change (clean_elems true [] ([] :: e0 :: es')) with (clean_elems true [] (e0 :: es')).
      rewrite clean_elems_safe by exact F. reflexivity.
    + rewrite Forall_forall in F |- *. intros e He. destruct (F e He) as [->|[_ [Hs _]]]; [reflexivity | exact Hs].
Qed.

(* ---------- hexadecimal ---------- *)
Local Open Scope N_scope.

Lemma N_of_ascii_of_N : forall v, v < 256 -> N_of_ascii (ascii_of_N v) = v.
Proof. intros v H. apply N_ascii_embedding. exact H. Qed.

Lemma hex_digit_val : forall d, d < 16 -> N_of_ascii (hex_digit d) = if d <? 10 then 48 + d else 87 + d.
Proof.
  intros d H. unfold hex_digit. apply N_of_ascii_of_N.
  destruct (d <? 10) eqn:E; [apply N.ltb_lt in E|apply N.ltb_ge in E]; lia.
Qed.

Lemma digit_val_hex_digit : forall d, d < 16 -> digit_val (hex_digit d) = Some d.
Proof.
  intros d H. unfold digit_val. rewrite hex_digit_val by exact H.
  destruct (d <? 10) eqn:E.
  - apply N.ltb_lt in E.
    assert (A : (48 <=? 48 + d) && (48 + d <=? 57) = true).
    { apply andb_true_iff. split; apply N.leb_le; lia. }
    rewrite A. f_equal. lia.
  - apply N.ltb_ge in E.
    assert (A : (48 <=? 87 + d) && (87 + d <=? 57) = false).
    { apply andb_false_iff. right. apply N.leb_gt. lia. }
    rewrite A.
    (* 87 + d is in 97..102: bit 5 is already set *)
    assert (L : N.lor (87 + d) 32 = 87 + d).
    { assert (D : d = 10 \/ d = 11 \/ d = 12 \/ d = 13 \/ d = 14 \/ d = 15) by lia.
      destruct D as [->|[->|[->|[->|[->| ->]]]]]; reflexivity. }
    rewrite L.
    assert (B : (97 <=? 87 + d) && (87 + d <=? 122) = true).
    { apply andb_true_iff. split; apply N.leb_le; lia. }
    rewrite B. f_equal. lia.
Qed.

Lemma hex_digit_mono : forall a b, a < b -> b < 16 -> byte_ltb (hex_digit a) (hex_digit b) = true.
Proof.
  intros a b H1 H2. unfold byte_ltb. rewrite !hex_digit_val by lia. apply N.ltb_lt.
  destruct (a <? 10) eqn:Ea; destruct (b <? 10) eqn:Eb;
    try apply N.ltb_lt in Ea; try apply N.ltb_ge in Ea; try apply N.ltb_lt in Eb; try apply N.ltb_ge in Eb; lia.
Qed.

Lemma hex_digit_plain : forall d, d < 16 -> hex_digit d <> slash /\ hex_digit d <> dot.
Proof.
  intros d H. split; intro E; apply (f_equal N_of_ascii) in E; rewrite hex_digit_val in E by exact H;
    destruct (d <? 10) eqn:Ed; try apply N.ltb_lt in Ed; try apply N.ltb_ge in Ed;
    (change (N_of_ascii slash) with 47 in E || change (N_of_ascii dot) with 46 in E); lia.
Qed.

Lemma hexw_length : forall w n, List.length (hexw w n) = w.
Proof. induction w as [|w IH]; intro n; simpl; [reflexivity|]. rewrite app_length, IH. simpl. lia. Qed.

Lemma hexw_chars : forall w n c, In c (hexw w n) -> c <> slash /\ c <> dot.
Proof.
  induction w as [|w IH]; intros n c H; simpl in H; [contradiction|].
  apply in_app_or in H. destruct H as [H|[<-|[]]]; [eapply IH; exact H|].
  apply hex_digit_plain. apply N.mod_lt. discriminate.
Qed.

Lemma parse_hex_acc_app : forall a b acc,
  parse_hex_acc acc (a ++ b) = match parse_hex_acc acc a with Some acc' => parse_hex_acc acc' b | None => None end.
Proof.
  induction a as [|c a IH]; intros b acc; simpl; [reflexivity|].
  destruct (digit_val c) as [d|]; [|reflexivity].
  destruct (d <? 16); [|reflexivity].
  destruct (acc * 16 + d <? two64N); [apply IH | reflexivity].
Qed.

Lemma pow16_succ : forall w, 16 ^ N.of_nat (S w) = 16 * 16 ^ N.of_nat w.
Proof. intro w. rewrite Nnat.Nat2N.inj_succ, N.pow_succ_r'. reflexivity. Qed.

Lemma parse_hexw : forall w n acc,
  acc * 16 ^ N.of_nat w + n mod 16 ^ N.of_nat w < two64N ->
  parse_hex_acc acc (hexw w n) = Some (acc * 16 ^ N.of_nat w + n mod 16 ^ N.of_nat w).
Proof.
  induction w as [|w IH]; intros n acc H.
  - simpl. rewrite N.mod_1_r. f_equal. lia.
  - cbn [hexw]. rewrite parse_hex_acc_app.
    assert (P : 16 ^ N.of_nat w <> 0) by (apply N.pow_nonzero; discriminate).
    assert (M : n mod 16 ^ N.of_nat (S w) = n mod 16 + 16 * ((n / 16) mod 16 ^ N.of_nat w)).
    { rewrite pow16_succ. apply N.mod_mul_r; [discriminate | exact P]. }
    rewrite pow16_succ in H |- *. rewrite pow16_succ in M. rewrite M in H |- *.
    assert (D : n mod 16 < 16) by (apply N.mod_lt; discriminate).
    set (Pw := 16 ^ N.of_nat w) in *. set (q := (n / 16) mod Pw) in *. set (m := n mod 16) in *.
    assert (B : acc * Pw + q < two64N).
    { assert (acc * Pw + q <= acc * (16 * Pw) + (m + 16 * q)); [|lia].
      replace (acc * (16 * Pw)) with (16 * (acc * Pw)) by lia. lia. }
    rewrite (IH (n / 16) acc B). fold q.
    cbn [parse_hex_acc]. rewrite digit_val_hex_digit by exact D.
    apply N.ltb_lt in D. rewrite D.
    assert (V : (acc * Pw + q) * 16 + m = acc * (16 * Pw) + (m + 16 * q)) by lia.
    rewrite V.
    assert (Lt : acc * (16 * Pw) + (m + 16 * q) <? two64N = true) by (apply N.ltb_lt; exact H).
    rewrite Lt. reflexivity.
Qed.

Lemma hexw_lt : forall w a b, a < b -> b < 16 ^ N.of_nat w -> bytes_ltb (hexw w a) (hexw w b) = true.
Proof.
  induction w as [|w IH]; intros a b H1 H2.
  - simpl in H2. lia.
  - cbn [hexw]. rewrite pow16_succ in H2.
    assert (Da := N.div_mod a 16 ltac:(discriminate)). assert (Db := N.div_mod b 16 ltac:(discriminate)).
    assert (Ma : a mod 16 < 16) by (apply N.mod_lt; discriminate).
    assert (Mb : b mod 16 < 16) by (apply N.mod_lt; discriminate).
    assert (Le : a / 16 <= b / 16) by (apply N.div_le_mono; [discriminate | lia]).
    destruct (N.eq_dec (a / 16) (b / 16)) as [E|NE].
    + rewrite E, bytes_ltb_app_common. simpl.
      rewrite hex_digit_mono; [reflexivity | lia | exact Mb].
    + apply bytes_ltb_app_l; [rewrite !hexw_length; reflexivity|].
      apply IH; [lia|]. apply N.div_lt_upper_bound; [discriminate | exact H2].
Qed.

Lemma parse_trim_zero : forall s, parse_hex_acc 0 (trim_left (s2l "0") s) = parse_hex_acc 0 s.
Proof.
  induction s as [|c s IH]; [reflexivity|].
  cbn [trim_left]. destruct (mem_byte c (s2l "0")) eqn:E; [|reflexivity].
  rewrite IH. change (s2l "0") with ["0"%char] in E. simpl in E. rewrite orb_false_r in E.
  apply Ascii.eqb_eq in E. subst c. reflexivity.
Qed.

Lemma two64_pow : two64N = 16 ^ N.of_nat 16.
Proof. reflexivity. Qed.

(* strconv.ParseUint(TrimLeft(%016x, "0"), 16, 64) inverts %016x on 1 .. 2^64-1 *)
Lemma parse_hex16 : forall n, 1 <= n -> n < two64N ->
  parse_hex64 (trim_left (s2l "0") (hex16 n)) = Some n.
Proof.
  intros n H1 H2.
  assert (P : parse_hex_acc 0 (trim_left (s2l "0") (hex16 n)) = Some n).
  { rewrite parse_trim_zero. unfold hex16. rewrite parse_hexw.
    - f_equal. rewrite N.mul_0_l, N.add_0_l. apply N.mod_small. rewrite <- two64_pow. exact H2.
    - rewrite N.mul_0_l, N.add_0_l. rewrite <- two64_pow.
      eapply N.le_lt_trans; [apply N.mod_le; discriminate | exact H2]. }
  unfold parse_hex64. destruct (trim_left (s2l "0") (hex16 n)) as [|c t] eqn:E.
  - simpl in P. inversion P. lia.
  - exact P.
Qed.

Lemma hex16_lt : forall a b, a < b -> b < two64N -> bytes_ltb (hex16 a) (hex16 b) = true.
Proof. intros. unfold hex16. apply hexw_lt; [assumption | rewrite <- two64_pow; assumption]. Qed.

Lemma hex16_safe : forall n, safe_elem (hex16 n).
Proof.
  intro n. unfold safe_elem, hex16. pose proof (hexw_length 16 n) as L.
  split; [|split; [|split]].
  - intro E. rewrite E in L. discriminate.
  - unfold no_byte. destruct (mem_byte slash (hexw 16 n)) eqn:E; [|reflexivity].
    apply mem_byte_In in E. apply hexw_chars in E. destruct E as [E _]. congruence.
  - unfold is_dot. apply bytes_eqb_neq. intro E. rewrite E in L. discriminate.
  - unfold is_dotdot. apply bytes_eqb_neq. intro E. rewrite E in L. discriminate.
Qed.
Local Close Scope N_scope.

(* ---------- more split / join ---------- *)
Lemma split_on_nonnil : forall c s, split_on c s <> [].
Proof.
  induction s as [|x s IH]; simpl; [discriminate|].
  destruct (Ascii.eqb x c); [discriminate|]. destruct (split_on c s); discriminate.
Qed.

Lemma split_on_app_gen : forall c a r, split_on c (a ++ c :: r) = split_on c a ++ split_on c r.
Proof.
  induction a as [|x a IH]; intro r.
  - simpl. rewrite Ascii.eqb_refl. reflexivity.
  - simpl. destruct (Ascii.eqb x c).
    + rewrite IH. reflexivity.
    + rewrite IH. destruct (split_on c a) as [|h t] eqn:E; [exfalso; eapply split_on_nonnil; exact E|].
      reflexivity.
Qed.

Lemma join_split : forall c s, join [c] (split_on c s) = s.
Proof.
  induction s as [|x s IH]; [reflexivity|]. simpl.
  destruct (Ascii.eqb x c) eqn:E.
  - apply Ascii.eqb_eq in E. subst x.
    destruct (split_on c s) as [|h t] eqn:Es; [exfalso; eapply split_on_nonnil; exact Es|].
    change (join [c] ([] :: h :: t)) with ([] ++ [c] ++ join [c] (h :: t)). rewrite IH. reflexivity.
  - destruct (split_on c s) as [|h t] eqn:Es; [exfalso; eapply split_on_nonnil; exact Es|].
    destruct t as [|h2 t2].
    + simpl in *. congruence.
    + change (join [c] ((x :: h) :: h2 :: t2)) with ((x :: h) ++ [c] ++ join [c] (h2 :: t2)).
      change (join [c] (h :: h2 :: t2)) with (h ++ [c] ++ join [c] (h2 :: t2)) in IH.
      simpl in *. congruence.
Qed.

Lemma join_app : forall c es fs, es <> [] -> fs <> [] ->
  join [c] (es ++ fs) = join [c] es ++ c :: join [c] fs.
Proof.
  induction es as [|x t IH]; intros fs N1 N2; [congruence|].
  destruct t as [|y u].
  - simpl. destruct fs; [congruence|]. reflexivity.
  - change ((x :: y :: u) ++ fs) with (x :: (y :: u) ++ fs).
    rewrite join_app_split by (simpl; discriminate).
    rewrite IH by (discriminate || exact N2).
    rewrite (join_app_split c x (y :: u)) by discriminate.
    rewrite <- app_assoc. reflexivity.
Qed.

Lemma join_inj : forall c es fs, es <> [] -> fs <> [] ->
  Forall (no_byte c) es -> Forall (no_byte c) fs -> join [c] es = join [c] fs -> es = fs.
Proof.
  intros c es fs N1 N2 F1 F2 E.
  rewrite <- (split_join c es N1 F1), <- (split_join c fs N2 F2), E. reflexivity.
Qed.

(* join es ++ "/" is a prefix of join fs  iff  es is a proper list prefix of fs *)
Lemma prefix_components : forall c es fs, es <> [] -> fs <> [] ->
  Forall (no_byte c) es -> Forall (no_byte c) fs ->
  (has_prefix (join [c] es ++ [c]) (join [c] fs) = true <-> exists r, r <> [] /\ fs = es ++ r).
Proof.
  intros c es fs N1 N2 F1 F2. split.
  - intro H. apply has_prefix_iff in H. destruct H as [rest H].
    rewrite <- app_assoc in H. simpl in H.
    assert (S : split_on c (join [c] fs) = split_on c (join [c] es ++ c :: rest)) by (rewrite H; reflexivity).
    rewrite split_join in S by assumption. rewrite split_on_app_gen, split_join in S by assumption.
    exists (split_on c rest). split; [apply split_on_nonnil | exact S].
  - intros [r [Nr ->]]. rewrite join_app by assumption.
    replace (join [c] es ++ c :: join [c] r) with ((join [c] es ++ [c]) ++ join [c] r)
      by (rewrite <- app_assoc; reflexivity).
    apply has_prefix_app.
Qed.
