(* Lemmas about Base/GoStr.v: the byte-wise order is a strict total order, sort_str
   sorts, split/join facts, filepath.Clean on well-formed paths, hex codec. *)
From Coq Require Import List Bool Arith NArith String Ascii Lia Sorted Permutation.
From Verif Require Import Base.GoStr.
Import ListNotations.
Open Scope list_scope.

(* ---------- conversions ---------- *)
Lemma l2s_s2l : forall s, l2s (s2l s) = s.
Proof. exact string_of_list_ascii_of_string. Qed.
Lemma s2l_l2s : forall l, s2l (l2s l) = l.
Proof. exact list_ascii_of_string_of_list_ascii. Qed.
Lemma s2l_inj : forall a b, s2l a = s2l b -> a = b.
Proof. intros a b H. rewrite <- (l2s_s2l a), <- (l2s_s2l b), H. reflexivity. Qed.

(* ---------- bytes ---------- *)
Lemma N_of_ascii_inj : forall a b, N_of_ascii a = N_of_ascii b -> a = b.
Proof. intros a b H. rewrite <- (ascii_N_embedding a), <- (ascii_N_embedding b), H. reflexivity. Qed.

Lemma byte_ltb_irrefl : forall a, byte_ltb a a = false.
Proof. intros. unfold byte_ltb. apply N.ltb_irrefl. Qed.
Lemma byte_ltb_trans : forall a b c, byte_ltb a b = true -> byte_ltb b c = true -> byte_ltb a c = true.
Proof. unfold byte_ltb. intros a b c H1 H2. apply N.ltb_lt in H1, H2. apply N.ltb_lt. lia. Qed.
Lemma byte_ltb_total : forall a b, byte_ltb a b = false -> byte_ltb b a = false -> a = b.
Proof.
  unfold byte_ltb. intros a b H1 H2. apply N.ltb_ge in H1, H2. apply N_of_ascii_inj. lia.
Qed.
Lemma byte_ltb_asym : forall a b, byte_ltb a b = true -> byte_ltb b a = false.
Proof. unfold byte_ltb. intros a b H. apply N.ltb_lt in H. apply N.ltb_ge. lia. Qed.

Lemma bytes_eqb_eq : forall a b, bytes_eqb a b = true <-> a = b.
Proof.
  induction a as [|x a IH]; intros [|y b]; simpl; split; intro H; try reflexivity; try discriminate.
  - apply andb_true_iff in H. destruct H as [H1 H2]. apply Ascii.eqb_eq in H1. apply IH in H2. subst. reflexivity.
  - inversion H; subst. apply andb_true_iff. split; [apply Ascii.eqb_refl | apply IH; reflexivity].
Qed.
Lemma bytes_eqb_refl : forall a, bytes_eqb a a = true.
Proof. intros. apply bytes_eqb_eq. reflexivity. Qed.
Lemma bytes_eqb_neq : forall a b, bytes_eqb a b = false <-> a <> b.
Proof.
  intros a b. split; intro H.
  - intro E. apply bytes_eqb_eq in E. congruence.
  - destruct (bytes_eqb a b) eqn:E; [apply bytes_eqb_eq in E; contradiction | reflexivity].
Qed.

Lemma bytes_ltb_irrefl : forall a, bytes_ltb a a = false.
Proof. induction a as [|x a IH]; simpl; [reflexivity|]. rewrite byte_ltb_irrefl. exact IH. Qed.

Lemma bytes_ltb_asym : forall a b, bytes_ltb a b = true -> bytes_ltb b a = false.
Proof.
  induction a as [|x a IH]; intros [|y b] H; simpl in *; try reflexivity; try discriminate.
  destruct (byte_ltb x y) eqn:E1.
  - rewrite (byte_ltb_asym _ _ E1). reflexivity.
  - destruct (byte_ltb y x) eqn:E2; [discriminate|]. apply IH. exact H.
Qed.

Lemma bytes_ltb_total : forall a b, bytes_ltb a b = false -> bytes_ltb b a = false -> a = b.
Proof.
  induction a as [|x a IH]; intros [|y b] H1 H2; simpl in *; try reflexivity; try discriminate.
  destruct (byte_ltb x y) eqn:E1; [discriminate|].
  destruct (byte_ltb y x) eqn:E2; [discriminate|].
  rewrite (byte_ltb_total _ _ E1 E2). f_equal. apply IH; assumption.
Qed.

Lemma bytes_ltb_trans : forall a b c, bytes_ltb a b = true -> bytes_ltb b c = true -> bytes_ltb a c = true.
Proof.
  induction a as [|x a IH]; intros [|y b] [|z c] H1 H2; simpl in *; try reflexivity; try discriminate.
  destruct (byte_ltb x y) eqn:Exy.
  - destruct (byte_ltb y z) eqn:Eyz.
    + rewrite (byte_ltb_trans _ _ _ Exy Eyz). reflexivity.
    + destruct (byte_ltb z y) eqn:Ezy; [discriminate|].
      rewrite (byte_ltb_total _ _ Eyz Ezy) in Exy. rewrite Exy. reflexivity.
  - destruct (byte_ltb y x) eqn:Eyx; [discriminate|].
    pose proof (byte_ltb_total _ _ Exy Eyx) as ->.
    destruct (byte_ltb y z) eqn:Eyz; [reflexivity|].
    destruct (byte_ltb z y) eqn:Ezy; [discriminate|].
    eapply IH; eassumption.
Qed.

Lemma bytes_ltb_neq : forall a b, bytes_ltb a b = true -> a <> b.
Proof. intros a b H E. subst. rewrite bytes_ltb_irrefl in H. discriminate. Qed.

(* a <= b and b < c -> a < c, and variants *)
Lemma bytes_leb_ltb_trans : forall a b c, bytes_leb a b = true -> bytes_ltb b c = true -> bytes_ltb a c = true.
Proof.
  unfold bytes_leb. intros a b c H1 H2. apply negb_true_iff in H1.
  destruct (bytes_ltb a b) eqn:E.
  - eapply bytes_ltb_trans; eassumption.
  - rewrite (bytes_ltb_total _ _ E H1). exact H2.
Qed.
Lemma bytes_leb_trans : forall a b c, bytes_leb a b = true -> bytes_leb b c = true -> bytes_leb a c = true.
Proof.
  unfold bytes_leb. intros a b c H1 H2. apply negb_true_iff in H1, H2. apply negb_true_iff.
  destruct (bytes_ltb c a) eqn:E; [|reflexivity].
  destruct (bytes_ltb a b) eqn:Eab.
  - rewrite (bytes_ltb_trans _ _ _ E Eab) in H2. discriminate.
  - rewrite (bytes_ltb_total _ _ Eab H1) in E. congruence.
Qed.
Lemma bytes_leb_refl : forall a, bytes_leb a a = true.
Proof. intros. unfold bytes_leb. rewrite bytes_ltb_irrefl. reflexivity. Qed.
Lemma bytes_ltb_leb : forall a b, bytes_ltb a b = true -> bytes_leb a b = true.
Proof. intros. unfold bytes_leb. rewrite (bytes_ltb_asym _ _ H). reflexivity. Qed.
Lemma bytes_leb_total : forall a b, bytes_leb a b = true \/ bytes_leb b a = true.
Proof.
  intros. unfold bytes_leb. destruct (bytes_ltb b a) eqn:E; [right|left; reflexivity].
  rewrite (bytes_ltb_asym _ _ E). reflexivity.
Qed.
Lemma bytes_leb_neq_ltb : forall a b, bytes_leb a b = true -> a <> b -> bytes_ltb a b = true.
Proof.
  unfold bytes_leb. intros a b H N. apply negb_true_iff in H.
  destruct (bytes_ltb a b) eqn:E; [reflexivity|]. elim N. apply bytes_ltb_total; assumption.
Qed.

(* ---------- strings ---------- *)
Lemma str_ltb_irrefl : forall a, str_ltb a a = false.
Proof. intros. apply bytes_ltb_irrefl. Qed.
Lemma str_ltb_trans : forall a b c, str_ltb a b = true -> str_ltb b c = true -> str_ltb a c = true.
Proof. unfold str_ltb. intros. eapply bytes_ltb_trans; eassumption. Qed.
Lemma str_ltb_asym : forall a b, str_ltb a b = true -> str_ltb b a = false.
Proof. unfold str_ltb. intros. apply bytes_ltb_asym. assumption. Qed.
Lemma str_ltb_total : forall a b, str_ltb a b = false -> str_ltb b a = false -> a = b.
Proof. unfold str_ltb. intros. apply s2l_inj. apply bytes_ltb_total; assumption. Qed.
Lemma str_ltb_neq : forall a b, str_ltb a b = true -> a <> b.
Proof. intros a b H E. subst. rewrite str_ltb_irrefl in H. discriminate. Qed.
Lemma str_leb_refl : forall a, str_leb a a = true.
Proof. intros. apply bytes_leb_refl. Qed.
Lemma str_leb_trans : forall a b c, str_leb a b = true -> str_leb b c = true -> str_leb a c = true.
Proof. unfold str_leb. intros. eapply bytes_leb_trans; eassumption. Qed.
Lemma str_leb_neq_ltb : forall a b, str_leb a b = true -> a <> b -> str_ltb a b = true.
Proof.
  unfold str_leb, str_ltb. intros a b H N. apply bytes_leb_neq_ltb; [assumption|].
  intro E. apply N. apply s2l_inj. exact E.
Qed.
Lemma str_ltb_leb : forall a b, str_ltb a b = true -> str_leb a b = true.
Proof. unfold str_ltb, str_leb. intros. apply bytes_ltb_leb. assumption. Qed.
Lemma str_leb_ltb_trans : forall a b c, str_leb a b = true -> str_ltb b c = true -> str_ltb a c = true.
Proof. unfold str_ltb, str_leb. intros. eapply bytes_leb_ltb_trans; eassumption. Qed.
Lemma str_nlt_leb : forall a b, str_ltb a b = false -> str_leb b a = true.
Proof. unfold str_ltb, str_leb, bytes_leb. intros a b H. rewrite H. reflexivity. Qed.

Lemma mem_str_In : forall x l, mem_str x l = true <-> In x l.
Proof.
  induction l as [|y t IH]; simpl; [split; [discriminate|tauto]|].
  rewrite orb_true_iff, IH, String.eqb_eq. split; intros [H|H]; auto.
Qed.

(* ---------- sort_str ---------- *)
Definition sle (a b : string) : Prop := str_leb a b = true.
Definition slt (a b : string) : Prop := str_ltb a b = true.

Lemma insert_str_perm : forall x l, Permutation (x :: l) (insert_str x l).
Proof.
  induction l as [|y t IH]; simpl; [apply Permutation_refl|].
  destruct (str_ltb y x); [|apply Permutation_refl].
  eapply perm_trans; [apply perm_swap|]. apply perm_skip. exact IH.
Qed.
Lemma sort_str_perm : forall l, Permutation l (sort_str l).
Proof.
  induction l as [|x t IH]; simpl; [apply perm_nil|].
  eapply perm_trans; [apply perm_skip; exact IH|]. apply insert_str_perm.
Qed.
Lemma sort_str_In : forall x l, In x (sort_str l) <-> In x l.
Proof.
  intros. split; intro H.
  - eapply Permutation_in; [apply Permutation_sym; apply sort_str_perm|exact H].
  - eapply Permutation_in; [apply sort_str_perm|exact H].
Qed.

Lemma insert_str_sorted : forall x l, StronglySorted sle l -> StronglySorted sle (insert_str x l).
Proof.
  induction l as [|y t IH]; intro S; simpl.
  - constructor; constructor.
  - inversion S as [|? ? St Hy]; subst.
    destruct (str_ltb y x) eqn:E.
    + constructor; [apply IH; exact St|].
      apply Forall_forall. intros z Hz.
      apply (Permutation_in _ (Permutation_sym (insert_str_perm x t))) in Hz.
      destruct Hz as [<-|Hz]; [apply str_ltb_leb; exact E|].
      rewrite Forall_forall in Hy. apply Hy. exact Hz.
    + constructor; [exact S|].
      constructor; [apply str_nlt_leb; exact E|].
      rewrite Forall_forall in Hy |- *. intros z Hz.
      eapply str_leb_trans; [apply str_nlt_leb; exact E|apply Hy; exact Hz].
Qed.
Lemma sort_str_sorted : forall l, StronglySorted sle (sort_str l).
Proof.
  induction l as [|x t IH]; simpl; [constructor|]. apply insert_str_sorted. exact IH.
Qed.

(* two strictly sorted lists with the same elements are equal *)
Lemma strictly_sorted_unique : forall l1 l2,
  StronglySorted slt l1 -> StronglySorted slt l2 ->
  (forall x, In x l1 <-> In x l2) -> l1 = l2.
Proof.
  induction l1 as [|a t1 IH]; intros l2 S1 S2 H.
  - destruct l2 as [|b t2]; [reflexivity|]. exfalso. apply (H b). left. reflexivity.
  - destruct l2 as [|b t2]; [exfalso; apply (H a); left; reflexivity|].
    inversion S1 as [|? ? S1t Ha]; inversion S2 as [|? ? S2t Hb]; subst.
    rewrite Forall_forall in Ha, Hb.
    assert (a = b) as ->.
    { destruct (proj1 (H a) (or_introl eq_refl)) as [E|Hin]; [auto|].
      destruct (proj2 (H b) (or_introl eq_refl)) as [E|Hin2]; [auto|].
      pose proof (Hb _ Hin) as L1. pose proof (Ha _ Hin2) as L2. unfold slt in *.
      rewrite (str_ltb_asym _ _ L1) in L2. discriminate. }
    f_equal. apply IH; try assumption.
    intro x. split; intro Hx.
    + destruct (proj1 (H x) (or_intror Hx)) as [E|?]; [|assumption].
      subst. apply Ha in Hx. unfold slt in Hx. rewrite str_ltb_irrefl in Hx. discriminate.
    + destruct (proj2 (H x) (or_intror Hx)) as [E|?]; [|assumption].
      subst. apply Hb in Hx. unfold slt in Hx. rewrite str_ltb_irrefl in Hx. discriminate.
Qed.
