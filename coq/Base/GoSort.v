(* Go's sort package as used by the anchored code.  Executable definitions only;
   the lemmas are in Base/GoSortSpec.v.

   sort.Slice / sort.Sort (pdqsort_func) use insertionSort for slices of length
   <= 12:
       for i := a+1; i < b; i++ { for j := i; j > a && less(j, j-1); j-- { swap(j, j-1) } }
   [gosort] is that algorithm exactly (for ANY comparator, consistent or not):
   the already-processed prefix is kept reversed, the new element moves left
   past every element it is less than and stops at the first one it is not.
   For longer slices pdqsort is unstable; for a comparator that is a strict weak
   order the result is then some sorted permutation, which is what the theorems
   are stated for ([gosort] is one such).  sort.SliceStable coincides with
   [gosort] for every length when the comparator is a strict weak order.

   sort.Search is modelled exactly (binary search loop). *)
From Coq Require Import List Arith.
Import ListNotations.

Section Sort.
Variable A : Type.
Variable less : A -> A -> bool.

(* rp = processed prefix, reversed (nearest neighbour first) *)
Fixpoint rins (x : A) (rp : list A) : list A :=
  match rp with
  | [] => [x]
  | y :: t => if less x y then y :: rins x t else x :: rp
  end.

Definition gosort (l : list A) : list A :=
  rev (fold_left (fun rp x => rins x rp) l []).
End Sort.

Arguments rins {A} less x rp.
Arguments gosort {A} less l.

(* sort.Search(n, f): i, j := 0, n; for i < j { h := (i+j)/2; if !f(h) { i = h+1 } else { j = h } }; return i *)
Fixpoint search_loop (fuel : nat) (f : nat -> bool) (i j : nat) : nat :=
  match fuel with
  | O => i
  | S k => if Nat.ltb i j then
             let h := ((i + j) / 2)%nat in
             if negb (f h) then search_loop k f (h + 1)%nat j else search_loop k f i h
           else i
  end.
Definition search (n : nat) (f : nat -> bool) : nat := search_loop (S n) f 0 n.
