(* Effects: free-monad effect scripts and their interpreter.

   Orchestration code is modelled as a program [prog A] over calls to external
   parties.  The call type, the reply type, the world and the semantics of one
   call are parameters (section variables), so the same machinery serves every
   orchestration model (Calcium/World.v instantiates it).

     prog A := Ret a | Do c k            k : reply -> prog A

   The interpreter threads an interpreter state: the world, the trace of
   executed calls, and the *fault plan*.  Per executed call the plan decides
       Proceed      -- the call executes against the world
       FailBefore   -- the call returns its failure reply, the world is untouched
       CrashBefore  -- the run stops here, the continuation is dropped
   Two plans are provided:
     - [run]   : a single fault addressed as (key, ordinal): the ordinal-th call whose
                 key ([key_of c], i.e. method + target entity) equals the given key.
                 This address denotes the same step under any goroutine schedule
                 and is what the correspondence harness injects.
     - [rund]  : an explicit decision list, one decision per executed call (calls
                 beyond the list proceed).  [run] is an instance of [rund]
                 (Calcium/EffectsProofs.v), so theorems proved for every decision list
                 with at most one fault hold for every fault address.
   This file contains no proofs. *)
From Coq Require Import List Bool Arith.
Import ListNotations.

Inductive decision := Proceed | FailBefore | CrashBefore.

Definition decision_eqb (a b : decision) : bool :=
  match a, b with
  | Proceed, Proceed | FailBefore, FailBefore | CrashBefore, CrashBefore => true
  | _, _ => false
  end.

Section Effects.
  Variable call : Type.
  Variable reply : Type.
  Variable world : Type.
  Variable key : Type.                          (* method + target entity *)
  Variable key_eqb : key -> key -> bool.
  Variable key_of : call -> key.
  Variable exec : world -> call -> world * reply.   (* semantics of an executed call *)
  Variable fail_reply : call -> reply.               (* what a call returns when it fails before executing *)
  Variable faultable : call -> bool.                 (* can a fault hit this call?  (a channel send cannot fail) *)

  Inductive prog (A : Type) : Type :=
  | Ret (a : A)
  | Do (c : call) (k : reply -> prog A).
  Arguments Ret {A} a.
  Arguments Do {A} c k.

  Fixpoint bind {A B} (p : prog A) (f : A -> prog B) : prog B :=
    match p with
    | Ret a => f a
    | Do c k => Do c (fun r => bind (k r) f)
    end.

  Definition call1 (c : call) : prog reply := Do c (fun r => Ret r).

  (* ---- single addressed fault ---- *)
  Record fault := mkFault { f_key : key; f_ord : nat; f_what : decision }.

  Record ist := mkIst {
    i_world : world;
    i_fault : option fault;
    i_seen  : nat;           (* calls with the fault's key executed so far *)
    i_hit   : bool;          (* the fault has fired *)
    i_trace : list (call * bool);   (* executed calls, newest first; true = failed before *)
  }.

  Definition init_ist (w : world) (f : option fault) : ist := mkIst w f 0 false [].

  (* decision for call c in state s, and the state's bookkeeping after deciding *)
  Definition decide (s : ist) (c : call) : decision * nat * bool :=
    match i_fault s with
    | None => (Proceed, i_seen s, i_hit s)
    | Some f =>
      if key_eqb (key_of c) (f_key f) then
        if i_hit s then (Proceed, i_seen s, true)
        else if Nat.eqb (i_seen s) (f_ord f) then (f_what f, S (i_seen s), true)
        else (Proceed, S (i_seen s), false)
      else (Proceed, i_seen s, i_hit s)
    end.

  (* [None] result = crashed *)
  Fixpoint run {A} (p : prog A) (s : ist) : ist * option A :=
    match p with
    | Ret a => (s, Some a)
    | Do c k =>
      match decide s c with
      | (Proceed, seen, hit) =>
        let (w', r) := exec (i_world s) c in
        run (k r) (mkIst w' (i_fault s) seen hit ((c, false) :: i_trace s))
      | (FailBefore, seen, hit) =>
        run (k (fail_reply c)) (mkIst (i_world s) (i_fault s) seen hit ((c, true) :: i_trace s))
      | (CrashBefore, seen, hit) =>
        (mkIst (i_world s) (i_fault s) seen hit (i_trace s), None)
      end
    end.

  (* ---- explicit decision list ---- *)
  Record dst := mkDst {
    d_world : world;
    d_plan  : list decision;
    d_trace : list (call * bool);
  }.

  Fixpoint rund {A} (p : prog A) (s : dst) : dst * option A :=
    match p with
    | Ret a => (s, Some a)
    | Do c k =>
      match d_plan s with
      | [] =>
        let (w', r) := exec (d_world s) c in
        rund (k r) (mkDst w' [] ((c, false) :: d_trace s))
      | Proceed :: ds =>
        let (w', r) := exec (d_world s) c in
        rund (k r) (mkDst w' ds ((c, false) :: d_trace s))
      | FailBefore :: ds =>
        rund (k (fail_reply c)) (mkDst (d_world s) ds ((c, true) :: d_trace s))
      | CrashBefore :: ds => (mkDst (d_world s) ds (d_trace s), None)
      end
    end.

  (* ---- single fail-before fault addressed by the global call index ----
     [Some k]: the k-th FAULTABLE call from here fails before executing; [None]: no fault (left).
     Calls that are not faultable (sends on a result channel) execute without consuming the index.
     Every addressed fault of [run] is one of these (Calcium/EffectsProofs.v), so
     "for every k" covers every fault address. *)
  Fixpoint runk {A} (p : prog A) (w : world) (k : option nat) : world * option nat * A :=
    match p with
    | Ret a => (w, k, a)
    | Do c q =>
      if faultable c then
        match k with
        | Some O => runk (q (fail_reply c)) w None
        | Some (S j) => let (w', r) := exec w c in runk (q r) w' (Some j)
        | None => let (w', r) := exec w c in runk (q r) w' None
        end
      else let (w', r) := exec w c in runk (q r) w' k     (* not a fault position: the index is not consumed *)
    end.

  (* number of non-Proceed decisions *)
  Fixpoint faults_in (l : list decision) : nat :=
    match l with
    | [] => 0
    | Proceed :: t => faults_in t
    | _ :: t => S (faults_in t)
    end.

  (* ---- threads: an explicit schedule picks which thread performs its next call ----
     A schedule entry beyond the thread list or naming a finished thread is skipped.
     When the schedule is exhausted the remaining threads run to completion in
     list order.  Used by C13/C22; the sequential composition [par] below is the
     schedule that runs thread 0 to completion, then thread 1, ... *)
  Fixpoint step_nth {A} (i : nat) (ts : list (prog A)) (s : dst) : list (prog A) * dst :=
    match ts, i with
    | [], _ => ([], s)
    | t :: rest, O =>
      match t with
      | Ret _ => (ts, s)
      | Do c k =>
        match d_plan s with
        | FailBefore :: ds => (k (fail_reply c) :: rest, mkDst (d_world s) ds ((c, true) :: d_trace s))
        | CrashBefore :: ds => (ts, mkDst (d_world s) ds (d_trace s))
        | Proceed :: ds =>
          let (w', r) := exec (d_world s) c in (k r :: rest, mkDst w' ds ((c, false) :: d_trace s))
        | [] =>
          let (w', r) := exec (d_world s) c in (k r :: rest, mkDst w' [] ((c, false) :: d_trace s))
        end
      end
    | t :: rest, S j => let (rest', s') := step_nth j rest s in (t :: rest', s')
    end.

  Fixpoint run_sched {A} (sched : list nat) (ts : list (prog A)) (s : dst) : list (prog A) * dst :=
    match sched with
    | [] => (ts, s)
    | i :: sc => let (ts', s') := step_nth i ts s in run_sched sc ts' s'
    end.

  (* sequential composition of independent tasks (pool.Invoke ... wg.Wait() where the
     tasks touch disjoint entities): results in task order *)
  Fixpoint par {A} (ts : list (prog A)) : prog (list A) :=
    match ts with
    | [] => Ret []
    | t :: rest => bind t (fun a => bind (par rest) (fun l => Ret (a :: l)))
    end.

  (* for-each with early exit on error: the Go pattern
       for _, x := range xs { if err := body(x); err != nil { return err } } *)
  Fixpoint for_each {X E} (xs : list X) (body : X -> prog (option E)) : prog (option E) :=
    match xs with
    | [] => Ret None
    | x :: rest => bind (body x) (fun r => match r with Some e => Ret (Some e) | None => for_each rest body end)
    end.

  (* for-each that never stops (errors are only logged) *)
  Fixpoint for_all {X} (xs : list X) (body : X -> prog unit) : prog unit :=
    match xs with
    | [] => Ret tt
    | x :: rest => bind (body x) (fun _ => for_all rest body)
    end.

  (* ---- defer: run [d] after [p], whatever [p] returned (Go defer, LIFO by nesting) ---- *)
  Definition defer {A} (p : prog A) (d : A -> prog unit) : prog A :=
    bind p (fun a => bind (d a) (fun _ => Ret a)).

  (* ---- utils.Txn ----
     cond; if it failed: rollback(true) if supplied; result = cond's error.
     else then (if supplied); if it failed: rollback(false) if supplied; result = then's error.
     A rollback error never surfaces.  [E] is the error type, [None] = nil. *)
  Definition txn {E} (cond : prog (option E)) (thn : option (prog (option E)))
             (rollback : option (bool -> prog (option E))) : prog (option E) :=
    bind cond (fun ce =>
      match ce with
      | Some e =>
        match rollback with
        | Some rb => bind (rb true) (fun _ => Ret (Some e))
        | None => Ret (Some e)
        end
      | None =>
        match thn with
        | None => Ret None
        | Some t =>
          bind t (fun te =>
            match te with
            | None => Ret None
            | Some e =>
              match rollback with
              | Some rb => bind (rb false) (fun _ => Ret (Some e))
              | None => Ret (Some e)
              end
            end)
        end
      end).

  (* utils.Txn whose closures share captured variables: the shared variables are a
     local state [S] threaded through cond and then; the rollback reads it. *)
  Definition txn_s {S E} (s0 : S) (cond : S -> prog (S * option E))
             (thn : option (S -> prog (S * option E)))
             (rollback : option (S -> bool -> prog (option E))) : prog (S * option E) :=
    bind (cond s0) (fun c =>
      match snd c with
      | Some e =>
        match rollback with
        | Some rb => bind (rb (fst c) true) (fun _ => Ret (fst c, Some e))
        | None => Ret (fst c, Some e)
        end
      | None =>
        match thn with
        | None => Ret (fst c, None)
        | Some t =>
          bind (t (fst c)) (fun r =>
            match snd r with
            | None => Ret (fst r, None)
            | Some e =>
              match rollback with
              | Some rb => bind (rb (fst r) false) (fun _ => Ret (fst r, Some e))
              | None => Ret (fst r, Some e)
              end
            end)
        end
      end).

  (* utils.PCR = Txn(prepare, commit, fun byCond => if byCond then nil else rollback) *)
  Definition pcr {E} (prepare commit rollback : prog (option E)) : prog (option E) :=
    txn prepare (Some commit) (Some (fun by_cond : bool => if by_cond then (Ret None : prog (option E)) else rollback)).

End Effects.

Arguments Ret {call reply A} a.
Arguments Do {call reply A} c k.
Arguments bind {call reply A B} p f.
Arguments call1 {call reply} c.
Arguments par {call reply A} ts.
Arguments for_each {call reply X E} xs body.
Arguments for_all {call reply X} xs body.
Arguments defer {call reply A} p d.
Arguments txn {call reply E} cond thn rollback.
Arguments txn_s {call reply S E} s0 cond thn rollback.
Arguments pcr {call reply E} prepare commit rollback.
Arguments mkFault {key} f_key f_ord f_what.
Arguments f_key {key} f.
Arguments f_ord {key} f.
Arguments f_what {key} f.
Arguments i_world {call world key} i.
Arguments i_fault {call world key} i.
Arguments i_seen {call world key} i.
Arguments i_hit {call world key} i.
Arguments i_trace {call world key} i.
Arguments mkIst {call world key} i_world i_fault i_seen i_hit i_trace.
Arguments init_ist {call world key} w f.
Arguments d_world {call world} d.
Arguments d_plan {call world} d.
Arguments d_trace {call world} d.
Arguments mkDst {call world} d_world d_plan d_trace.
