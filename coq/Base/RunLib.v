(* RunLib: helpers used by the generated case files of the correspondence check.
   No proofs here; everything is executable. *)
From Coq Require Import List Bool Arith ZArith String Ascii.
Import ListNotations.

(* indices (0-based, offset by [base]) of the elements on which [f] is false *)
Fixpoint bad_idx_from {A} (f : A -> bool) (l : list A) (i : nat) : list nat :=
  match l with
  | [] => []
  | x :: t => if f x then bad_idx_from f t (S i) else i :: bad_idx_from f t (S i)
  end.
Definition bad_idx {A} (f : A -> bool) (l : list A) : list nat := bad_idx_from f l 0.

(* strings are emitted by the harness as lists of byte values *)
Fixpoint str_of_bytes (l : list nat) : string :=
  match l with
  | [] => EmptyString
  | b :: t => String (ascii_of_nat b) (str_of_bytes t)
  end.
Notation "'s!' l" := (str_of_bytes l) (at level 0, l at level 0).

Fixpoint list_eqb {A} (eqb : A -> A -> bool) (l1 l2 : list A) : bool :=
  match l1, l2 with
  | [], [] => true
  | x :: t1, y :: t2 => eqb x y && list_eqb eqb t1 t2
  | _, _ => false
  end.

Definition option_eqb {A} (eqb : A -> A -> bool) (o1 o2 : option A) : bool :=
  match o1, o2 with
  | None, None => true
  | Some x, Some y => eqb x y
  | _, _ => false
  end.

Definition pair_eqb {A B} (ea : A -> A -> bool) (eb : B -> B -> bool) (p q : A * B) : bool :=
  ea (fst p) (fst q) && eb (snd p) (snd q).

Lemma list_eqb_spec {A} (eqb : A -> A -> bool) :
  (forall x y, eqb x y = true <-> x = y) ->
  forall l1 l2, list_eqb eqb l1 l2 = true <-> l1 = l2.
Proof.
  intros H l1; induction l1 as [|x t IH]; intros [|y t2]; simpl; split; intro E;
    try reflexivity; try discriminate.
  - apply andb_true_iff in E. destruct E as [E1 E2].
    apply H in E1. apply IH in E2. subst. reflexivity.
  - inversion E; subst. apply andb_true_iff. split; [apply H; reflexivity | apply IH; reflexivity].
Qed.

Definition sb := str_of_bytes.
