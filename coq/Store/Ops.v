(* Ops: the operation language of the Store API and the pure helper code that
   is textually identical in store/etcdv3 and store/redis (batch-argument
   construction, node views, label filtering, workload additions, counting).
   Executable definitions only. *)
From Coq Require Import List Bool ZArith String.
From Verif Require Import Base.RunLib Store.KVPrims.
Import ListNotations.
Local Open Scope Z_scope.

Inductive op :=
| OAddPod (p d : name)
| ORemovePod (p : name)
| OGetPod (p : name)
| OGetAllPods
| OAddNode (nd : ndata) (ca cert key : name)   (* AddNodeOptions; n_bypass unused; n_test = opts.Test *)
| ORemoveNode (n p : name)                     (* node.Name, node.Podname *)
| OGetNode (n : name)
| OGetNodes (ns : list name)
| OGetNodesByPod (p : name) (flt : labels) (all : bool)   (* WithoutEngine *)
| OUpdateNodes (l : list (ndata * name * name * name))     (* node, Ca, Cert, Key *)
| OSetNodeStatus (n p : name) (ttl : Z)
| OGetNodeStatus (n : name)
| OLoadNodeCert (n : name)
| OAddWorkload (w : wdata) (pr : option proc)
| OUpdateWorkload (w : wdata)
| ORemoveWorkload (w : wdata)
| OGetWorkload (id : name)
| OGetWorkloads (ids : list name)
| OGetWorkloadStatus (id : name)
| OSetWorkloadStatus (st : wstat) (a e n : name) (ttl : Z)
| OListWorkloads (a e n : name) (limit : Z) (flt : labels)
| OListNodeWorkloads (n : name) (flt : labels)
| OGetDeployStatus (a e : name)
| OCreateProcessing (pr : proc) (cnt : Z)
| ODeleteProcessing (pr : proc)
| OAdvance (d : Z).                            (* the clock, not a Store call *)

Definition proc_key (p : proc) : key := KProc (p_app p) (p_entry p) (p_node p) (p_ident p).

(* doAddNode: the batch argument and the returned node *)
Definition mock_prefix : string := "mock://"%string.
Definition new_node (nd : ndata) : ndata :=
  mkN (n_name nd) (n_ep nd) (n_pod nd) (n_labels nd) false
      (n_test nd || String.prefix mock_prefix (n_ep nd)).
Definition add_node_data (nd : ndata) (ca cert key : name) : list (KVPrims.key * value) :=
  let d := dput_if [] (KCa (n_name nd)) ca in
  let d := dput_if d (KCert (n_name nd)) cert in
  let d := dput_if d (KKey (n_name nd)) key in
  let d := dput d (KNode (n_name nd)) (VNode (new_node nd)) in
  dput d (KNodePod (n_pod nd) (n_name nd)) (VNode (new_node nd)).

Definition remove_node_keys (n p : name) : list key :=
  [KNode n; KNodePod p n; KCa n; KCert n; KKey n].

(* UpdateNodes: one Go map for all nodes *)
Definition update_nodes_data (l : list (ndata * name * name * name)) : list (key * value) :=
  fold_left (fun d x =>
    let '(nd, ca, cert, ky) := x in
    let d := dput d (KNode (n_name nd)) (VNode nd) in
    let d := dput d (KNodePod (n_pod nd) (n_name nd)) (VNode nd) in
    let d := dput_if d (KCa (n_name nd)) ca in
    let d := dput_if d (KCert (n_name nd)) cert in
    dput_if d (KKey (n_name nd)) ky) l [].

(* doOpsWorkload / cleanWorkloadData *)
Definition workload_data (w : wdata) (a e : name) : list (key * value) :=
  let d := dput [] (KWl (w_id w)) (VWl w) in
  let d := dput d (KNodeWl (w_node w) (w_id w)) (VWl w) in
  dput d (KDeploy a e (w_node w) (w_id w)) (VWl w).
Definition clean_keys (w : wdata) (a e : name) : list key :=
  [KStatus a e (w_node w) (w_id w); KDeploy a e (w_node w) (w_id w); KWl (w_id w);
   KNodeWl (w_node w) (w_id w)].

(* doGetNodes after the key-value fetch *)
Fixpoint unmarshal_nodes (vals : list value) : option (list ndata) :=
  match vals with
  | [] => Some []
  | VNode nd :: t => option_map (cons nd) (unmarshal_nodes t)
  | _ :: _ => None
  end.
Definition node_view (has_status : name -> bool) (nd : ndata) : nview :=
  mkNV nd (if n_test nd then negb (n_bypass nd) else has_status (n_name nd)).
Definition is_down (v : nview) : bool := n_bypass (nv_d v) || negb (nv_avail v).
Definition do_get_nodes (has_status : name -> bool) (vals : list value) (flt : labels) (all : bool)
  : list nview + err :=
  match unmarshal_nodes vals with
  | None => inr EOther
  | Some nds =>
      let all_nodes := filter (fun nd => labels_filter (n_labels nd) flt) nds in
      inl (filter (fun v => all || negb (is_down v)) (map (node_view has_status) all_nodes))
  end.

Fixpoint unmarshal_pods (vals : list value) : option (list (name * name)) :=
  match vals with
  | [] => Some []
  | VPod n d :: t => option_map (cons (n, d)) (unmarshal_pods t)
  | _ :: _ => None
  end.
Fixpoint unmarshal_workloads (vals : list value) : option (list wdata) :=
  match vals with
  | [] => Some []
  | VWl w :: t => option_map (cons w) (unmarshal_workloads t)
  | _ :: _ => None
  end.

(* bindWorkloadsAdditions *)
Fixpoint nassoc {A} (k : name) (l : list (name * A)) : option A :=
  match l with [] => None | (k', v) :: t => if name_eqb k k' then Some v else nassoc k t end.
Fixpoint nput {A} (l : list (name * A)) (k : name) (v : A) : list (name * A) :=
  match l with
  | [] => [(k, v)]
  | (k', v') :: t => if name_eqb k k' then (k, v) :: t else (k', v') :: nput t k v
  end.
Fixpoint collect_additions (ws : list wdata) (sk : list (name * key)) (seen : list name)
  : (list (name * key) * list name) + err :=
  match ws with
  | [] => inl (sk, seen)
  | w :: t =>
      match w_parse w with
      | None => inr EName
      | Some (a, e) =>
          collect_additions t (nput sk (w_id w) (KStatus a e (w_node w) (w_id w)))
            (if existsb (name_eqb (w_node w)) seen then seen else seen ++ [w_node w])
      end
  end.
Fixpoint attach_additions (get_status : key -> option value) (ns : list nview)
         (sk : list (name * key)) (ws : list wdata) : list wview + err :=
  match ws with
  | [] => inl []
  | w :: t =>
      if negb (existsb (fun v => name_eqb (n_name (nv_d v)) (w_node w)) ns) then inr EMeta
      else
        let st := match nassoc (w_id w) sk with
                  | None => None
                  | Some k => match get_status k with Some (VWSt s) => Some s | _ => None end
                  end in
        match attach_additions get_status ns sk t with
        | inl r => inl (mkWV w st :: r)
        | inr e => inr e
        end
  end.
Definition bind_additions (get_nodes : list name -> list nview + err)
           (get_status : key -> option value) (ws : list wdata) : list wview + err :=
  match collect_additions ws [] [] with
  | inr e => inr e
  | inl (sk, nodenames) =>
      match get_nodes nodenames with
      | inr e => inr e
      | inl ns => attach_additions get_status ns sk ws
      end
  end.

(* label filter over unmarshalled workloads *)
Definition filter_workloads (ws : list wdata) (flt : labels) : list wdata :=
  filter (fun w => labels_filter (w_labels w) flt) ws.

(* ListWorkloads prefix normalisation and the keys under the prefix *)
Definition list_prefix (a e n : name) : name * name * name :=
  let e := if name_eqb a ""%string then ""%string else e in
  let n := if name_eqb e ""%string then ""%string else n in
  (a, e, n).
Definition wild (pat x : name) : bool := name_eqb pat ""%string || name_eqb pat x.
Definition deploy_under (a e n : name) (k : key) : bool :=
  match k with KDeploy a' e' n' _ => wild a a' && wild e e' && wild n n' | _ => false end.
Definition proc_under (a e : name) (k : key) : bool :=
  match k with KProc a' e' _ _ => name_eqb a a' && name_eqb e e' | _ => false end.
Definition nodewl_under (n : name) (k : key) : bool :=
  match k with KNodeWl n' _ => name_eqb n n' | _ => false end.
Definition nodepod_under (p : name) (k : key) : bool :=
  match k with KNodePod p' _ => name_eqb p p' | _ => false end.
Definition is_pod_key (k : key) : bool := match k with KPod _ => true | _ => false end.

Definition take_limit {A} (limit : Z) (l : list A) : list A :=
  if 0 <? limit then firstn (Z.to_nat limit) l else l.

(* doGetDeployStatus / doLoadProcessing: counts per node name (second-to-last key part) *)
Definition node_of_key (k : key) : name :=
  match k with KDeploy _ _ n _ => n | KProc _ _ n _ => n | _ => ""%string end.
Definition cadd (m : list (name * Z)) (n : name) (c : Z) : list (name * Z) :=
  nput m n (match nassoc n m with Some x => x + c | None => c end).
Definition deploy_counts (ks : list key) : list (name * Z) :=
  fold_left (fun m k => cadd m (node_of_key k) 1) ks [].
Definition processing_counts (kvs : list (key * value)) : list (name * Z) :=
  fold_left (fun m kv => match snd kv with VCnt z => cadd m (node_of_key (fst kv)) z | _ => m end) kvs [].
Definition merge_counts (dc pc : list (name * Z)) : list (name * Z) :=
  fold_left (fun m nc => cadd m (fst nc) (snd nc)) pc dc.

Definition res_nodes (r : list nview + err) : result :=
  match r with inl l => ROk (PNodes l) | inr e => RErr e end.
Definition res_wls (r : list wview + err) : result :=
  match r with inl l => ROk (PWls l) | inr e => RErr e end.
Definition res_first_node (r : list nview + err) : result :=
  match r with inl (v :: _) => ROk (PNode v) | inl [] => RPanic | inr e => RErr e end.
Definition res_first_wl (r : list wview + err) : result :=
  match r with inl (v :: _) => ROk (PWl v) | inl [] => RPanic | inr e => RErr e end.
Definition res_first_wl_status (r : list wview + err) : result :=
  match r with inl (v :: _) => ROk (PWSt (wv_st v)) | inl [] => RPanic | inr e => RErr e end.

Definition raw_or_empty (o : option value) : name :=
  match o with Some (VRaw s) => s | _ => ""%string end.

(* ---- the read path of Mercury over a snapshot of the key space ----
   Mercury reads through meta.KV.Get / GetOne / GetMulti; none of them looks at
   versions or leases, so the read methods are functions of the key-value
   [view] of the store.  (The abstract specification reads the same way.) *)
Definition view := list (key * value).

(* GetOne: Count != 1 => ErrInvaildCount *)
Definition v_get_one (v : view) (k : key) : value + err :=
  match lookup v k with Some x => inl x | None => inr ECount end.
(* GetMulti: empty => (nil, nil); else one txn of gets, every Count must be 1 *)
Fixpoint v_get_multi (v : view) (ks : list key) : list value + err :=
  match ks with
  | [] => inl []
  | k :: t => match v_get_one v k with
              | inr e => inr e
              | inl x => match v_get_multi v t with inl r => inl (x :: r) | inr e => inr e end
              end
  end.
(* Get(prefix, WithPrefix()): sorted by key *)
Definition v_range (v : view) (p : key -> bool) : view := scan v p.

Definition v_has_status (v : view) (n : name) : bool :=
  match v_get_one v (KNStatus n) with inl _ => true | inr _ => false end.
Definition v_get_nodes (v : view) (ns : list name) : list nview + err :=
  match v_get_multi v (map KNode ns) with
  | inr e => inr e
  | inl vals => do_get_nodes (v_has_status v) vals [] true
  end.
Definition v_nodes_of_pod (v : view) (p : name) (flt : labels) (all : bool) : list nview + err :=
  do_get_nodes (v_has_status v) (map snd (v_range v (nodepod_under p))) flt all.
Definition v_all_pods (v : view) : list (name * name) + err :=
  match unmarshal_pods (map snd (v_range v is_pod_key)) with Some l => inl l | None => inr EOther end.
Fixpoint v_nodes_of_pods (v : view) (ps : list (name * name)) (flt : labels) (all : bool)
  : list nview + err :=
  match ps with
  | [] => inl []
  | p :: t => match v_nodes_of_pod v (fst p) flt all with
              | inr e => inr e
              | inl l => match v_nodes_of_pods v t flt all with
                         | inl r => inl (l ++ r) | inr e => inr e end
              end
  end.
Definition v_get_nodes_by_pod (v : view) (p : name) (flt : labels) (all : bool) : list nview + err :=
  if negb (name_eqb p ""%string) then v_nodes_of_pod v p flt all
  else match v_all_pods v with
       | inr e => inr e
       | inl ps => v_nodes_of_pods v ps flt all
       end.

Definition v_bind_additions (v : view) (ws : list wdata) : list wview + err :=
  bind_additions (v_get_nodes v) (lookup v) ws.
Definition v_get_workloads (v : view) (ids : list name) : list wview + err :=
  match v_get_multi v (map KWl ids) with
  | inr e => inr e
  | inl vals => match unmarshal_workloads vals with
                | None => inr EOther
                | Some ws => v_bind_additions v ws
                end
  end.
Definition v_list (v : view) (p : key -> bool) (limit : Z) (flt : labels) : list wview + err :=
  match unmarshal_workloads (map snd (take_limit limit (v_range v p))) with
  | None => inr EOther
  | Some ws => v_bind_additions v (filter_workloads ws flt)
  end.

(* the read-only Store methods; None = not a read-only method *)
Definition read_op (v : view) (o : op) : option result :=
  match o with
  | OGetPod p =>
      Some match v_get_one v (KPod p) with
           | inr e => RErr e
           | inl (VPod n d) => ROk (PPod n d)
           | inl _ => RErr EOther
           end
  | OGetAllPods => Some match v_all_pods v with inl l => ROk (PPods l) | inr e => RErr e end
  | OGetNode n => Some (res_first_node (v_get_nodes v [n]))
  | OGetNodes ns => Some (res_nodes (v_get_nodes v ns))
  | OGetNodesByPod p flt all => Some (res_nodes (v_get_nodes_by_pod v p flt all))
  | OGetNodeStatus n =>
      Some match v_get_one v (KNStatus n) with
           | inr e => RErr e
           | inl (VNSt n' p') => ROk (PNSt n' p' true)
           | inl _ => RErr EOther
           end
  | OLoadNodeCert n =>
      Some (ROk (PCert (raw_or_empty (lookup v (KCa n))) (raw_or_empty (lookup v (KCert n)))
                       (raw_or_empty (lookup v (KKey n)))))
  | OGetWorkload id => Some (res_first_wl (v_get_workloads v [id]))
  | OGetWorkloads ids => Some (res_wls (v_get_workloads v ids))
  | OGetWorkloadStatus id => Some (res_first_wl_status (v_get_workloads v [id]))
  | OListWorkloads a e n limit flt =>
      let '(a', e', n') := list_prefix a e n in
      Some (res_wls (v_list v (deploy_under a' e' n') limit flt))
  | OListNodeWorkloads n flt => Some (res_wls (v_list v (nodewl_under n) 0 flt))
  | OGetDeployStatus a e =>
      let dc := deploy_counts (map fst (v_range v (deploy_under a e ""%string))) in
      let pc := processing_counts (v_range v (proc_under a e)) in
      Some (ROk (PCounts (merge_counts dc pc)))
  | _ => None
  end.
