(* KeyStrings: the string level of the key space.

   The store models use structured keys; [KVPrims.render] is the string the Go
   code builds (validated on every correspondence run against the real key
   strings).  This file proves, for names without the separators '/' and ':',
   that rendering is injective (distinct structured keys are distinct strings,
   so a structured map is a faithful picture of the string-keyed store) and that
   every prefix read of the etcd store / every "prefix*" pattern of the Redis
   store selects exactly the keys the structural predicates of Ops select --
   including names that are string prefixes of one another (n1 / n10), which is
   what the explicit trailing '/' of the Go code is for. *)
From Coq Require Import List Bool ZArith String Ascii Lia.
From Verif Require Import Base.RunLib Store.KVPrims Store.KVLemmas Store.Ops.
Import ListNotations.
Local Open Scope string_scope.

(* characters that must not occur in names: the separators of the key formats *)
Definition sep_char (c : ascii) : bool :=
  Ascii.eqb c "/"%char || Ascii.eqb c ":"%char.
Fixpoint no_sep (s : string) : bool :=
  match s with EmptyString => true | String c t => negb (sep_char c) && no_sep t end.
Definition safe_name (s : name) : bool := negb (String.eqb s "") && no_sep s.

(* a ++ [sep] ++ x determines a and x when a has no separator *)
Lemma split_unique : forall (c : ascii) (a b x y : string),
  sep_char c = true -> no_sep a = true -> no_sep b = true ->
  a ++ String c x = b ++ String c y -> a = b /\ x = y.
Proof.
  intros c. induction a as [|ca ta IH]; intros b x y SC NA NB H; destruct b as [|cb tb]; simpl in *.
  - inversion H. auto.
  - inversion H; subst. apply andb_true_iff in NB. destruct NB as [NB _]. rewrite SC in NB. discriminate.
  - inversion H; subst. apply andb_true_iff in NA. destruct NA as [NA _]. rewrite SC in NA. discriminate.
  - inversion H; subst. apply andb_true_iff in NA. apply andb_true_iff in NB.
    destruct (IH tb x y SC (proj2 NA) (proj2 NB) H2) as [E1 E2]. subst. auto.
Qed.
Lemma app_inv_head_s : forall (a x y : string), a ++ x = a ++ y -> x = y.
Proof. induction a; simpl; intros x y H; [exact H | inversion H; auto]. Qed.
(* a name without separators is never  b ++ [sep] ++ y *)
Lemma no_sep_not_split : forall (c : ascii) (b y a : string),
  sep_char c = true -> no_sep a = true -> a <> b ++ String c y.
Proof.
  intros c b. induction b as [|cb tb IH]; intros y a SC NA H; destruct a as [|ca ta]; simpl in *; try discriminate.
  - inversion H; subst. apply andb_true_iff in NA. destruct NA as [NA _]. rewrite SC in NA. discriminate.
  - inversion H; subst. apply andb_true_iff in NA. eapply IH; [exact SC | exact (proj2 NA) | reflexivity].
Qed.

Definition key_safe (k : key) : bool :=
  match k with
  | KPod p => no_sep p
  | KNode n | KCa n | KCert n | KKey n | KNStatus n | KWl n => no_sep n
  | KNodePod p n | KNodeWl p n => no_sep p && no_sep n
  | KDeploy a e n i | KStatus a e n i | KProc a e n i => no_sep a && no_sep e && no_sep n && no_sep i
  | KOther _ => false
  end.

Lemma sep_slash : sep_char "/"%char = true. Proof. reflexivity. Qed.
Lemma sep_colon : sep_char ":"%char = true. Proof. reflexivity. Qed.

Ltac peel H :=
  repeat match type of H with
  | String _ _ = String _ _ => first [ discriminate H | injection H; clear H; intro H ]
  end.
Ltac hyps :=
  repeat match goal with
  | H : _ && _ = true |- _ => apply andb_true_iff in H; destruct H
  end.
Ltac split_all :=
  repeat match goal with
  | H : ?a ++ String ?c ?x = ?b ++ String ?c ?y |- _ =>
      apply split_unique in H; [destruct H; subst | first [exact sep_slash | exact sep_colon] | assumption | assumption]
  end.
Ltac absurd_split :=
  match goal with
  | H : ?a = ?b ++ String ?c ?y |- _ =>
      exfalso; eapply (no_sep_not_split c b y a); [first [exact sep_slash | exact sep_colon] | assumption | exact H]
  | H : ?b ++ String ?c ?y = ?a |- _ =>
      exfalso; eapply (no_sep_not_split c b y a); [first [exact sep_slash | exact sep_colon] | assumption | symmetry; exact H]
  end.

Theorem render_injective : forall k1 k2,
  key_safe k1 = true -> key_safe k2 = true -> render k1 = render k2 -> k1 = k2.
Proof.
  intros k1 k2 S1 S2 H.
  destruct k1, k2; simpl in S1, S2; try discriminate S1; try discriminate S2; hyps;
    simpl in H; peel H;
    try (subst; reflexivity);
    try (split_all; try reflexivity; try discriminate; fail);
    try (split_all; simpl in *; match goal with H : String _ _ = String _ _ |- _ => peel H end; fail);
    try absurd_split;
    try (split_all; repeat match goal with H : String _ _ = String _ _ |- _ => injection H; clear H; intro H end; subst; reflexivity).
Qed.


(* ---- prefix scans select exactly the structural matches ---- *)
Lemma prefix_app_same : forall a b c, String.prefix (a ++ b) (a ++ c) = String.prefix b c.
Proof. induction a as [|x t IH]; intros; simpl; [reflexivity|]. destruct (ascii_dec x x); [apply IH | contradiction]. Qed.
Lemma sep_not_nosep : forall c t, sep_char c = true -> no_sep (String c t) = false.
Proof. intros. simpl. rewrite H. reflexivity. Qed.
Lemma prefix_split : forall (c : ascii) (p q x y : string),
  sep_char c = true -> no_sep p = true -> no_sep q = true ->
  String.prefix (p ++ String c x) (q ++ String c y) = String.eqb p q && String.prefix x y.
Proof.
  intros c. induction p as [|cp tp IH]; intros q x y SC NP NQ; destruct q as [|cq tq]; simpl in *.
  - destruct (ascii_dec c c); [reflexivity | contradiction].
  - destruct (ascii_dec c cq); [|reflexivity]. subst. apply andb_true_iff in NQ. destruct NQ as [NQ _]. rewrite SC in NQ. discriminate.
  - destruct (ascii_dec cp c); [|reflexivity]. subst. apply andb_true_iff in NP. destruct NP as [NP _]. rewrite SC in NP. discriminate.
  - apply andb_true_iff in NP. apply andb_true_iff in NQ. destruct NP as [_ NP], NQ as [_ NQ].
    destruct (ascii_dec cp cq) as [E|E].
    + subst. rewrite Ascii.eqb_refl. apply IH; assumption.
    + apply Ascii.eqb_neq in E. rewrite E. reflexivity.
Qed.
Lemma prefix_nosep_false : forall (c : ascii) (p x n : string),
  sep_char c = true -> no_sep n = true -> String.prefix (p ++ String c x) n = false.
Proof.
  intros c. induction p as [|cp tp IH]; intros x n SC NN; destruct n as [|cn tn]; simpl in *; try reflexivity.
  - destruct (ascii_dec c cn); [|reflexivity]. subst. apply andb_true_iff in NN. destruct NN as [NN _]. rewrite SC in NN. discriminate.
  - destruct (ascii_dec cp cn); [|reflexivity]. apply andb_true_iff in NN. apply IH; [exact SC | exact (proj2 NN)].
Qed.
Lemma prefix_empty : forall s, String.prefix "" s = true.
Proof. destruct s; reflexivity. Qed.

(* the prefixes the Go code builds (after ListWorkloads' normalisation: an empty
   component empties the following ones, filepath.Join drops empty components) *)
Definition pfx_pods : string := "/pod/info/".
Definition pfx_nodepod (p : name) : string := "/node/" ++ p ++ ":pod/".
Definition pfx_nodewl (n : name) : string := "/node/" ++ n ++ ":workloads/".
Definition pfx_proc (a e : name) : string := "/processing/" ++ a ++ "/" ++ e ++ "/".
Definition pfx_deploy (a e n : name) : string :=
  "/deploy/" ++ (if String.eqb a "" then "" else
     a ++ "/" ++ (if String.eqb e "" then "" else e ++ "/" ++ (if String.eqb n "" then "" else n ++ "/"))).

Ltac pfx :=
  cbn;
  repeat first
    [ rewrite prefix_split by (first [exact sep_slash | exact sep_colon | assumption])
    | rewrite prefix_nosep_false by (first [exact sep_slash | exact sep_colon | assumption]) ];
  cbn; rewrite ?prefix_empty, ?andb_false_r, ?andb_true_r; try reflexivity.

Theorem scan_pods_exact : forall k, key_safe k = true -> String.prefix pfx_pods (render k) = is_pod_key k.
Proof. intros k S. destruct k; simpl in S; try discriminate S; hyps; unfold pfx_pods; pfx. Qed.

Theorem scan_nodepod_exact : forall p k, no_sep p = true -> key_safe k = true ->
  String.prefix (pfx_nodepod p) (render k) = nodepod_under p k.
Proof. intros p k P S. destruct k; simpl in S; try discriminate S; hyps; unfold pfx_nodepod, nodepod_under, name_eqb; pfx. Qed.

Theorem scan_nodewl_exact : forall n k, no_sep n = true -> key_safe k = true ->
  String.prefix (pfx_nodewl n) (render k) = nodewl_under n k.
Proof. intros n k P S. destruct k; simpl in S; try discriminate S; hyps; unfold pfx_nodewl, nodewl_under, name_eqb; pfx. Qed.

Theorem scan_proc_exact : forall a e k, no_sep a = true -> no_sep e = true -> key_safe k = true ->
  String.prefix (pfx_proc a e) (render k) = proc_under a e k.
Proof. intros a e k A E S. destruct k; simpl in S; try discriminate S; hyps; unfold pfx_proc, proc_under, name_eqb; pfx. Qed.

Theorem scan_deploy_exact : forall a e n k,
  no_sep a = true -> no_sep e = true -> no_sep n = true ->
  (a = "" -> e = "") -> (e = "" -> n = "") -> key_safe k = true ->
  String.prefix (pfx_deploy a e n) (render k) = deploy_under a e n k.
Proof.
  intros a e n k A E N AE EN S.
  destruct k; simpl in S; try discriminate S; hyps; unfold pfx_deploy, deploy_under, wild, name_eqb;
    try (cbn; reflexivity).
  destruct (String.eqb a "") eqn:A0.
  - apply String.eqb_eq in A0. rewrite (AE A0), (EN (AE A0)). cbn. apply prefix_empty.
  - destruct (String.eqb e "") eqn:E0.
    + apply String.eqb_eq in E0. rewrite (EN E0). cbn.
      rewrite prefix_split by (first [exact sep_slash | assumption]). cbn. rewrite prefix_empty, !andb_true_r. reflexivity.
    + destruct (String.eqb n "") eqn:N0; cbn;
        repeat rewrite prefix_split by (first [exact sep_slash | assumption]); cbn;
        rewrite ?prefix_empty, ?andb_true_r, ?andb_assoc; reflexivity.
Qed.

(* why the Go code appends the explicit '/': without it the range read of one
   entrypoint also covers every entrypoint whose name merely starts with it *)
Example prefix_without_slash_leaks :
  String.prefix "/processing/a0/e0" (render (KProc "a0" "e0-t" "n0" "i0")) = true
  /\ String.prefix (pfx_proc "a0" "e0") (render (KProc "a0" "e0-t" "n0" "i0")) = false.
Proof. split; reflexivity. Qed.

Definition scans_exact_stmt : Prop :=
  forall k, key_safe k = true ->
    String.prefix pfx_pods (render k) = is_pod_key k /\
    (forall p, no_sep p = true -> String.prefix (pfx_nodepod p) (render k) = nodepod_under p k) /\
    (forall n, no_sep n = true -> String.prefix (pfx_nodewl n) (render k) = nodewl_under n k) /\
    (forall a e, no_sep a = true -> no_sep e = true -> String.prefix (pfx_proc a e) (render k) = proc_under a e k) /\
    (forall a e n, no_sep a = true -> no_sep e = true -> no_sep n = true ->
       (a = "" -> e = "") -> (e = "" -> n = "") ->
       String.prefix (pfx_deploy a e n) (render k) = deploy_under a e n k).
Lemma scans_exact_holds : scans_exact_stmt.
Proof.
  intros k S. repeat split; intros.
  - apply scan_pods_exact; assumption.
  - apply scan_nodepod_exact; assumption.
  - apply scan_nodewl_exact; assumption.
  - apply scan_proc_exact; assumption.
  - apply scan_deploy_exact; assumption.
Qed.
Definition render_injective_stmt : Prop :=
  forall k1 k2, key_safe k1 = true -> key_safe k2 = true -> render k1 = render k2 -> k1 = k2.
