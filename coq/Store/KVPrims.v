(* KVPrims: the data of the metadata stores and the key-value primitives the two
   Store implementations are written over.

   Keys are modelled structurally (one constructor per key format of
   store/etcdv3/mercury.go = store/redis/rediaron.go); [render] gives the string
   the Go code builds (fmt.Sprintf / filepath.Join) and is used only for the
   order in which range scans return keys.  That the rendering is injective and
   that prefix scans / glob patterns select exactly the structural matches holds
   for names that are non-empty and free of '/', ':' and the glob
   metacharacters; this is an assumption of the Store models (C24's domain).

   Executable definitions only; proofs are in KVLemmas.v. *)
From Coq Require Import List Bool ZArith String Ascii.
From Verif Require Import Base.RunLib.
Import ListNotations.
Local Open Scope string_scope.

Definition name := string.
Definition name_eqb : name -> name -> bool := String.eqb.
Definition labels := list (name * name).

Record ndata := mkN { n_name : name; n_ep : name; n_pod : name; n_labels : labels;
                      n_bypass : bool; n_test : bool }.
(* w_parse: result of utils.ParseWorkloadName on w_name (appname, entrypoint),
   computed by the real function in the harness; None = ErrInvalidWorkloadName *)
Record wdata := mkW { w_id : name; w_name : name; w_parse : option (name * name);
                      w_node : name; w_labels : labels }.
Record wstat := mkWS { ws_id : name; ws_running : bool; ws_healthy : bool }.
Record proc := mkP { p_app : name; p_entry : name; p_node : name; p_ident : name }.

Inductive key :=
| KPod (p : name)                      (* /pod/info/{p} *)
| KNode (n : name)                     (* /node/{n} *)
| KNodePod (p n : name)                (* /node/{p}:pod/{n} *)
| KCa (n : name) | KCert (n : name) | KKey (n : name)   (* /node/{n}:ca|cert|key *)
| KNStatus (n : name)                  (* /status:node/{n} *)
| KNodeWl (n id : name)                (* /node/{n}:workloads/{id} *)
| KWl (id : name)                      (* /workloads/{id} *)
| KDeploy (a e n id : name)            (* /deploy/{a}/{e}/{n}/{id} *)
| KStatus (a e n id : name)            (* /status/{a}/{e}/{n}/{id} *)
| KProc (a e n i : name)               (* /processing/{a}/{e}/{n}/{i} *)
| KOther (s : name).                   (* harness only: an unparsable key *)

Inductive value :=
| VPod (n d : name)                    (* {"name":..,"desc":..} *)
| VNode (nd : ndata)
| VWl (w : wdata)
| VRaw (s : name)                      (* certificate material *)
| VCnt (z : Z)                         (* processing counter, decimal *)
| VNSt (n p : name)                    (* NodeStatus{Nodename,Podname,Alive:true} *)
| VWSt (st : wstat)
| VBad (s : name).                     (* harness only: an unparsable value *)

(* ---- boolean equalities ---- *)
Definition labels_eqb : labels -> labels -> bool := list_eqb (pair_eqb name_eqb name_eqb).
Definition ndata_eqb (a b : ndata) : bool :=
  name_eqb (n_name a) (n_name b) && name_eqb (n_ep a) (n_ep b) && name_eqb (n_pod a) (n_pod b)
  && labels_eqb (n_labels a) (n_labels b) && Bool.eqb (n_bypass a) (n_bypass b)
  && Bool.eqb (n_test a) (n_test b).
Definition wdata_eqb (a b : wdata) : bool :=
  name_eqb (w_id a) (w_id b) && name_eqb (w_name a) (w_name b)
  && option_eqb (pair_eqb name_eqb name_eqb) (w_parse a) (w_parse b)
  && name_eqb (w_node a) (w_node b) && labels_eqb (w_labels a) (w_labels b).
Definition wstat_eqb (a b : wstat) : bool :=
  name_eqb (ws_id a) (ws_id b) && Bool.eqb (ws_running a) (ws_running b)
  && Bool.eqb (ws_healthy a) (ws_healthy b).

Definition key_eqb (x y : key) : bool :=
  match x, y with
  | KPod a, KPod b | KNode a, KNode b | KCa a, KCa b | KCert a, KCert b | KKey a, KKey b
  | KNStatus a, KNStatus b | KWl a, KWl b | KOther a, KOther b => name_eqb a b
  | KNodePod a1 a2, KNodePod b1 b2 | KNodeWl a1 a2, KNodeWl b1 b2 => name_eqb a1 b1 && name_eqb a2 b2
  | KDeploy a1 a2 a3 a4, KDeploy b1 b2 b3 b4 | KStatus a1 a2 a3 a4, KStatus b1 b2 b3 b4
  | KProc a1 a2 a3 a4, KProc b1 b2 b3 b4 =>
      name_eqb a1 b1 && name_eqb a2 b2 && name_eqb a3 b3 && name_eqb a4 b4
  | _, _ => false
  end.

Definition value_eqb (x y : value) : bool :=
  match x, y with
  | VPod a1 a2, VPod b1 b2 | VNSt a1 a2, VNSt b1 b2 => name_eqb a1 b1 && name_eqb a2 b2
  | VNode a, VNode b => ndata_eqb a b
  | VWl a, VWl b => wdata_eqb a b
  | VRaw a, VRaw b | VBad a, VBad b => name_eqb a b
  | VCnt a, VCnt b => Z.eqb a b
  | VWSt a, VWSt b => wstat_eqb a b
  | _, _ => false
  end.

(* the key string of the Go code; only its order matters to the model *)
Definition render (k : key) : string :=
  match k with
  | KPod p => "/pod/info/" ++ p
  | KNode n => "/node/" ++ n
  | KNodePod p n => "/node/" ++ p ++ ":pod/" ++ n
  | KCa n => "/node/" ++ n ++ ":ca"
  | KCert n => "/node/" ++ n ++ ":cert"
  | KKey n => "/node/" ++ n ++ ":key"
  | KNStatus n => "/status:node/" ++ n
  | KNodeWl n id => "/node/" ++ n ++ ":workloads/" ++ id
  | KWl id => "/workloads/" ++ id
  | KDeploy a e n id => "/deploy/" ++ a ++ "/" ++ e ++ "/" ++ n ++ "/" ++ id
  | KStatus a e n id => "/status/" ++ a ++ "/" ++ e ++ "/" ++ n ++ "/" ++ id
  | KProc a e n i => "/processing/" ++ a ++ "/" ++ e ++ "/" ++ n ++ "/" ++ i
  | KOther s => s
  end.
Definition key_leb (a b : key) : bool := String.leb (render a) (render b).

(* ---- association maps keyed by [key] (Go: the backing store) ---- *)
Section Map.
  Context {V : Type}.
  Fixpoint lookup (m : list (key * V)) (k : key) : option V :=
    match m with
    | [] => None
    | (k', v) :: t => if key_eqb k k' then Some v else lookup t k
    end.
  Fixpoint put (m : list (key * V)) (k : key) (v : V) : list (key * V) :=
    match m with
    | [] => [(k, v)]
    | (k', v') :: t => if key_eqb k k' then (k, v) :: t else (k', v') :: put t k v
    end.
  Definition del (m : list (key * V)) (k : key) : list (key * V) :=
    filter (fun kv => negb (key_eqb k (fst kv))) m.
  Definition mem (m : list (key * V)) (k : key) : bool :=
    match lookup m k with Some _ => true | None => false end.
  (* stable insertion sort by rendered key: the order of an etcd range read and
     of miniredis SCAN *)
  Fixpoint ins (x : key * V) (l : list (key * V)) : list (key * V) :=
    match l with
    | [] => [x]
    | y :: t => if key_leb (fst x) (fst y) then x :: l else y :: ins x t
    end.
  Fixpoint isort (l : list (key * V)) : list (key * V) :=
    match l with [] => [] | x :: t => ins x (isort t) end.
  Definition scan (m : list (key * V)) (p : key -> bool) : list (key * V) :=
    isort (filter (fun kv => p (fst kv)) m).
End Map.

(* Go maps used as batch arguments: unique keys, last write wins *)
Definition dput (d : list (key * value)) (k : key) (v : value) := put d k v.
Definition dput_if (d : list (key * value)) (k : key) (s : name) :=
  if name_eqb s "" then d else put d k (VRaw s).

(* ---- results of Store calls ---- *)
Record nview := mkNV { nv_d : ndata; nv_avail : bool }.
Record wview := mkWV { wv_d : wdata; wv_st : option wstat }.
Inductive payload :=
| PUnit
| PPod (n d : name)
| PPods (l : list (name * name))
| PNode (v : nview)
| PNodes (l : list nview)
| PNSt (n p : name) (alive : bool)
| PCert (ca cert key : name)
| PWl (v : wview)
| PWls (l : list wview)
| PWSt (s : option wstat)
| PCounts (l : list (name * Z)).
Inductive err := EExists | ENotExists | ECount | ENil | EPodHasNodes | EPodNotFound
               | ETTL | EStatus | EName | EMeta | EOther.
Inductive result := ROk (p : payload) | RErr (e : err) | RPanic.

Definition err_eqb (a b : err) : bool :=
  match a, b with
  | EExists, EExists | ENotExists, ENotExists | ECount, ECount | ENil, ENil
  | EPodHasNodes, EPodHasNodes | EPodNotFound, EPodNotFound | ETTL, ETTL | EStatus, EStatus
  | EName, EName | EMeta, EMeta | EOther, EOther => true
  | _, _ => false
  end.

(* lists returned through Go maps / goroutine pools have no defined order:
   observable equality is equality of multisets *)
Fixpoint remove1 {A} (eqb : A -> A -> bool) (x : A) (l : list A) : option (list A) :=
  match l with
  | [] => None
  | y :: t => if eqb x y then Some t
              else match remove1 eqb x t with Some t' => Some (y :: t') | None => None end
  end.
Fixpoint perm_eqb {A} (eqb : A -> A -> bool) (l1 l2 : list A) : bool :=
  match l1 with
  | [] => match l2 with [] => true | _ => false end
  | x :: t => match remove1 eqb x l2 with Some l2' => perm_eqb eqb t l2' | None => false end
  end.

Definition nview_eqb (a b : nview) := ndata_eqb (nv_d a) (nv_d b) && Bool.eqb (nv_avail a) (nv_avail b).
Definition wview_eqb (a b : wview) :=
  wdata_eqb (wv_d a) (wv_d b) && option_eqb wstat_eqb (wv_st a) (wv_st b).
Definition payload_eqb (a b : payload) : bool :=
  match a, b with
  | PUnit, PUnit => true
  | PPod a1 a2, PPod b1 b2 => name_eqb a1 b1 && name_eqb a2 b2
  | PPods l1, PPods l2 => perm_eqb (pair_eqb name_eqb name_eqb) l1 l2
  | PNode v1, PNode v2 => nview_eqb v1 v2
  | PNodes l1, PNodes l2 => perm_eqb nview_eqb l1 l2
  | PNSt a1 a2 a3, PNSt b1 b2 b3 => name_eqb a1 b1 && name_eqb a2 b2 && Bool.eqb a3 b3
  | PCert a1 a2 a3, PCert b1 b2 b3 => name_eqb a1 b1 && name_eqb a2 b2 && name_eqb a3 b3
  | PWl v1, PWl v2 => wview_eqb v1 v2
  | PWls l1, PWls l2 => perm_eqb wview_eqb l1 l2
  | PWSt s1, PWSt s2 => option_eqb wstat_eqb s1 s2
  | PCounts l1, PCounts l2 => perm_eqb (pair_eqb name_eqb Z.eqb) l1 l2
  | _, _ => false
  end.
(* exact agreement between a model and its implementation *)
Definition result_eqb (a b : result) : bool :=
  match a, b with
  | ROk p, ROk q => payload_eqb p q
  | RErr e, RErr f => err_eqb e f
  | RPanic, RPanic => true
  | _, _ => false
  end.
(* agreement across backends: same success/failure, same payload on success *)
Definition result_sim (a b : result) : bool :=
  match a, b with
  | ROk p, ROk q => payload_eqb p q
  | RErr _, RErr _ => true
  | _, _ => false
  end.

(* utils.LabelsFilter *)
Fixpoint assoc (k : name) (l : labels) : option name :=
  match l with [] => None | (k', v) :: t => if name_eqb k k' then Some v else assoc k t end.
Definition labels_filter (ext flt : labels) : bool :=
  forallb (fun kv => match assoc (fst kv) ext with Some n => name_eqb n (snd kv) | None => false end) flt.

(* ================= etcd ================= *)
Record eentry := mkE { e_val : value; e_ver : positive; e_lease : option N }.
Record lease := mkL { l_ttl : Z; l_exp : Z }.
Record estate := mkES { e_kv : list (key * eentry); e_leases : list (N * lease);
                        e_next : N; e_now : Z }.
Definition e_init : estate := mkES [] [] 1%N 0%Z.

Definition version (kv : list (key * eentry)) (k : key) : Z :=
  match lookup kv k with Some e => Zpos (e_ver e) | None => 0%Z end.
Definition e_put (kv : list (key * eentry)) (k : key) (v : value) (l : option N) :=
  put kv k (mkE v (match lookup kv k with Some e => Pos.succ (e_ver e) | None => 1%positive end) l).

(* etcd transactions: compares, operations, nested transactions *)
Inductive cmp :=
| CVer0 (k : key) (eq : bool)              (* Version(k) = 0  /  != 0 *)
| CVal (k : key) (eq : bool) (v : value)   (* Value(k) = v    /  != v ; false on a missing key *)
| CLeaseNe0 (k : key).                     (* LeaseValue(k) != 0 *)
Inductive top :=
| TPut (k : key) (v : value) (l : option N)
| TGet (k : key)
| TDel (k : key)
| TTxn (c : list cmp) (th el : list top).
Inductive tresp :=
| RsPut | RsGet (r : option eentry) | RsDel (n : Z) | RsTxn (ok : bool) (rs : list tresp).

Definition eval_cmp (kv : list (key * eentry)) (c : cmp) : bool :=
  match c with
  | CVer0 k eq => if eq then Z.eqb (version kv k) 0 else negb (Z.eqb (version kv k) 0)
  | CVal k eq v => match lookup kv k with
                   | None => false
                   | Some e => if eq then value_eqb (e_val e) v else negb (value_eqb (e_val e) v)
                   end
  | CLeaseNe0 k => match lookup kv k with
                   | Some e => match e_lease e with Some _ => true | None => false end
                   | None => false
                   end
  end.

Fixpoint exec_top (kv : list (key * eentry)) (o : top) {struct o} : list (key * eentry) * tresp :=
  match o with
  | TPut k v l => (e_put kv k v l, RsPut)
  | TGet k => (kv, RsGet (lookup kv k))
  | TDel k => (del kv k, RsDel (if mem kv k then 1 else 0)%Z)
  | TTxn c th el =>
      let ok := forallb (eval_cmp kv) c in
      let run := fix run (kv : list (key * eentry)) (l : list top) {struct l} :=
        match l with
        | [] => (kv, [])
        | o' :: t => let '(kv1, r) := exec_top kv o' in
                     let '(kv2, rs) := run kv1 t in (kv2, r :: rs)
        end in
      let '(kv', rs) := run kv (if ok then th else el) in
      (kv', RsTxn ok rs)
  end.
(* one client Txn().If(c).Then(th).Else(el).Commit() *)
Definition e_txn (s : estate) (c : list cmp) (th el : list top) : estate * bool * list tresp :=
  match exec_top (e_kv s) (TTxn c th el) with
  | (kv', RsTxn ok rs) => (mkES kv' (e_leases s) (e_next s) (e_now s), ok, rs)
  | (kv', _) => (s, false, [])
  end.

(* leases *)
Fixpoint lookup_lease (ls : list (N * lease)) (id : N) : option lease :=
  match ls with [] => None | (i, l) :: t => if N.eqb id i then Some l else lookup_lease t id end.
Definition e_grant (s : estate) (ttl : Z) : estate * N :=
  (mkES (e_kv s) ((e_next s, mkL ttl (e_now s + ttl)%Z) :: e_leases s) (N.succ (e_next s)) (e_now s),
   e_next s).
Definition attached (id : N) (e : eentry) : bool :=
  match e_lease e with Some i => N.eqb i id | None => false end.
Definition e_revoke (s : estate) (id : N) : estate :=
  mkES (filter (fun kv => negb (attached id (snd kv))) (e_kv s))
       (filter (fun il => negb (N.eqb id (fst il))) (e_leases s)) (e_next s) (e_now s).
(* KeepAliveOnce: the lease's deadline becomes now + granted ttl; false = lease not found *)
Definition e_keepalive (s : estate) (id : N) : estate * bool :=
  match lookup_lease (e_leases s) id with
  | Some l => (mkES (e_kv s)
                    (map (fun il => if N.eqb id (fst il) then (fst il, mkL (l_ttl (snd il)) (e_now s + l_ttl (snd il))%Z) else il)
                         (e_leases s))
                    (e_next s) (e_now s), true)
  | None => (s, false)
  end.
(* the lease server: every lease whose deadline has passed is revoked with its keys *)
Definition lease_dead (ls : list (N * lease)) (now : Z) (id : N) : bool :=
  match lookup_lease ls id with Some l => Z.leb (l_exp l) now | None => false end.
Definition e_tick (s : estate) (d : Z) : estate :=
  let now := (e_now s + d)%Z in
  let dead := lease_dead (e_leases s) now in
  mkES (filter (fun kv => negb (match e_lease (snd kv) with Some i => dead i | None => false end)) (e_kv s))
       (filter (fun il => negb (dead (fst il))) (e_leases s)) (e_next s) now.

(* ================= redis (and the abstract state) ================= *)
Record sentry := mkS { s_val : value; s_exp : option Z }.   (* absolute expiry time *)
Record rstate := mkRS { r_kv : list (key * sentry); r_now : Z }.
Definition r_init : rstate := mkRS [] 0%Z.

Definition r_get (s : rstate) (k : key) : option value := option_map s_val (lookup (r_kv s) k).
Definition r_exists (s : rstate) (ks : list key) : Z :=
  fold_left (fun n k => if mem (r_kv s) k then (n + 1)%Z else n) ks 0%Z.
(* SET k v [EX ttl]: a plain SET clears any expiry *)
Definition r_set (s : rstate) (k : key) (v : value) (ttl : Z) : rstate :=
  mkRS (put (r_kv s) k (mkS v (if Z.ltb 0 ttl then Some (r_now s + ttl)%Z else None))) (r_now s).
Definition r_setnx (s : rstate) (k : key) (v : value) : rstate * bool :=
  if mem (r_kv s) k then (s, false) else (mkRS (put (r_kv s) k (mkS v None)) (r_now s), true).
Definition r_del (s : rstate) (k : key) : rstate := mkRS (del (r_kv s) k) (r_now s).
(* DECR: a missing key counts as 0; keeps the expiry; false = value is not an integer *)
Definition r_decr (s : rstate) (k : key) : rstate * bool :=
  match lookup (r_kv s) k with
  | None => (mkRS (put (r_kv s) k (mkS (VCnt (-1)) None)) (r_now s), true)
  | Some (mkS (VCnt z) ex) => (mkRS (put (r_kv s) k (mkS (VCnt (z - 1)) ex)) (r_now s), true)
  | Some _ => (s, false)
  end.
Definition r_scan (s : rstate) (p : key -> bool) : list key := map fst (scan (r_kv s) p).
Definition r_tick (s : rstate) (d : Z) : rstate :=
  let now := (r_now s + d)%Z in
  mkRS (filter (fun kv => negb (match s_exp (snd kv) with Some e => Z.leb e now | None => false end)) (r_kv s)) now.
