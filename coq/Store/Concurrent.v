(* Concurrent: two clients of one store.  The Store methods that are not a
   single atomic command/transaction are split into their atomic steps:

     etcd  BatchCreateAndDecr  = Get(counter); then, repeatedly,
                                 Txn{If value(counter) = read value Then puts + decrement Else Get}
                                 (meta/etcd.go; the retry loop)
     redis BatchUpdate         = EXISTS keys; then MULTI{SET...}   (rediaron.go; "FIXME: no transaction ensured")

   Every other writing method used here is one transaction / one MULTI and is
   atomic.  A schedule (list bool) says which client takes the next atomic step.
   Executable definitions only. *)
From Coq Require Import List Bool ZArith String.
From Verif Require Import Base.RunLib Store.KVPrims Store.Ops Store.Status Store.Spec Store.EtcdModel Store.RedisModel Store.Case.
Import ListNotations.
Local Open Scope Z_scope.

(* ---------------- etcd: AddWorkload with a processing record ---------------- *)
Inductive cad_pc :=
| CadStart
| CadRead (v : value)               (* decrKv.Value as last read *)
| CadDone (r : option err)
| CadPanic.                         (* unreachable: malformed transaction response *)

Definition cad_step (data : list (key * value)) (dk : key) (s : estate) (pc : cad_pc) : estate * cad_pc :=
  match pc with
  | CadStart =>
      match lookup (e_kv s) dk with
      | None => (s, CadDone (Some ENotExists))
      | Some e => (s, CadRead (e_val e))
      end
  | CadRead v =>
      match v with
      | VCnt cnt =>
          let '(s', ok, rs) :=
            e_txn s [CVal dk true v]
                  (map (fun kv => TPut (fst kv) (snd kv) None) data ++ [TPut dk (VCnt (cnt - 1)) None])
                  [TGet dk] in
          if ok then (s', CadDone None)
          else match rs with
               | [RsGet (Some e)] => (s', CadRead (e_val e))     (* decrKv = kvs[0]; loop *)
               | [RsGet None] => (s', CadDone (Some ENotExists)) (* len(kvs) == 0: the counter is gone
                                                                    (repaired; this used to be Kvs[0] of an
                                                                    empty range, a panic) *)
               | _ => (s', CadPanic)
               end
      | _ => (s, CadDone (Some EOther))                          (* strconv.Atoi *)
      end
  | _ => (s, pc)
  end.

(* a client: either the two-phase AddWorkload above or a method that is one atomic step *)
Inductive eclient :=
| ECad (data : list (key * value)) (dk : key) (pc : cad_pc)
| EAtomic (o : op) (r : option result).          (* r = Some result once executed *)

Definition eclient_step (s : estate) (c : eclient) : estate * eclient :=
  match c with
  | ECad data dk pc => let '(s', pc') := cad_step data dk s pc in (s', ECad data dk pc')
  | EAtomic o None => let '(s', r) := estep s o in (s', EAtomic o (Some r))
  | EAtomic o (Some r) => (s, c)
  end.
Definition eclient_result (c : eclient) : option result :=
  match c with
  | ECad _ _ (CadDone None) => Some (ROk PUnit)
  | ECad _ _ (CadDone (Some e)) => Some (RErr e)
  | ECad _ _ CadPanic => Some RPanic
  | ECad _ _ _ => None
  | EAtomic _ r => r
  end.
(* true: client 1 steps *)
Fixpoint erun2 (s : estate) (c1 c2 : eclient) (sched : list bool) : estate * eclient * eclient :=
  match sched with
  | [] => (s, c1, c2)
  | true :: t => let '(s', c1') := eclient_step s c1 in erun2 s' c1' c2 t
  | false :: t => let '(s', c2') := eclient_step s c2 in erun2 s' c1 c2' t
  end.

Definition cad_client (w : wdata) (p : proc) : option eclient :=
  match w_parse w with
  | Some (a, e) => Some (ECad (workload_data w a e) (proc_key p) CadStart)
  | None => None
  end.

(* ---------------- redis: UpdateWorkload ---------------- *)
Inductive upd_pc := UpdStart | UpdChecked | UpdDone (r : option err).
Definition upd_step (data : list (key * value)) (s : rstate) (pc : upd_pc) : rstate * upd_pc :=
  match pc with
  | UpdStart =>
      if negb (r_exists s (map fst data) =? Z.of_nat (List.length data)) then (s, UpdDone (Some ENotExists))
      else (s, UpdChecked)
  | UpdChecked => (r_multi_set s data, UpdDone None)
  | UpdDone _ => (s, pc)
  end.
Inductive rclient :=
| RUpd (data : list (key * value)) (pc : upd_pc)
| RAtomic (o : op) (r : option result).
Definition rclient_step (s : rstate) (c : rclient) : rstate * rclient :=
  match c with
  | RUpd data pc => let '(s', pc') := upd_step data s pc in (s', RUpd data pc')
  | RAtomic o None => let '(s', r) := rstep s o in (s', RAtomic o (Some r))
  | RAtomic o (Some r) => (s, c)
  end.
Definition rclient_result (c : rclient) : option result :=
  match c with
  | RUpd _ (UpdDone None) => Some (ROk PUnit)
  | RUpd _ (UpdDone (Some e)) => Some (RErr e)
  | RUpd _ _ => None
  | RAtomic _ r => r
  end.
Fixpoint rrun2 (s : rstate) (c1 c2 : rclient) (sched : list bool) : rstate * rclient * rclient :=
  match sched with
  | [] => (s, c1, c2)
  | true :: t => let '(s', c1') := rclient_step s c1 in rrun2 s' c1' c2 t
  | false :: t => let '(s', c2') := rclient_step s c2 in rrun2 s' c1 c2' t
  end.
Definition upd_client (w : wdata) : option rclient :=
  match w_parse w with
  | Some (a, e) => Some (RUpd (workload_data w a e) UpdStart)
  | None => None
  end.

(* ---------------- cases of the correspondence check ----------------
   One outer call with one other call injected at the outer call's first
   transaction (etcd: the first Txn; redis: the first MULTI).  For the two-phase
   methods that is between their two phases; for atomic methods it is before
   them. *)
Inductive scenario :=
| ScAddAdd (w1 w2 : wdata) (p : proc)        (* AddWorkload w1 p  with  AddWorkload w2 p  injected *)
| ScAddDelProc (w : wdata) (p : proc)        (* AddWorkload w p   with  DeleteProcessing p injected *)
| ScUpdRemove (w : wdata) (w' : wdata).      (* UpdateWorkload w  with  RemoveWorkload w' injected *)

Definition outer_op (sc : scenario) : op :=
  match sc with
  | ScAddAdd w1 _ p => OAddWorkload w1 (Some p)
  | ScAddDelProc w p => OAddWorkload w (Some p)
  | ScUpdRemove w _ => OUpdateWorkload w
  end.
Definition inner_op (sc : scenario) : op :=
  match sc with
  | ScAddAdd _ w2 p => OAddWorkload w2 (Some p)
  | ScAddDelProc _ p => ODeleteProcessing p
  | ScUpdRemove _ w' => ORemoveWorkload w'
  end.

Record ccase := mkCC {
  cc_etcd : bool;
  cc_setup : list op;
  cc_sc : scenario;
  cc_outer : result; cc_inner : result;      (* observed *)
  cc_dump : dump }.                          (* raw backing store afterwards *)

Fixpoint erun_ops (s : estate) (h : list op) : estate :=
  match h with [] => s | o :: t => erun_ops (fst (estep s o)) t end.
Fixpoint rrun_ops (s : rstate) (h : list op) : rstate :=
  match h with [] => s | o :: t => rrun_ops (fst (rstep s o)) t end.

Definition res_or_panic (o : option result) : result := match o with Some r => r | None => RPanic end.

(* the model of one injected run: (outer result, inner result, final dump) *)
Definition model_etcd (c : ccase) : result * result * dump :=
  let s := erun_ops e_init (cc_setup c) in
  let inner := EAtomic (inner_op (cc_sc c)) None in
  let outer :=
    match cc_sc c with
    | ScAddAdd w _ p | ScAddDelProc w p =>
        match cad_client w p with Some cl => cl | None => EAtomic (outer_op (cc_sc c)) None end
    | ScUpdRemove _ _ => EAtomic (outer_op (cc_sc c)) None
    end in
  (* two-phase outer: Get, then the injected call, then the transaction(s);
     atomic outer (or one that ends in its first phase): the injected call runs first *)
  let sched :=
    match outer with
    | ECad _ dk _ => match lookup (e_kv s) dk with
                     | Some _ => [true; false; true; true; true]
                     | None => [true; true]          (* fails before any Txn: nothing is injected *)
                     end
    | EAtomic _ _ => [false; true]
    end in
  let '(s', c1, c2) := erun2 s outer inner sched in
  (res_or_panic (eclient_result c1),
   match eclient_result c2 with Some r => r | None => ROk PUnit end,
   e_dump s').
Definition injected_e (c : ccase) : bool :=
  match cc_sc c with
  | ScAddAdd w _ p | ScAddDelProc w p =>
      match w_parse w with
      | None => false
      | Some _ => match lookup (e_kv (erun_ops e_init (cc_setup c))) (proc_key p) with Some _ => true | None => false end
      end
  | ScUpdRemove w _ => match w_parse w with Some _ => true | None => false end
  end.

Definition model_redis (c : ccase) : result * result * dump :=
  let s := rrun_ops r_init (cc_setup c) in
  let inner := RAtomic (inner_op (cc_sc c)) None in
  let outer :=
    match cc_sc c with
    | ScUpdRemove w _ => match upd_client w with Some cl => cl | None => RAtomic (outer_op (cc_sc c)) None end
    | _ => RAtomic (outer_op (cc_sc c)) None
    end in
  let sched :=
    match outer with
    | RUpd data _ =>
        if negb (r_exists s (map fst data) =? Z.of_nat (List.length data)) then [true]   (* no MULTI is sent *)
        else [true; false; true]
    | RAtomic _ _ => [false; true]
    end in
  let '(s', c1, c2) := rrun2 s outer inner sched in
  (res_or_panic (rclient_result c1),
   match rclient_result c2 with Some r => r | None => ROk PUnit end,
   r_dump s').

Definition triple_eqb (m : result * result * dump) (c : ccase) : bool :=
  result_eqb (fst (fst m)) (cc_outer c) && result_eqb (snd (fst m)) (cc_inner c) && dump_eqb (snd m) (cc_dump c).
Definition cagree (c : ccase) : bool :=
  if cc_etcd c then triple_eqb (model_etcd c) c else triple_eqb (model_redis c) c.

(* C23 under two concurrent writers: the outcome must be that of one of the two
   sequential orders on the abstract specification (linearizability) *)
Definition strip_ttl (d : dump) : list (key * value) := map fst d.
Definition kv_eqb (a b : list (key * value)) : bool :=
  perm_eqb (fun x y => key_eqb (fst x) (fst y) && value_eqb (snd x) (snd y)) a b.
Fixpoint srun_ops (s : sstate) (h : list op) : sstate :=
  match h with [] => s | o :: t => srun_ops (fst (spec_step s o)) t end.
Definition seq_outcome (s : sstate) (o1 o2 : op) : result * result * list (key * value) :=
  let '(s1, r1) := spec_step s o1 in
  let '(s2, r2) := spec_step s1 o2 in
  (r1, r2, s_view s2).
Definition cok (c : ccase) : bool :=
  let s := srun_ops s_init (cc_setup c) in
  let oo := outer_op (cc_sc c) in
  let io := inner_op (cc_sc c) in
  let obs := strip_ttl (cc_dump c) in
  let '(a1, a2, va) := seq_outcome s oo io in          (* outer then inner *)
  let '(b2, b1, vb) := seq_outcome s io oo in          (* inner then outer *)
  (result_sim (cc_outer c) a1 && result_sim (cc_inner c) a2 && kv_eqb obs va)
  || (result_sim (cc_outer c) b1 && result_sim (cc_inner c) b2 && kv_eqb obs vb).
