(* Spec: the abstract metadata state and the atomic specification of every
   Store method.

   The abstract state is a finite map from structured keys to a value with an
   optional absolute expiry time, plus a discrete clock.  Creates are
   all-or-nothing, updates require every key, status reports with a positive TTL
   require the entity, and entries expire exactly when the clock reaches their
   expiry.  Read-only methods are [Ops.read_op] on the key-value view.
   [redis_safe] is the (decidable) condition on the abstract state under which
   the Redis store is proved to take the same step.  Executable definitions only. *)
From Coq Require Import List Bool ZArith String.
From Verif Require Import Base.RunLib Store.KVPrims Store.Ops Store.Status.
Import ListNotations.
Local Open Scope Z_scope.

Definition sstate := rstate.
Definition s_init : sstate := r_init.
Definition s_view (s : sstate) : view := map (fun kv => (fst kv, s_val (snd kv))) (r_kv s).
Definition s_mem (s : sstate) (k : key) : bool := mem (r_kv s) k.
Definition s_put (s : sstate) (k : key) (v : value) (ex : option Z) : sstate :=
  mkRS (put (r_kv s) k (mkS v ex)) (r_now s).
Definition s_puts (s : sstate) (data : list (key * value)) : sstate :=
  fold_left (fun s kv => s_put s (fst kv) (snd kv) None) data s.
Definition s_dels (s : sstate) (ks : list key) : sstate :=
  fold_left (fun s k => mkRS (del (r_kv s) k) (r_now s)) ks s.

(* all-or-nothing create; an empty batch is an error (ErrNoOps) *)
Definition s_create (s : sstate) (data : list (key * value)) : sstate * option err :=
  match data with
  | [] => (s, Some EOther)
  | _ => if existsb (s_mem s) (map fst data) then (s, Some EExists) else (s_puts s data, None)
  end.
Definition s_update (s : sstate) (data : list (key * value)) : sstate * option err :=
  match data with
  | [] => (s, Some EOther)
  | _ => if forallb (s_mem s) (map fst data) then (s_puts s data, None) else (s, Some ENotExists)
  end.

Definition res_unit {S} (x : S * option err) : S * result :=
  match x with (s, None) => (s, ROk PUnit) | (s, Some e) => (s, RErr e) end.

Definition spec_step (s : sstate) (o : op) : sstate * result :=
  match read_op (s_view s) o with
  | Some r => (s, r)
  | None =>
  match o with
  | OAddPod p d =>
      match s_create s [(KPod p, VPod p d)] with
      | (s', None) => (s', ROk (PPod p d))
      | (s', Some e) => (s', RErr e)
      end
  | ORemovePod p =>
      match v_get_nodes_by_pod (s_view s) p [] true with
      | inr e => (s, RErr e)
      | inl (_ :: _) => (s, RErr EPodHasNodes)
      | inl [] => if s_mem s (KPod p) then (s_dels s [KPod p], ROk PUnit) else (s, RErr EPodNotFound)
      end
  | OAddNode nd ca cert ky =>
      match lookup (s_view s) (KPod (n_pod nd)) with
      | None => (s, RErr ECount)
      | Some (VPod _ _) =>
          match s_create s (add_node_data nd ca cert ky) with
          | (s', None) => (s', ROk (PNode (mkNV (new_node nd) true)))
          | (s', Some e) => (s', RErr e)
          end
      | Some _ => (s, RErr EOther)
      end
  | ORemoveNode n p => (s_dels s (remove_node_keys n p), ROk PUnit)
  | OUpdateNodes l =>
      match update_nodes_data l with
      | [] => (s, RErr EOther)
      | d => (s_puts s d, ROk PUnit)
      end
  | OSetNodeStatus n p ttl =>
      if ttl =? 0 then (s, RErr ETTL)
      else if ttl <? 0 then (s_dels s [KNStatus n], ROk PUnit)
      else if s_mem s (KNode n) then (s_put s (KNStatus n) (VNSt n p) (Some (r_now s + ttl)), ROk PUnit)
      else (s, RErr ECount)
  | OSetWorkloadStatus st a e n ttl =>
      if status_args_bad a e n then (s, RErr EStatus)
      else if ttl =? 0 then (s_put s (KStatus a e n (ws_id st)) (VWSt st) None, ROk PUnit)
      else if s_mem s (KWl (ws_id st))
           then (s_put s (KStatus a e n (ws_id st)) (VWSt st) (Some (r_now s + ttl)), ROk PUnit)
      else (s, RErr ECount)
  | OAddWorkload w pr =>
      match w_parse w with
      | None => (s, RErr EName)
      | Some (a, e) =>
          match pr with
          | None => res_unit (s_create s (workload_data w a e))
          | Some p =>
              (* the processing counter must exist; the workload records are written
                 unconditionally and the counter is decremented *)
              match lookup (s_view s) (proc_key p) with
              | None => (s, RErr ENotExists)
              | Some (VCnt c) =>
                  (s_puts s (workload_data w a e ++ [(proc_key p, VCnt (c - 1))]), ROk PUnit)
              | Some _ => (s, RErr EOther)
              end
          end
      end
  | OUpdateWorkload w =>
      match w_parse w with
      | None => (s, RErr EName)
      | Some (a, e) => res_unit (s_update s (workload_data w a e))
      end
  | ORemoveWorkload w =>
      match w_parse w with
      | None => (s, RErr EName)
      | Some (a, e) => (s_dels s (clean_keys w a e), ROk PUnit)
      end
  | OCreateProcessing pr cnt => res_unit (s_create s [(proc_key pr, VCnt cnt)])
  | ODeleteProcessing pr => (s_dels s [proc_key pr], ROk PUnit)
  | OAdvance d => (r_tick s d, ROk PUnit)
  | _ => (s, RPanic)
  end
  end.

Fixpoint nodup_b (l : list name) : bool :=
  match l with [] => true | x :: t => negb (existsb (name_eqb x) t) && nodup_b t end.

Definition all_or_none (s : sstate) (data : list (key * value)) : bool :=
  forallb (s_mem s) (map fst data) || negb (existsb (s_mem s) (map fst data)).

(* the operation instances on which the Redis store takes the specified step *)
Definition redis_safe (s : sstate) (o : op) : bool :=
  match o with
  | OAddNode nd ca cert ky =>
      match lookup (s_view s) (KPod (n_pod nd)) with
      | Some (VPod _ _) => all_or_none s (add_node_data nd ca cert ky)
      | _ => true
      end
  | OUpdateNodes l => match l with [] => false | _ => true end
  | OGetNodes ns => nodup_b ns
  | OGetWorkloads ids => nodup_b ids
  | OSetNodeStatus n p ttl => if 0 <? ttl then s_mem s (KNode n) else true
  | OSetWorkloadStatus st a e n ttl =>
      if status_args_bad a e n then true
      else 0 <=? ttl
  | OAddWorkload w pr =>
      match w_parse w with
      | None => true
      | Some (a, e) =>
          match pr with
          | None => all_or_none s (workload_data w a e)
          | Some p =>
              (* the counter exists (without expiry) and none of the records does *)
              match lookup (r_kv s) (proc_key p) with
              | Some (mkS (VCnt _) None) => negb (existsb (s_mem s) (map fst (workload_data w a e)))
              | _ => false
              end
          end
      end
  | _ => true
  end.

(* runs *)
Fixpoint run {S} (step : S -> op -> S * result) (s : S) (h : list op) : S * list result :=
  match h with
  | [] => (s, [])
  | o :: t => let '(s1, r) := step s o in let '(s2, rs) := run step s1 t in (s2, r :: rs)
  end.
(* every step of the history is redis-safe in the abstract state it is taken in *)
Fixpoint safe_history (s : sstate) (h : list op) : bool :=
  match h with
  | [] => true
  | o :: t => redis_safe s o && safe_history (fst (spec_step s o)) t
  end.
