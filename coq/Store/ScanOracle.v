(* ScanOracle: the order in which Redis SCAN returns keys is not specified (the
   models use miniredis' sorted order).  This file leaves the order open. *)
From Coq Require Import List Bool ZArith String Lia Permutation.
From Verif Require Import Base.RunLib Store.KVPrims Store.KVLemmas Store.Ops Store.Status Store.Spec
  Store.EtcdModel Store.RedisModel Store.Case Store.EtcdProofs Store.RedisProofs.
Import ListNotations.
Local Open Scope Z_scope.

(* getByKeyPattern with the order of SCAN left open: under a positive limit the
   Go code keeps the first [limit] keys of whatever order the server returned;
   [choose] is that oracle (miniredis: the sorted order, KVPrims.r_scan). *)
Definition r_by_pattern_o (choose : list key -> list key) (s : rstate) (p : key -> bool) (limit : Z)
  : list (key * value) + err :=
  r_get_multi s (if 0 <? limit then choose (r_scan s p) else r_scan s p) [].

Definition valid_choice (limit : Z) (l c : list key) : Prop :=
  NoDup c /\ incl c l /\ List.length c = Nat.min (Z.to_nat limit) (List.length l).

Lemma by_pattern_o_sorted : forall s p limit,
  r_by_pattern_o (firstn (Z.to_nat limit)) s p limit = r_by_pattern s p limit.
Proof. intros. unfold r_by_pattern_o, r_by_pattern, take_limit. destruct (0 <? limit); reflexivity. Qed.

Section Oracle.
  Variable s : rstate.
  Hypothesis ND : NoDup (map fst (r_kv s)).
  Local Notation v := (s_view s).

  Lemma get_multi_present : forall c, (forall k, In k c -> exists x, lookup v k = Some x) ->
    exists vals, v_get_multi v c = inl vals /\ List.length vals = List.length c.
  Proof.
    induction c as [|k t IH]; intro H; simpl; [exists []; auto|].
    destruct (H k (or_introl eq_refl)) as [x L]. unfold v_get_one. rewrite L.
    destruct IH as [vals [E LN]]; [intros k0 H0; apply H; right; exact H0|].
    rewrite E. exists (x :: vals). simpl. auto.
  Qed.

  (* whatever order SCAN returns, a limited read fetches exactly min(limit, matches)
     records -- as many as the etcd range read with WithLimit -- all of them matches *)
  Theorem by_pattern_o_size : forall choose p limit, 0 < limit ->
    valid_choice limit (r_scan s p) (choose (r_scan s p)) ->
    exists kvs, r_by_pattern_o choose s p limit = inl kvs /\
      map fst kvs = choose (r_scan s p) /\
      (forall k x, In (k, x) kvs -> p k = true /\ lookup v k = Some x) /\
      List.length kvs = List.length (take_limit limit (v_range v p)).
  Proof.
    intros choose p limit LP [NDc [INC LEN]]. unfold r_by_pattern_o.
    replace (0 <? limit) with true by (symmetry; apply Z.ltb_lt; exact LP).
    set (c := choose (r_scan s p)) in *.
    assert (PRES : forall k, In k c -> exists x, lookup v k = Some x /\ p k = true).
    { intros k H. apply INC in H. rewrite (r_scan_view s) in H. apply in_map_iff in H.
      destruct H as [[k0 x] [E HI]]. simpl in E. subst k0. exists x. split.
      - apply (scan_lookup s ND p). exact HI.
      - unfold v_range, scan in HI. apply (proj1 (in_isort _ _)) in HI. apply filter_In in HI. apply HI. }
    destruct (get_multi_present c) as [vals [GM LV]]; [intros k H; destruct (PRES k H) as [x [L _]]; eauto|].
    pose proof (r_get_multi_spec s c [] NDc (fun _ _ H => H)) as SP. rewrite GM in SP. destruct SP as [SP _].
    exists (combine c vals). simpl in SP. split; [exact SP|]. split.
    - clear -LV. revert vals LV. induction c as [|k t IH]; destruct vals; simpl; intro; try discriminate; auto. f_equal. apply IH. lia.
    - split.
      + intros k x HI. assert (HK : In k c) by (eapply in_combine_l; eauto).
        destruct (PRES k HK) as [x' [L P]]. split; [exact P|].
        (* the value paired with k is the looked-up one *)
        clear -GM HI. revert vals GM HI. induction c as [|k0 t IH]; intros vals GM HI; [destruct vals; contradiction|].
        simpl in GM. unfold v_get_one in GM. destruct (lookup (s_view s) k0) as [x0|] eqn:L0; [|discriminate].
        destruct (v_get_multi (s_view s) t) as [r|] eqn:GT; [|discriminate]. inversion GM; subst.
        simpl in HI. destruct HI as [HI | HI]; [inversion HI; subst; exact L0 | eapply IH; eauto].
      + rewrite combine_length, LV, Nat.min_id, LEN. unfold take_limit.
        replace (0 <? limit) with true by (symmetry; apply Z.ltb_lt; exact LP).
        rewrite firstn_length, (r_scan_view s), map_length. reflexivity.
  Qed.

  (* without truncation every order fetches the same set *)
  Theorem by_pattern_o_full : forall choose p limit, 0 < limit ->
    valid_choice limit (r_scan s p) (choose (r_scan s p)) ->
    (List.length (r_scan s p) <= Z.to_nat limit)%nat ->
    Permutation (choose (r_scan s p)) (r_scan s p).
  Proof.
    intros choose p limit LP [NDc [INC LEN]] LE.
    rewrite Nat.min_r in LEN by exact LE.
    apply NoDup_Permutation_bis; auto. lia.
  Qed.
End Oracle.

Definition scan_oracle_stmt : Prop :=
  forall (s : rstate), NoDup (map fst (r_kv s)) ->
  forall choose p limit, 0 < limit -> valid_choice limit (r_scan s p) (choose (r_scan s p)) ->
    (exists kvs, r_by_pattern_o choose s p limit = inl kvs /\
       map fst kvs = choose (r_scan s p) /\
       (forall k x, In (k, x) kvs -> p k = true /\ lookup (s_view s) k = Some x) /\
       List.length kvs = List.length (take_limit limit (v_range (s_view s) p))) /\
    ((List.length (r_scan s p) <= Z.to_nat limit)%nat -> Permutation (choose (r_scan s p)) (r_scan s p)).
Lemma scan_oracle_holds : scan_oracle_stmt.
Proof.
  intros s ND choose p limit LP VC. split.
  - apply by_pattern_o_size; assumption.
  - intro LE. eapply by_pattern_o_full; eauto.
Qed.
