(* BatchOp: meta/etcd.go doBatchOp as it is -- a list of small transactions is
   (1) split where a Then list is longer than 125 operations (If and Else are
   copied to every piece), (2) packed greedily into commits of at most 125
   compares / operations, (3) committed by one goroutine per commit, in no
   particular order, without rollback ("TODO@zc: should rollback all for any
   unsucceed txn").  [order] is the oracle for the commit order.
   EtcdModel treats every batch of the Store methods as one transaction; the
   proofs in BatchOpProofs.v say when that is exact.  Executable definitions only. *)
From Coq Require Import List Bool ZArith String Arith.
From Verif Require Import Base.RunLib Store.KVPrims Store.Ops Store.EtcdModel.
Import ListNotations.

Record etxn := mkT { t_if : list cmp; t_then : list top; t_else : list top }.

(* n, m := len/limit, len%limit; pieces of [limit] operations, then the remainder *)
Fixpoint chunk (fuel L : nat) (l : list top) : list (list top) :=
  match fuel with
  | O => [l]
  | S f => if Nat.leb (List.length l) L then [l] else firstn L l :: chunk f L (skipn L l)
  end.
Definition split_txn (L : nat) (t : etxn) : list etxn :=
  if Nat.leb (List.length (t_then t)) L then [t]
  else map (fun c => mkT (t_if t) c (t_else t)) (chunk (List.length (t_then t)) L (t_then t)).

(* the packing loop: close the current commit when the next piece would overflow a counter *)
Fixpoint pack (L : nat) (cur : list etxn) (ci ct ce : nat) (ps : list etxn) : list (list etxn) :=
  match ps with
  | [] => [cur]                                            (* go doOp(lastIdx, len(txnes)) *)
  | p :: t =>
      let ni := List.length (t_if p) in
      let nt := List.length (t_then p) in
      let ne := List.length (t_else p) in
      if Nat.ltb L (ci + ni) || Nat.ltb L (ct + nt) || Nat.ltb L (ce + ne)
      then cur :: pack L [p] ni nt ne t                     (* go doOp(lastIdx, i); counters reset *)
      else pack L (cur ++ [p]) (ci + ni) (ct + nt) (ce + ne) t
  end.
Definition commits (L : nat) (txns : list etxn) : list (list etxn) :=
  pack L [] 0 0 0 (flat_map (split_txn L) txns).

(* one commit: Txn().If(conds...).Then(thens...).Else(elses...) *)
Definition commit_group (s : estate) (g : list etxn) : estate * bool :=
  let '(s', ok, _) := e_txn s (flat_map t_if g) (flat_map t_then g) (flat_map t_else g) in (s', ok).
Fixpoint run_commits (s : estate) (gs : list (list etxn)) : estate * bool :=
  match gs with
  | [] => (s, true)
  | g :: t => let '(s1, ok1) := commit_group s g in
              let '(s2, ok2) := run_commits s1 t in (s2, ok1 && ok2)
  end.
(* doBatchOp; None = ErrNoOps.  [order] permutes the commits (goroutine scheduling). *)
Definition do_batch_op (L : nat) (order : list (list etxn) -> list (list etxn)) (s : estate) (txns : list etxn)
  : option (estate * bool) :=
  match txns with
  | [] => None
  | _ => Some (run_commits s (order (commits L txns)))
  end.

Definition txn_limit : nat := 125.

(* batchPut: one small transaction per key *)
Definition put_txns (data : list (key * value)) (lim : option bool) : list etxn :=
  map (fun kv => mkT (match lim with Some eq => [CVer0 (fst kv) eq] | None => [] end)
                     [TPut (fst kv) (snd kv) None] []) data.
