(* StatusProofs: property C25 over the abstract specification, transferred to
   the etcd store model through the refinement of EtcdProofs. *)
From Coq Require Import List Bool ZArith String Lia.
From Verif Require Import Base.RunLib Store.KVPrims Store.KVLemmas Store.Ops Store.Status Store.Spec
  Store.EtcdModel Store.RedisModel Store.Case Store.EtcdProofs Store.RedisProofs Store.C23Proofs.
Import ListNotations.
Local Open Scope Z_scope.

Definition is_status_key (k : key) : bool :=
  match k with KNStatus _ | KStatus _ _ _ _ => true | _ => false end.

(* operations that do not write or delete the status key [sk] *)
Definition quiet (sk : key) (o : op) : bool :=
  match o with
  | OSetNodeStatus n _ _ => negb (key_eqb sk (KNStatus n))
  | OSetWorkloadStatus st a e n _ => negb (key_eqb sk (KStatus a e n (ws_id st)))
  | ORemoveWorkload w =>
      match w_parse w with
      | Some (a, e) => negb (key_eqb sk (KStatus a e (w_node w) (w_id w)))
      | None => true
      end
  | _ => true
  end.
Definition elapsed (h : list op) : Z :=
  fold_right (fun o acc => match o with OAdvance d => d + acc | _ => acc end) 0 h.
Definition advances_nonneg (h : list op) : Prop :=
  forall d, In (OAdvance d) h -> 0 <= d.

(* ---- frame lemmas on the abstract state ---- *)
Definition nonstatus (d : list (key * value)) : Prop :=
  forall k, In k (map fst d) -> is_status_key k = false.
Lemma nonstatus_put : forall d k v, nonstatus d -> is_status_key k = false -> nonstatus (put d k v).
Proof. intros d k v N K x H. apply in_keys_put in H. destruct H; [subst; exact K | apply N; exact H]. Qed.
Lemma nonstatus_dput_if : forall d k s, nonstatus d -> is_status_key k = false -> nonstatus (dput_if d k s).
Proof. intros. unfold dput_if. destruct (name_eqb s ""%string); [assumption | apply nonstatus_put; assumption]. Qed.
Lemma nonstatus_nil : nonstatus [].
Proof. intros k H. contradiction. Qed.
Lemma nonstatus_add_node : forall nd ca cert ky, nonstatus (add_node_data nd ca cert ky).
Proof.
  intros. unfold add_node_data, dput.
  repeat first [reflexivity | exact nonstatus_nil | apply nonstatus_put | apply nonstatus_dput_if].
Qed.
Lemma nonstatus_update_nodes : forall l, nonstatus (update_nodes_data l).
Proof.
  intro l. unfold update_nodes_data. generalize (@nil (key * value)) nonstatus_nil.
  induction l as [|[[[nd ca] cert] ky] t IH]; intros d N; simpl; [exact N|].
  apply IH. unfold dput.
  repeat first [reflexivity | exact N | apply nonstatus_dput_if | apply nonstatus_put].
Qed.
Lemma nonstatus_workload : forall w a e, nonstatus (workload_data w a e).
Proof.
  intros. unfold workload_data, dput.
  repeat first [reflexivity | exact nonstatus_nil | apply nonstatus_put].
Qed.
Lemma nonstatus_app : forall d1 d2, nonstatus d1 -> nonstatus d2 -> nonstatus (d1 ++ d2).
Proof. intros d1 d2 N1 N2 k H. rewrite map_app in H. apply in_app_or in H. destruct H; auto. Qed.

Lemma status_neq : forall sk k, is_status_key sk = true -> is_status_key k = false -> key_eqb sk k = false.
Proof. intros sk k S K. apply key_eqb_false. intro E. subst. congruence. Qed.

Lemma lookup_s_puts : forall data s sk, is_status_key sk = true -> nonstatus data ->
  lookup (r_kv (s_puts s data)) sk = lookup (r_kv s) sk.
Proof.
  induction data as [|d t IH]; intros s sk S N; simpl; [reflexivity|].
  rewrite IH; auto.
  - unfold s_put. simpl. apply lookup_put_other. apply status_neq; auto. apply N. left. reflexivity.
  - intros k H. apply N. right. exact H.
Qed.
Lemma lookup_s_dels : forall ks s sk, (forall k, In k ks -> key_eqb sk k = false) ->
  lookup (r_kv (s_dels s ks)) sk = lookup (r_kv s) sk.
Proof.
  induction ks as [|k t IH]; intros s sk N; simpl; [reflexivity|].
  rewrite IH; [|intros k' H; apply N; right; exact H].
  simpl. apply lookup_del_other. apply N. left. reflexivity.
Qed.
Lemma lookup_filter_keep : forall {V} (f : key * V -> bool) (m : list (key * V)) k x,
  lookup m k = Some x -> f (k, x) = true -> lookup (filter f m) k = Some x.
Proof.
  induction m as [|[k0 v0] t IH]; intros k x L F; simpl in *; [discriminate|].
  destruct (key_eqb k k0) eqn:E.
  - apply key_eqb_eq in E. inversion L. subst. rewrite F. simpl. rewrite key_eqb_refl. reflexivity.
  - destruct (f (k0, v0)); simpl; [rewrite E|]; apply IH; auto.
Qed.

Ltac frame_create H :=
  unfold s_create in H;
  match type of H with
  | context [match ?d with [] => _ | _ :: _ => _ end] => destruct d eqn:?D
  end.

(* a quiet operation other than a clock advance leaves the status entry alone;
   a clock advance keeps it while its deadline is in the future *)
Lemma spec_frame : forall s o sk v ex,
  is_status_key sk = true -> quiet sk o = true ->
  lookup (r_kv s) sk = Some (mkS v ex) ->
  (match o with
   | OAdvance d => match ex with Some e => r_now s + d < e | None => True end
   | _ => True
   end) ->
  lookup (r_kv (fst (spec_step s o))) sk = Some (mkS v ex).
Proof.
  intros s o sk v ex S Q L A. unfold spec_step.
  destruct o; cbn [read_op]; try exact L;
    try (match goal with |- context [list_prefix ?a ?e ?n] => destruct (list_prefix a e n) as [[? ?] ?]; exact L end).
  - (* AddPod *) unfold s_create. cbn [map fst existsb].
    destruct (s_mem s (KPod p) || false); cbn [fst]; [exact L|].
    rewrite lookup_s_puts; auto. intros k [H|[]]. subst. reflexivity.
  - (* RemovePod *)
    destruct (v_get_nodes_by_pod (s_view s) p [] true) as [[|x t]|e]; try exact L.
    destruct (s_mem s (KPod p)); cbn [fst]; [|exact L].
    rewrite lookup_s_dels; auto. intros k [H|[]]. subst. destruct sk; try discriminate S; reflexivity.
  - (* AddNode *)
    destruct (lookup (s_view s) (KPod (n_pod nd))) as [[]|]; try exact L.
    pose proof (nonstatus_add_node nd ca cert key) as N.
    unfold s_create. destruct (add_node_data nd ca cert key) as [|d0 t0]; [exact L|].
    destruct (existsb (s_mem s) (map fst (d0 :: t0))); cbn [fst]; [exact L|].
    rewrite lookup_s_puts; auto.
  - (* RemoveNode *)
    cbn [fst]. rewrite lookup_s_dels; auto. unfold remove_node_keys.
    intros k H. simpl in H. destruct sk; try discriminate S; repeat (destruct H as [H|H]; [subst; reflexivity|]); contradiction.
  - (* UpdateNodes *)
    pose proof (nonstatus_update_nodes l) as N.
    destruct (update_nodes_data l) as [|d0 t0]; [exact L|]. cbn [fst]. rewrite lookup_s_puts; auto.
  - (* SetNodeStatus *)
    cbn [quiet] in Q. apply negb_true_iff in Q.
    destruct (ttl =? 0); [exact L|]. destruct (ttl <? 0).
    + cbn [fst]. rewrite lookup_s_dels; auto. intros k [H|[]]. subst. exact Q.
    + destruct (s_mem s (KNode n)); cbn [fst]; [|exact L].
      unfold s_put. simpl. rewrite lookup_put_other; auto.
  - (* AddWorkload *)
    destruct (w_parse w) as [[a e]|]; [|exact L].
    pose proof (nonstatus_workload w a e) as N.
    destruct pr as [p0|].
    + destruct (lookup (s_view s) (proc_key p0)) as [[]|]; try exact L.
      cbn [fst]. rewrite lookup_s_puts; auto. apply nonstatus_app; auto.
      intros k [H|[]]. subst. reflexivity.
    + unfold s_create. destruct (workload_data w a e) as [|d0 t0]; [exact L|].
      destruct (existsb (s_mem s) (map fst (d0 :: t0))); cbn [res_unit fst]; [exact L|].
      rewrite lookup_s_puts; auto.
  - (* UpdateWorkload *)
    destruct (w_parse w) as [[a e]|]; [|exact L].
    pose proof (nonstatus_workload w a e) as N.
    unfold s_update. destruct (workload_data w a e) as [|d0 t0]; [exact L|].
    destruct (forallb (s_mem s) (map fst (d0 :: t0))); cbn [res_unit fst]; [|exact L].
    rewrite lookup_s_puts; auto.
  - (* RemoveWorkload *)
    cbn [quiet] in Q. destruct (w_parse w) as [[a e]|]; [|exact L].
    apply negb_true_iff in Q. cbn [fst]. rewrite lookup_s_dels; auto. unfold clean_keys.
    intros k H. simpl in H. destruct H as [H|H]; [subst; exact Q|].
    destruct sk; try discriminate S; repeat (destruct H as [H|H]; [subst; reflexivity|]); contradiction.
  - (* SetWorkloadStatus *)
    cbn [quiet] in Q. apply negb_true_iff in Q.
    destruct (status_args_bad a e n); [exact L|].
    destruct (ttl =? 0); [cbn [fst]; unfold s_put; simpl; rewrite lookup_put_other; auto|].
    destruct (s_mem s (KWl (ws_id st))); cbn [fst]; [|exact L].
    unfold s_put. simpl. rewrite lookup_put_other; auto.
  - (* CreateProcessing *)
    unfold s_create. cbn [map fst existsb].
    destruct (s_mem s (proc_key pr) || false); cbn [res_unit fst]; [exact L|].
    rewrite lookup_s_puts; auto. intros k [H|[]]. subst. reflexivity.
  - (* DeleteProcessing *)
    cbn [fst]. rewrite lookup_s_dels; auto. intros k [H|[]]. subst. destruct sk; try discriminate S; reflexivity.
  - (* Advance *)
    cbn [fst]. unfold r_tick. cbn [r_kv]. apply lookup_filter_keep; [exact L|].
    cbn [snd s_exp]. destruct ex as [e|]; [|reflexivity].
    apply negb_true_iff. apply Z.leb_gt. exact A.
Qed.

Lemma now_s_puts : forall data s, r_now (s_puts s data) = r_now s.
Proof. induction data as [|d t IH]; intro s; simpl; [reflexivity | rewrite IH; reflexivity]. Qed.
Lemma now_s_dels : forall ks s, r_now (s_dels s ks) = r_now s.
Proof. induction ks as [|k t IH]; intro s; simpl; [reflexivity | rewrite IH; reflexivity]. Qed.
Lemma spec_now : forall s o,
  r_now (fst (spec_step s o)) = match o with OAdvance d => r_now s + d | _ => r_now s end.
Proof.
  intros. unfold spec_step. destruct o; cbn [read_op]; try reflexivity;
    try (match goal with |- context [list_prefix ?a ?e ?n] => destruct (list_prefix a e n) as [[? ?] ?]; reflexivity end);
    unfold s_create, s_update;
    repeat match goal with
           | |- context [match ?x with _ => _ end] =>
               lazymatch x with
               | context [match _ with _ => _ end] => fail
               | _ => destruct x
               end
           end;
    cbn [fst res_unit]; rewrite ?now_s_puts, ?now_s_dels; reflexivity.
Qed.

(* ---- C25 on the abstract specification ---- *)
Theorem spec_status_stays : forall h s sk v ex,
  is_status_key sk = true -> lookup (r_kv s) sk = Some (mkS v ex) ->
  forallb (quiet sk) h = true -> advances_nonneg h ->
  match ex with Some e => r_now s + elapsed h < e | None => True end ->
  lookup (r_kv (fst (run spec_step s h))) sk = Some (mkS v ex).
Proof.
  induction h as [|o t IH]; intros s sk v ex S L Q AN B; cbn [run fst]; [exact L|].
  cbn [forallb] in Q. apply andb_true_iff in Q. destruct Q as [Q1 Q2].
  assert (ANt : advances_nonneg t) by (intros d H; apply AN; right; exact H).
  assert (E0 : 0 <= elapsed t).
  { clear -ANt. induction t as [|o' t' IH']; simpl; [lia|].
    assert (advances_nonneg t') by (intros d H; apply ANt; right; exact H).
    destruct o'; auto. specialize (ANt d (or_introl eq_refl)). specialize (IH' H). lia. }
  pose proof (spec_frame s o sk v ex S Q1 L) as F.
  pose proof (spec_now s o) as N.
  destruct (spec_step s o) as [s1 r] eqn:ST. cbn [fst] in F, N.
  specialize (IH s1 sk v ex S).
  destruct (run spec_step s1 t) as [s2 rs] eqn:RT. cbn [fst] in *.
  apply IH; auto.
  - apply F. destruct o; auto. destruct ex as [e|]; auto. cbn [elapsed fold_right] in B. fold (elapsed t) in B. lia.
  - destruct ex as [e|]; auto. rewrite N. destruct o; cbn [elapsed fold_right] in B; fold (elapsed t) in B; lia.
Qed.

(* acceptance on the specification *)
Lemma spec_node_report : forall s n p ttl, 0 < ttl ->
  spec_step s (OSetNodeStatus n p ttl) =
  if s_mem s (KNode n) then (s_put s (KNStatus n) (VNSt n p) (Some (r_now s + ttl)), ROk PUnit)
  else (s, RErr ECount).
Proof.
  intros. unfold spec_step. cbn [read_op].
  replace (ttl =? 0) with false by (symmetry; apply Z.eqb_neq; lia).
  replace (ttl <? 0) with false by (symmetry; apply Z.ltb_ge; lia). reflexivity.
Qed.
Lemma spec_workload_report : forall s st a e n ttl, status_args_bad a e n = false ->
  spec_step s (OSetWorkloadStatus st a e n ttl) =
  if ttl =? 0 then (s_put s (KStatus a e n (ws_id st)) (VWSt st) None, ROk PUnit)
  else if s_mem s (KWl (ws_id st))
       then (s_put s (KStatus a e n (ws_id st)) (VWSt st) (Some (r_now s + ttl)), ROk PUnit)
       else (s, RErr ECount).
Proof. intros. unfold spec_step. cbn [read_op]. rewrite H. reflexivity. Qed.

Lemma lookup_s_view : forall s k, lookup (s_view s) k = option_map s_val (lookup (r_kv s) k).
Proof. intros. unfold s_view. apply (lookup_mapv s_val). Qed.

(* ---- transfer to the etcd model ---- *)
Lemma etcd_reach_inv : forall h, inv (fst (run estep e_init h)).
Proof. intro h. apply (erun_refines h e_init inv_init). Qed.

Lemma etcd_lookup_after : forall s h sk,
  inv s -> lookup (e_view (fst (run estep s h))) sk =
           option_map s_val (lookup (r_kv (fst (run spec_step (abs s) h))) sk).
Proof.
  intros s h sk I. destruct (erun_refines h s I) as [E _]. rewrite E. cbn [fst].
  rewrite <- view_abs. apply lookup_s_view.
Qed.

Definition C25_etcd_node_stmt : Prop :=
  forall (h0 : list op) (n p : name) (ttl : Z),
    let s := fst (run estep e_init h0) in
    0 < ttl ->
    (* accepted iff the node exists *)
    (snd (estep s (OSetNodeStatus n p ttl)) = ROk PUnit <-> mem (e_kv s) (KNode n) = true) /\
    (* visible at every time before last report + ttl, whatever else happens, unless the
       status is re-reported or deleted (negative ttl) *)
    (mem (e_kv s) (KNode n) = true ->
     forall h, forallb (quiet (KNStatus n)) h = true -> advances_nonneg h -> elapsed h < ttl ->
       snd (estep (fst (run estep (fst (estep s (OSetNodeStatus n p ttl))) h)) (OGetNodeStatus n))
       = ROk (PNSt n p true)).
Lemma C25_etcd_node_holds : C25_etcd_node_stmt.
Proof.
  intros h0 n p ttl s T. pose proof (etcd_reach_inv h0) as I. fold s in I.
  destruct (estep_refines s (OSetNodeStatus n p ttl) I) as [E I1].
  rewrite (spec_node_report (abs s) n p ttl T), mem_abs in E.
  split.
  - destruct (mem (e_kv s) (KNode n)); apply pair_equal_spec in E; destruct E as [E1 E2]; rewrite <- E2; split; intro; congruence.
  - intros M h Q AN EL. rewrite M in E. apply pair_equal_spec in E; destruct E as [E1 E2].
    set (s1 := fst (estep s (OSetNodeStatus n p ttl))) in *.
    pose proof (etcd_lookup_after s1 h (KNStatus n) I1) as LA. rewrite <- E1 in LA.
    rewrite (spec_status_stays h _ (KNStatus n) (VNSt n p) (Some (r_now (abs s) + ttl))) in LA; auto.
    + set (sf := fst (run estep s1 h)) in *. unfold estep. cbn [read_op]. unfold v_get_one. rewrite LA. reflexivity.
    + unfold s_put. cbn [r_kv]. apply lookup_put_same.
    + unfold s_put. cbn [r_now]. lia.
Qed.

Definition C25_etcd_workload_stmt : Prop :=
  forall (h0 : list op) (st : wstat) (a e n : name) (ttl : Z),
    let s := fst (run estep e_init h0) in
    let report := OSetWorkloadStatus st a e n ttl in
    let sk := KStatus a e n (ws_id st) in
    status_args_bad a e n = false -> 0 <= ttl ->
    (* ttl > 0: accepted iff the workload exists; ttl = 0: accepted *)
    (0 < ttl -> (snd (estep s report) = ROk PUnit <-> mem (e_kv s) (KWl (ws_id st)) = true)) /\
    (ttl = 0 -> snd (estep s report) = ROk PUnit) /\
    (* after an accepted report the status record stays until the ttl has elapsed
       (ttl 0: forever) unless it is re-reported or the workload is removed *)
    (snd (estep s report) = ROk PUnit ->
     forall h, forallb (quiet sk) h = true -> advances_nonneg h -> (0 < ttl -> elapsed h < ttl) ->
       lookup (e_view (fst (run estep (fst (estep s report)) h))) sk = Some (VWSt st)).
Lemma C25_etcd_workload_holds : C25_etcd_workload_stmt.
Proof.
  intros h0 st a e n ttl s report sk B T. pose proof (etcd_reach_inv h0) as I. fold s in I.
  destruct (estep_refines s report I) as [E I1]. unfold report in E.
  rewrite (spec_workload_report (abs s) st a e n ttl B), mem_abs in E. fold report in E.
  destruct (ttl =? 0) eqn:Z0.
  - apply Z.eqb_eq in Z0. apply pair_equal_spec in E; destruct E as [E1 E2].
    split; [intro; lia|]. split; [intro; symmetry; exact E2|].
    intros _ h Q AN EL. set (s1 := fst (estep s report)) in *.
    pose proof (etcd_lookup_after s1 h sk I1) as LA. rewrite <- E1 in LA.
    rewrite (spec_status_stays h _ sk (VWSt st) None) in LA; auto.
    unfold s_put. cbn [r_kv]. apply lookup_put_same.
  - apply Z.eqb_neq in Z0. assert (TP : 0 < ttl) by lia.
    split; [|split; [intro; lia|]].
    + intros _. destruct (mem (e_kv s) (KWl (ws_id st))); apply pair_equal_spec in E; destruct E as [E1 E2]; rewrite <- E2; split; intro; congruence.
    + intros OK h Q AN EL. destruct (mem (e_kv s) (KWl (ws_id st))); apply pair_equal_spec in E; destruct E as [E1 E2]; [|congruence].
      set (s1 := fst (estep s report)) in *.
      pose proof (etcd_lookup_after s1 h sk I1) as LA. rewrite <- E1 in LA.
      rewrite (spec_status_stays h _ sk (VWSt st) (Some (r_now (abs s) + ttl))) in LA; auto.
      * unfold s_put. cbn [r_kv]. apply lookup_put_same.
      * unfold s_put. cbn [r_now]. specialize (EL TP). lia.
Qed.

(* ---- Redis ---- *)
Local Open Scope string_scope.
(* the Redis store accepts a node status with a positive TTL for a node that does not exist *)
Definition C25_redis_node_refuted_stmt : Prop :=
  exists (h0 : list op) (n p : name) (ttl : Z),
    let s := fst (run rstep r_init h0) in
    0 < ttl /\ mem (r_kv s) (KNode n) = false /\
    snd (rstep s (OSetNodeStatus n p ttl)) = ROk PUnit /\
    snd (rstep (fst (rstep s (OSetNodeStatus n p ttl))) (OGetNodeStatus n)) = ROk (PNSt n p true).
Lemma C25_redis_node_refuted_holds : C25_redis_node_refuted_stmt.
Proof. exists [], "n0", "p0", 3. vm_compute. repeat split; reflexivity. Qed.

(* workload status on Redis: accepted iff the workload exists (ttl > 0) *)
Definition C25_redis_workload_accept_stmt : Prop :=
  forall (s : rstate) (st : wstat) (a e n : name) (ttl : Z),
    status_args_bad a e n = false -> 0 < ttl ->
    (snd (rstep s (OSetWorkloadStatus st a e n ttl)) = ROk PUnit <-> mem (r_kv s) (KWl (ws_id st)) = true).
Lemma C25_redis_workload_accept_holds : C25_redis_workload_accept_stmt.
Proof.
  intros s st a e n ttl B T. cbn [rstep]. unfold r_set_workload_status, r_bind_status, r_exists. rewrite B.
  replace (ttl =? 0)%Z with false by (symmetry; apply Z.eqb_neq; lia). cbn [negb andb fold_left].
  destruct (mem (r_kv s) (KWl (ws_id st))); cbn; split; intro; congruence.
Qed.

Example C25_hypotheses_satisfiable :
  let h0 := [OAddPod "p0" "d"; OAddNode (mkN "n0" "verif://n0" "p0" [] false false) "" "" ""] in
  snd (run estep e_init (h0 ++ [OSetNodeStatus "n0" "p0" 5; OAdvance 4; OGetNodeStatus "n0"; OAdvance 1; OGetNodeStatus "n0"]))
  = [ROk (PPod "p0" "d"); ROk (PNode (mkNV (mkN "n0" "verif://n0" "p0" [] false false) true));
     ROk PUnit; ROk PUnit; ROk (PNSt "n0" "p0" true); ROk PUnit; RErr ECount].
Proof. vm_compute. reflexivity. Qed.

(* ---- Redis lifetime, on redis-safe histories (through the C23 refinement) ---- *)
Local Open Scope Z_scope.
Lemma redis_state_after : forall h, safe_history s_init h = true ->
  fst (run rstep r_init h) = fst (run spec_step s_init h).
Proof. intros h SH. apply (redis_refines_spec_partial_holds h SH). Qed.

Definition C25_redis_node_partial_stmt : Prop :=
  forall (h0 : list op) (n p : name) (ttl : Z) (h : list op),
    let s := fst (run rstep r_init h0) in
    let report := OSetNodeStatus n p ttl in
    0 < ttl -> safe_history s_init (h0 ++ report :: h) = true ->
    forallb (quiet (KNStatus n)) h = true -> advances_nonneg h -> elapsed h < ttl ->
    snd (rstep s report) = ROk PUnit /\
    snd (rstep (fst (run rstep (fst (rstep s report)) h)) (OGetNodeStatus n)) = ROk (PNSt n p true).
Lemma C25_redis_node_partial_holds : C25_redis_node_partial_stmt.
Proof.
  intros h0 n p ttl h s report T SH Q AN EL. subst report.
  assert (SH0 := SH). rewrite safe_history_app in SH0. apply andb_true_iff in SH0. destruct SH0 as [S0 S1].
  cbn [safe_history] in S1. apply andb_true_iff in S1. destruct S1 as [S1 S2].
  pose proof (redis_state_after h0 S0) as E0. fold s in E0. rewrite <- E0 in S1, S2.
  (* the report is accepted: redis-safe means the node exists *)
  cbn [redis_safe] in S1. replace (0 <? ttl) with true in S1 by (symmetry; apply Z.ltb_lt; exact T).
  assert (R1 : rstep s (OSetNodeStatus n p ttl) = (s_put s (KNStatus n) (VNSt n p) (Some (r_now s + ttl)), ROk PUnit)).
  { cbn [rstep]. unfold r_set_node_status.
    replace (ttl =? 0) with false by (symmetry; apply Z.eqb_neq; lia).
    replace (ttl <? 0) with false by (symmetry; apply Z.ltb_ge; lia).
    rewrite r_set_put_ttl by exact T. reflexivity. }
  assert (SP : spec_step s (OSetNodeStatus n p ttl) = rstep s (OSetNodeStatus n p ttl)).
  { rewrite R1. rewrite (spec_node_report s n p ttl T), S1. reflexivity. }
  split; [rewrite R1; reflexivity|].
  rewrite R1. cbn [fst]. set (s1 := s_put s (KNStatus n) (VNSt n p) (Some (r_now s + ttl))) in *.
  assert (N1 : NoDup (map fst (r_kv s1))).
  { unfold s1, s_put. cbn [r_kv]. apply nodup_put. rewrite E0. apply spec_run_nodup. apply nodup_init. }
  rewrite SP, R1 in S2. cbn [fst] in S2.
  destruct (rrun_refines h s1 N1 S2) as [E1 _]. rewrite E1.
  pose proof (spec_status_stays h s1 (KNStatus n) (VNSt n p) (Some (r_now s + ttl)) eq_refl) as ST.
  assert (ST' : lookup (r_kv (fst (run spec_step s1 h))) (KNStatus n) = Some (mkS (VNSt n p) (Some (r_now s + ttl)))).
  { apply ST; auto.
    - unfold s1, s_put. cbn [r_kv]. apply lookup_put_same.
    - unfold s1, s_put. cbn [r_now]. lia. }
  set (sf := fst (run spec_step s1 h)) in *.
  cbn [rstep]. unfold r_get_one, r_get. rewrite ST'. reflexivity.
Qed.

Lemma redis_status_stays : forall (h0 : list op) (report : op) (h : list op) sk v ex,
  let s := fst (run rstep r_init h0) in
  safe_history s_init (h0 ++ report :: h) = true ->
  spec_step s report = (s_put s sk v ex, ROk PUnit) ->
  is_status_key sk = true -> forallb (quiet sk) h = true -> advances_nonneg h ->
  match ex with Some e => r_now s + elapsed h < e | None => True end ->
  snd (rstep s report) = ROk PUnit /\
  lookup (r_kv (fst (run rstep (fst (rstep s report)) h))) sk = Some (mkS v ex).
Proof.
  intros h0 report h sk v ex s SH SP K Q AN B.
  rewrite safe_history_app in SH. apply andb_true_iff in SH. destruct SH as [S0 S1].
  cbn [safe_history] in S1. apply andb_true_iff in S1. destruct S1 as [S1 S2].
  pose proof (redis_state_after h0 S0) as E0. fold s in E0. rewrite <- E0 in S1, S2.
  assert (N : NoDup (map fst (r_kv s))) by (rewrite E0; apply spec_run_nodup; apply nodup_init).
  destruct (rstep_refines s report N S1) as [F1 F2]. rewrite SP in F1, F2, S2. cbn [fst snd] in F1, F2, S2.
  split.
  - destruct (snd (rstep s report)) as [p|e|]; cbn in F2; try contradiction. subst. reflexivity.
  - rewrite F1. set (s1 := s_put s sk v ex) in *.
    assert (N1 : NoDup (map fst (r_kv s1))) by (unfold s1, s_put; cbn [r_kv]; apply nodup_put; exact N).
    destruct (rrun_refines h s1 N1 S2) as [E1 _]. rewrite E1.
    apply spec_status_stays; auto; unfold s1, s_put; cbn [r_kv r_now]; first [apply lookup_put_same | exact B].
Qed.

Definition C25_redis_workload_partial_stmt : Prop :=
  forall (h0 : list op) (st : wstat) (a e n : name) (ttl : Z) (h : list op),
    let s := fst (run rstep r_init h0) in
    let report := OSetWorkloadStatus st a e n ttl in
    let sk := KStatus a e n (ws_id st) in
    status_args_bad a e n = false -> 0 <= ttl ->
    safe_history s_init (h0 ++ report :: h) = true ->
    (0 < ttl -> mem (r_kv s) (KWl (ws_id st)) = true) ->
    forallb (quiet sk) h = true -> advances_nonneg h -> (0 < ttl -> elapsed h < ttl) ->
    snd (rstep s report) = ROk PUnit /\
    option_map s_val (lookup (r_kv (fst (run rstep (fst (rstep s report)) h))) sk) = Some (VWSt st).
Lemma C25_redis_workload_partial_holds : C25_redis_workload_partial_stmt.
Proof.
  intros h0 st a e n ttl h s report sk B T SH EX Q AN EL. subst report sk.
  pose proof (spec_workload_report s st a e n ttl B) as SP.
  destruct (ttl =? 0) eqn:Z0.
  - destruct (redis_status_stays h0 _ h _ _ None SH SP eq_refl Q AN I) as [R1 R2].
    split; [exact R1 | fold s in R2; rewrite R2; reflexivity].
  - apply Z.eqb_neq in Z0. assert (TP : 0 < ttl) by lia. unfold s_mem in SP. rewrite (EX TP) in SP.
    destruct (redis_status_stays h0 _ h _ _ (Some (r_now s + ttl)) SH SP eq_refl Q AN) as [R1 R2].
    + specialize (EL TP). fold s. lia.
    + split; [exact R1 | fold s in R2; rewrite R2; reflexivity].
Qed.

(* ---- expiry: the entry is gone once the clock has reached its deadline ---- *)
Lemma lookup_filter_none : forall {V} (f : key * V -> bool) (m : list (key * V)) k,
  lookup m k = None -> lookup (filter f m) k = None.
Proof.
  induction m as [|[k0 v0] t IH]; intros k L; simpl in *; [reflexivity|].
  destruct (key_eqb k k0) eqn:E; [discriminate|].
  destruct (f (k0, v0)); simpl; [rewrite E|]; apply IH; exact L.
Qed.
Lemma lookup_filter_drop : forall {V} (f : key * V -> bool) (m : list (key * V)) k x,
  NoDup (map fst m) -> lookup m k = Some x -> f (k, x) = false -> lookup (filter f m) k = None.
Proof.
  induction m as [|[k0 v0] t IH]; intros k x N L F; simpl in *; [reflexivity|].
  inversion N as [|? ? NI Nt]; subst.
  destruct (key_eqb k k0) eqn:E.
  - apply key_eqb_eq in E. inversion L. subst. rewrite F. apply lookup_filter_none. apply notin_lookup_none. exact NI.
  - destruct (f (k0, v0)); simpl; [rewrite E|]; eapply IH; eauto.
Qed.

(* a quiet operation does not create the status entry *)
Lemma spec_frame_none : forall s o sk,
  is_status_key sk = true -> quiet sk o = true -> lookup (r_kv s) sk = None ->
  lookup (r_kv (fst (spec_step s o))) sk = None.
Proof.
  intros s o sk S Q L. unfold spec_step.
  destruct o; cbn [read_op]; try exact L;
    try (match goal with |- context [list_prefix ?a ?e ?n] => destruct (list_prefix a e n) as [[? ?] ?]; exact L end).
  - unfold s_create. cbn [map fst existsb].
    destruct (s_mem s (KPod p) || false); cbn [fst]; [exact L|].
    rewrite lookup_s_puts; auto. intros k [H|[]]. subst. reflexivity.
  - destruct (v_get_nodes_by_pod (s_view s) p [] true) as [[|x t]|e]; try exact L.
    destruct (s_mem s (KPod p)); cbn [fst]; [|exact L].
    rewrite lookup_s_dels; auto. intros k [H|[]]. subst. destruct sk; try discriminate S; reflexivity.
  - destruct (lookup (s_view s) (KPod (n_pod nd))) as [[]|]; try exact L.
    pose proof (nonstatus_add_node nd ca cert key) as N.
    unfold s_create. destruct (add_node_data nd ca cert key) as [|d0 t0]; [exact L|].
    destruct (existsb (s_mem s) (map fst (d0 :: t0))); cbn [fst]; [exact L|].
    rewrite lookup_s_puts; auto.
  - cbn [fst]. rewrite lookup_s_dels; auto. unfold remove_node_keys.
    intros k H. simpl in H. destruct sk; try discriminate S; repeat (destruct H as [H|H]; [subst; reflexivity|]); contradiction.
  - pose proof (nonstatus_update_nodes l) as N.
    destruct (update_nodes_data l) as [|d0 t0]; [exact L|]. cbn [fst]. rewrite lookup_s_puts; auto.
  - cbn [quiet] in Q. apply negb_true_iff in Q.
    destruct (ttl =? 0); [exact L|]. destruct (ttl <? 0).
    + cbn [fst]. rewrite lookup_s_dels; auto. intros k [H|[]]. subst. exact Q.
    + destruct (s_mem s (KNode n)); cbn [fst]; [|exact L].
      unfold s_put. simpl. rewrite lookup_put_other; auto.
  - destruct (w_parse w) as [[a e]|]; [|exact L].
    pose proof (nonstatus_workload w a e) as N.
    destruct pr as [p0|].
    + destruct (lookup (s_view s) (proc_key p0)) as [[]|]; try exact L.
      cbn [fst]. rewrite lookup_s_puts; auto. apply nonstatus_app; auto.
      intros k [H|[]]. subst. reflexivity.
    + unfold s_create. destruct (workload_data w a e) as [|d0 t0]; [exact L|].
      destruct (existsb (s_mem s) (map fst (d0 :: t0))); cbn [res_unit fst]; [exact L|].
      rewrite lookup_s_puts; auto.
  - destruct (w_parse w) as [[a e]|]; [|exact L].
    pose proof (nonstatus_workload w a e) as N.
    unfold s_update. destruct (workload_data w a e) as [|d0 t0]; [exact L|].
    destruct (forallb (s_mem s) (map fst (d0 :: t0))); cbn [res_unit fst]; [|exact L].
    rewrite lookup_s_puts; auto.
  - cbn [quiet] in Q. destruct (w_parse w) as [[a e]|]; [|exact L].
    apply negb_true_iff in Q. cbn [fst]. rewrite lookup_s_dels; auto. unfold clean_keys.
    intros k H. simpl in H. destruct H as [H|H]; [subst; exact Q|].
    destruct sk; try discriminate S; repeat (destruct H as [H|H]; [subst; reflexivity|]); contradiction.
  - cbn [quiet] in Q. apply negb_true_iff in Q.
    destruct (status_args_bad a e n); [exact L|].
    destruct (ttl =? 0); [cbn [fst]; unfold s_put; simpl; rewrite lookup_put_other; auto|].
    destruct (s_mem s (KWl (ws_id st))); cbn [fst]; [|exact L].
    unfold s_put. simpl. rewrite lookup_put_other; auto.
  - unfold s_create. cbn [map fst existsb].
    destruct (s_mem s (proc_key pr) || false); cbn [res_unit fst]; [exact L|].
    rewrite lookup_s_puts; auto. intros k [H|[]]. subst. reflexivity.
  - cbn [fst]. rewrite lookup_s_dels; auto. intros k [H|[]]. subst. destruct sk; try discriminate S; reflexivity.
  - cbn [fst]. unfold r_tick. cbn [r_kv]. apply lookup_filter_none. exact L.
Qed.

(* the entry is gone once the clock has reached its deadline *)
Theorem spec_status_expires : forall h s sk v e,
  is_status_key sk = true -> NoDup (map fst (r_kv s)) ->
  (lookup (r_kv s) sk = None \/ (lookup (r_kv s) sk = Some (mkS v (Some e)) /\ r_now s < e)) ->
  forallb (quiet sk) h = true -> advances_nonneg h ->
  e <= r_now s + elapsed h ->
  lookup (r_kv (fst (run spec_step s h))) sk = None.
Proof.
  induction h as [|o t IH]; intros s sk v e S N P Q AN B; cbn [run fst].
  - cbn [elapsed fold_right] in B. destruct P as [P | [P1 P2]]; [exact P | lia].
  - cbn [forallb] in Q. apply andb_true_iff in Q. destruct Q as [Q1 Q2].
    assert (ANt : advances_nonneg t) by (intros d H; apply AN; right; exact H).
    pose proof (spec_now s o) as NW. pose proof (spec_nodup s o N) as N1.
    assert (P' : lookup (r_kv (fst (spec_step s o))) sk = None \/
                 (lookup (r_kv (fst (spec_step s o))) sk = Some (mkS v (Some e)) /\ r_now (fst (spec_step s o)) < e)).
    { destruct P as [P | [P1 P2]]; [left; apply spec_frame_none; auto|].
      destruct o; try (right; split; [apply spec_frame; auto | rewrite NW; exact P2]).
      (* Advance *)
      destruct (Z_lt_dec (r_now s + d) e) as [LT | GE].
      - right. split; [apply spec_frame; auto | rewrite NW; exact LT].
      - left. unfold spec_step. cbn [read_op fst]. unfold r_tick. cbn [r_kv].
        eapply lookup_filter_drop; [exact N | exact P1 |]. cbn [snd s_exp].
        apply negb_false_iff. apply Z.leb_le. lia. }
    destruct (spec_step s o) as [s1 r] eqn:ST. cbn [fst] in *.
    specialize (IH s1 sk v e S N1 P' Q2 ANt).
    destruct (run spec_step s1 t) as [s2 rs]. cbn [fst] in *. apply IH.
    rewrite NW. destruct o; cbn [elapsed fold_right] in B; fold (elapsed t) in B; lia.
Qed.

Lemma abs_nodup : forall s, inv s -> NoDup (map fst (r_kv (abs s))).
Proof. intros s I. unfold abs, abs_kv. cbn [r_kv]. rewrite keys_mapv. apply I. Qed.

Definition C25_etcd_node_expires_stmt : Prop :=
  forall (h0 : list op) (n p : name) (ttl : Z) (h : list op),
    let s := fst (run estep e_init h0) in
    0 < ttl -> mem (e_kv s) (KNode n) = true ->
    forallb (quiet (KNStatus n)) h = true -> advances_nonneg h -> ttl <= elapsed h ->
    snd (estep (fst (run estep (fst (estep s (OSetNodeStatus n p ttl))) h)) (OGetNodeStatus n)) = RErr ECount.
Lemma C25_etcd_node_expires_holds : C25_etcd_node_expires_stmt.
Proof.
  intros h0 n p ttl h s T M Q AN EL. pose proof (etcd_reach_inv h0) as I. fold s in I.
  destruct (estep_refines s (OSetNodeStatus n p ttl) I) as [E I1].
  rewrite (spec_node_report (abs s) n p ttl T), mem_abs, M in E.
  apply pair_equal_spec in E. destruct E as [E1 E2].
  set (s1 := fst (estep s (OSetNodeStatus n p ttl))) in *.
  pose proof (etcd_lookup_after s1 h (KNStatus n) I1) as LA. rewrite <- E1 in LA.
  rewrite (spec_status_expires h _ (KNStatus n) (VNSt n p) (r_now (abs s) + ttl)) in LA; auto.
  - set (sf := fst (run estep s1 h)) in *. unfold estep. cbn [read_op]. unfold v_get_one. rewrite LA. reflexivity.
  - rewrite E1. apply abs_nodup. exact I1.
  - right. split; [unfold s_put; cbn [r_kv]; apply lookup_put_same | unfold s_put; cbn [r_now]; lia].
  - unfold s_put. cbn [r_now]. lia.
Qed.

(* ---- from the status record to the Store API ---- *)
(* GetWorkloadStatus shows the status record stored under the workload's own names *)
Lemma get_workload_status_reads_record : forall (v : view) id w a e,
  lookup v (KWl id) = Some (VWl w) -> w_parse w = Some (a, e) ->
  (exists nd, lookup v (KNode (w_node w)) = Some (VNode nd) /\ n_name nd = w_node w) ->
  read_op v (OGetWorkloadStatus id) =
  Some (ROk (PWSt (match lookup v (KStatus a e (w_node w) (w_id w)) with
                   | Some (VWSt s) => Some s
                   | _ => None
                   end))).
Proof.
  intros v id w a e LW P [nd [LN NN]]. cbn [read_op]. f_equal.
  unfold v_get_workloads. cbn [map v_get_multi]. unfold v_get_one. rewrite LW. cbn [unmarshal_workloads option_map].
  unfold v_bind_additions, bind_additions. cbn [collect_additions]. rewrite P. cbn [existsb app nput].
  unfold v_get_nodes. cbn [map v_get_multi]. unfold v_get_one. rewrite LN.
  unfold do_get_nodes. cbn [unmarshal_nodes option_map filter labels_filter forallb map orb].
  cbn [attach_additions existsb node_view nv_d]. rewrite NN, name_eqb_refl. cbn [orb negb nassoc].
  rewrite name_eqb_refl. cbn [res_first_wl_status wv_st]. reflexivity.
Qed.

Definition workload_status_api_stmt : Prop :=
  forall (s : estate) (id : name) (w : wdata) (a e : name) (st : wstat),
    lookup (e_view s) (KWl id) = Some (VWl w) -> w_parse w = Some (a, e) -> w_id w = id ->
    (exists nd, lookup (e_view s) (KNode (w_node w)) = Some (VNode nd) /\ n_name nd = w_node w) ->
    lookup (e_view s) (KStatus a e (w_node w) id) = Some (VWSt st) ->
    estep s (OGetWorkloadStatus id) = (s, ROk (PWSt (Some st))).
Lemma workload_status_api_holds : workload_status_api_stmt.
Proof.
  intros s id w a e st LW P ID ND LS. unfold estep.
  rewrite (get_workload_status_reads_record (e_view s) id w a e LW P ND). rewrite ID, LS. reflexivity.
Qed.

(* Redis: the status entry is gone once the clock has reached its deadline (redis-safe histories) *)
Lemma redis_status_expires : forall (h0 : list op) (report : op) (h : list op) sk v e,
  let s := fst (run rstep r_init h0) in
  safe_history s_init (h0 ++ report :: h) = true ->
  spec_step s report = (s_put s sk v (Some e), ROk PUnit) -> r_now s < e ->
  is_status_key sk = true -> forallb (quiet sk) h = true -> advances_nonneg h ->
  e <= r_now s + elapsed h ->
  lookup (r_kv (fst (run rstep (fst (rstep s report)) h))) sk = None.
Proof.
  intros h0 report h sk v e s SH SP LT K Q AN B.
  rewrite safe_history_app in SH. apply andb_true_iff in SH. destruct SH as [S0 S1].
  cbn [safe_history] in S1. apply andb_true_iff in S1. destruct S1 as [S1 S2].
  pose proof (redis_state_after h0 S0) as E0. fold s in E0. rewrite <- E0 in S1, S2.
  assert (N : NoDup (map fst (r_kv s))) by (rewrite E0; apply spec_run_nodup; apply nodup_init).
  destruct (rstep_refines s report N S1) as [F1 _]. rewrite SP in F1, S2. cbn [fst] in F1, S2.
  rewrite F1. set (s1 := s_put s sk v (Some e)) in *.
  assert (N1 : NoDup (map fst (r_kv s1))) by (unfold s1, s_put; cbn [r_kv]; apply nodup_put; exact N).
  destruct (rrun_refines h s1 N1 S2) as [E1 _]. rewrite E1.
  apply (spec_status_expires h s1 sk v e); auto.
  right. unfold s1, s_put. cbn [r_kv r_now]. split; [apply lookup_put_same | exact LT].
Qed.

Definition C25_redis_node_expires_partial_stmt : Prop :=
  forall (h0 : list op) (n p : name) (ttl : Z) (h : list op),
    let s := fst (run rstep r_init h0) in
    let report := OSetNodeStatus n p ttl in
    0 < ttl -> safe_history s_init (h0 ++ report :: h) = true ->
    forallb (quiet (KNStatus n)) h = true -> advances_nonneg h -> ttl <= elapsed h ->
    is_err (snd (rstep (fst (run rstep (fst (rstep s report)) h)) (OGetNodeStatus n))) = true.
Lemma C25_redis_node_expires_partial_holds : C25_redis_node_expires_partial_stmt.
Proof.
  intros h0 n p ttl h s report T SH Q AN EL. subst report.
  assert (SH0 := SH). rewrite safe_history_app in SH0. apply andb_true_iff in SH0. destruct SH0 as [S0 S1].
  cbn [safe_history] in S1. apply andb_true_iff in S1. destruct S1 as [S1 _].
  pose proof (redis_state_after h0 S0) as E0. fold s in E0. rewrite <- E0 in S1.
  cbn [redis_safe] in S1. replace (0 <? ttl) with true in S1 by (symmetry; apply Z.ltb_lt; exact T).
  assert (SP : spec_step s (OSetNodeStatus n p ttl) = (s_put s (KNStatus n) (VNSt n p) (Some (r_now s + ttl)), ROk PUnit)).
  { rewrite (spec_node_report s n p ttl T), S1. reflexivity. }
  pose proof (redis_status_expires h0 _ h _ _ _ SH SP) as EX. fold s in EX.
  assert (L : lookup (r_kv (fst (run rstep (fst (rstep s (OSetNodeStatus n p ttl))) h))) (KNStatus n) = None).
  { apply EX; auto; lia. }
  set (sf := fst (run rstep (fst (rstep s (OSetNodeStatus n p ttl))) h)) in *.
  cbn [rstep]. unfold r_get_one, r_get. rewrite L. reflexivity.
Qed.
