(* EtcdModel: every Store method of store/etcdv3 (Mercury) over the etcd
   primitives of KVPrims, following meta/etcd.go call by call.  The read-only
   methods are [Ops.read_op] on the key-value view of the etcd state (reads never
   look at versions or leases); the writing methods are transactions with
   version / value compares.

   doBatchOp is modelled as one transaction: the split into chunks of 125
   operations is not reachable with the batch sizes of these methods except for
   condition-free batches (UpdateNodes / GetNodes with more than 25 / 125
   elements), where the chunks commute.  Executable definitions only. *)
From Coq Require Import List Bool ZArith String.
From Verif Require Import Base.RunLib Store.KVPrims Store.Ops Store.Status.
Import ListNotations.
Local Open Scope Z_scope.

Definition e_view (s : estate) : view := map (fun kv => (fst kv, e_val (snd kv))) (e_kv s).

(* batchPut with version limits, through doBatchOp (ErrNoOps on an empty batch) *)
Definition e_batch_put (s : estate) (data : list (key * value)) (lim : option bool)
  : estate * (bool + err) :=
  match data with
  | [] => (s, inr EOther)
  | _ =>
      let conds := match lim with
                   | Some eq => map (fun kv => CVer0 (fst kv) eq) data
                   | None => []
                   end in
      let '(s', ok, _) := e_txn s conds (map (fun kv => TPut (fst kv) (snd kv) None) data) [] in
      (s', inl ok)
  end.
Definition e_batch_create (s : estate) (data : list (key * value)) : estate * option err :=
  match e_batch_put s data (Some true) with
  | (s', inl true) => (s', None)
  | (s', inl false) => (s', Some EExists)
  | (s', inr e) => (s', Some e)
  end.
Definition e_batch_update (s : estate) (data : list (key * value)) : estate * option err :=
  match e_batch_put s data (Some false) with
  | (s', inl true) => (s', None)
  | (s', inl false) => (s', Some ENotExists)
  | (s', inr e) => (s', Some e)
  end.
Definition e_batch_delete (s : estate) (ks : list key) : estate :=
  let '(s', _, _) := e_txn s [] (map TDel ks) [] in s'.

(* BatchCreateAndDecr.  The retry loop only turns when another client changes
   the counter between the Get and the Txn; sequentially the first Txn succeeds. *)
Definition e_batch_create_and_decr (s : estate) (data : list (key * value)) (dk : key)
  : estate * option err :=
  match lookup (e_kv s) dk with
  | None => (s, Some ENotExists)
  | Some e =>
      match e_val e with
      | VCnt cnt =>
          let '(s', ok, _) :=
            e_txn s [CVal dk true (e_val e)]
                  (map (fun kv => TPut (fst kv) (snd kv) None) data ++ [TPut dk (VCnt (cnt - 1)) None])
                  [TGet dk] in
          if ok then (s', None) else (s', Some EOther)
      | _ => (s, Some EOther)                       (* strconv.Atoi fails *)
      end
  end.

Definition e_ops_workload (s : estate) (w : wdata) (pr : option proc) (create : bool) : estate * result :=
  match w_parse w with
  | None => (s, RErr EName)
  | Some (a, e) =>
      let data := workload_data w a e in
      let '(s', r) :=
        if create then
          match pr with
          | Some p => e_batch_create_and_decr s data (proc_key p)
          | None => e_batch_create s data
          end
        else e_batch_update s data in
      match r with None => (s', ROk PUnit) | Some er => (s', RErr er) end
  end.

Definition estep (s : estate) (o : op) : estate * result :=
  match read_op (e_view s) o with
  | Some r => (s, r)
  | None =>
  match o with
  | OAddPod p d =>
      match e_batch_create s [(KPod p, VPod p d)] with
      | (s', None) => (s', ROk (PPod p d))
      | (s', Some e) => (s', RErr e)
      end
  | ORemovePod p =>
      match v_get_nodes_by_pod (e_view s) p [] true with
      | inr e => (s, RErr e)
      | inl (_ :: _) => (s, RErr EPodHasNodes)
      | inl [] =>
          let '(s', n) := e_delete s (KPod p) in
          if negb (n =? 1) then (s', RErr EPodNotFound) else (s', ROk PUnit)
      end
  | OAddNode nd ca cert ky =>
      match v_get_one (e_view s) (KPod (n_pod nd)) with       (* GetPod *)
      | inr e => (s, RErr e)
      | inl (VPod _ _) =>
          match e_batch_create s (add_node_data nd ca cert ky) with
          | (s', None) => (s', ROk (PNode (mkNV (new_node nd) true)))
          | (s', Some e) => (s', RErr e)
          end
      | inl _ => (s, RErr EOther)
      end
  | ORemoveNode n p => (e_batch_delete s (remove_node_keys n p), ROk PUnit)
  | OUpdateNodes l =>
      match e_batch_put s (update_nodes_data l) None with
      | (s', inl true) => (s', ROk PUnit)
      | (s', inl false) => (s', RErr EOther)
      | (s', inr e) => (s', RErr e)
      end
  | OSetNodeStatus n p ttl => e_set_node_status s n p ttl
  | OAddWorkload w pr => e_ops_workload s w pr true
  | OUpdateWorkload w => e_ops_workload s w None false
  | ORemoveWorkload w =>
      match w_parse w with
      | None => (s, RErr EName)
      | Some (a, e) => (e_batch_delete s (clean_keys w a e), ROk PUnit)
      end
  | OSetWorkloadStatus st a e n ttl => e_set_workload_status s st a e n ttl
  | OCreateProcessing pr cnt =>
      match e_batch_create s [(proc_key pr, VCnt cnt)] with
      | (s', None) => (s', ROk PUnit)
      | (s', Some e) => (s', RErr e)
      end
  | ODeleteProcessing pr => (fst (e_delete s (proc_key pr)), ROk PUnit)
  | OAdvance d => (e_tick s d, ROk PUnit)
  | _ => (s, RPanic)      (* unreachable: every other method is read-only *)
  end
  end.
